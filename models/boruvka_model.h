/* Container / ghost models for spec/boruvka.py: basin_graph<FG>::compute_tree_boruvka (basin_graph.hpp:460-702).
 * Included after models/basin.h (struct fsl_edge, m_edges_n, m_tree_n, FSL_VSZ_PUSH, FSL_RESERVE ...).
 *
 * std::vector<T> -> (buffer, length, ghost capacity), as in models/basin.h: reallocation is not modelled, growth within the
 * ghost capacity is a stated precondition (model artefact, the real vector reallocates).
 *   std::vector<Connect>                 m_adjacency       -> struct fsl_connect *
 *   std::vector<EdgeParse>               m_adjacency_list  -> struct fsl_edgeparse *
 *   std::vector<std::array<size_t, 2>>   m_link_basins     -> size_t (*)[2]
 *   std::vector<size_t>  m_low_degrees, m_large_degrees, m_edge_bucket, m_edge_in_bucket -> size_t *
 */
#ifndef FSL_BORUVKA_MODEL_H
#define FSL_BORUVKA_MODEL_H

struct fsl_connect   /* basin_graph::Connect (basin_graph.hpp:230-234) */
{
    size_t begin;
    size_t size;
};
struct fsl_edgeparse /* basin_graph::EdgeParse (basin_graph.hpp:238-242) */
{
    size_t link_id;
    size_t next;
};

size_t m_adjacency_n, m_adjacency_cap;
size_t m_adjacency_list_n, m_adjacency_list_cap;
size_t m_link_basins_n, m_link_basins_cap;
size_t m_low_degrees_n, m_low_degrees_cap;
size_t m_large_degrees_n, m_large_degrees_cap;
size_t m_edge_bucket_n, m_edge_bucket_cap;
size_t m_edge_in_bucket_n, m_edge_in_bucket_cap;
size_t m_perf_boruvka;
size_t m_max_low_degree; /* member with in-class initialiser (read from the class on every run where a group fixes it) */

/* ghosts of the set-up phase (all arbitrary, owned by the harness) */
size_t GBV;  /* ghost basin */
size_t GE;   /* ghost edge */
size_t GSL;  /* ghost slot of m_adjacency_list */
size_t GLS, GLS2;   /* ghost slots of m_low_degrees / m_large_degrees */
size_t GB_LIST, GB_SLOT; /* ghost witness: list (0 low / 1 large) and slot at which the ghost basin was pushed */

/* vector::resize(n) on a trivially-copyable element type: keeps the first min(old, n) elements; NEW elements are
 * value-initialised in the real container, ARBITRARY in this model (over-approximation: sound) */
#define FSL_BV_RESIZE(len, cap, n)                                                             \
    (                                                                                          \
    {                                                                                          \
        const size_t n_ = (n);                                                                 \
        __CPROVER_assert(n_ <= (cap), "vector model: resize within ghost capacity");           \
        (len) = n_;                                                                            \
    })

/* m_adjacency.resize(n, val): model with a body (used as is by the bounded group) and a contract stated at the ghost basin
 * (used by the unbounded groups through --replace-call-with-contract) */
void fsl_bv_adj_resize(struct fsl_connect *d, size_t *len, size_t cap, size_t n, struct fsl_connect val)
#ifdef FSL_CBMC
    __CPROVER_requires(n <= cap && GBV < cap)
    __CPROVER_assigns(*len, __CPROVER_object_whole(d))
    __CPROVER_ensures(*len == n)
    __CPROVER_ensures((GBV < n && GBV >= __CPROVER_old(*len)) ==> (d[GBV].begin == val.begin && d[GBV].size == val.size))
    __CPROVER_ensures((GBV < n && GBV < __CPROVER_old(*len)) ==> (d[GBV].begin == __CPROVER_old(d[GBV].begin) && d[GBV].size == __CPROVER_old(d[GBV].size)))
#endif
{
    for (size_t i_ = *len; i_ < n; ++i_)
        d[i_] = val;
    *len = n;
}

/* m_edge_bucket.resize(n, val) */
void fsl_bv_sz_resize(size_t *d, size_t *len, size_t cap, size_t n, size_t val)
#ifdef FSL_CBMC
    __CPROVER_requires(n <= cap && GBV < cap)
    __CPROVER_assigns(*len, __CPROVER_object_whole(d))
    __CPROVER_ensures(*len == n)
    __CPROVER_ensures((GBV < n && GBV >= __CPROVER_old(*len)) ==> d[GBV] == val)
    __CPROVER_ensures((GBV < n && GBV < __CPROVER_old(*len)) ==> d[GBV] == __CPROVER_old(d[GBV]))
#endif
{
    for (size_t i_ = *len; i_ < n; ++i_)
        d[i_] = val;
    *len = n;
}

#endif
