/* Container / ghost models for spec/basin.py (union_find, basin_graph, mst sink resolver).
 *
 * std::vector<size_t>  ->  (buffer, length, ghost capacity).  Reallocation is not modelled: the buffer
 * is allocated at a ghost capacity `cap` and every growth carries the obligation / stated precondition
 * `new length <= cap` (trusted container model, DESIGN 7.2).
 *
 * union_find<size_t>   ->  buffers parent, rank plus two GHOST arrays owned by the harness:
 *   ROOT[i]   the class representative of i in the abstract partition,
 *   DEPTH[i]  a well-founded measure: 0 at roots, strictly decreasing along parent pointers.
 * The representation invariant UF_INV(i) is a forall-i statement; it is proved for arbitrary ghost
 * elements (UG, UG2) and instantiated where the code reads parent[i] (DESIGN 3.2 / 3.9).
 */
#ifndef FSL_BASIN_MODEL_H
#define FSL_BASIN_MODEL_H

#define FSL_BASIN_NMAX ((size_t) 1 << 40)

/* union_find object: the two vectors are flat buffers passed as parameters (one object each: keeps the
 * points-to sets of the symbolic execution trivial), their lengths and the ghost capacity are globals */
size_t uf_pn, uf_rn; /* parent.size(), rank.size() */
size_t uf_cap;       /* ghost capacity of every buffer of the object = size of the ghost universe */
#define UF_PARAMS size_t *uf_parent, size_t *uf_rank, size_t *UF_ROOTA, size_t *UF_DEPTHA
#define UF_ARGS uf_parent, uf_rank, UF_ROOTA, UF_DEPTHA

/* ghost elements of the union-find universe (arbitrary, owned by the harness) */
size_t UG, UG2;

#define UF_N uf_pn
#define UF_LEN_parent uf_pn
#define UF_LEN_rank uf_rn
#define UF_P(i) (uf_parent[(i)])
#define UF_ROOT(i) (UF_ROOTA[(i)])
#define UF_DEPTH(i) (UF_DEPTHA[(i)])

/* shape of the object (no statement about contents) */
#define UF_SHAPE                                                                                     \
    (uf_cap >= 1 && uf_cap <= FSL_BASIN_NMAX && __CPROVER_is_fresh(uf_parent, uf_cap * 8)             \
     && __CPROVER_is_fresh(uf_rank, uf_cap * 8) && __CPROVER_is_fresh(UF_ROOTA, uf_cap * 8)           \
     && __CPROVER_is_fresh(UF_DEPTHA, uf_cap * 8) && uf_pn <= uf_cap && uf_rn == uf_pn)

/* representation invariant at element i (i < n is the caller's business), in two parts.
 * UF_CHAIN(i): the parent stays inside the universe and in the same class; i is a fixed point of parent exactly
 *   when it is its own representative; DEPTH is 0 at fixed points and strictly decreases along parent otherwise.
 * UF_REP(i):  the representative is inside the universe and is a fixed point representing itself. */
#define UF_CHAIN(i)                                                                                   \
    (UF_P(i) < UF_N && UF_ROOT(UF_P(i)) == UF_ROOT(i) && ((UF_P(i) == (i)) == (UF_ROOT(i) == (i)))     \
     && (UF_P(i) != (i) || UF_DEPTH(i) == 0) && (UF_P(i) == (i) || UF_DEPTH(UF_P(i)) < UF_DEPTH(i)))
#define UF_REP(i) (UF_ROOT(i) < UF_N && UF_P(UF_ROOT(i)) == UF_ROOT(i) && UF_ROOT(UF_ROOT(i)) == UF_ROOT(i))
#define UF_INV(i) (UF_CHAIN(i) && UF_REP(i))

/* parent[i] as an rvalue: the index obligation is proved, the forall-invariant is instantiated */
static inline size_t uf_prd(UF_PARAMS, size_t i)
{
#ifdef FSL_CBMC
    __CPROVER_assert(i < uf_pn, "union_find: parent[] index in range");
#endif
    FSL_PRE(UF_CHAIN(i));
    return uf_parent[i];
}
/* parent[i] / rank[i] as lvalues */
#define UF_PW(i) uf_parent[FSL_IDX1((i), uf_pn)]
#define UF_RK(i) uf_rank[FSL_IDX1((i), uf_rn)]

/* ------------------------------------------------------------------ std::vector<size_t> operations
 * trusted models on (buffer, &length, ghost capacity); contents clauses are stated for the ghost elements */
void fsl_vsz_resize(size_t *d, size_t *len, size_t cap, size_t n, size_t val)
#ifdef FSL_CBMC
    __CPROVER_requires(n <= cap && UG < cap && UG2 < cap) /* ghost elements live in the universe [0, cap) */
    __CPROVER_assigns(*len, __CPROVER_object_whole(d))
    __CPROVER_ensures(*len == n)
    __CPROVER_ensures(UG < n ==> (d[UG] == __CPROVER_old(d[UG]) || UG >= __CPROVER_old(*len)))
    __CPROVER_ensures((UG < n && UG >= __CPROVER_old(*len)) ==> d[UG] == val)
    __CPROVER_ensures(UG2 < n ==> (d[UG2] == __CPROVER_old(d[UG2]) || UG2 >= __CPROVER_old(*len)))
    __CPROVER_ensures((UG2 < n && UG2 >= __CPROVER_old(*len)) ==> d[UG2] == val)
#endif
    ;
/* std::iota(v.begin(), v.end(), v0) */
void fsl_vsz_iota(size_t *d, size_t len, size_t v0)
#ifdef FSL_CBMC
    __CPROVER_assigns(__CPROVER_object_whole(d))
    __CPROVER_ensures(UG < len ==> d[UG] == v0 + UG)
    __CPROVER_ensures(UG2 < len ==> d[UG2] == v0 + UG2)
#endif
    ;
#define FSL_VSZ_PUSH(d, len, cap, x)                                                        \
    do                                                                                      \
    {                                                                                       \
        __CPROVER_assert((len) < (cap), "vector model: push_back within ghost capacity");   \
        (d)[(len)] = (x);                                                                   \
        (len) = (len) + 1;                                                                  \
    } while (0)

#endif
