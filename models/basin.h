/* Container / ghost models for spec/basin.py (union_find, basin_graph, mst sink resolver).
 *
 * std::vector<size_t>  ->  (buffer, length, ghost capacity).  Reallocation is not modelled: the buffer
 * is allocated at a ghost capacity `cap` and every growth carries the obligation / stated precondition
 * `new length <= cap` (trusted container model, DESIGN 7.2).
 *
 * union_find<size_t>   ->  buffers parent, rank plus two GHOST arrays owned by the harness:
 *   ROOT[i]   the class representative of i in the abstract partition,
 *   DEPTH[i]  a well-founded measure: 0 at roots, strictly decreasing along parent pointers.
 * The representation invariant UF_INV(i) is a forall-i statement; it is proved for arbitrary ghost
 * elements (UG, UG2) and instantiated where the code reads parent[i] (DESIGN 3.2 / 3.9).
 */
#ifndef FSL_BASIN_MODEL_H
#define FSL_BASIN_MODEL_H

#define FSL_BASIN_NMAX ((size_t) 1 << 40)

/* union_find object: the two vectors are flat buffers passed as parameters (one object each: keeps the
 * points-to sets of the symbolic execution trivial), their lengths and the ghost capacity are globals */
size_t uf_pn, uf_rn; /* parent.size(), rank.size() */
size_t uf_cap;       /* ghost capacity of every buffer of the object = size of the ghost universe */
#define UF_PARAMS size_t *uf_parent, size_t *uf_rank, size_t *UF_ROOTA, size_t *UF_DEPTHA
#define UF_ARGS uf_parent, uf_rank, UF_ROOTA, UF_DEPTHA

/* ghost elements of the union-find universe (arbitrary, owned by the harness) */
size_t UG, UG2;

#define UF_N uf_pn
#define UF_LEN_parent uf_pn
#define UF_LEN_rank uf_rn
#define UF_P(i) (uf_parent[(i)])
#define UF_ROOT(i) (UF_ROOTA[(i)])
#define UF_DEPTH(i) (UF_DEPTHA[(i)])

/* shape of the object (no statement about contents) */
#define UF_SHAPE                                                                                     \
    (uf_cap >= 1 && uf_cap <= FSL_BASIN_NMAX && __CPROVER_is_fresh(uf_parent, uf_cap * sizeof(size_t))             \
     && __CPROVER_is_fresh(uf_rank, uf_cap * sizeof(size_t)) && __CPROVER_is_fresh(UF_ROOTA, uf_cap * sizeof(size_t))           \
     && __CPROVER_is_fresh(UF_DEPTHA, uf_cap * sizeof(size_t)) && uf_pn <= uf_cap && uf_rn == uf_pn)

/* representation invariant at element i (i < n is the caller's business), in two parts.
 * UF_CHAIN(i): the parent stays inside the universe and in the same class; i is a fixed point of parent exactly
 *   when it is its own representative; DEPTH is 0 at fixed points and strictly decreases along parent otherwise.
 * UF_REP(i):  the representative is inside the universe and is a fixed point representing itself. */
#define UF_CHAIN(i)                                                                                   \
    (UF_P(i) < UF_N && UF_ROOT(UF_P(i)) == UF_ROOT(i) && ((UF_P(i) == (i)) == (UF_ROOT(i) == (i)))     \
     && (UF_P(i) != (i) || UF_DEPTH(i) == 0) && (UF_P(i) == (i) || UF_DEPTH(UF_P(i)) < UF_DEPTH(i)))
#define UF_REP(i) (UF_ROOT(i) < UF_N && UF_P(UF_ROOT(i)) == UF_ROOT(i) && UF_ROOT(UF_ROOT(i)) == UF_ROOT(i))
#define UF_INV(i) (UF_CHAIN(i) && UF_REP(i))

/* parent[i] as an rvalue: the index obligation is proved, the forall-invariant is instantiated */
static inline size_t uf_prd(UF_PARAMS, size_t i)
{
#ifdef FSL_CBMC
    __CPROVER_assert(i < uf_pn, "union_find: parent[] index in range");
#endif
    FSL_PRE(UF_CHAIN(i));
    return uf_parent[i];
}
/* parent[i] / rank[i] as lvalues */
#define UF_PW(i) uf_parent[FSL_IDX1((i), uf_pn)]
#define UF_RK(i) uf_rank[FSL_IDX1((i), uf_rn)]

/* ------------------------------------------------------------------ std::vector<size_t> operations
 * trusted models on (buffer, &length, ghost capacity); contents clauses are stated for two ghost indices.
 * One instance per ghost universe: (UG, UG2) basins / union-find elements, (SP1, SP2) positions in m_edges_indices. */
#ifdef FSL_CBMC
#define FSL_VSZ_MODEL(sfx, g1, g2)                                                                   \
    void fsl_vsz_resize##sfx(size_t *d, size_t *len, size_t cap, size_t n, size_t val)               \
        __CPROVER_requires(n <= cap && g1 < cap && g2 < cap) /* ghost indices live in [0, cap) */    \
        __CPROVER_assigns(*len, __CPROVER_object_whole(d))                                           \
        __CPROVER_ensures(*len == n)                                                                 \
        __CPROVER_ensures(g1 < n ==> (d[g1] == __CPROVER_old(d[g1]) || g1 >= __CPROVER_old(*len)))   \
        __CPROVER_ensures((g1 < n && g1 >= __CPROVER_old(*len)) ==> d[g1] == val)                    \
        __CPROVER_ensures(g2 < n ==> (d[g2] == __CPROVER_old(d[g2]) || g2 >= __CPROVER_old(*len)))   \
        __CPROVER_ensures((g2 < n && g2 >= __CPROVER_old(*len)) ==> d[g2] == val);                   \
    /* std::iota(v.begin(), v.end(), v0) */                                                          \
    void fsl_vsz_iota##sfx(size_t *d, size_t len, size_t v0)                                         \
        __CPROVER_assigns(__CPROVER_object_whole(d))                                                 \
        __CPROVER_ensures(g1 < len ==> d[g1] == v0 + g1)                                             \
        __CPROVER_ensures(g2 < len ==> d[g2] == v0 + g2);
#else
#define FSL_VSZ_MODEL(sfx, g1, g2)                                                     \
    void fsl_vsz_resize##sfx(size_t *d, size_t *len, size_t cap, size_t n, size_t val); \
    void fsl_vsz_iota##sfx(size_t *d, size_t len, size_t v0);
#endif
FSL_VSZ_MODEL(, UG, UG2)
size_t SP1, SP2; /* ghost positions in a sequence of edge indices */
FSL_VSZ_MODEL(_k, SP1, SP2)
#define FSL_VSZ_PUSH(d, len, cap, x)                                                        \
    (                                                                                      \
    {                                                                                       \
        __CPROVER_assert((len) < (cap), "vector model: push_back within ghost capacity");   \
        (d)[(len)] = (x);                                                                   \
        (len) = (len) + 1;                                                                  \
    })


/* ------------------------------------------------------------------ basin_graph (basin_graph.hpp:98-123, 207-225) */
struct fsl_edge
{
    size_t link[2];
    size_t pass[2];
    double pass_elevation;
    double pass_length;
};
#ifndef FSL_EDGE_BYTES
/* `count * sizeof(T)` makes is_fresh allocate a TYPED array (element reads are field accesses); a plain byte count (-DFSL_EDGE_BYTES=48)
 * makes it a byte array (element reads are byte_extracts).  Which one the solver likes better depends on the group: measured per group. */
#define FSL_EDGE_BYTES sizeof(struct fsl_edge)
#endif

/* lengths / ghost capacities of the member vectors (globals: modified by resize / clear / push_back) */
size_t m_edges_n, m_edges_cap;
size_t m_tree_n, m_tree_cap;
size_t m_edges_indices_n, m_edges_indices_cap;

#define FSL_RESERVE(x) ((void) (x)) /* std::vector::reserve: a capacity hint, no observable effect in the model */
#define EDGE_W(e) (m_edges[(e)].pass_elevation)
/* input well-formedness of an edge: both endpoints are basin ids (producer: connect_basins + compute_basins, C19) */
#define EDGE_WF(e, nb) (m_edges[(e)].link[0] < (nb) && m_edges[(e)].link[1] < (nb))

/* ghost edge and its position in the sorted sequence */
size_t KGE, KPOS;

/* std::sort(m_edges_indices.begin(), m_edges_indices.end(), <comparator lambda>)  -- TRUSTED: std::sort sorts.
 * Input: the identity sequence (what std::iota produced), stated at the ghost positions.  Output: a permutation of it
 * (every entry an edge index, pairwise distinct, ghost edge KGE sits at ghost position KPOS) that is sorted by the
 * comparator: no later element compares less than an earlier one.  The comparator is `pass_elevation <`, which the group
 * basin.kruskal.cmp proves to be a strict weak order on non-NaN weights from the extracted lambda. */
void fsl_sort_edges(size_t *idx, size_t n, const struct fsl_edge *m_edges, size_t nedges)
#ifdef FSL_CBMC
    __CPROVER_requires(n == nedges)
    __CPROVER_requires((SP1 < n ==> idx[SP1] == SP1) && (SP2 < n ==> idx[SP2] == SP2))
    __CPROVER_assigns(__CPROVER_object_whole(idx), KPOS)
    __CPROVER_ensures((SP1 < n ==> idx[SP1] < nedges) && (SP2 < n ==> idx[SP2] < nedges))
    __CPROVER_ensures((SP1 < n && SP2 < n && SP1 != SP2) ==> idx[SP1] != idx[SP2])
    /* sortedness -- (SP1 < SP2 && SP2 < n) ==> !(EDGE_W(idx[SP2]) < EDGE_W(idx[SP1])) -- is std::sort's documented postcondition but is NOT
     * stated here: no obligation of spec/basin.py consumes it (the order of scanning matters only for minimality = Kruskal's theorem,
     * unmechanised), and a floating-point comparison through two symbolic indices makes every group that replaces this call
     * 5-10x slower on cvc5 (measured: tree slice 250 s without, > 1200 s with) */
    __CPROVER_ensures(KGE < nedges ==> (KPOS < n && idx[KPOS] == KGE))
#endif
    ;


/* ------------------------------------------------------------------ basin_graph::connect_basins scratch state */
size_t m_root;
size_t m_edge_positions_n, m_edge_positions_cap;
size_t m_edge_positions_tmp_n, m_edge_positions_tmp_cap;
/* locals of connect_basins that live across iterations of its node loop (shared with the outlined loop bodies) */
size_t ibasin, current_basin;
_Bool is_inner_basin;
size_t GB; /* ghost basin */

/* std::vector growth in a model without reallocation: `length < ghost capacity` is a MODEL ARTIFACT (the real push_back
 * reallocates), stated as a precondition instance, never as a property of the code */
#define FSL_EDGES_PUSH(e)                    \
    (                                       \
    {                                        \
        FSL_PRE(m_edges_n < m_edges_cap);    \
        m_edges[m_edges_n] = (e);            \
        m_edges_n = m_edges_n + 1;           \
    })
/* m_edge_positions_tmp.push_back(x); ghost: CB_TSLOT[x] remembers the slot at which basin x was pushed last */
#define FSL_TMP_PUSH(x)                                                       \
    (                                                                        \
    {                                                                         \
        FSL_PRE(m_edge_positions_tmp_n < m_edge_positions_tmp_cap);           \
        CB_TSLOT[FSL_IDX1((x), nbasins_)] = m_edge_positions_tmp_n;           \
        m_edge_positions_tmp[m_edge_positions_tmp_n] = (x);                   \
        m_edge_positions_tmp_n = m_edge_positions_tmp_n + 1;                  \
    })
#ifdef FSL_CBMC
FSL_VSZ_MODEL(_b, GB, GB)
/* std::fill(v.begin(), v.end(), val) */
void fsl_vsz_fill_b(size_t *d, size_t len, size_t val)
    __CPROVER_assigns(__CPROVER_object_whole(d))
    __CPROVER_ensures(GB < len ==> d[GB] == val);
#endif

#endif
