/* Common model header for the extracted C translation units (see DESIGN.md 2.1).
 *
 * Two build modes:
 *   -DFSL_CBMC : compiled by goto-cc; contracts are live, kept assert()s are proof
 *                obligations, instantiate-on-read preconditions are __CPROVER_assume.
 *   (default)  : compiled by gcc for the fidelity gate / native replay; contract
 *                clauses vanish, kept asserts and precondition instances are
 *                checked at run time (a failing instance aborts: the harness fed
 *                the function a state outside its stated precondition).
 */
#ifndef FSL_MODEL_H
#define FSL_MODEL_H

#include <stddef.h>
#include <stdint.h>
#include <float.h>
#include <math.h>

#ifndef SIZE_MAX
#define SIZE_MAX ((size_t) -1)
#endif

#ifdef FSL_CBMC
#define FSL_ASSERT(e) __CPROVER_assert((e), "kept assert: " #e)
#define FSL_CHECK(e, msg) __CPROVER_assert((e), msg)
#define FSL_PRE(e) __CPROVER_assume(e)
#define FSL_GHOST(stmt) stmt
#else
#include <stdio.h>
#include <stdlib.h>
#define __CPROVER_requires(...)
#define __CPROVER_ensures(...)
#define __CPROVER_assigns(...)
#define __CPROVER_frees(...)
#define __CPROVER_loop_invariant(...)
#define __CPROVER_decreases(...)
#define __CPROVER_assume(e) ((void) 0)
#define __CPROVER_assert(e, m) ((void) 0)
extern unsigned long fsl_native_assert_failures;
#define FSL_ASSERT(e) ((e) ? (void) 0 : (void) (++fsl_native_assert_failures))
#define FSL_CHECK(e, msg) ((e) ? (void) 0 : (void) (fprintf(stderr, "native check failed: %s\n", msg), ++fsl_native_assert_failures))
#define FSL_PRE(e) ((e) ? (void) 0 : (void) (fprintf(stderr, "precondition instance violated: %s (%s:%d)\n", #e, __FILE__, __LINE__), abort()))
#define FSL_GHOST(stmt)
#endif

#define FSL_IGNORED_ASSERT(e) ((void) 0)

#define FSL_MAX(a, b) ((a) < (b) ? (b) : (a)) /* std::max(a,b): returns a unless a < b */
/* std::abs(x): the floating-point overload for doubles (fabs), the integer overloads otherwise */
#define FSL_ABS(x) _Generic((x), double: fabs((double) (x)), float: fabs((double) (x)), default: ((x) < 0 ? -(x) : (x)))
#define FSL_MIN(a, b) ((b) < (a) ? (b) : (a)) /* std::min(a,b): returns a unless b < a */
#define FSL_SWAP(a, b)          \
    do                          \
    {                           \
        __typeof__(a) _t = (a); \
        (a) = (b);              \
        (b) = _t;               \
    } while (0)
#define FSL_FLAT(a, i) ((a)[(i)])
#ifndef FSL_CBMC
#define FSL_SLOPE(ei, en, d) (((ei) - (en)) / (d))
#endif

/* xtensor never checks operator() indices; the extraction adds the per-dimension
 * index obligation explicitly (DESIGN 2.1).  Functions, not macros: an index
 * expression with a side effect (donors_count(irec)++) is evaluated once. */
static inline size_t fsl_idx1(size_t i, size_t n)
{
#ifdef FSL_CBMC
    __CPROVER_assert(i < n, "xtensor index in range (dim 0)");
#endif
    (void) n;
    return i;
}
static inline size_t fsl_idx2(size_t i, size_t j, size_t n, size_t w)
{
#ifdef FSL_CBMC
    __CPROVER_assert(i < n, "xtensor index in range (dim 0)");
    __CPROVER_assert(j < w, "xtensor index in range (dim 1)");
#endif
    (void) n;
    return i * w + j;
}
#define FSL_IDX1(i, n) fsl_idx1((i), (n))
#define FSL_IDX2(i, j, n, w) fsl_idx2((i), (j), (n), (w))

/* grid node status (base.hpp:42-48) */
#define FSL_CORE 0
#define FSL_FIXED_VALUE 1
#define FSL_FIXED_GRADIENT 2
#define FSL_LOOPED 3

/* base.hpp:81-91 */
struct neighbor
{
    size_t idx;
    double distance;
    uint8_t status;
};

/* exception model (DESIGN 3.7): a ghost flag, `throw E(...)` becomes FSL_THROW(tag); return */
extern int fsl_thrown;
#define FSL_THROW(tag) ((void) (fsl_thrown = (tag)))

/* ------------------------------------------------------------ libm (assumed contracts) */
/* std::nextafter(x, +inf): least double above x.  Contract states only what the
 * proofs use: strictly larger for every x < +inf that is not NaN; +inf stays +inf. */
double fsl_nextafter_up(double x)
#ifdef FSL_CBMC
    __CPROVER_ensures((!isnan(x) && !(isinf(x) && x > 0)) ==> (__CPROVER_return_value > x))
    __CPROVER_ensures((isinf(x) && x > 0) ==> (__CPROVER_return_value == x))
    __CPROVER_ensures(isnan(x) ==> isnan(__CPROVER_return_value))
    __CPROVER_assigns()
#endif
    ;

/* std::pow(x, p): nothing is assumed beyond "not negative, not NaN for x >= 0 and
 * non-NaN p" (it may underflow to 0 or overflow to +inf). */
double fsl_pow(double x, double p)
#ifdef FSL_CBMC
    __CPROVER_ensures((x >= 0 && !isnan(p)) ==> (__CPROVER_return_value >= 0))
    __CPROVER_assigns()
#endif
    ;

#endif
