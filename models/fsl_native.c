/* Native definitions of the model externals (fidelity gate / replay builds only). */
#include "fsl.h"
unsigned long fsl_native_assert_failures = 0;
int fsl_thrown = 0;
double fsl_nextafter_up(double x) { return nextafter(x, INFINITY); }
double fsl_pow(double x, double p) { return pow(x, p); }
