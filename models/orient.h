/* Container / ghost models for spec/orient.py: basin_graph::orient_edges (basin_graph.hpp, last function) and
 * update_routes_sinks_carve (sink_resolver.hpp).  Included after models/basin.h (struct fsl_edge, m_edges_n, m_tree_n, m_root).
 *
 * std::vector<T> -> (buffer, length global, ghost capacity global); reallocation is not modelled: growth beyond the ghost
 * capacity is a stated model artefact (FSL_PRE), never a property of the code (same convention as models/basin.h).
 */
#ifndef FSL_ORIENT_MODEL_H
#define FSL_ORIENT_MODEL_H

/* std::tuple<size_type node, size_type parent, data_type pass_elevation, data_type parent_pass_elevation>  (basin_graph.hpp:272-276) */
struct fsl_rs
{
    size_t node;
    size_t parent;
    double pe;
    double ppe;
};

/* lengths / ghost capacities of the member vectors of the `reorder tree` block (basin_graph.hpp:268-282) */
size_t m_nodes_connects_size_n, m_nodes_connects_ptr_n, m_nodes_connects_cap; /* both sized nbasins: one ghost capacity */
size_t m_nodes_adjacency_n, m_nodes_adjacency_cap;
size_t m_reorder_stack_n, m_reorder_stack_cap;
size_t m_pass_stack_n, m_pass_stack_cap;
size_t m_parent_basins_n, m_parent_basins_cap;

/* ghosts (arbitrary, owned by the harness) */
size_t OGE;      /* ghost edge index */
size_t OGS;      /* ghost slot of m_reorder_stack */
size_t OGB, OGB2; /* ghost basins */
size_t OGT;      /* ghost slot of m_tree */
size_t OGI;      /* ghost slot of m_nodes_adjacency */

/* m_reorder_stack.push_back({a, b, c, d}): brace-initialised tuple, fields in declaration order */
#define OR_RS_PUSH(a, b, c, d)                                                 \
    (                                                                         \
    {                                                                          \
        FSL_PRE(m_reorder_stack_n < m_reorder_stack_cap); /* model artefact */ \
        struct fsl_rs or_t_;                                                   \
        or_t_.node = (a);                                                      \
        or_t_.parent = (b);                                                    \
        or_t_.pe = (c);                                                        \
        or_t_.ppe = (d);                                                       \
        OR_GHOST_PUSH(or_t_.node, m_reorder_stack_n);                          \
        m_reorder_stack[m_reorder_stack_n] = or_t_;                            \
        m_reorder_stack_n = m_reorder_stack_n + 1;                             \
    })
#ifndef OR_GHOST_PUSH
#define OR_GHOST_PUSH(node, slot) ((void) 0)
#endif
/* std::tie(a, b, c, d) = m_reorder_stack.back(); */
#define OR_RS_TOP(a, b, c, d)                                                                   \
    (                                                                                          \
    {                                                                                           \
        const struct fsl_rs or_t_ = m_reorder_stack[FSL_IDX1(m_reorder_stack_n - 1, m_reorder_stack_n)]; \
        (a) = or_t_.node;                                                                       \
        (b) = or_t_.parent;                                                                     \
        (c) = or_t_.pe;                                                                         \
        (d) = or_t_.ppe;                                                                        \
    })
/* std::swap without a do-while(0) wrapper (goto-instrument counts that as a loop) */
#define OR_SWAP(a, b)            \
    (                           \
    {                            \
        __typeof__(a) or_s_ = (a); \
        (a) = (b);               \
        (b) = or_s_;             \
    })
/* v.pop_back() on an empty vector is undefined behaviour: obligation */
#define OR_RS_POP()                                                                      \
    (                                                                                   \
    {                                                                                    \
        FSL_CHECK(m_reorder_stack_n > 0, "vector model: pop_back on a non-empty vector"); \
        m_reorder_stack_n = m_reorder_stack_n - 1;                                       \
    })
#define OR_PS_PUSH(x)                                                      \
    (                                                                     \
    {                                                                      \
        FSL_PRE(m_pass_stack_n < m_pass_stack_cap); /* model artefact */   \
        m_pass_stack[m_pass_stack_n] = (x);                                \
        m_pass_stack_n = m_pass_stack_n + 1;                               \
    })

/* ------------------------------------------------------------------ orient_edges, depth-first parse: the rooted-forest ghost.
 * The tree edges form a forest (producer compute_tree_*: an edge enters the tree iff its end points are in different union-find
 * classes, so no cycle is ever closed -- composition not mechanised).  A forest rooted at m_root (any node of a tree can be taken as its
 * root) is given by harness-owned read-only tables:
 *   TG[b].par    parent basin of b            TG[b].pedge  index of the tree edge joining b and its parent (SIZE_MAX: b is a root)
 *   TG[b].dep    depth of b (parent's + 1)    TG[b].wsp    slot of m_nodes_adjacency, in the row of the parent, that holds pedge
 *   ECH[e]       the child end point of tree edge e (SIZE_MAX: e is not in the tree)
 * and three ghost scalars about the ghost basin OGB: OGV_P / OGV_B = "the parent of OGB / OGB itself has been popped", OGS_B = the stack
 * slot at which OGB was pushed last. */
struct or_tnode
{
    size_t par;
    size_t dep;
    size_t pedge;
    size_t wsp;
};
_Bool OGV_P, OGV_B;
size_t OGS_B;

#if defined(OR_CONCRETE_VEC)
/* bounded groups (complete unwinding on tiny buffers): executable bodies instead of contracts.
 * resize(n[, v]) keeps the first min(old, n) elements and value-initialises the new ones; std::fill writes every element. */
static inline void fsl_vsz_resize_o(size_t *d, size_t *len, size_t cap, size_t n, size_t val)
{
    __CPROVER_assert(n <= cap, "bounded vector model: resize within the buffer");
    for (size_t z_ = *len; z_ < n; ++z_)
        d[z_] = val;
    *len = n;
}
static inline void fsl_vsz_fill_o(size_t *d, size_t len, size_t val)
{
    for (size_t z_ = 0; z_ < len; ++z_)
        d[z_] = val;
}
static inline void fsl_vsz_resize_adj(size_t *d, size_t *len, size_t cap, size_t n)
{
    __CPROVER_assert(n <= cap, "bounded vector model: resize within the buffer");
    for (size_t z_ = *len; z_ < n; ++z_)
        d[z_] = 0;
    *len = n;
}
#elif defined(FSL_CBMC)
/* std::vector<size_t>::resize / std::fill, trusted models (contents stated at the ghost basins OGB, OGB2) */
FSL_VSZ_MODEL(_o, OGB, OGB2)
void fsl_vsz_fill_o(size_t *d, size_t len, size_t val)
    __CPROVER_assigns(__CPROVER_object_whole(d))
    __CPROVER_ensures(OGB < len ==> d[OGB] == val)
    __CPROVER_ensures(OGB2 < len ==> d[OGB2] == val);
/* m_nodes_adjacency.resize(n): only the length matters (every slot below the new length is written before it is read:
 * that is part of what the CSR groups prove), contents of kept slots are unchanged at the ghost slot */
void fsl_vsz_resize_adj(size_t *d, size_t *len, size_t cap, size_t n)
    __CPROVER_requires(n <= cap)
    __CPROVER_assigns(*len, __CPROVER_object_whole(d))
    __CPROVER_ensures(*len == n);
#endif

#endif
