"""Neighbour accessors that fill a caller-provided container (C07: "the count, index, distance, struct and (row, col)
accessors all agree"): grid::neighbors_indices(idx, out), grid::neighbors(idx, out) (grid/base.hpp:587-670) and the raster
(row, col) overloads (grid/raster_grid.hpp:902-986).

The callees (count, cached index list, distances, status, ravel/unravel) are stubs reading harness-owned ghost tables: what is
decided here is the glue -- the output container ends up with exactly `count` entries, entry k built from the k-th index /
distance / status, whatever the container held before (it is reused across calls).  Output containers (xt::xtensor<size_t,1>,
std::vector<neighbor>, std::vector<pair>, std::vector<raster_neighbor>) are modelled as buffer + length with capacity >= 8."""
from fv.extract import Unit, R, V
from fv.runner import Group

BASE_H = "include/fastscapelib/grid/base.hpp"
RG_H = "include/fastscapelib/grid/raster_grid.hpp"

MODEL = r"""
#ifndef FSL_ACC_MODEL
#define FSL_ACC_MODEL
#define NB8 8
struct rcpair { size_t first, second; };
struct raster_neighbor { size_t flatten_idx, row, col; double distance; uint8_t status; };
/* ghost tables: what the callees report for the queried node */
size_t T_COUNT; size_t T_IDX[NB8]; double T_DIST[NB8]; uint8_t T_STATUS[NB8]; struct rcpair T_RC[NB8]; size_t T_FLAT;
size_t nondet_size_t(void);
static size_t acc_count(size_t idx) { return T_COUNT; }
static const size_t *acc_indices(size_t idx) { return T_IDX; }
static const double *acc_distances(size_t idx) { return T_DIST; }
static uint8_t acc_status_of(size_t nidx) { for (int k = 0; k < NB8; ++k) if (T_IDX[k] == nidx) return T_STATUS[k]; return 0; }
uint8_t nondet_u8(void);
/* status of the node at (row, col): that of the neighbour with these raster indices, otherwise some other node's status (arbitrary) */
static uint8_t acc_status_rc(size_t r, size_t c) { for (int k = 0; k < NB8; ++k) if (T_RC[k].first == r && T_RC[k].second == c) return T_STATUS[k]; return nondet_u8(); }
static struct rcpair acc_unravel(size_t nidx) { for (int k = 0; k < NB8; ++k) if (T_IDX[k] == nidx) return T_RC[k]; struct rcpair z = { 0, 0 }; return z; }
static size_t acc_ravel(size_t r, size_t c) { return T_FLAT; }
#endif
"""

COMMON = [
    V(r"const auto& n_count = neighbors_count\(idx\);", "const size_t n_count = acc_count(idx);"),
    V(r"const auto& n_count = neighbors_count_impl\(flat_idx\);", "const size_t n_count = acc_count(flat_idx);"),
    V(r"const auto& n_indices = (?:this->)?get_nb_indices_from_cache\((\w+)\);", r"const size_t *n_indices = acc_indices(\1);"),
    V(r"const auto& n_distances = neighbors_distances_impl\((\w+)\);", r"const double *n_distances = acc_distances(\1);"),
    V(r"const size_type flat_idx = ravel_idx\(row, col\);", "const size_t flat_idx = acc_ravel(row, col);"),
    V(r"(\w+)\.size\(\) (!=|<|>|<=|>=|==) n_count", r"*\1_n \2 n_count"),
    V(r"(\w+)\.resize\(\{ n_count \}\);", r"*\1_n = n_count; /* resize(n_count) */"),
    V(r"return (neighbors_indices|neighbors);", "return;"),
]

base_indices = Unit(
    name="acc_base_indices", file=BASE_H,
    anchor=r"inline auto grid<G>::neighbors_indices\(const size_type& idx,\s*neighbors_indices_type& neighbors_indices\)\s*-> neighbors_indices_type&",
    sig="void acc_base_indices(size_t idx, size_t *neighbors_indices, size_t *neighbors_indices_n)",
    pre=MODEL, rules=COMMON,
)
base_neighbors = Unit(
    name="acc_base_neighbors", file=BASE_H,
    anchor=r"inline auto grid<G>::neighbors\(const size_type& idx, neighbors_type& neighbors\)\s*-> neighbors_type&",
    sig="void acc_base_neighbors(size_t idx, struct neighbor *neighbors, size_t *neighbors_n)",
    pre=MODEL,
    rules=COMMON + [V(r"neighbors\[i\] = neighbor\(\{ n_idx, n_distances\[i\], nodes_status\(\)\(n_idx\) \}\);",
                      "neighbors[i].idx = n_idx; neighbors[i].distance = n_distances[i]; neighbors[i].status = acc_status_of(n_idx);")],
)
raster_indices = Unit(
    name="acc_raster_indices", file=RG_H,
    anchor=r"inline auto raster_grid<S, RC, C>::neighbors_indices\(\s*const size_type& row,\s*const size_type& col,\s*neighbors_indices_raster_type& neighbors_indices\)\s*-> neighbors_indices_raster_type&",
    sig="void acc_raster_indices(size_t row, size_t col, struct rcpair *neighbors_indices, size_t *neighbors_indices_n)",
    pre=MODEL,
    rules=COMMON + [V(r"unravel_idx\(", "acc_unravel(")],
)
raster_neighbors = Unit(
    name="acc_raster_neighbors", file=RG_H,
    anchor=r"inline auto raster_grid<S, RC, C>::neighbors\(const size_type& row,\s*const size_type& col,\s*neighbors_raster_type& neighbors\)\s*-> neighbors_raster_type&",
    sig="void acc_raster_neighbors(size_t row, size_t col, struct raster_neighbor *neighbors, size_t *neighbors_n)",
    pre=MODEL,
    rules=COMMON + [R(r"raster_idx_type n_raster_idx;", "struct rcpair n_raster_idx;", 1),
                    V(r"unravel_idx\(", "acc_unravel("),
                    # status look-ups: by flat index, or by (row, col) -- xtensor's operator() with two indices on the 2-D status array
                    V(r"(?:this->)?nodes_status\(\)\(([^(),]+),\s*([^(),]+)\)", r"acc_status_rc(\1, \2)"),
                    V(r"(?:this->)?nodes_status\(\)\(([^(),]+)\)", r"acc_status_of(\1)"),
                    # aggregate initialisation of the neighbour record: five member expressions in declaration order
                    V(r"neighbors\[i\] = raster_neighbor\(\{\s*([^,{}]+),\s*([^,{}]+),\s*([^,{}]+),\s*([^,{}]+),\s*((?:[^,{}()]|\([^()]*\))+?)\s*\}\);",
                      r"neighbors[i].flatten_idx = \1; neighbors[i].row = \2; neighbors[i].col = \3; neighbors[i].distance = \4; neighbors[i].status = \5;")],
)

SETUP = r"""
_Bool nondet_bool(void); double nondet_double(void); uint8_t nondet_u8(void);
static void setup(void)
{
    T_COUNT = nondet_size_t(); T_FLAT = nondet_size_t();
    __CPROVER_assume(T_COUNT <= NB8);
    for (int k = 0; k < NB8; ++k) { T_IDX[k] = nondet_size_t(); T_DIST[k] = nondet_double(); T_STATUS[k] = nondet_u8(); T_RC[k].first = nondet_size_t(); T_RC[k].second = nondet_size_t(); }
    /* the ghost tables are functions of the neighbour index: equal index, equal status / (row, col) */
    for (int j = 0; j < NB8; ++j) for (int k = 0; k < NB8; ++k)
        __CPROVER_assume(T_IDX[j] == T_IDX[k] ==> (T_STATUS[j] == T_STATUS[k] && T_RC[j].first == T_RC[k].first && T_RC[j].second == T_RC[k].second));
}
"""


def harness(fn, elem, call, checks):
    return SETUP + r"""
void h_%(fn)s(void)
{
    setup();
    %(elem)s out[NB8]; size_t out_n = nondet_size_t();   /* a reused container: arbitrary previous length and content */
    __CPROVER_assume(out_n <= NB8);
    %(call)s;
    __CPROVER_assert(out_n == T_COUNT, "C07 the filled container has exactly neighbors_count entries (count and list accessors agree)");
    for (int k = 0; k < NB8; ++k) if ((size_t) k < T_COUNT) { %(checks)s }
    __CPROVER_assert(0, "canary: postcondition point reachable");
}
""" % dict(fn=fn, elem=elem, call=call, checks=checks)


def grp(u, elem, call, checks, clause):
    return Group(name="accessors." + u.name[4:], units=[u], harness=harness(u.name, elem, call, checks), entry="h_" + u.name,
                 unwind=NB_UNWIND, timeout=300, min_obligations=5, replay="replay/accessors.cpp", clause=clause)


NB_UNWIND = 8 * 8 + 2
_G = [
    grp(base_indices, "size_t", "acc_base_indices(nondet_size_t(), out, &out_n)",
        '__CPROVER_assert(out[k] == T_IDX[k], "C07 entry k is the k-th neighbour index");',
        "grid::neighbors_indices(idx, out): out has count entries, entry k = k-th cached index, whatever out held before"),
    grp(base_neighbors, "struct neighbor", "acc_base_neighbors(nondet_size_t(), out, &out_n)",
        '__CPROVER_assert(out[k].idx == T_IDX[k] && (out[k].distance == T_DIST[k] || (isnan(out[k].distance) && isnan(T_DIST[k]))) && out[k].status == T_STATUS[k], '
        '"C07 struct accessor: entry k = (k-th index, k-th distance, status of that node)");',
        "grid::neighbors(idx, out): out has count entries, entry k pairs the k-th index with the k-th distance and the neighbour's own status"),
    grp(raster_indices, "struct rcpair", "acc_raster_indices(nondet_size_t(), nondet_size_t(), out, &out_n)",
        '__CPROVER_assert(out[k].first == T_RC[k].first && out[k].second == T_RC[k].second, "C07 (row, col) accessor: entry k = unravel(k-th index)");',
        "raster neighbors_indices(row, col, out): out has count entries, entry k = unravel of the k-th flat index"),
    grp(raster_neighbors, "struct raster_neighbor", "acc_raster_neighbors(nondet_size_t(), nondet_size_t(), out, &out_n)",
        '__CPROVER_assert(out[k].flatten_idx == T_IDX[k] && out[k].row == T_RC[k].first && out[k].col == T_RC[k].second && out[k].status == T_STATUS[k] '
        '&& (out[k].distance == T_DIST[k] || (isnan(out[k].distance) && isnan(T_DIST[k]))), "C07 raster struct accessor agrees with index, distance, status, (row, col)");',
        "raster neighbors(row, col, out): out has count entries, entry k agrees with the index, distance, status and (row, col) accessors"),
]
GROUPS = {"C07": _G}
PROPS = {"C07": dict(level="other", assumptions=["output containers modelled as buffer + length (resize(n) sets the length); callees are stubs over ghost tables "
                                                 "(their own contracts are the raster.* / cache.* groups)"])}
