"""Triangular mesh (grid/trimesh.hpp), second module.  Property C18 -- neighbour / boundary clauses of trimesh_xt::set_neighbors decided
loop by loop, plus the accessors (C08) and the array overload of set_nodes_status (C17).

  part 1  set_neighbors, first loop (triangles -> edges_count): outlined inner body `trimesh2.count.step`, container model
          `trimesh2.map.insert`, both loops closed in `trimesh2.count.loop`
  part 2  set_neighbors, second loop (edges_count -> neighbour rows, boundary set): outlined body `trimesh2.fill.step` (same extraction as
          tri_sn_step of spec/trimesh.py, contract strengthened with the row frame), loop closed in `trimesh2.fill.loop`
  part 3  neighbors_count_impl / neighbors_indices_impl / neighbors_distances_impl, set_nodes_status (array overload)

std::unordered_map<edge_type, size_type, tri_edge_hash, tri_edge_equal> is MODELLED (trusted container semantics) by the list of its entries
(key.first, key.second, count) of length m_ec_n with a ghost capacity; insert({key, v}) is a linear search with the EXTRACTED tri_edge_equal
(unit tri_edge_equal of spec/trimesh.py) that returns the existing entry (second == false) or appends (second == true): keys are unique up
to the equality functor; the hash functor only has to be consistent with the equality (group trimesh.edge_identity of spec/trimesh.py).
Iteration order = list order = arbitrary (nothing below depends on it).
"""
import re as _re

from fv.extract import Unit, R, V, RB
from fv.runner import Group
from spec import trimesh as _t1

TRI_H = _t1.TRI_H
SN_ANCHOR = r"void trimesh_xt<S, N>::set_neighbors\(const points_type& points, const triangles_type& triangles\)"
NMAX = "((size_t) 1 << 40)"


def _keep_nl(m):
    return "\n" * m.group(0).count("\n")


# ====================================================================================================================== part 1: first loop
# Ghosts (all harness-owned, arbitrary):
#   GA != GB     an unordered node pair {A, B}
#   S1, S2       two entry slots of the map model
#   GT           a triangle (completeness)
#   CUM[t]       number of (triangle, vertex pair) occurrences of {A, B} among the triangles [0, t): CUM[0] = 0,
#                CUM[t + 1] = CUM[t] + INC3(t); the recurrence is instantiated where triangle t is read (as spec/orient.py does)
# Ghost variables WRITTEN by ghost code:
#   GW           slot of the entry whose key is {A, B} (SIZE_MAX: none yet)
#   WT, WA, WB   triangle and the two local vertex numbers for which the entry of slot S1 was inserted (soundness witness)
EC_MODEL = r"""
#ifndef FSL_TRI2_EC
#define FSL_TRI2_EC
struct tri3 { size_t v[3]; };                       /* one row of the [K, 3] triangles array */
struct ec_ins { size_t first; _Bool second; };      /* result of insert: (iterator = entry position, inserted?) */
size_t m_ec_n;                                      /* edges_count.size() */
size_t GA, GB, S1, S2, GT, GW, WT, WA, WB, CUMN, GC0;
#define KF(s) (edge_first[(s)])
#define KS(s) (edge_second[(s)])
#define KC(s) (edge_count[(s)])
/* the PROPERTY's notion of `same edge`: same unordered pair of end points */
#define PEQ(a1, b1, a2, b2) ((((a1) == (a2)) && ((b1) == (b2))) || (((a1) == (b2)) && ((b1) == (a2))))
#define KEQ(s, a, b) PEQ(KF(s), KS(s), (a), (b))
#define KK(s, t) PEQ(KF(s), KS(s), KF(t), KS(t))
#define TRI(t, k) (triangles[FSL_IDX1((t), n_triangles)].v[FSL_IDX1((k), 3)])
#define TRIS(t, k) (triangles[(t)].v[(k)])          /* same cell, for specifications (index facts stated in the same clause) */
/* a triangle has three edges: the three unordered pairs of its vertices (from the property, not from tri_local_indices) */
#define MAB(t, a, b) PEQ(TRIS(t, a), TRIS(t, b), GA, GB)
#define INC3(t) ((size_t) MAB(t, 0, 1) + (size_t) MAB(t, 1, 2) + (size_t) MAB(t, 0, 2))
#define CUM_DEF(t) (CUM[(t) + 1] == CUM[(t)] + INC3(t))
#define CNT_AB (GW == SIZE_MAX ? (size_t) 0 : KC(GW))
/* input well-formedness of one triangle: three pairwise different node indices */
#define TRI_WF(t) (TRIS(t, 0) < m_size && TRIS(t, 1) < m_size && TRIS(t, 2) < m_size && TRIS(t, 0) != TRIS(t, 1) && TRIS(t, 1) != TRIS(t, 2) && TRIS(t, 0) != TRIS(t, 2))
/* ---- invariants of the entry list, each stated at the ghosts */
/* J1: the witness slot holds the entry of {A, B}, which has been counted at least once */
#define J1 (GW == SIZE_MAX || (GW < m_ec_n && KEQ(GW, GA, GB) && KC(GW) >= 1))
/* J2: no other entry has the key {A, B} */
#define J2 ((S1 < m_ec_n && S1 != GW) ==> !KEQ(S1, GA, GB))
/* J3: keys are unique up to orientation */
#define J3 ((S1 < m_ec_n && S2 < m_ec_n && S1 != S2) ==> !KK(S1, S2))
/* J6: the key of every entry is a pair of different vertices of one triangle (bound on WT supplied by the user of the macro) */
#define J6(wtbound) (S1 < m_ec_n ==> ((wtbound) && WT < n_triangles && WA < 3 && WB < 3 && WA != WB && KF(S1) == TRIS(WT, WA) && KS(S1) == TRIS(WT, WB) \
                                 && KF(S1) < m_size && KS(S1) < m_size && KF(S1) != KS(S1)))
#endif
"""

EC_PARAMS = "size_t *edge_first, size_t *edge_second, size_t *edge_count, size_t ec_cap"
EC_ARGS = "edge_first, edge_second, edge_count, ec_cap"
EC_FRESH = r"""
__CPROVER_requires(1 <= ec_cap && ec_cap <= ((size_t) 1 << 42))
__CPROVER_requires(__CPROVER_is_fresh(edge_first, ec_cap * sizeof(size_t)) && __CPROVER_is_fresh(edge_second, ec_cap * sizeof(size_t)) && __CPROVER_is_fresh(edge_count, ec_cap * sizeof(size_t)))
"""

# ------------------------------------------------------------------ container model: unordered_map::insert (TRUSTED semantics, hand-written)
# The search uses the extracted equality functor: KeyEqual(stored key, new key).  Its contract is proved by group trimesh2.map.insert; the
# facts `no earlier entry equals the key` are stated at the ghost slots S1, S2, GW.
EC_INSERT = EC_MODEL + r"""
#ifndef FSL_TRI2_INSERT
#define FSL_TRI2_INSERT
struct ec_ins tri_ec_insert(struct szpair key, size_t val, """ + EC_PARAMS + r""")
__CPROVER_requires(1 <= ec_cap && ec_cap <= ((size_t) 1 << 42) && m_ec_n < ec_cap)
__CPROVER_requires(__CPROVER_is_fresh(edge_first, ec_cap * sizeof(size_t)) && __CPROVER_is_fresh(edge_second, ec_cap * sizeof(size_t)) && __CPROVER_is_fresh(edge_count, ec_cap * sizeof(size_t)))
__CPROVER_assigns(m_ec_n, edge_first[m_ec_n], edge_second[m_ec_n], edge_count[m_ec_n])
/* found: nothing changes, the entry returned has an equal key (either orientation) */
__CPROVER_ensures(!__CPROVER_return_value.second ==> (m_ec_n == __CPROVER_old(m_ec_n) && __CPROVER_return_value.first < m_ec_n
                  && PEQ(KF(__CPROVER_return_value.first), KS(__CPROVER_return_value.first), key.first, key.second)))
/* not found: appended as given, with the given value; no earlier entry has an equal key (ghost slots) */
__CPROVER_ensures(__CPROVER_return_value.second ==> (m_ec_n == __CPROVER_old(m_ec_n) + 1 && __CPROVER_return_value.first == __CPROVER_old(m_ec_n)
                  && KF(__CPROVER_return_value.first) == key.first && KS(__CPROVER_return_value.first) == key.second && KC(__CPROVER_return_value.first) == val))
__CPROVER_ensures((__CPROVER_return_value.second && S1 < __CPROVER_old(m_ec_n)) ==> !KEQ(S1, key.first, key.second))
__CPROVER_ensures((__CPROVER_return_value.second && S2 < __CPROVER_old(m_ec_n)) ==> !KEQ(S2, key.first, key.second))
__CPROVER_ensures((__CPROVER_return_value.second && GW < __CPROVER_old(m_ec_n)) ==> !KEQ(GW, key.first, key.second))
{
    size_t pos = m_ec_n;
    for (size_t k = 0; k < m_ec_n && pos == m_ec_n; ++k)
    __CPROVER_assigns(k, pos)
    __CPROVER_loop_invariant(k <= m_ec_n && pos <= m_ec_n)
    __CPROVER_loop_invariant(pos < m_ec_n ==> PEQ(KF(pos), KS(pos), key.first, key.second))
    __CPROVER_loop_invariant(pos == m_ec_n ==> ((S1 < k ==> !KEQ(S1, key.first, key.second)) && (S2 < k ==> !KEQ(S2, key.first, key.second)) && (GW < k ==> !KEQ(GW, key.first, key.second))))
    __CPROVER_decreases(m_ec_n - k)
    {
        struct szpair cur = { edge_first[k], edge_second[k] };
        if (tri_edge_equal(cur, key))
        {
            pos = k;
        }
    }
    if (pos < m_ec_n)
    {
        struct ec_ins found = { pos, 0 };
        return found;
    }
    edge_first[m_ec_n] = key.first;
    edge_second[m_ec_n] = key.second;
    edge_count[m_ec_n] = val;
    m_ec_n = m_ec_n + 1;
    struct ec_ins added = { m_ec_n - 1, 1 };
    return added;
}
#endif
"""

# ------------------------------------------------------------------ the inner body: one (triangle, local edge)
TRI_VOCAB = [
    V(r"triangles\(([^(),]*), ([^()]*)\)", r"TRI(\1, \2)"),
    V(r"triangles\.shape\(\)\[0\]", "n_triangles"),
    V(r"edge_idx\[0\]", "e0"), V(r"edge_idx\[1\]", "e1"),
]
EC_STEP_RULES = TRI_VOCAB + [
    R(r"const edge_type key\((TRI\([^()]*\)), (TRI\([^()]*\))\);",
      # the triangle read instantiates the input well-formedness of that triangle (three different node indices)
      r"FSL_PRE(TRI_WF(i)); const struct szpair key = { \1, \2 };", 1),
    R(r"auto result = edges_count\.insert\(\{\s*([^,{}]*),\s*([^,{}]*)\}\);",
      r"struct ec_ins result = tri_ec_insert(\1, \2, %s);" % EC_ARGS
      # induction-hypothesis instance (DESIGN 3.9) of J2 `no entry other than GW has the key {A, B}` at the slot the search returned,
      # taken in the found case, i.e. before any write of this iteration
      + r" FSL_PRE(result.second || result.first == GW || !KEQ(result.first, GA, GB));", 1),
    V(r"result\.first->second", "edge_count[FSL_IDX1(result.first, m_ec_n)]"),
]
EC_STEP_GHOST = r"""
    /* ghost code: witnesses */
    FSL_GHOST(if (PEQ(key.first, key.second, GA, GB)) GW = result.first;)
    FSL_GHOST(if (result.second && result.first == S1) { WT = i; WA = e0; WB = e1; })
"""
ec_step = Unit(
    name="tri_ec_step", file=TRI_H, anchor=SN_ANCHOR, inner=r"for \(const auto& edge_idx : tri_local_indices\)\s*\{",
    sig="void tri_ec_step(size_t i, size_t e0, size_t e1, size_t m_size, size_t n_triangles, const struct tri3 *triangles, %s)" % EC_PARAMS,
    pre=EC_INSERT, rules=EC_STEP_RULES, body_suffix=EC_STEP_GHOST,
    # ghost: the count of {A, B} at entry (`__CPROVER_old` of a conditional expression is not supported by this cbmc)
    body_prefix="    FSL_GHOST(GC0 = CNT_AB;)\n",
    contract=EC_FRESH + r"""
__CPROVER_requires(n_triangles <= """ + NMAX + r""" && __CPROVER_is_fresh(triangles, n_triangles * sizeof(struct tri3)))
__CPROVER_requires(i < n_triangles && e0 < 3 && e1 < 3 && e0 != e1 && m_ec_n < ec_cap && m_ec_n <= 3 * n_triangles)
__CPROVER_requires(GA != GB && S1 < ec_cap && S2 < ec_cap)
__CPROVER_requires(J1 && J2 && J3 && J6(WT <= i))
/* the count of {A, B} is below the number of (triangle, edge) occurrences in the mesh: the increment cannot wrap */
__CPROVER_requires(CNT_AB < 3 * n_triangles)
__CPROVER_assigns(m_ec_n, GW, WT, WA, WB, GC0, __CPROVER_object_whole(edge_first), __CPROVER_object_whole(edge_second), __CPROVER_object_whole(edge_count))
__CPROVER_ensures(J1)
__CPROVER_ensures(J2)
__CPROVER_ensures(J3)
__CPROVER_ensures(J6(WT <= i))
__CPROVER_ensures(m_ec_n >= __CPROVER_old(m_ec_n) && m_ec_n <= __CPROVER_old(m_ec_n) + 1)
/* the count of {A, B} grows by one exactly when this triangle edge is {A, B} */
__CPROVER_ensures(CNT_AB == GC0 + (size_t) MAB(i, e0, e1))
/* completeness: this triangle edge has an entry afterwards; an entry never disappears */
__CPROVER_ensures(MAB(i, e0, e1) ==> GW != SIZE_MAX)
__CPROVER_ensures(__CPROVER_old(GW) != SIZE_MAX ==> GW != SIZE_MAX)
""")

H_EC = r"""
size_t nondet_size_t(void);
void h_%(fn)s(void)
{
    const struct tri3 *tr; size_t *ef, *es, *ec; const size_t *cum;
    GA = nondet_size_t(); GB = nondet_size_t(); S1 = nondet_size_t(); S2 = nondet_size_t(); GT = nondet_size_t(); GW = nondet_size_t();
    WT = nondet_size_t(); WA = nondet_size_t(); WB = nondet_size_t(); CUMN = nondet_size_t(); m_ec_n = nondet_size_t();
    %(call)s;
    __CPROVER_assert(0, "canary: postcondition point reachable");
}
"""

# ------------------------------------------------------------------ both loops of the first half of set_neighbors
CUT_FIRST = R(r"m_boundary_nodes\.clear\(\);.*\Z", _keep_nl, 1, _re.S)          # slice: keep everything before the second half
ec_loop = Unit(
    name="tri_sn_count", file=TRI_H, anchor=SN_ANCHOR,
    sig="void tri_sn_count(size_t m_size, size_t n_triangles_, const struct tri3 *triangles, %s, const size_t *CUM)" % EC_PARAMS,
    pre=EC_MODEL,
    rules=[CUT_FIRST,
           R(r"using edge_type = [^;]*;\s*using edge_map = [^;]*;", "", 1),
           # the freshly constructed map is empty; ghost initialisation of the witness
           R(r"edge_map edges_count;", "m_ec_n = 0; FSL_GHOST(GW = SIZE_MAX;)", 1),
           # the table of local vertex pairs is kept as extracted (its dimensions are read from the std::array type)
           R(r"const std::array<std::array<size_type, (\d+)>, (\d+)> tri_local_indices\{(.*?)\};",
             r"const size_t tri_local_n = \2; const size_t tri_local_indices[\2][\1] = \3;", 1, _re.S),
           R(r"size_type n_triangles = triangles\.shape\(\)\[0\];", "size_t n_triangles = n_triangles_;", 1),
           R(r"for \(const auto& edge_idx : tri_local_indices\)", "for (size_t le_ = 0; le_ < tri_local_n; ++le_)", 1),
           RB(r"for \(size_t le_ = 0; le_ < tri_local_n; \+\+le_\)",
              "{ tri_ec_step(i, tri_local_indices[le_][0], tri_local_indices[le_][1], m_size, n_triangles, triangles, %s); }" % EC_ARGS),
           # the triangle read instantiates the definition of the ghost count table at that triangle
           R(r"(for \(size_type i = 0; i < n_triangles; i\+\+\)\s*)\{", r"\1{ FSL_PRE(CUM_DEF(i));", 1),
           ],
    contract=EC_FRESH + r"""
__CPROVER_requires(n_triangles_ <= """ + NMAX + r""" && __CPROVER_is_fresh(triangles, n_triangles_ * sizeof(struct tri3)))
/* ghost capacity of the map model (model artefact: the real map rehashes): room for three entries per triangle */
__CPROVER_requires(3 * n_triangles_ <= ec_cap)
__CPROVER_requires(n_triangles_ + 1 <= CUMN && CUMN <= """ + NMAX + r""" + 1 && __CPROVER_is_fresh(CUM, CUMN * sizeof(size_t)) && CUM[0] == 0)
__CPROVER_requires(GA != GB && S1 < ec_cap && S2 < ec_cap && GT < n_triangles_)
__CPROVER_assigns(m_ec_n, GW, WT, WA, WB, GC0, __CPROVER_object_whole(edge_first), __CPROVER_object_whole(edge_second), __CPROVER_object_whole(edge_count))
#define n_triangles n_triangles_
__CPROVER_ensures(m_ec_n <= 3 * n_triangles)
/* C18 no duplicates: at most one entry has the key {A, B}, in either orientation (ghost pair of slots); keys are unique */
__CPROVER_ensures((S1 < m_ec_n && S2 < m_ec_n && S1 != S2) ==> !(KEQ(S1, GA, GB) && KEQ(S2, GA, GB)))
__CPROVER_ensures(J3)
/* C18 soundness: the key of every entry is a pair of different vertices of some triangle (hence two different node indices) */
__CPROVER_ensures(J6(1))
/* C18 completeness: every edge of every triangle has an entry */
__CPROVER_ensures(INC3(GT) > 0 ==> (GW < m_ec_n && KEQ(GW, GA, GB)))
/* C18 counts: the entry of {A, B} counts the (triangle, edge) occurrences of {A, B}; no entry iff no occurrence */
__CPROVER_ensures(GW != SIZE_MAX ==> (GW < m_ec_n && KEQ(GW, GA, GB) && KC(GW) == CUM[n_triangles] && KC(GW) >= 1))
__CPROVER_ensures(GW == SIZE_MAX ==> (CUM[n_triangles] == 0 && (S1 < m_ec_n ==> !KEQ(S1, GA, GB))))
#undef n_triangles
""",
    loops={0: r"""
__CPROVER_assigns(i, m_ec_n, GW, WT, WA, WB, GC0, __CPROVER_object_whole(edge_first), __CPROVER_object_whole(edge_second), __CPROVER_object_whole(edge_count))
__CPROVER_loop_invariant(i <= n_triangles && m_ec_n <= 3 * i)
__CPROVER_loop_invariant(J1 && J2 && J3 && J6(WT < i))
__CPROVER_loop_invariant(CNT_AB == CUM[i] && CUM[i] <= 3 * i)
__CPROVER_loop_invariant((GT < i && INC3(GT) > 0) ==> GW != SIZE_MAX)
__CPROVER_decreases(n_triangles - i)
"""},
)

_TEQ = _t1.tri_edge_equal
G_INSERT = Group(
    name="trimesh2.map.insert", units=[_TEQ, ec_step],
    harness=H_EC % dict(fn="tri_ec_insert", call="struct szpair k = { nondet_size_t(), nondet_size_t() }; tri_ec_insert(k, nondet_size_t(), ef, es, ec, nondet_size_t())"),
    entry="h_tri_ec_insert", enforce="tri_ec_insert", loop_contracts=True, timeout=300, min_obligations=20,
    clause="map model: insert({key, v}) = linear search with the extracted tri_edge_equal: returns an entry with an equal key (either orientation) and "
           "changes nothing, or appends (key, v) when no earlier entry (ghost slots) has an equal key")
G_EC_STEP = Group(
    name="trimesh2.count.step", units=[_TEQ, ec_step],
    harness=H_EC % dict(fn="tri_ec_step", call="tri_ec_step(nondet_size_t(), nondet_size_t(), nondet_size_t(), nondet_size_t(), nondet_size_t(), tr, ef, es, ec, nondet_size_t())"),
    entry="h_tri_ec_step", enforce="tri_ec_step", replace=["tri_ec_insert"], timeout=300, min_obligations=20,
    clause="set_neighbors, first loop, one (triangle, local edge): the entry of the ghost pair {A, B} is created with count 1 or its count grows by one "
           "exactly when this edge is {A, B}; keys stay unique; every key is a vertex pair of a triangle; other counts are untouched")
G_EC_LOOP = Group(
    name="trimesh2.count.loop", units=[_TEQ, ec_step, ec_loop],
    harness=H_EC % dict(fn="tri_sn_count", call="tri_sn_count(nondet_size_t(), nondet_size_t(), tr, ef, es, ec, nondet_size_t(), cum)"),
    entry="h_tri_sn_count", enforce="tri_sn_count", replace=["tri_ec_step"], loop_contracts=True, unwindset={("tri_sn_count", 1): 4},
    timeout=600, min_obligations=30,
    clause="set_neighbors, first loop as a whole (any number of triangles): at most one entry per unordered node pair, every entry is a vertex pair of "
           "a triangle, every triangle edge has an entry, and the entry's count is the number of (triangle, edge) occurrences of the pair")

GROUPS = {"C18": [G_INSERT, G_EC_STEP, G_EC_LOOP]}
PROPS = {}
