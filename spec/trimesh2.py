"""Triangular mesh (grid/trimesh.hpp), second module.  Property C18 -- neighbour / boundary clauses of trimesh_xt::set_neighbors decided
loop by loop, plus the accessors (C08) and the array overload of set_nodes_status (C17).

  part 1  set_neighbors, first loop (triangles -> edges_count): container model `trimesh2.map.insert`, outlined inner body (one triangle edge)
          `trimesh2.count.step.<part>`, one triangle = inner loop over the extracted table of local vertex pairs, unwound completely
          `trimesh2.count.tri.<part>`, outer loop closed by a loop contract `trimesh2.count.loop.<part>`; lemma split into the parts
          ab (entry of the ghost pair {A, B}: uniqueness, completeness, count), uniq (unique keys), sound (keys are triangle vertex pairs)
  part 2  set_neighbors, second loop (edges_count -> neighbour rows, boundary set): outlined body `trimesh2.fill.step` (same extraction as
          tri_sn_step of spec/trimesh.py, contract strengthened with the row frame), loop closed in `trimesh2.fill.loop`
  part 3  neighbors_count_impl / neighbors_indices_impl / neighbors_distances_impl, set_nodes_status (array overload)

std::unordered_map<edge_type, size_type, tri_edge_hash, tri_edge_equal> is MODELLED (trusted container semantics) by the list of its entries
(key.first, key.second, count) of length m_ec_n with a ghost capacity; insert({key, v}) is a linear search with the EXTRACTED tri_edge_equal
(unit tri_edge_equal of spec/trimesh.py) that returns the existing entry (second == false) or appends (second == true): keys are unique up
to the equality functor; the hash functor only has to be consistent with the equality (group trimesh.edge_identity of spec/trimesh.py).
Iteration order = list order = arbitrary (nothing below depends on it).
"""
import re as _re

from fv.extract import Unit, R, V, RB
from fv.runner import Group
from spec import trimesh as _t1

TRI_H = _t1.TRI_H
SN_ANCHOR = r"void trimesh_xt<S, N>::set_neighbors\(const points_type& points, const triangles_type& triangles\)"
NMAX = "((size_t) 1 << 40)"


def _keep_nl(m):
    return "\n" * m.group(0).count("\n")


# ====================================================================================================================== part 1: first loop
# Ghosts (all harness-owned, arbitrary):
#   GA != GB     an unordered node pair {A, B}
#   S1, S2       two entry slots of the map model
#   GT           a triangle (completeness)
#   CUM[t]       number of (triangle, vertex pair) occurrences of {A, B} among the triangles [0, t): CUM[0] = 0,
#                CUM[t + 1] = CUM[t] + INC3(t); the recurrence is instantiated where triangle t is read (as spec/orient.py does)
# Ghost variables WRITTEN by ghost code:
#   GW           slot of the entry whose key is {A, B} (SIZE_MAX: none yet)
#   WT, WA, WB   triangle and the two local vertex numbers for which the entry of slot S1 was inserted (soundness witness)
EC_MODEL = r"""
#ifndef FSL_TRI2_EC
#define FSL_TRI2_EC
struct tri3 { size_t v[3]; };                       /* one row of the [K, 3] triangles array */
struct ec_ins { size_t first; _Bool second; };      /* result of insert: (iterator = entry position, inserted?) */
struct ec_entry { size_t first, second, count; };   /* one entry of the map: key = (first, second), mapped value = count */
size_t m_ec_n;                                      /* edges_count.size() */
size_t GA, GB, S1, S2, GT, GW, WT, WA, WB, CUMN;
size_t GCNT;   /* ghost counter: (triangle, edge) occurrences of {A, B} seen so far, incremented by ghost code */
#define KF(s) (ec[(s)].first)
#define KS(s) (ec[(s)].second)
#define KC(s) (ec[(s)].count)
/* the PROPERTY's notion of `same edge`: same unordered pair of end points */
#define PEQ(a1, b1, a2, b2) ((((a1) == (a2)) && ((b1) == (b2))) || (((a1) == (b2)) && ((b1) == (a2))))
#define KEQ(s, a, b) PEQ(KF(s), KS(s), (a), (b))
#define KK(s, t) PEQ(KF(s), KS(s), KF(t), KS(t))
#define TRI(t, k) (triangles[FSL_IDX1((t), n_triangles)].v[FSL_IDX1((k), 3)])
#define TRIS(t, k) (triangles[(t)].v[(k)])          /* same cell, for specifications (index facts stated in the same clause) */
/* a triangle has three edges: the three unordered pairs of its vertices (from the property, not from tri_local_indices) */
#define MAB(t, a, b) PEQ(TRIS(t, a), TRIS(t, b), GA, GB)
#define INC3(t) ((size_t) MAB(t, 0, 1) + (size_t) MAB(t, 1, 2) + (size_t) MAB(t, 0, 2))
#define CUM_DEF(t) (CUM[(t) + 1] == CUM[(t)] + INC3(t))
/* input well-formedness of one triangle: three pairwise different node indices */
#define TRI_WF(t) (TRIS(t, 0) < m_size && TRIS(t, 1) < m_size && TRIS(t, 2) < m_size && TRIS(t, 0) != TRIS(t, 1) && TRIS(t, 1) != TRIS(t, 2) && TRIS(t, 0) != TRIS(t, 2))
/* ---- lemma split: a group built with -DTRI2_PARTS proves / uses only the clauses of the parts it names (each part is inductive on its own;
 * the step contract of a part is proved by the step group of the same part) */
#ifndef TRI2_PARTS
#define P_AB(e) (e)
#define P_UQ(e) (e)
#define P_SD(e) (e)
#else
#ifdef TRI2_AB
#define P_AB(e) (e)
#else
#define P_AB(e) 1
#endif
#ifdef TRI2_UQ
#define P_UQ(e) (e)
#else
#define P_UQ(e) 1
#endif
#ifdef TRI2_SD
#define P_SD(e) (e)
#else
#define P_SD(e) 1
#endif
#endif
/* ---- invariants of the entry list, each stated at the ghosts */
/* J1: the witness slot holds the entry of {A, B} and its count is the ghost counter; no entry, no occurrence */
#define J1 (GW == SIZE_MAX ? GCNT == 0 : (GW < m_ec_n && KEQ(GW, GA, GB) && KC(GW) == GCNT && GCNT >= 1))
/* J2: no other entry has the key {A, B} */
#define J2 ((S1 < m_ec_n && S1 != GW) ==> !KEQ(S1, GA, GB))
/* J3: keys are unique up to orientation */
#define J3 ((S1 < m_ec_n && S2 < m_ec_n && S1 != S2) ==> !KK(S1, S2))
/* J6: the key of every entry is a pair of different vertices of one triangle (bound on WT supplied by the user of the macro) */
#define J6(wtbound) (S1 < m_ec_n ==> ((wtbound) && WT < n_triangles && WA < 3 && WB < 3 && WA != WB && KF(S1) == TRIS(WT, WA) && KS(S1) == TRIS(WT, WB) \
                                 && KF(S1) < m_size && KS(S1) < m_size && KF(S1) != KS(S1)))
#endif
"""

EC_PARAMS = "struct ec_entry *ec, size_t ec_cap"
EC_ARGS = "ec, ec_cap"
EC_FRESH = r"""
__CPROVER_requires(1 <= ec_cap && ec_cap <= ((size_t) 1 << 42))
__CPROVER_requires(__CPROVER_is_fresh(ec, ec_cap * sizeof(struct ec_entry)))
"""

# ------------------------------------------------------------------ container model: unordered_map::insert (TRUSTED semantics, hand-written)
# The search uses the extracted equality functor: KeyEqual(stored key, new key).  Its contract is proved by group trimesh2.map.insert; the
# facts `no earlier entry equals the key` are stated at the ghost slots S1, S2, GW.
EC_INSERT = EC_MODEL + r"""
#ifndef FSL_TRI2_INSERT
#define FSL_TRI2_INSERT
struct ec_ins tri_ec_insert(struct szpair key, size_t val, """ + EC_PARAMS + r""")
__CPROVER_requires(1 <= ec_cap && ec_cap <= ((size_t) 1 << 42) && m_ec_n < ec_cap)
__CPROVER_requires(__CPROVER_is_fresh(ec, ec_cap * sizeof(struct ec_entry)))
__CPROVER_assigns(m_ec_n, ec[m_ec_n])
/* found: nothing changes, the entry returned has an equal key (either orientation) */
__CPROVER_ensures(!__CPROVER_return_value.second ==> (m_ec_n == __CPROVER_old(m_ec_n) && __CPROVER_return_value.first < m_ec_n
                  && PEQ(KF(__CPROVER_return_value.first), KS(__CPROVER_return_value.first), key.first, key.second)))
/* not found: appended as given, with the given value; no earlier entry has an equal key (ghost slots) */
__CPROVER_ensures(__CPROVER_return_value.second ==> (m_ec_n == __CPROVER_old(m_ec_n) + 1 && __CPROVER_return_value.first == __CPROVER_old(m_ec_n)
                  && KF(__CPROVER_return_value.first) == key.first && KS(__CPROVER_return_value.first) == key.second && KC(__CPROVER_return_value.first) == val))
__CPROVER_ensures((__CPROVER_return_value.second && S1 < __CPROVER_old(m_ec_n)) ==> !KEQ(S1, key.first, key.second))
__CPROVER_ensures((__CPROVER_return_value.second && S2 < __CPROVER_old(m_ec_n)) ==> !KEQ(S2, key.first, key.second))
__CPROVER_ensures((__CPROVER_return_value.second && GW < __CPROVER_old(m_ec_n)) ==> !KEQ(GW, key.first, key.second))
{
    size_t pos = m_ec_n;
    for (size_t k = 0; k < m_ec_n && pos == m_ec_n; ++k)
    __CPROVER_assigns(k, pos)
    __CPROVER_loop_invariant(k <= m_ec_n && pos <= m_ec_n)
    __CPROVER_loop_invariant(pos < m_ec_n ==> PEQ(KF(pos), KS(pos), key.first, key.second))
    __CPROVER_loop_invariant(pos == m_ec_n ==> ((S1 < k ==> !KEQ(S1, key.first, key.second)) && (S2 < k ==> !KEQ(S2, key.first, key.second)) && (GW < k ==> !KEQ(GW, key.first, key.second))))
    __CPROVER_decreases(m_ec_n - k)
    {
        struct szpair cur = { ec[k].first, ec[k].second };
        if (tri_edge_equal(cur, key))
        {
            pos = k;
        }
    }
    if (pos < m_ec_n)
    {
        struct ec_ins found = { pos, 0 };
        return found;
    }
    ec[m_ec_n].first = key.first;
    ec[m_ec_n].second = key.second;
    ec[m_ec_n].count = val;
    m_ec_n = m_ec_n + 1;
    struct ec_ins added = { m_ec_n - 1, 1 };
    return added;
}
#endif
"""

# ------------------------------------------------------------------ the inner body: one (triangle, local edge)
TRI_VOCAB = [
    V(r"triangles\(([^(),]*), ([^()]*)\)", r"TRI(\1, \2)"),
    V(r"triangles\.shape\(\)\[0\]", "n_triangles"),
    V(r"edge_idx\[0\]", "e0"), V(r"edge_idx\[1\]", "e1"),
]
EC_STEP_RULES = TRI_VOCAB + [
    R(r"const edge_type key\((TRI\([^()]*\)), (TRI\([^()]*\))\);",
      # the triangle read instantiates the input well-formedness of that triangle (three different node indices)
      r"FSL_PRE(P_SD(TRI_WF(i))); const struct szpair key = { \1, \2 };", 1),
    R(r"auto result = edges_count\.insert\(\{\s*([^,{}]*),\s*([^,{}]*)\}\);",
      r"struct ec_ins result = tri_ec_insert(\1, \2, %s);" % EC_ARGS
      # induction-hypothesis instance (DESIGN 3.9) of J2 `no entry other than GW has the key {A, B}` at the slot the search returned,
      # taken in the found case, i.e. before any write of this iteration
      + r" FSL_PRE(P_AB(result.second || result.first == GW || !KEQ(result.first, GA, GB)));", 1),
    V(r"result\.first->second", "ec[FSL_IDX1(result.first, m_ec_n)].count"),
]
EC_STEP_GHOST = r"""
    /* ghost code: witnesses */
    FSL_GHOST(if (PEQ(key.first, key.second, GA, GB)) { GW = result.first; GCNT = GCNT + 1; })
    FSL_GHOST(if (result.second && result.first == S1) { WT = i; WA = e0; WB = e1; })
"""
ec_step = Unit(
    name="tri_ec_step", file=TRI_H, anchor=SN_ANCHOR, inner=r"for \(const auto& edge_idx : tri_local_indices\)\s*\{",
    sig="void tri_ec_step(size_t i, size_t e0, size_t e1, size_t m_size, size_t n_triangles, const struct tri3 *triangles, %s)" % EC_PARAMS,
    pre=EC_INSERT, rules=EC_STEP_RULES, body_suffix=EC_STEP_GHOST,
    contract=EC_FRESH + r"""
__CPROVER_requires(n_triangles <= """ + NMAX + r""" && __CPROVER_is_fresh(triangles, n_triangles * sizeof(struct tri3)))
__CPROVER_requires(i < n_triangles && e0 < 3 && e1 < 3 && e0 != e1 && m_ec_n < ec_cap && m_ec_n <= 3 * n_triangles)
__CPROVER_requires(GA != GB && S1 < ec_cap && S2 < ec_cap)
__CPROVER_requires(P_AB(J1 && J2) && P_UQ(J3) && P_SD(J6(WT <= i)))
/* the count of {A, B} is below the number of (triangle, edge) occurrences in the mesh: the increment cannot wrap */
__CPROVER_requires(P_AB(GCNT < 3 * n_triangles))
__CPROVER_assigns(m_ec_n, GW, WT, WA, WB, GCNT, __CPROVER_object_whole(ec))
__CPROVER_ensures(m_ec_n >= __CPROVER_old(m_ec_n) && m_ec_n <= __CPROVER_old(m_ec_n) + 1 && m_ec_n <= ec_cap)
__CPROVER_ensures(P_AB(J1))
__CPROVER_ensures(P_AB(J2))
__CPROVER_ensures(P_UQ(J3))
__CPROVER_ensures(P_SD(J6(WT <= i)))
/* the count of {A, B} grows by one exactly when this triangle edge is {A, B} */
__CPROVER_ensures(P_AB(GCNT == __CPROVER_old(GCNT) + (size_t) MAB(i, e0, e1)))
/* completeness: this triangle edge has an entry afterwards; an entry never disappears */
__CPROVER_ensures(P_AB(MAB(i, e0, e1) ==> GW != SIZE_MAX))
__CPROVER_ensures(P_AB(__CPROVER_old(GW) != SIZE_MAX ==> GW != SIZE_MAX))
""")

H_EC = r"""
size_t nondet_size_t(void);
void h_%(fn)s(void)
{
    const struct tri3 *tr; struct ec_entry *ec; const size_t *cum;
    GA = nondet_size_t(); GB = nondet_size_t(); S1 = nondet_size_t(); S2 = nondet_size_t(); GT = nondet_size_t(); GW = nondet_size_t();
    WT = nondet_size_t(); WA = nondet_size_t(); WB = nondet_size_t(); CUMN = nondet_size_t(); m_ec_n = nondet_size_t(); GCNT = nondet_size_t();
    %(call)s;
    __CPROVER_assert(0, "canary: postcondition point reachable");
}
"""

# ------------------------------------------------------------------ the table of local vertex pairs, as extracted
# (dimensions read from the std::array type; inlined at the call sites, so its entries are constants of the proof)
_TLI_PAT = r"\A.*?const std::array<std::array<size_type, (\d+)>, (\d+)> tri_local_indices\{(.*?)\};.*\Z"
tri_tli = Unit(
    name="tri_tli", file=TRI_H, anchor=SN_ANCHOR, sig="static inline size_t tri_tli(size_t le, size_t k)",
    rules=[R(_TLI_PAT, r"const size_t tri_local_indices[\2][\1] = \3; return tri_local_indices[FSL_IDX1(le, \2)][FSL_IDX1(k, \1)];", 1, _re.S)])
tri_tln = Unit(
    name="tri_tln", file=TRI_H, anchor=SN_ANCHOR, sig="static inline size_t tri_tln(void)",
    rules=[R(_TLI_PAT, r"return \2;", 1, _re.S)])

# ------------------------------------------------------------------ one triangle: the inner loop over its local edges (unwound completely)
TRI_REQ = EC_FRESH + r"""
__CPROVER_requires(n_triangles <= """ + NMAX + r""" && __CPROVER_is_fresh(triangles, n_triangles * sizeof(struct tri3)))
/* ghost capacity of the map model (model artefact: the real map rehashes): room for three entries per triangle */
__CPROVER_requires(3 * n_triangles <= ec_cap)
__CPROVER_requires(n_triangles + 1 <= CUMN && CUMN <= """ + NMAX + r""" + 1 && __CPROVER_is_fresh(CUM, CUMN * sizeof(size_t)))
__CPROVER_requires(GA != GB && S1 < ec_cap && S2 < ec_cap)
"""
ec_tri = Unit(
    name="tri_ec_tri", file=TRI_H, anchor=SN_ANCHOR, inner=r"for \(size_type i = 0; i < n_triangles; i\+\+\)\s*\{",
    sig="void tri_ec_tri(size_t i, size_t m_size, size_t n_triangles, const struct tri3 *triangles, %s, const size_t *CUM)" % EC_PARAMS,
    pre=EC_INSERT,
    rules=[R(r"for \(const auto& edge_idx : tri_local_indices\)", "for (size_t le_ = 0; le_ < tri_tln(); ++le_)", 1),
           RB(r"for \(size_t le_ = 0; le_ < tri_tln\(\); \+\+le_\)",
              "{ tri_ec_step(i, tri_tli(le_, 0), tri_tli(le_, 1), m_size, n_triangles, triangles, %s); }" % EC_ARGS)],
    # the triangle read instantiates the definition of the ghost count table at that triangle
    body_prefix="    FSL_PRE(P_AB(CUM_DEF(i)));\n",
    contract=TRI_REQ + r"""
__CPROVER_requires(i < n_triangles && m_ec_n <= 3 * i)
__CPROVER_requires(P_AB(J1 && J2) && P_UQ(J3) && P_SD(J6(WT < i)))
__CPROVER_requires(P_AB(GCNT == CUM[i] && CUM[i] <= 3 * i))
__CPROVER_assigns(m_ec_n, GW, WT, WA, WB, GCNT, __CPROVER_object_whole(ec))
__CPROVER_ensures(m_ec_n <= 3 * (i + 1) && m_ec_n <= ec_cap)
__CPROVER_ensures(P_AB(J1))
__CPROVER_ensures(P_AB(J2))
__CPROVER_ensures(P_UQ(J3))
__CPROVER_ensures(P_SD(J6(WT <= i)))
/* the three local edges of the table are the three vertex pairs of the triangle: the ghost counter follows the ghost table */
__CPROVER_ensures(P_AB(GCNT == CUM[i + 1] && CUM[i + 1] <= 3 * (i + 1)))
__CPROVER_ensures(P_AB(INC3(i) > 0 ==> GW != SIZE_MAX))
__CPROVER_ensures(P_AB(__CPROVER_old(GW) != SIZE_MAX ==> GW != SIZE_MAX))
""")

# ------------------------------------------------------------------ the outer loop of the first half of set_neighbors
CUT_FIRST = R(r"m_boundary_nodes\.clear\(\);.*\Z", _keep_nl, 1, _re.S)          # slice: keep everything before the second half
ec_loop = Unit(
    name="tri_sn_count", file=TRI_H, anchor=SN_ANCHOR,
    sig="void tri_sn_count(size_t m_size, size_t n_triangles_, const struct tri3 *triangles, %s, const size_t *CUM)" % EC_PARAMS,
    pre=EC_MODEL,
    rules=[CUT_FIRST,
           R(r"using edge_type = [^;]*;\s*using edge_map = [^;]*;", "", 1),
           # the freshly constructed map is empty; ghost initialisation of the witness and of the occurrence counter
           R(r"edge_map edges_count;", "m_ec_n = 0; FSL_GHOST(GW = SIZE_MAX; GCNT = 0;)", 1),
           R(r"const std::array<std::array<size_type, \d+>, \d+> tri_local_indices\{.*?\};", "/* table of local vertex pairs: units tri_tli / tri_tln */", 1, _re.S),
           R(r"size_type n_triangles = triangles\.shape\(\)\[0\];", "size_t n_triangles = n_triangles_;", 1),
           RB(r"for \(size_type i = 0; i < n_triangles; i\+\+\)", "{ tri_ec_tri(i, m_size, n_triangles, triangles, %s, CUM); }" % EC_ARGS),
           ],
    contract=TRI_REQ.replace("n_triangles", "n_triangles_") + r"""
__CPROVER_requires(CUM[0] == 0 && GT < n_triangles_)
__CPROVER_assigns(m_ec_n, GW, WT, WA, WB, GCNT, __CPROVER_object_whole(ec))
#define n_triangles n_triangles_
__CPROVER_ensures(m_ec_n <= 3 * n_triangles)
/* C18 no duplicates: at most one entry has the key {A, B}, in either orientation (ghost pair of slots); keys are unique */
__CPROVER_ensures(P_UQ((S1 < m_ec_n && S2 < m_ec_n && S1 != S2) ==> !(KEQ(S1, GA, GB) && KEQ(S2, GA, GB))))
__CPROVER_ensures(P_UQ(J3))
/* C18 soundness: the key of every entry is a pair of different vertices of some triangle (hence two different node indices) */
__CPROVER_ensures(P_SD(J6(1)))
/* C18 completeness: every edge of every triangle has an entry */
__CPROVER_ensures(P_AB(INC3(GT) > 0 ==> (GW < m_ec_n && KEQ(GW, GA, GB))))
/* C18 counts: the entry of {A, B} counts the (triangle, edge) occurrences of {A, B}; no entry iff no occurrence; no other entry has that key */
__CPROVER_ensures(P_AB(GW != SIZE_MAX ==> (GW < m_ec_n && KEQ(GW, GA, GB) && KC(GW) == CUM[n_triangles] && KC(GW) >= 1)))
__CPROVER_ensures(P_AB(GW == SIZE_MAX ==> CUM[n_triangles] == 0))
__CPROVER_ensures(P_AB(J2))
#undef n_triangles
""",
    loops={0: r"""
__CPROVER_assigns(i, m_ec_n, GW, WT, WA, WB, GCNT, __CPROVER_object_whole(ec))
__CPROVER_loop_invariant(i <= n_triangles && m_ec_n <= 3 * i && m_ec_n <= ec_cap)
__CPROVER_loop_invariant(P_AB(J1 && J2) && P_UQ(J3) && P_SD(J6(WT < i)))
__CPROVER_loop_invariant(P_AB(GCNT == CUM[i] && CUM[i] <= 3 * i))
__CPROVER_loop_invariant(P_AB((GT < i && INC3(GT) > 0) ==> GW != SIZE_MAX))
__CPROVER_decreases(n_triangles - i)
"""},
)

_TEQ = _t1.tri_edge_equal
G_INSERT = Group(
    name="trimesh2.map.insert", units=[_TEQ, ec_step],
    harness=H_EC % dict(fn="tri_ec_insert", call="struct szpair k = { nondet_size_t(), nondet_size_t() }; tri_ec_insert(k, nondet_size_t(), ec, nondet_size_t())"),
    entry="h_tri_ec_insert", enforce="tri_ec_insert", loop_contracts=True, timeout=300, min_obligations=20,
    clause="map model: insert({key, v}) = linear search with the extracted tri_edge_equal: returns an entry with an equal key (either orientation) and "
           "changes nothing, or appends (key, v) when no earlier entry (ghost slots) has an equal key")
_EC_PARTS = [
    ("ab", "TRI2_AB", "the entry of the ghost pair {A, B} is unique, is created with count 1 or its count grows by one exactly when the edge read is "
                      "{A, B} (count == ghost occurrence counter), every edge read has an entry afterwards",
     "at most one entry has the key {A, B}; every triangle edge {A, B} has an entry; its count is the number of (triangle, edge) occurrences "
     "of {A, B} (ghost prefix-count table CUM), no entry iff no occurrence"),
    ("uniq", "TRI2_UQ", "keys stay unique up to orientation (ghost pair of slots)",
     "no two entries have the same end points in either orientation (ghost pair of slots): no duplicates"),
    ("sound", "TRI2_SD", "the key of every entry is a pair of different vertices of one triangle (ghost slot, ghost-written witness triangle)",
     "every entry's key is a pair of different vertices of some triangle, hence two different node indices"),
]
G_EC_STEPS, G_EC_TRIS, G_EC_LOOPS = [], [], []
for _tag, _def, _cs, _cl in _EC_PARTS:
    G_EC_STEPS.append(Group(
        name="trimesh2.count.step." + _tag, units=[_TEQ, ec_step], defines=["TRI2_PARTS", _def],
        harness=H_EC % dict(fn="tri_ec_step", call="tri_ec_step(nondet_size_t(), nondet_size_t(), nondet_size_t(), nondet_size_t(), nondet_size_t(), tr, ec, nondet_size_t())"),
        entry="h_tri_ec_step", enforce="tri_ec_step", replace=["tri_ec_insert"], backend="cadical", timeout=300, min_obligations=20,
        clause="set_neighbors, first loop, one (triangle, local edge): " + _cs))
    G_EC_TRIS.append(Group(
        name="trimesh2.count.tri." + _tag, units=[_TEQ, ec_step, tri_tli, tri_tln, ec_tri], defines=["TRI2_PARTS", _def],
        harness=H_EC % dict(fn="tri_ec_tri", call="tri_ec_tri(nondet_size_t(), nondet_size_t(), nondet_size_t(), tr, ec, nondet_size_t(), cum)"),
        entry="h_tri_ec_tri", enforce="tri_ec_tri", replace=["tri_ec_step"], unwindset={("tri_ec_tri", 0): 4},
        # measured: ab 41 s (216 s with machine load 14-24), uniq 16 s, sound 71 s
        backend="cadical", timeout=900, min_obligations=30,
        clause="set_neighbors, first loop, one triangle (inner loop over the EXTRACTED table of local vertex pairs, unwound completely): the loop "
               "invariant of part `%s` is carried from triangle i to i + 1; in particular the three local edges are the three vertex pairs of the "
               "triangle, each once (ghost counter == ghost prefix table)" % _tag))
    G_EC_LOOPS.append(Group(
        name="trimesh2.count.loop." + _tag, units=[_TEQ, ec_step, tri_tli, tri_tln, ec_tri, ec_loop], defines=["TRI2_PARTS", _def],
        harness=H_EC % dict(fn="tri_sn_count", call="tri_sn_count(nondet_size_t(), nondet_size_t(), tr, ec, nondet_size_t(), cum)"),
        entry="h_tri_sn_count", enforce="tri_sn_count", replace=["tri_ec_tri"], loop_contracts=True,
        # measured: ab 22 s (194 s with machine load 14-24), uniq 7 s, sound 16 s
        backend="cadical", timeout=900, min_obligations=30,
        clause="set_neighbors, first loop as a whole (any number of triangles): " + _cl))

GROUPS = {"C18": [G_INSERT] + G_EC_STEPS + G_EC_TRIS + G_EC_LOOPS}
PROPS = {}


# ====================================================================================================================== part 2: second loop
# `for (const auto& edge : edges_count)`: iteration over the entry list (n_edges, edge_first, edge_second, edge_count) in list order.
# The body is the SAME extraction as unit tri_sn_step of spec/trimesh.py (same anchor, same inner anchor, same rules SN_STEP_RULES, same
# parameter list and row model: fixed-capacity rows of NB_CAP slots, one length per node).  Its contract there says nothing about the slots a
# row already has (frame) nor about the exact growth of a row, which the loop-level clauses need; the unit below states them, and the
# whole-loop group replaces calls by THIS contract (proved by trimesh2.fill.step).
# Ghosts (harness-owned): TG, TH two nodes; TE an entry; RS, RS2 two slots of the row of TG; DEG[k] = number of entries among [0, k)
# incident to TG (DEG[0] = 0, DEG[k + 1] = DEG[k] + INCD(TG, k), instantiated where entry k is read).
# Ghost variables written by ghost code: PG / PH (slots of TG's / TH's row written for entry TE), WE / WE2 (entries that wrote slots RS / RS2),
# BE (entry that put TG into the boundary set).
SN2_MODEL = _t1.SN_MODEL + r"""
#ifndef FSL_TRI2_SN
#define FSL_TRI2_SN
size_t TH, RS, RS2, PG, PH, WE, WE2, BE, DEGN;
#define EF(k) (edge_first[(k)])
#define ES(k) (edge_second[(k)])
#define ECNT(k) (edge_count[(k)])
#ifndef PEQ
#define PEQ(a1, b1, a2, b2) ((((a1) == (a2)) && ((b1) == (b2))) || (((a1) == (b2)) && ((b1) == (a2))))
#endif
#define SAME_D(x, y) ((x) == (y) || (isnan(x) && isnan(y)))
#define INCD(x, k) ((size_t) (EF(k) == (x)) + (size_t) (ES(k) == (x)))        /* how many end points of entry k are node x */
#define DEG_DEF(k) (DEG[(k) + 1] == DEG[(k)] + INCD(TG, (k)))
/* input well-formedness of one entry (established by the first loop, trimesh2.count.loop): two different node indices */
#define ENT_WF(k) (EF(k) < m_size && ES(k) < m_size && EF(k) != ES(k))
/* keys are unique up to orientation (established by the first loop): instance at a pair of entries */
#define ENT_UNIQ(a, b) (((a) < n_edges && (b) < n_edges && (a) != (b)) ==> !PEQ(EF(a), ES(a), EF(b), ES(b)))
#define OTHER(k, x) (EF(k) == (x) ? ES(k) : EF(k))
#endif
"""
SN2_REQ = _t1.SN_FRESH + r"""
__CPROVER_requires(TH < m_size && RS < NB_CAP && RS2 < NB_CAP && PG < NB_CAP && PH < NB_CAP)
__CPROVER_requires(NBN(TG) <= NB_CAP && NBN(TH) <= NB_CAP)
"""


def _row_frame(x, s):
    return ("__CPROVER_ensures(%(s)s < __CPROVER_old(NBN(%(x)s)) ==> (NBI(%(x)s, %(s)s) == __CPROVER_old(NBI(%(x)s, %(s)s)) "
            "&& SAME_D(NBD(%(x)s, %(s)s), __CPROVER_old(NBD(%(x)s, %(s)s)))))\n" % dict(x=x, s=s))


def _row_growth(x):
    return (r"""
__CPROVER_ensures(ENT_WF(ek) ==> (NBN(%(x)s) == __CPROVER_old(NBN(%(x)s)) + INCD(%(x)s, ek) && NBN(%(x)s) <= NB_CAP))
__CPROVER_ensures((ENT_WF(ek) && INCD(%(x)s, ek) > 0) ==> (__CPROVER_old(NBN(%(x)s)) < NB_CAP && NBI(%(x)s, __CPROVER_old(NBN(%(x)s))) == OTHER(ek, %(x)s)))
""" % dict(x=x))


sn_step2 = Unit(
    name="tri_sn_step2", file=TRI_H, anchor=SN_ANCHOR, inner=r"for \(const auto& edge : edges_count\)\s*\{",
    sig="void tri_sn_step2(size_t ek, %s)" % _t1.SN_PARAMS, pre=SN2_MODEL, rules=_t1.SN_STEP_RULES,
    contract=SN2_REQ + r"""
__CPROVER_requires(ek < n_edges)
__CPROVER_assigns(__CPROVER_object_whole(m_boundary_nodes), __CPROVER_object_whole(m_neighbors_indices), __CPROVER_object_whole(m_neighbors_distances),
                  __CPROVER_object_whole(m_neighbors_n))
/* rows of the ghost nodes: grow by one slot per end point of this entry that is the node; the new slot holds the other end point; slots
 * already there keep index and distance */
""" + _row_growth("TG") + _row_growth("TH") + _row_frame("TG", "RS") + _row_frame("TG", "RS2") + _row_frame("TG", "PG") + _row_frame("TH", "PH") + r"""
/* both directions of one entry get the same distance */
__CPROVER_ensures((ENT_WF(ek) && EF(ek) == TG && ES(ek) == TH) ==> SAME_D(NBD(TG, __CPROVER_old(NBN(TG))), NBD(TH, __CPROVER_old(NBN(TH)))))
/* boundary set: only grows; an end point of an entry counted once enters; nothing else enters */
__CPROVER_ensures(__CPROVER_old(m_boundary_nodes[TG]) ==> m_boundary_nodes[TG])
__CPROVER_ensures((ENT_WF(ek) && ECNT(ek) == 1 && INCD(TG, ek) > 0) ==> m_boundary_nodes[TG])
__CPROVER_ensures((m_boundary_nodes[TG] && !__CPROVER_old(m_boundary_nodes[TG])) ==> (ECNT(ek) == 1 && INCD(TG, ek) > 0))
""")

H_SN2 = r"""
size_t nondet_size_t(void);
void h_%(fn)s(void)
{
    const size_t *ef, *es, *ec; const double *pts; _Bool *bn; size_t *ni, *nn; double *nd; const size_t *deg;
    TG = nondet_size_t(); TE = nondet_size_t(); TH = nondet_size_t(); RS = nondet_size_t(); RS2 = nondet_size_t(); PG = nondet_size_t();
    PH = nondet_size_t(); WE = nondet_size_t(); WE2 = nondet_size_t(); BE = nondet_size_t(); DEGN = nondet_size_t();
    %(call)s;
    __CPROVER_assert(0, "canary: postcondition point reachable");
}
"""

# ---- container models used by the prologue of the second half (TRUSTED semantics, small loops proved in trimesh2.model.*)
SN2_CONTAINERS = r"""
#ifndef FSL_TRI2_CONT
#define FSL_TRI2_CONT
/* std::unordered_set<size_type>::clear() on the characteristic array of the set */
void fsl_bset_clear(_Bool *m_boundary_nodes, size_t m_size)
__CPROVER_requires(0 < m_size && m_size <= ((size_t) 1 << 40) && __CPROVER_is_fresh(m_boundary_nodes, m_size) && TG < m_size)
__CPROVER_assigns(__CPROVER_object_whole(m_boundary_nodes))
__CPROVER_ensures(m_boundary_nodes[TG] == 0)
{
    for (size_t k = 0; k < m_size; ++k)
    __CPROVER_assigns(k, __CPROVER_object_whole(m_boundary_nodes))
    __CPROVER_loop_invariant(k <= m_size)
    __CPROVER_loop_invariant(TG < k ==> m_boundary_nodes[TG] == 0)
    __CPROVER_decreases(m_size - k)
    {
        m_boundary_nodes[k] = 0;
    }
}
/* std::vector<row>::resize(m_size) on an EMPTY vector of rows (the member of an object under construction): m_size empty rows */
void fsl_rows_resize(size_t *m_neighbors_n, size_t m_size)
__CPROVER_requires(0 < m_size && m_size <= ((size_t) 1 << 40) && __CPROVER_is_fresh(m_neighbors_n, m_size * 8) && TG < m_size && TH < m_size)
__CPROVER_assigns(__CPROVER_object_whole(m_neighbors_n))
__CPROVER_ensures(NBN(TG) == 0 && NBN(TH) == 0)
{
    for (size_t k = 0; k < m_size; ++k)
    __CPROVER_assigns(k, __CPROVER_object_whole(m_neighbors_n))
    __CPROVER_loop_invariant(k <= m_size)
    __CPROVER_loop_invariant((TG < k ==> NBN(TG) == 0) && (TH < k ==> NBN(TH) == 0))
    __CPROVER_decreases(m_size - k)
    {
        m_neighbors_n[k] = 0;
    }
}
#endif
"""

SN2_Q1 = ("((TE < %s && EF(TE) == TG && ES(TE) == TH) ==> (PG < NBN(TG) && PG < NB_CAP && PH < NBN(TH) && PH < NB_CAP && NBI(TG, PG) == TH && NBI(TH, PH) == TG "
          "&& SAME_D(NBD(TG, PG), NBD(TH, PH))))")
SN2_Q2 = ("(%(s)s < NBN(TG) ==> (%(w)s < %(k)s && %(w)s < n_edges && PEQ(EF(%(w)s), ES(%(w)s), TG, NBI(TG, %(s)s)) && NBI(TG, %(s)s) != TG && NBI(TG, %(s)s) < m_size))")
SN2_Q4 = "((RS < NBN(TG) && RS2 < NBN(TG) && RS != RS2) ==> (NBI(TG, RS) != NBI(TG, RS2) && WE != WE2))"
SN2_Q5A = "((TE < %s && ECNT(TE) == 1 && (EF(TE) == TG || ES(TE) == TG)) ==> m_boundary_nodes[TG])"
SN2_Q5B = "(m_boundary_nodes[TG] ==> (BE < %s && BE < n_edges && ECNT(BE) == 1 && (EF(BE) == TG || ES(BE) == TG)))"

SN2_BODY = (
    "{ /* the entry read instantiates the input preconditions (what the first loop establishes for every entry / pair of entries) and the\n"
    "   * definition of the ghost count table */\n"
    "  FSL_PRE(ENT_WF(ek) && ENT_UNIQ(WE, ek) && ENT_UNIQ(WE2, ek) && DEG_DEF(ek));\n"
    "  /* ghost snapshots */ const size_t n0_ = NBN(TG), h0_ = NBN(TH); const _Bool b0_ = m_boundary_nodes[TG];\n"
    "  tri_sn_step2(ek, %s);\n"
    "  /* ghost code: witnesses */\n"
    "  if (ek == TE && EF(ek) == TG && ES(ek) == TH) { PG = n0_; PH = h0_; }\n"
    "  if (INCD(TG, ek) > 0 && n0_ == RS) WE = ek;\n"
    "  if (INCD(TG, ek) > 0 && n0_ == RS2) WE2 = ek;\n"
    "  if (m_boundary_nodes[TG] && !b0_) BE = ek;\n"
    "}" % _t1.SN_ARGS)

sn_fill = Unit(
    name="tri_sn_fill", file=TRI_H, anchor=SN_ANCHOR,
    sig="void tri_sn_fill(%s, const size_t *DEG)" % _t1.SN_PARAMS, pre=SN2_MODEL + SN2_CONTAINERS,
    rules=[R(r"\A.*?(?=m_boundary_nodes\.clear\(\);)", _keep_nl, 1, _re.S),           # slice: the second half of set_neighbors
           V(r"m_boundary_nodes\.clear\(\);", "fsl_bset_clear(m_boundary_nodes, m_size); FSL_GHOST(PG = 0; PH = 0;) /* ghost witness slots: any slot number */"),
           V(r"m_neighbors_indices\.resize\(m_size\);", "fsl_rows_resize(m_neighbors_n, m_size);"),
           V(r"m_neighbors_distances\.resize\(m_size\);", "/* the row model keeps ONE length per node (index and distance rows are pushed in lock step) */ ;"),
           R(r"for \(const auto& edge : edges_count\)", "for (size_t ek = 0; ek < n_edges; ++ek)", 1),
           RB(r"for \(size_t ek = 0; ek < n_edges; \+\+ek\)", SN2_BODY)],
    contract=_t1.SN_FRESH + r"""
__CPROVER_requires(TH < m_size && RS < NB_CAP && RS2 < NB_CAP)
__CPROVER_requires(n_edges + 1 <= DEGN && DEGN <= ((size_t) 1 << 40) + 1 && __CPROVER_is_fresh(DEG, DEGN * sizeof(size_t)) && DEG[0] == 0)
__CPROVER_assigns(PG, PH, WE, WE2, BE, __CPROVER_object_whole(m_boundary_nodes), __CPROVER_object_whole(m_neighbors_indices),
                  __CPROVER_object_whole(m_neighbors_distances), __CPROVER_object_whole(m_neighbors_n))
/* C18 `share an edge => neighbours, symmetric, equal distances`: the two end points of every entry occur in each other's row */
__CPROVER_ensures(%(Q1)s)
/* C18 `neighbours => share an edge`: every slot of a row holds the other end point of an entry incident to the node (a node index, not the node itself) */
__CPROVER_ensures(%(Q2a)s)
/* C18 no duplicates: two different slots of a row hold different nodes; a row has exactly one slot per incident entry */
__CPROVER_ensures(%(Q4)s)
__CPROVER_ensures(NBN(TG) == DEG[n_edges] && NBN(TG) <= NB_CAP)
/* C18 boundary set = end points of the entries counted once */
__CPROVER_ensures(%(Q5A)s)
__CPROVER_ensures(%(Q5B)s)
""" % dict(Q1=SN2_Q1 % "n_edges", Q2a=SN2_Q2 % dict(s="RS", w="WE", k="n_edges"), Q4=SN2_Q4, Q5A=SN2_Q5A % "n_edges", Q5B=SN2_Q5B % "n_edges"),
    loops={0: r"""
__CPROVER_assigns(ek, PG, PH, WE, WE2, BE, __CPROVER_object_whole(m_boundary_nodes), __CPROVER_object_whole(m_neighbors_indices),
                  __CPROVER_object_whole(m_neighbors_distances), __CPROVER_object_whole(m_neighbors_n))
__CPROVER_loop_invariant(ek <= n_edges && NBN(TG) <= NB_CAP && NBN(TH) <= NB_CAP && NBN(TG) == DEG[ek] && PG < NB_CAP && PH < NB_CAP)
__CPROVER_loop_invariant(%(Q1)s)
__CPROVER_loop_invariant(%(Q2a)s)
__CPROVER_loop_invariant(%(Q2b)s)
__CPROVER_loop_invariant(%(Q4)s)
__CPROVER_loop_invariant(%(Q5A)s)
__CPROVER_loop_invariant(%(Q5B)s)
__CPROVER_decreases(n_edges - ek)
""" % dict(Q1=SN2_Q1 % "ek", Q2a=SN2_Q2 % dict(s="RS", w="WE", k="ek"), Q2b=SN2_Q2 % dict(s="RS2", w="WE2", k="ek"), Q4=SN2_Q4,
           Q5A=SN2_Q5A % "ek", Q5B=SN2_Q5B % "ek")},
)

_SN2_DECL_ARGS = "nondet_size_t(), nondet_size_t(), ef, es, ec, pts, bn, ni, nd, nn"
G_SN2_STEP = Group(
    name="trimesh2.fill.step", units=[sn_step2], harness=H_SN2 % dict(fn="tri_sn_step2", call="tri_sn_step2(nondet_size_t(), %s)" % _SN2_DECL_ARGS),
    entry="h_tri_sn_step2", enforce="tri_sn_step2", timeout=600, min_obligations=20,
    clause="set_neighbors, second loop, one entry (same extraction as trimesh.set_neighbors.step, stronger contract): the rows of two arbitrary nodes "
           "grow by exactly one slot per end point of the entry that is the node, the new slot holds the other end point, both directions get the same "
           "distance, existing slots keep index and distance; boundary set grows exactly by the end points of an entry counted once")
G_SN2_MODELS = [
    Group(name="trimesh2.model.bset_clear", units=[sn_step2, sn_fill], harness=H_SN2 % dict(fn="fsl_bset_clear", call="fsl_bset_clear(bn, nondet_size_t())"),
          entry="h_fsl_bset_clear", enforce="fsl_bset_clear", loop_contracts=True, timeout=120, min_obligations=5,
          clause="set model: clear() leaves no element (ghost node)"),
    Group(name="trimesh2.model.rows_resize", units=[sn_step2, sn_fill], harness=H_SN2 % dict(fn="fsl_rows_resize", call="fsl_rows_resize(nn, nondet_size_t())"),
          entry="h_fsl_rows_resize", enforce="fsl_rows_resize", loop_contracts=True, timeout=120, min_obligations=5,
          clause="row model: resize(m_size) of an empty vector of rows yields empty rows (ghost nodes)"),
]
G_SN2_LOOP = Group(
    name="trimesh2.fill.loop", units=[sn_step2, sn_fill], harness=H_SN2 % dict(fn="tri_sn_fill", call="tri_sn_fill(%s, deg)" % _SN2_DECL_ARGS),
    entry="h_tri_sn_fill", enforce="tri_sn_fill", replace=["tri_sn_step2", "fsl_bset_clear", "fsl_rows_resize"], loop_contracts=True,
    timeout=900, min_obligations=30,
    clause="set_neighbors, second half as a whole (any number of entries): for every entry both end points occur in each other's row with equal "
           "distances; every row slot is the other end point of an incident entry; no node twice in a row; row length = number of incident entries; "
           "boundary set = end points of entries counted once")
GROUPS["C18"] += [G_SN2_STEP] + G_SN2_MODELS + [G_SN2_LOOP]


# ====================================================================================================================== part 3: accessors, status
# Row model as above (SN_MODEL of spec/trimesh.py).  std::vector::operator[] is unchecked: every index is an obligation (FSL_IDX1) under the
# documented precondition `idx is a node index`.
ACC_MODEL = _t1.SN_MODEL + r"""
#ifndef FSL_TRI2_ACC
#define FSL_TRI2_ACC
size_t GS;        /* ghost row slot */
size_t out_n;     /* neighbors.size() of the caller's output vector */
#endif
"""
ACC_ROWS = [
    V(r"m_neighbors_indices\[([^\[\]]*)\]\.size\(\)", r"NBN(FSL_IDX1(\1, m_size))"),
    V(r"m_neighbors_indices\[([^\[\]]*)\]\[([^\[\]]*)\]", r"NBI(FSL_IDX1(\1, m_size), FSL_IDX1(\2, NBN(\1)))"),
    V(r"m_neighbors_distances\[([^\[\]]*)\]\.size\(\)", r"NBN(FSL_IDX1(\1, m_size))"),
    V(r"m_neighbors_distances\[([^\[\]]*)\]\[([^\[\]]*)\]", r"NBD(FSL_IDX1(\1, m_size), FSL_IDX1(\2, NBN(\1)))"),
    # a whole row returned by reference: pointer to its first slot
    V(r"return m_neighbors_distances\[([^\[\]]*)\];", r"return &NBD(FSL_IDX1(\1, m_size), 0);"),
]
ACC_REQ = r"""
__CPROVER_requires(0 < m_size && m_size <= ((size_t) 1 << 40) && idx < m_size)
"""
nb_count = Unit(
    name="tri_nb_count", file=TRI_H, anchor=r"inline auto trimesh_xt<S, N>::neighbors_count_impl\(const size_type& idx\) const -> size_type",
    sig="size_t tri_nb_count(size_t idx, size_t m_size, const size_t *m_neighbors_n)", pre=ACC_MODEL, rules=ACC_ROWS,
    contract=ACC_REQ + r"""
__CPROVER_requires(__CPROVER_is_fresh(m_neighbors_n, m_size * 8))
__CPROVER_assigns()
/* the number of neighbours is the length of the node's row */
__CPROVER_ensures(__CPROVER_return_value == NBN(idx))
""")
nb_indices = Unit(
    name="tri_nb_indices", file=TRI_H,
    anchor=r"void trimesh_xt<S, N>::neighbors_indices_impl\(neighbors_indices_impl_type& neighbors,\s*const size_type& idx\) const",
    sig="void tri_nb_indices(size_t *neighbors, size_t out_cap, size_t idx, size_t m_size, const size_t *m_neighbors_indices, const size_t *m_neighbors_n)",
    pre=ACC_MODEL,
    rules=ACC_ROWS + [
        R(r"const auto& size =", "const size_t size =", 1),
        # std::vector::resize of the caller's vector (it reallocates as needed; the model buffer has a ghost capacity >= the row capacity)
        V(r"\bneighbors\.resize\(([^()]*)\);", r'{ FSL_CHECK((\1) <= out_cap, "output vector model: size within the ghost capacity"); out_n = (\1); }'),
        V(r"\bneighbors\[([^\[\]]*)\]", r"neighbors[FSL_IDX1(\1, out_n)]"),
    ],
    contract=ACC_REQ + r"""
__CPROVER_requires(NB_CAP <= out_cap && out_cap <= 1024 && __CPROVER_is_fresh(neighbors, out_cap * sizeof(size_t)))
__CPROVER_requires(__CPROVER_is_fresh(m_neighbors_indices, m_size * 64) && __CPROVER_is_fresh(m_neighbors_n, m_size * 8))
/* what set_neighbors establishes for every row (trimesh2.fill.loop): length within the row capacity, slots hold node indices (ghost slot) */
__CPROVER_requires(NBN(idx) <= NB_CAP && GS < NB_CAP && (GS < NBN(idx) ==> NBI(idx, GS) < m_size))
__CPROVER_assigns(out_n, __CPROVER_object_whole(neighbors))
/* the output is a copy of the node's row: same length, same node in every slot, every entry a node index */
__CPROVER_ensures(out_n == NBN(idx))
__CPROVER_ensures(GS < out_n ==> (neighbors[GS] == NBI(idx, GS) && neighbors[GS] < m_size))
""",
    loops={0: r"""
__CPROVER_assigns(i, __CPROVER_object_whole(neighbors))
__CPROVER_loop_invariant(i <= size && size == NBN(idx) && out_n == size)
__CPROVER_loop_invariant((GS < i && GS < NB_CAP) ==> neighbors[GS] == NBI(idx, GS))
__CPROVER_decreases(size - i)
"""})
nb_dist = Unit(
    name="tri_nb_dist", file=TRI_H,
    anchor=r"auto trimesh_xt<S, N>::neighbors_distances_impl\(const size_type& idx\) const\s*-> const neighbors_distances_impl_type&",
    sig="const double *tri_nb_dist(size_t idx, size_t m_size, const double *m_neighbors_distances)", pre=ACC_MODEL, rules=ACC_ROWS,
    contract=ACC_REQ + r"""
__CPROVER_requires(__CPROVER_is_fresh(m_neighbors_distances, m_size * 64))
__CPROVER_assigns()
/* the distances returned are the node's own distance row (pushed in lock step with the index row by set_neighbors) */
__CPROVER_ensures(__CPROVER_return_value == m_neighbors_distances + idx * NB_CAP)
""")

H_ACC = r"""
size_t nondet_size_t(void);
void h_%(fn)s(void)
{
    size_t *out; const size_t *ni, *nn; const double *nd;
    GS = nondet_size_t(); out_n = nondet_size_t();
    %(call)s;
    __CPROVER_assert(0, "canary: postcondition point reachable");
}
"""
G_ACC = [
    Group(name="trimesh2.neighbors_count", units=[nb_count], harness=H_ACC % dict(fn="tri_nb_count", call="tri_nb_count(nondet_size_t(), nondet_size_t(), nn)"),
          entry="h_tri_nb_count", enforce="tri_nb_count", timeout=120, min_obligations=3,
          clause="neighbors_count_impl returns the length of the node's row; the row table is indexed inside [0, size)"),
    Group(name="trimesh2.neighbors_indices", units=[nb_indices],
          harness=H_ACC % dict(fn="tri_nb_indices", call="tri_nb_indices(out, nondet_size_t(), nondet_size_t(), nondet_size_t(), ni, nn)"),
          entry="h_tri_nb_indices", enforce="tri_nb_indices", loop_contracts=True, timeout=300, min_obligations=10,
          clause="neighbors_indices_impl: the output vector is resized to the row length and is a slot-by-slot copy of the node's row (every entry a "
                 "node index); reads stay inside the row, writes inside the output"),
    Group(name="trimesh2.neighbors_distances", units=[nb_dist], harness=H_ACC % dict(fn="tri_nb_dist", call="tri_nb_dist(nondet_size_t(), nondet_size_t(), nd)"),
          entry="h_tri_nb_dist", enforce="tri_nb_dist", timeout=120, min_obligations=3,
          clause="neighbors_distances_impl returns the node's own distance row; the row table is indexed inside [0, size)"),
]

# ---- set_nodes_status, array overload (trimesh.hpp 410-419; the map overload is status.trimesh.set_nodes_status of spec/status.py)
ST_MODEL = r"""
#ifndef FSL_TRI2_ST
#define FSL_TRI2_ST
size_t GN2;      /* ghost node */
int fsl_thrown;
/* xtensor `dst = src` for two 1-D containers of the same shape: element-wise copy (TRUSTED xtensor semantics; loop proved in trimesh2.model.status_copy) */
void fsl_status_copy(uint8_t *dst, const uint8_t *src, size_t n)
__CPROVER_requires(1 <= n && n <= ((size_t) 1 << 40) && __CPROVER_is_fresh(dst, n) && __CPROVER_is_fresh(src, n) && GN2 < n)
__CPROVER_assigns(__CPROVER_object_whole(dst))
__CPROVER_ensures(dst[GN2] == src[GN2])
{
    for (size_t k = 0; k < n; ++k)
    __CPROVER_assigns(k, __CPROVER_object_whole(dst))
    __CPROVER_loop_invariant(k <= n)
    __CPROVER_loop_invariant(GN2 < k ==> dst[GN2] == src[GN2])
    __CPROVER_decreases(n - k)
    {
        dst[k] = src[k];
    }
}
#endif
"""
st_array = Unit(
    name="tri_set_status_array", file=TRI_H, anchor=r"void trimesh_xt<S, N>::set_nodes_status\(const nodes_status_array_type& nodes_status\)",
    sig="void tri_set_status_array(uint8_t *m_nodes_status, const uint8_t *nodes_status, size_t ns_shape0, size_t m_shape0)", pre=ST_MODEL,
    rules=[
        # xt::same_shape on two 1-D shapes: equal extents (TRUSTED); m_shape == { m_size } is the class invariant set by set_size_shape
        V(r"xt::same_shape\(nodes_status\.shape\(\), m_shape\)", "(ns_shape0 == m_shape0)"),
        V(r"throw std::(?:invalid_argument|out_of_range|runtime_error|logic_error)\(\s*\"[^;]*\);", "{ fsl_thrown = 1; return; }", _re.S),
        R(r"m_nodes_status = nodes_status;", "fsl_status_copy(m_nodes_status, nodes_status, m_shape0);", 1),
    ],
    contract=r"""
__CPROVER_requires(1 <= m_shape0 && m_shape0 <= ((size_t) 1 << 40) && 1 <= ns_shape0 && ns_shape0 <= ((size_t) 1 << 40) && GN2 < m_shape0 && fsl_thrown == 0)
__CPROVER_requires(__CPROVER_is_fresh(m_nodes_status, m_shape0) && __CPROVER_is_fresh(nodes_status, ns_shape0))
__CPROVER_assigns(fsl_thrown, __CPROVER_object_whole(m_nodes_status))
/* documented: the array gives the status of ALL nodes (shape [N]); any other shape is refused with an error and nothing is written */
__CPROVER_ensures((fsl_thrown != 0) == (ns_shape0 != m_shape0))
__CPROVER_ensures(fsl_thrown == 0 ==> m_nodes_status[GN2] == nodes_status[GN2])
__CPROVER_ensures(fsl_thrown != 0 ==> m_nodes_status[GN2] == __CPROVER_old(m_nodes_status[GN2]))
""")
H_ST = r"""
size_t nondet_size_t(void);
void h_%(fn)s(void)
{
    uint8_t *st; const uint8_t *src;
    GN2 = nondet_size_t(); fsl_thrown = 0;
    %(call)s;
    __CPROVER_assert(0, "canary: postcondition point reachable");
}
"""
G_ST = [
    Group(name="trimesh2.model.status_copy", units=[st_array], harness=H_ST % dict(fn="fsl_status_copy", call="fsl_status_copy(st, src, nondet_size_t())"),
          entry="h_fsl_status_copy", enforce="fsl_status_copy", loop_contracts=True, timeout=120, min_obligations=5,
          clause="container model: same-shape 1-D assignment copies the ghost cell"),
    Group(name="trimesh2.set_nodes_status.array", units=[st_array],
          harness=H_ST % dict(fn="tri_set_status_array", call="tri_set_status_array(st, src, nondet_size_t(), nondet_size_t())"),
          entry="h_tri_set_status_array", enforce="tri_set_status_array", replace=["fsl_status_copy"], timeout=120, min_obligations=5,
          clause="mesh status from a status array: refused iff its length differs from the number of nodes, otherwise every node gets the given status"),
]
GROUPS["C18"] += G_ACC
GROUPS["C17"] = G_ST


# ====================================================================================================================== registration
for _g in GROUPS["C18"] + GROUPS["C17"]:
    if not _g.name.startswith("trimesh2.model.") and _g.name != "trimesh2.map.insert":
        _g.replay = "replay/trimesh2.cpp"

# C08: every group above runs with ALL of cbmc's checks (bounds, pointer, overflow, conversion, div-by-zero, undefined shift) plus the explicit
# index obligations (FSL_IDX1 at every xtensor / std::vector element access) under the function's stated precondition
GROUPS["C08"] = [g for g in GROUPS["C18"] + GROUPS["C17"] if not g.name.startswith("trimesh2.model.") and g.name != "trimesh2.map.insert"]

_MAP_MODEL = ("std::unordered_map<edge_type, size_type, tri_edge_hash, tri_edge_equal> is modelled by the list of its entries (key.first, key.second, count) "
              "with a length and a ghost capacity; insert({key, v}) is a linear search with the EXTRACTED tri_edge_equal that returns the existing entry "
              "(second == false) or appends (second == true); iteration = list order (arbitrary).  TRUSTED container semantics: keys unique up to the "
              "equality functor, the hash functor only has to agree with the equality (trimesh.edge_identity).  The model function itself is proved "
              "against its contract in trimesh2.map.insert")
PROPS = {
    "C18": dict(
        level="other",
        explanation="set_neighbors is decided loop by loop for meshes of any size (spec/trimesh2.py).  First loop (trimesh2.count.*): for an arbitrary "
                    "unordered node pair {A, B} at most one map entry has that key (either orientation), every entry is a pair of different vertices of a "
                    "triangle, every triangle edge has an entry, and the entry's count is the number of (triangle, edge) occurrences of the pair.  Second "
                    "loop (trimesh2.fill.*): for every entry both end points occur in each other's neighbour row with equal distances, every row slot is the "
                    "other end point of an incident entry, no node occurs twice in a row, a row has one slot per incident entry, and the boundary set is exactly "
                    "the set of end points of entries counted once.  Accessors return the row length / a copy of the row.  Default status = fixed value exactly "
                    "on the boundary set is status.trimesh.set_nodes_status (spec/status.py).",
        assumptions=[
            _MAP_MODEL,
            "ghost capacity of the map model: room for three entries per triangle (model artefact; the real map rehashes)",
            "input precondition (planar triangulation), instantiated where a triangle is read: its three vertices are pairwise different node "
            "indices < size (used only by the `sound` part: entry keys are two different node indices)",
            "the ghost prefix-count tables CUM (occurrences of {A, B} among the triangles [0, t)) and DEG (entries among [0, k) incident to the ghost "
            "node) are harness-owned; their defining recurrence is instantiated at the triangle / entry being read (CUM[0] = DEG[0] = 0 in requires)",
            "induction-hypothesis instance (DESIGN 3.9) in the first loop's body: `no entry other than the witness slot GW has the key {A, B}` (proved "
            "as invariant J2 for an arbitrary ghost slot) is assumed at the slot returned by the search, in the found case, before any write of the iteration",
            "second loop, input preconditions instantiated at the entry being read (what the first loop establishes for every entry / pair of "
            "entries): end points are two different node indices (J6 of trimesh2.count.loop.sound); its key differs from the key of the entries that "
            "wrote the two ghost row slots (J3 of trimesh2.count.loop.uniq)",
            "neighbour rows are fixed-capacity rows of 8 slots with ONE length per node, advanced at the distance push (model of spec/trimesh.py: index "
            "and distance rows are pushed in lock step); `row not full` is assumed at each push (capacity = at most n_neighbors_max neighbours per node, "
            "the documented precondition of the mesh; the real rows are std::vectors and grow)",
            "m_neighbors_indices.resize(m_size) / m_neighbors_distances.resize(m_size) act on EMPTY member vectors (set_neighbors is protected and only "
            "called by the two constructors): m_size empty rows; m_boundary_nodes is its characteristic array, clear() zeroes it (model loops proved in "
            "trimesh2.model.*)",
            "the two halves of set_neighbors are cut from the same function body at `m_boundary_nodes.clear();` (slicing); the entry list produced by the "
            "first half is the read-only input of the second (same abstract list; the first half stores it as one array of (first, second, count) "
            "records, the second half reads three parallel arrays as unit tri_sn_step of spec/trimesh.py does)",
            "callee contracts used by replacement are each enforced by their own group: tri_ec_insert (trimesh2.map.insert), tri_ec_step / tri_ec_tri "
            "(trimesh2.count.step.<part> / trimesh2.count.tri.<part>, same -D part as the group that uses it), tri_sn_step2 (trimesh2.fill.step), the "
            "container model loops",
            "accessors: the output vector of neighbors_indices_impl is a buffer with a ghost capacity >= the row capacity; row well-formedness (length "
            "<= capacity, slots hold node indices) is the postcondition of trimesh2.fill.loop, taken as precondition",
        ],
        unmechanised=[
            "universal generalisation over the harness-owned ghosts (node pair, slots, triangle, nodes, entry)",
            "composition `two nodes are neighbours exactly when they share a triangle edge, no duplicates`: (=>) a row slot of A holding B comes from an "
            "entry {A, B} (fill.loop) whose key is a vertex pair of a triangle (count.loop.sound); (<=) a triangle edge {A, B} has an entry "
            "(count.loop.ab), whose end points are in each other's rows (fill.loop); duplicates are excluded by unique keys (count.loop.uniq) + one slot "
            "per incident entry (fill.loop).  Each arrow is a proved clause; chaining them (instantiating the ghosts of one group with the witnesses of "
            "another, and that the second half runs on the list the first half produced) is not mechanised",
            "boundary: `edge belongs to a single triangle` = entry count 1 uses count == CUM[n_triangles] (count.loop.ab) and that CUM[n_triangles] is "
            "the number of triangles containing the edge (definition of the ghost table, unfolded by induction over t)",
            "lemma split of the first loop into the parts ab / uniq / sound: each part's invariants are inductive on their own; their conjunction is "
            "the invariant of the loop",
        ],
        undecided=[
            "distance equal to the Euclidean edge length: only `both directions store the same computed value` is decided; that the value is "
            "sqrt(dx^2 + dy^2) of the two end points is checked by the native replay (replay/trimesh2.cpp, 1e-12 relative) -- restating the "
            "floating-point expression would put two sqrt / multiplier circuits into one obligation",
            "node areas (set_nodes_areas: xtensor expression algebra, nonlinear floating point): out of reach",
            "constructor glue (set_size_shape, the order of the four set_* calls, m_nodes_points copy)",
        ],
    ),
    "C08": dict(
        level="other", safety_only=True,
        explanation="trimesh: both loops of set_neighbors (outlined bodies and whole loops), the three neighbour accessors and the array overload of "
                    "set_nodes_status run with all memory-safety and arithmetic checks on, for meshes of any size under the stated preconditions.",
        assumptions=["trimesh rows: fixed capacity 8 with `row not full` assumed at each push (the real rows are std::vectors); map model with a ghost capacity",
                     "accessors: idx < size is the documented precondition (std::vector::operator[] is unchecked)"],
        undecided=["trimesh::set_nodes_areas, set_size_shape and the constructors' glue"],
    ),
    "C17": dict(
        level="proof",
        explanation="trimesh_xt::set_nodes_status(array overload): refused iff the array's length differs from the number of nodes, otherwise every node "
                    "gets the given status (trimesh2.set_nodes_status.array).",
        assumptions=["xt::same_shape on two 1-D shapes compares the extents; `m_nodes_status = nodes_status` for equal shapes is an element-wise copy "
                     "(model loop trimesh2.model.status_copy); class invariant m_shape == { m_size }"],
        undecided=["a status ARRAY containing node_status::looped is accepted by the array overload (only the override map refuses looped); the property "
                   "statement speaks of per-node overrides only -- noted, not claimed either way"],
    ),
}

# these units were tuned with their `requires(bounds && is_fresh(..))` conjunctions as written; the extractor's generic split of such clauses makes
# trimesh2.fill.loop slower by more than an order of magnitude (52 s -> no answer in 900 s), so the module opts out
from fv.extract import Unit as _Unit
for _v in list(globals().values()):
    if isinstance(_v, _Unit):
        _v.split_fresh = False
for _lst in GROUPS.values():
    for _g in _lst:
        for _u in _g.units:
            _u.split_fresh = False
