"""Neighbour distances on raster and profile grids (property C07, distance clause; C08 for the functions under contract).

Functions under contract (all extracted from /repo on every run):
  xtensor_shared_utils::compute_distance                     utils/xtensor_containers.hpp   (two xtensor expression statements)
  raster_grid::build_coded_neighbors_distances               grid/raster_grid.hpp
  raster_grid::neighbors_distances_impl                      grid/raster_grid.hpp
  profile_grid::build_neighbors_distances, ::neighbors_distances_impl      grid/profile_grid.hpp

Specification (from the property statement): the distance reported for a neighbour is the Euclidean length of the step that leads
to it: sqrt of the sum, over the axes on which the (row, col) offset is NON-ZERO, of spacing(axis)^2.  A wrap-around offset
+-(n - 1) counts as ONE step; an offset 0 contributes nothing.  On a profile both neighbours are at distance `spacing`.

xtensor expression code -> C, by explicit textual rules.  compute_distance is

    auto drc = xt::where(xt::equal(xt::adapt(offset), 0), 0., 1.) * xt::adapt(xspacing);
    return std::sqrt(xt::sum(xt::square(drc))(0));

Two structural rules (must fire once each) recognise the statement shapes
    S1  `auto NAME = <element-wise xtensor expression>;`        ->  `double NAME[2]; for (a < 2) NAME[a] = <element a>;`
    S2  `return std::sqrt(xt::sum(<element-wise expr>)(0));`    ->  `acc = 0.; for (a < 2) acc = acc + <element a>; return sqrt(acc);`
and the element of an expression is built by vocabulary rules (any count; an unknown function or name is an extraction break):
    xt::adapt(X)        -> X[a]                 NAME (defined by S1) -> NAME[a]          scalar literal c -> c (broadcast)
    xt::equal(A, c)     -> (A[a] == c)          xt::where(C, t, f)   -> (C[a] ? t : f)
    xt::square(A), A * A -> fsl_sq(A[a])        A * B                -> fsl_emul(A[a], B[a])
    (not used by the code today, kept so that a changed expression is still extracted and judged: xt::not_equal / less / less_equal /
     greater / greater_equal -> comparison, xt::abs -> FSL_ABS, xt::cast<T> -> (T))
ASSUMED xtensor semantics (xtensor 0.24, checked by reading xmath.hpp / xreducer.hpp, not by a proof): xt::adapt of a
std::array of 2 is the array itself (2 axes, element a = array[a]); equal / where / square / `*` are element-wise, scalars broadcast; an
`auto` expression object is evaluated lazily at its use, which equals eager evaluation here because its operands are not modified
in between; `xt::sum(e)(0)` over a 1-D expression of 2 elements is `init = 0.; for a = 0, 1: init = init + e[a]`
(XTENSOR_REDUCER_FUNCTION(sum, plus, value_type, 0), xreducer_stepper::aggregate_impl: left to right, starting from 0).

Floating point.  Every back end times out on `(1.0 * s) * (1.0 * s) == s * s` and on `x == y ==> x * x == y * y` (measured: SAT,
cadical, kissat, z3, cvc5 > 90 - 200 s): two multiplier circuits whose inputs are equal but not the same symbols.  The function-level
proof therefore treats each arithmetic operation as a call whose contract is (i) one-operation FACTS, proved bit-precisely against the
real IEEE operation (distances.lemma.emul / sq / add / sqrt), and (ii) a TABLE clause "operands equal to the key, result equal to
the ghost" (determinism of the operation) keyed on harness-owned ghosts that ARE the real products / sum of the spacing:
    GS[a] the spacing,  Q[a] == GS[a] * GS[a],  QSUM == Q[0] + Q[1]   (IEEE operations, stated in `requires` over globals: one circuit)
    ROOT[p] = sqrt(RAD_p) for the four offset patterns p = 2 * [row offset != 0] + [col offset != 0],
              RAD_0 = 0, RAD_1 = Q[1], RAD_2 = Q[0], RAD_3 = QSUM   (sqrt abstracted as a deterministic function)
The TABLE clauses of `*` and `+` are proved too: `+` directly (distances.lemma.add_deterministic, cadical), `*` by cases
(distances.lemma.sq_deterministic: bit-identical operands -- kissat closes that miter in ~20 s; distances.lemma.sq_cases: equal non-zero
doubles are bit-identical, zeros, NaNs).  So the top-level clause reads bit-precisely: compute_distance(off, spacing) == sqrt(sx * sx)
for a column step, sqrt(sy * sy) for a row step, sqrt(sy * sy + sx * sx) for a diagonal step (row term first, as in the
left-to-right sum), sqrt(0) = 0 for no step; >= 0; == 0 for the zero offset; > 0 for a step along an axis whose squared spacing did
not underflow to 0.  Only sqrt itself stays abstract (a function of its operand with the sign behaviour of sqrt)."""
import re

from fv import extract as ex
from fv.extract import Unit, R, V
from fv.runner import Group
from spec import raster as rs

XC_H = "include/fastscapelib/utils/xtensor_containers.hpp"
RG_H = rs.RG_H
PG_H = rs.PG_H
OFFCAP = rs.OFFCAP
REPLAY = "replay/distances.cpp"

ND = "size_t nondet_size_t(void); double nondet_double(void); ptrdiff_t nondet_ptrdiff_t(void); uint8_t nondet_u8(void);\n"
CANARY = '    __CPROVER_assert(0, "canary: postcondition point reachable");\n'

# =========================================================================== model: ghosts and the four arithmetic operations
MODEL = r"""
#ifndef FSL_DIST_MODEL
#define FSL_DIST_MODEL
#define FSL_NAXES 2   /* a raster has two axes: spacing_type and one offset are arrays of 2 (row axis, column axis) */
#ifndef OFFCAP
#define OFFCAP %(OFFCAP)d
#endif
#define SAME_D(x, y) ((x) == (y) || (isnan(x) && isnan(y)))
#define FIN(x) (!isnan(x) && !isinf(x))
#define FSL_ABS(x) ((x) < 0 ? -(x) : (x))
/* ghosts (harness-owned, never assigned by the code) */
double GS[FSL_NAXES];   /* the grid spacing: GS[0] between rows, GS[1] between columns */
double Q[FSL_NAXES];    /* Q[a] == GS[a] * GS[a] */
double QSUM;            /* QSUM == Q[0] + Q[1] */
double ROOT[4];         /* ROOT[p] stands for sqrt(RAD_p) */
#define RAD0 0.
#define RAD1 Q[1]
#define RAD2 Q[0]
#define RAD3 QSUM
/* the Euclidean step length of an offset: depends only on WHICH offsets are non-zero (a wrap offset +-(n - 1) is one step) */
#define PATROOT(o0, o1) ((o0) != 0 ? ((o1) != 0 ? ROOT[3] : ROOT[2]) : ((o1) != 0 ? ROOT[1] : ROOT[0]))
/* definition of the ghosts by the real IEEE operations (same global symbols everywhere: one circuit) */
#define GHOST_DEF (FIN(GS[0]) && FIN(GS[1]) && SAME_D(Q[0], GS[0] * GS[0]) && SAME_D(Q[1], GS[1] * GS[1]) && SAME_D(QSUM, Q[0] + Q[1]))
/* ROOT is the graph of a function (equal radicands, equal roots) that has the sign behaviour of sqrt (distances.lemma.sqrt) */
#define ROOT_FACT(p, rad) ((rad >= 0 ==> ROOT[p] >= 0) && (rad == 0 ==> ROOT[p] == 0) && (rad > 0 ==> ROOT[p] > 0))
#define ROOT_SAME(p, q, radp, radq) (SAME_D(radp, radq) ==> SAME_D(ROOT[p], ROOT[q]))
#define ROOT_OK (ROOT_FACT(0, RAD0) && ROOT_FACT(1, RAD1) && ROOT_FACT(2, RAD2) && ROOT_FACT(3, RAD3) \
    && ROOT_SAME(0, 1, RAD0, RAD1) && ROOT_SAME(0, 2, RAD0, RAD2) && ROOT_SAME(0, 3, RAD0, RAD3) \
    && ROOT_SAME(1, 2, RAD1, RAD2) && ROOT_SAME(1, 3, RAD1, RAD3) && ROOT_SAME(2, 3, RAD2, RAD3))
#define GHOST_OK (GHOST_DEF && ROOT_OK)

#ifdef DIST_REAL_OPS   /* lemma groups: the real operation, FACTS enforced */
#define DIST_BODY(b) b
#define DIST_TABLE(e)
#define DIST_TABLE_REQ(e)
#else                  /* function-level groups: calls replaced by FACTS + TABLE */
#define DIST_BODY(b) ;
#define DIST_TABLE(e) __CPROVER_ensures(e)
#define DIST_TABLE_REQ(e) __CPROVER_requires(e)   /* the TABLE clauses are true of the real operation when the ghosts are what GHOST_DEF says */
#endif

/* element of `where(equal(offset, 0), 0., 1.) * spacing`: the selector is 0. or 1. */
double fsl_emul(double w, double s)
__CPROVER_requires(w == 0. || w == 1.)
__CPROVER_assigns()
__CPROVER_ensures(w == 1. ==> SAME_D(__CPROVER_return_value, s))              /* 1.0 * s == s, every s */
__CPROVER_ensures((w == 0. && FIN(s)) ==> __CPROVER_return_value == 0.)       /* 0.0 * s == +-0, finite s */
DIST_BODY({ return w * s; })

/* element of xt::square */
double fsl_sq(double x)
DIST_TABLE_REQ(GHOST_DEF)
__CPROVER_assigns()
__CPROVER_ensures(x == 0. ==> __CPROVER_return_value == 0.)                    /* (+-0)^2 == 0 */
__CPROVER_ensures(!(__CPROVER_return_value < 0.))                              /* a square is not negative */
__CPROVER_ensures((FIN(x) ==> __CPROVER_return_value >= 0.))
DIST_TABLE(SAME_D(x, GS[0]) ==> SAME_D(__CPROVER_return_value, Q[0]))          /* determinism: x == GS[a] ==> x * x == GS[a] * GS[a] */
DIST_TABLE(SAME_D(x, GS[1]) ==> SAME_D(__CPROVER_return_value, Q[1]))
DIST_BODY({ return x * x; })

/* one step of the left-to-right sum */
double fsl_add(double x, double y)
DIST_TABLE_REQ(GHOST_DEF)
__CPROVER_assigns()
__CPROVER_ensures(x == 0. ==> SAME_D(__CPROVER_return_value, y))               /* 0 + y == y */
__CPROVER_ensures(y == 0. ==> SAME_D(__CPROVER_return_value, x))               /* x + 0 == x */
DIST_TABLE((SAME_D(x, Q[0]) && SAME_D(y, Q[1])) ==> SAME_D(__CPROVER_return_value, QSUM))   /* determinism */
DIST_BODY({ return x + y; })

/* sqrt: a deterministic function of its operand (ghost table ROOT) */
double fsl_sqrt(double x)
__CPROVER_assigns()
__CPROVER_ensures(x >= 0. ==> __CPROVER_return_value >= 0.)
__CPROVER_ensures(x == 0. ==> __CPROVER_return_value == 0.)
__CPROVER_ensures(x > 0. ==> __CPROVER_return_value > 0.)
__CPROVER_ensures((x < 0. || isnan(x)) ==> isnan(__CPROVER_return_value))
DIST_TABLE(SAME_D(x, RAD0) ==> SAME_D(__CPROVER_return_value, ROOT[0]))
DIST_TABLE(SAME_D(x, RAD1) ==> SAME_D(__CPROVER_return_value, ROOT[1]))
DIST_TABLE(SAME_D(x, RAD2) ==> SAME_D(__CPROVER_return_value, ROOT[2]))
DIST_TABLE(SAME_D(x, RAD3) ==> SAME_D(__CPROVER_return_value, ROOT[3]))
DIST_BODY({ return sqrt(x); })
#endif
""" % dict(OFFCAP=OFFCAP)

OPS = ["fsl_emul", "fsl_sq", "fsl_add", "fsl_sqrt"]
HAVOC_GHOSTS = ("    GS[0] = nondet_double(); GS[1] = nondet_double(); Q[0] = nondet_double(); Q[1] = nondet_double(); QSUM = nondet_double();\n"
                "    ROOT[0] = nondet_double(); ROOT[1] = nondet_double(); ROOT[2] = nondet_double(); ROOT[3] = nondet_double();\n")


# =========================================================================== 1. compute_distance: xtensor expression -> element code
def _split(s, sep):
    """split at top-level occurrences of the one-character separator"""
    out, depth, cur = [], 0, ""
    for ch in s:
        if ch in "([{":
            depth += 1
        elif ch in ")]}":
            depth -= 1
        if ch == sep and depth == 0:
            out.append(cur)
            cur = ""
        else:
            cur += ch
    out.append(cur)
    return [x.strip() for x in out]


XT_ARITY = {"adapt": 1, "equal": 2, "not_equal": 2, "less": 2, "less_equal": 2, "greater": 2, "greater_equal": 2, "where": 3, "square": 1,
            "abs": 1, "cast": 1}
XT_CMP = {"equal": "==", "not_equal": "!=", "less": "<", "less_equal": "<=", "greater": ">", "greater_equal": ">="}


def xt_element(e, arrays, idx="fsl_a"):
    """C expression of element `idx` of an element-wise xtensor expression (vocabulary: see the module docstring)"""
    e = e.strip()
    factors = _split(e, "*")
    if len(factors) > 1:
        out = xt_element(factors[0], arrays, idx)
        for k, f in enumerate(factors[1:]):
            if k == 0 and len(factors) == 2 and f == factors[0]:
                return "fsl_sq(%s)" % out          # A * A is the element-wise square
            out = "fsl_emul(%s, %s)" % (out, xt_element(f, arrays, idx))
        return out
    m = re.match(r"^xt::(\w+)(?:<\s*(\w+)\s*>)?\((.*)\)$", e, re.S)
    if m and ex.match_brace(e, e.index("("), "(", ")") == len(e) - 1:
        fn, targ, args = m.group(1), m.group(2), _split(m.group(3), ",")
        if fn not in XT_ARITY or len(args) != XT_ARITY[fn] or (targ is not None) != (fn == "cast"):
            raise ex.ExtractionError("xtensor expression: no element rule for xt::%s with %d argument(s)" % (fn, len(args)))
        if fn == "adapt":
            if not re.match(r"^[A-Za-z_]\w*$", args[0]):
                raise ex.ExtractionError("xtensor expression: xt::adapt of %r" % args[0])
            return "%s[%s]" % (args[0], idx)
        a = [xt_element(x, arrays, idx) for x in args]
        if fn in XT_CMP:
            return "(%s %s %s)" % (a[0], XT_CMP[fn], a[1])
        if fn == "where":
            return "(%s ? %s : %s)" % (a[0], a[1], a[2])
        if fn == "abs":
            return "FSL_ABS(%s)" % a[0]
        if fn == "cast":
            return "((%s) %s)" % (targ, a[0])
        return "fsl_sq(%s)" % a[0]
    if re.match(r"^[A-Za-z_]\w*$", e):
        if e not in arrays:
            raise ex.ExtractionError("xtensor expression: unknown operand %r" % e)
        return "%s[%s]" % (e, idx)
    if re.match(r"^-?(?:\d+\.?\d*|\.\d+)(?:[eE][-+]?\d+)?$", e):
        return e   # scalar literal, broadcast
    raise ex.ExtractionError("xtensor expression: cannot translate %r" % e)


_CD_ARRAYS = []
FOR_A = "for (size_t fsl_a = 0; fsl_a < FSL_NAXES; ++fsl_a)"


def _cd_s1(m):
    del _CD_ARRAYS[:]   # S1 fires exactly once: the arrays known to S2 are those this extraction defined
    name = m.group(1)
    text = "double %s[FSL_NAXES]; %s { %s[fsl_a] = %s; }" % (name, FOR_A, name, xt_element(m.group(2), _CD_ARRAYS))
    _CD_ARRAYS.append(name)
    return text + "\n" * m.group(0).count("\n")


def _cd_s2(m):
    return ("double fsl_acc = 0.; %s { fsl_acc = fsl_add(fsl_acc, %s); } return fsl_sqrt(fsl_acc);" % (FOR_A, xt_element(m.group(1), _CD_ARRAYS))
            + "\n" * m.group(0).count("\n"))


CD_RULES = [
    R(r"\bauto\s+(\w+)\s*=\s*(xt::[^;]*);", _cd_s1, 1),                                        # S1
    R(r"\breturn\s+std::sqrt\(\s*xt::sum\(([^;]*)\)\(0\)\s*\);", _cd_s2, 1),                   # S2
]

CD_CONTRACT = r"""
__CPROVER_requires(__CPROVER_is_fresh(offset, FSL_NAXES * sizeof(ptrdiff_t)) && __CPROVER_is_fresh(xspacing, FSL_NAXES * sizeof(double)))
__CPROVER_requires(xspacing[0] == GS[0] && xspacing[1] == GS[1])   /* the spacing is the (finite) grid spacing the ghosts are built from */
__CPROVER_requires(GHOST_OK)
__CPROVER_assigns()
/* C07: the Euclidean length of the step: sqrt of the sum of spacing^2 over the axes whose offset is non-zero */
__CPROVER_ensures(SAME_D(__CPROVER_return_value, PATROOT(offset[0], offset[1])))
__CPROVER_ensures(__CPROVER_return_value >= 0.)
__CPROVER_ensures((offset[0] == 0 && offset[1] == 0) ==> __CPROVER_return_value == 0.)
/* a step along an axis whose squared spacing is positive (no underflow) has a positive length */
__CPROVER_ensures(((offset[0] != 0 && Q[0] > 0.) || (offset[1] != 0 && Q[1] > 0.)) ==> __CPROVER_return_value > 0.)
"""

compute_distance = Unit(
    name="compute_distance", file=XC_H, anchor=r"static double compute_distance\(O&& offset, X&& xspacing\)",
    sig="double compute_distance(const ptrdiff_t *offset, const double *xspacing)",
    pre=MODEL, rules=CD_RULES, contract=CD_CONTRACT)

H_CD = ND + r"""
void h_cd(void)
{
    const ptrdiff_t *off; const double *xs;
%s    double d = compute_distance(off, xs);
    /* goto-instrument refuses to replace a function that is never called: keep the four operation models referenced even when a changed
     * body no longer uses one of them (after the call under test, so that nothing they state can help its proof) */
    (void) fsl_emul(0., 0.); (void) fsl_sq(0.); (void) fsl_add(0., 0.); (void) fsl_sqrt(0.);
%s}
""" % (HAVOC_GHOSTS, CANARY)

G_CD = Group(
    name="distances.compute", units=[compute_distance], harness=H_CD, entry="h_cd", enforce="compute_distance", replace=OPS,
    unwindset={("compute_distance", 0): 3, ("compute_distance", 1): 3}, backend="cadical", timeout=300, min_obligations=10, replay=REPLAY,
    object_bits=9,   # 8 replaced calls sit just below cbmc's default of 2^8 objects: a changed body with one more call must still be judged
    clause="compute_distance(offset, spacing), any offsets, finite spacing: result == sqrt(sum over the axes with a non-zero offset of "
           "spacing^2) -- sqrt(sx*sx) / sqrt(sy*sy) / sqrt(sy*sy + sx*sx) / 0 with the products and the sum the real IEEE operations and sqrt a "
           "deterministic function; >= 0; == 0 for the zero offset; > 0 for a step along an axis with spacing^2 > 0; the magnitude and sign of "
           "a non-zero offset do not matter (wrap offsets are one step)")


# =========================================================================== 1b. one-operation lemmas (bit-precise, real operations)
def lemma_group(fn, args, backend="sat", timeout=120, tier="quick", table=None, name=None):
    decl = "".join("    double %s = nondet_double();\n" % a for a in args)
    h = ND + MODEL + r"""
void h_%s(void)
{
%s%s    double r = %s(%s);
%s}
""" % (fn, HAVOC_GHOSTS, decl, fn, ", ".join(args), CANARY)
    what = {
        "fsl_emul": "1.0 * s == s (every s, NaN included); 0.0 * s == +-0 for finite s -- the element-wise product with the where() selector",
        "fsl_sq": "x == 0 ==> x * x == 0; x * x is never negative; finite x ==> x * x >= 0",
        "fsl_add": "0 + y == y and x + 0 == x (up to the sign of zero, NaN preserved)",
        "fsl_sqrt": "sign behaviour of sqrt on cbmc's library model of sqrt: x >= 0 ==> r >= 0, x == 0 ==> r == 0, x > 0 ==> r > 0, x < 0 or NaN ==> NaN",
    }[fn]
    return Group(name=name or "distances.lemma." + fn[4:], units=[], harness=h, entry="h_" + fn, enforce=fn, defines=["DIST_REAL_OPS"],
                 backend=backend, timeout=timeout, min_obligations=2, tier=tier,
                 clause="bit-precise IEEE lemma about the real operation behind %s: %s" % (fn, what))


G_LEMMAS = [lemma_group("fsl_emul", ["w", "s"]), lemma_group("fsl_sq", ["x"]), lemma_group("fsl_add", ["x", "y"]),
            lemma_group("fsl_sqrt", ["x"])]

# determinism of `*` at the table key, decomposed: the direct miter `x == y ==> x * x == y * y` times out everywhere (kissat 200 s), but with
# BIT-IDENTICAL operands kissat closes it in ~20 s (cadical ~60 s), and `==` on doubles that are neither zero nor NaN is bit identity
SQ_DET_PRE = ND + MODEL + r"""
union fsl_du { double d; uint64_t u; };
uint64_t nondet_u64(void);
void h_sq_det(void)
{
    union fsl_du x, y;
    x.u = nondet_u64(); y.u = nondet_u64();
    double a = x.d * x.d, b = y.d * y.d;
%s
%s}
"""
H_SQ_DET = SQ_DET_PRE % ('    __CPROVER_assert(x.u == y.u ==> SAME_D(a, b), "D2: bit-identical operands, equal squares (IEEE multiplication is a function of its operands)");', CANARY)
H_SQ_CASES = SQ_DET_PRE % ("""    __CPROVER_assert((x.d == y.d && x.d != 0.) ==> x.u == y.u, "D1: equal doubles that are not zero have identical bits");
    __CPROVER_assert((x.d == 0. && y.d == 0.) ==> a == b, "D3a: zeros of either sign have equal squares");
    __CPROVER_assert((isnan(x.d) && isnan(y.d)) ==> (isnan(a) && isnan(b)), "D3b: the square of a NaN is a NaN");""", CANARY)
G_SQ_DET = [
    Group(name="distances.lemma.sq_deterministic", units=[], harness=H_SQ_DET, entry="h_sq_det", backend="kissat", timeout=600, min_obligations=1,
          clause="TABLE clause of fsl_sq, main case D2: bit-identical operands have equal squares (the two-multiplier miter; spec-level lemma, "
                 "nothing assumed)"),
    Group(name="distances.lemma.sq_cases", units=[], harness=H_SQ_CASES, entry="h_sq_det", timeout=120, min_obligations=3,
          clause="TABLE clause of fsl_sq, remaining cases: D1 equal non-zero doubles are bit-identical, D3 zeros of either sign / NaNs have equal "
                 "squares; with D2: SAME_D(x, y) ==> SAME_D(x * x, y * y)"),
]

# determinism of `+` at the table key is within reach of cadical (the adder miter, ~40 s alone); that of `*` is not (see docstring)
H_ADD_DET = ND + MODEL + r"""
void h_add_det(void)
{
    double x = nondet_double(), y = nondet_double(), x2 = nondet_double(), y2 = nondet_double();
    __CPROVER_assume(SAME_D(x, x2) && SAME_D(y, y2));   /* spec-level lemma: its hypothesis */
    __CPROVER_assert(SAME_D(x + y, x2 + y2), "IEEE addition is a function of the values of its operands");
%s}
""" % CANARY
G_ADD_DET = Group(name="distances.lemma.add_deterministic", units=[], harness=H_ADD_DET, entry="h_add_det", backend="cadical", timeout=600,
                  min_obligations=1,
                  clause="TABLE clause of fsl_add: equal operands (==, or both NaN) give equal sums (spec-level lemma, adder miter)")


# =========================================================================== 2. build_coded_neighbors_distances
_LAMBDAS = {}


def _bcd_lambda(m):
    # auto NAME = [&CAPTURE](auto&& PARAM) -> double { return container_impl<container_type>::compute_distance(ARGS); };
    _LAMBDAS[m.group(1)] = (m.group(3), "compute_distance(%s)" % m.group(4))
    return "/* functor %s(%s) = compute_distance(%s), %s captured by reference */" % (m.group(1), m.group(3), m.group(4), m.group(2)) + "\n" * m.group(0).count("\n")


def _bcd_transform(m):
    src, dst, fun = m.group(1), m.group(2), m.group(3)
    if fun not in _LAMBDAS:
        raise ex.ExtractionError("std::transform with unknown functor %r" % fun)
    param, call = _LAMBDAS[fun]
    call = re.sub(r"\b%s\b" % re.escape(param), "(%s.data + 2 * fsl_i)" % src, call)
    return ("for (size_t fsl_i = 0; fsl_i < %s.size; ++fsl_i) { %s[FSL_IDX1(fsl_i, NB_MAX)] = %s; }" % (src, dst, call)
            + "\n" * m.group(0).count("\n"))


BCD_RULES = [
    R(r"coded_ndistances_type nb_distances;", "/* result table nb_distances (9 rows of NB_MAX): out parameter */", 1),
    R(r"\bauto xspacing = m_spacing;", "double xspacing[FSL_NAXES] = { m_spacing[0], m_spacing[1] }; /* copy of the array of 2 spacings */", 1),
    R(r"\bauto (\w+) = \[&(\w+)\]\(auto&& (\w+)\) -> double\s*\{\s*return container_impl<container_type>::compute_distance\(([^()]*)\);\s*\};",
      _bcd_lambda, 1),
    V(r"\bauto offsets = ", "const struct offvec offsets = "),   # a copy of an immutable offset list == a view of it
    R(r"\bauto distances = neighbors_distances_impl_type\(\);", "double distances[NB_MAX] = { 0 }; /* value-initialised array of n_neighbors_max doubles */", 1),
    # std::transform(first, last, out, f): out[i] = f(first[i]) for i = 0 .. last - first - 1, in order (ASSUMED model)
    R(r"std::transform\((\w+)\.cbegin\(\), \1\.cend\(\), (\w+)\.begin\(\), (\w+)\);", _bcd_transform, 1),
    R(r"nb_distances\[k\] = distances;", "for (size_t fsl_j = 0; fsl_j < NB_MAX; ++fsl_j) { nb_distances[NB_MAX * FSL_IDX1(k, 9) + fsl_j] = distances[fsl_j]; } /* array assignment */", 1),
    R(r"return nb_distances;", "return;", 1),
] + rs.GRID_VOCAB

SLOT_OFF = "coded_off[2 * OFFCAP * %s + 2 * %s + %d]"
BCD_CONTRACT = r"""
__CPROVER_requires(__CPROVER_is_fresh(m_spacing, FSL_NAXES * sizeof(double)) && __CPROVER_is_fresh(coded_off, 9 * OFFCAP * 2 * sizeof(ptrdiff_t)))
__CPROVER_requires(__CPROVER_is_fresh(coded_n, 9 * sizeof(size_t)) && __CPROVER_is_fresh(nb_distances, 9 * NB_MAX * sizeof(double)))
__CPROVER_requires(m_spacing[0] == GS[0] && m_spacing[1] == GS[1])
__CPROVER_requires(GHOST_OK)
/* producer postcondition (raster.coded_offsets.*): every offset list has at most n_neighbors_max entries */
__CPROVER_requires(NB_MAX <= OFFCAP && %(lens)s)
__CPROVER_requires(GK < 9 && GI < NB_MAX)   /* an arbitrary location code and slot */
__CPROVER_assigns(__CPROVER_object_whole(nb_distances))
/* C07: the GI-th distance stored for location code GK is the Euclidean length of the GI-th offset stored for that code */
__CPROVER_ensures(GI < coded_n[GK] ==> SAME_D(nb_distances[NB_MAX * GK + GI], PATROOT(%(o0)s, %(o1)s)))
""" % dict(lens=" && ".join("coded_n[%d] <= NB_MAX" % k for k in range(9)), o0=SLOT_OFF % ("GK", "GI", 0), o1=SLOT_OFF % ("GK", "GI", 1))

build_distances = Unit(
    name="build_coded_neighbors_distances", file=RG_H,
    anchor=r"auto raster_grid<S, RC, C>::build_coded_neighbors_distances\(\) -> coded_ndistances_type",
    sig="void build_coded_neighbors_distances(const double *m_spacing, const ptrdiff_t *coded_off, const size_t *coded_n, double *nb_distances)",
    pre=rs.ACC + "size_t GK, GI;   /* ghost location code and ghost slot */\n", rules=BCD_RULES, contract=BCD_CONTRACT)


def build_group(nbmax):
    h = ND + r"""
void h_bcd(void)
{
    const double *sp; const ptrdiff_t *off; const size_t *cn; double *nd;
%s    GK = nondet_size_t(); GI = nondet_size_t();
    build_coded_neighbors_distances(sp, off, cn, nd);
%s}
""" % (HAVOC_GHOSTS, CANARY)
    u = "build_coded_neighbors_distances"
    return Group(name="distances.raster.build.nb%d" % nbmax, units=[compute_distance, build_distances], harness=h, entry="h_bcd", enforce=u,
                 replace=["compute_distance"], defines=["NB_MAX=%d" % nbmax], unwindset={(u, 0): 10, (u, 1): nbmax + 1, (u, 2): nbmax + 1},
                 backend="cadical", timeout=600, min_obligations=20, replay=REPLAY, object_bits=(11 if nbmax > 4 else 10),   # cbmc asks for more than 2^8 (2^10) objects
                 clause="build_coded_neighbors_distances (n_neighbors_max = %d): for every location code k and slot i < number of offsets of k, "
                        "distances[k][i] == compute_distance(offsets(k)[i], spacing) == Euclidean length of that offset (ghost code / ghost slot; the 9 "
                        "codes and the slots are unwound completely); no write outside the row" % nbmax)


# =========================================================================== 3. raster neighbors_distances_impl
RNI_CONTRACT = r"""
__CPROVER_requires(idx < m_size && m_size <= ((size_t) 1 << 40) && __CPROVER_is_fresh(m_nodes_codes, m_size))
__CPROVER_requires(__CPROVER_is_fresh(m_neighbor_distances, 9 * NB_MAX * sizeof(double)))
__CPROVER_requires(__CPROVER_is_fresh(coded_off, 9 * OFFCAP * 2 * sizeof(ptrdiff_t)) && __CPROVER_is_fresh(coded_n, 9 * sizeof(size_t)))
__CPROVER_requires(GHOST_OK)
/* producer postconditions: the stored code of the node is one of the 9 location codes (raster.codes); the distance table at the ghost
 * slot of that code (distances.raster.build.*) */
__CPROVER_requires(m_nodes_codes[idx] == GK && GK < 9 && GI < NB_MAX && NB_MAX <= OFFCAP)
__CPROVER_requires(GI < coded_n[GK] ==> SAME_D(m_neighbor_distances[NB_MAX * GK + GI], PATROOT(%(o0)s, %(o1)s)))
__CPROVER_assigns()
/* the row of the node's location code ... */
__CPROVER_ensures(__CPROVER_return_value == m_neighbor_distances + NB_MAX * GK)
/* ... hence C07: the GI-th reported distance of node idx is the Euclidean length of the GI-th offset of its code -- the offset from
 * which neighbors_indices_impl builds the GI-th neighbour index (raster.indices.nb*) */
__CPROVER_ensures(GI < coded_n[GK] ==> SAME_D(__CPROVER_return_value[GI], PATROOT(%(o0)s, %(o1)s)))
""" % dict(o0=SLOT_OFF % ("GK", "GI", 0), o1=SLOT_OFF % ("GK", "GI", 1))

raster_impl = Unit(
    name="raster_neighbors_distances_impl", file=RG_H,
    anchor=r"inline auto raster_grid<S, RC, C>::neighbors_distances_impl\(const size_type& idx\) const noexcept\s*-> const neighbors_distances_impl_type&",
    sig="const double *raster_neighbors_distances_impl(size_t idx, size_t m_size, const uint8_t *m_nodes_codes, const double *m_neighbor_distances, "
        "const ptrdiff_t *coded_off, const size_t *coded_n /* the last two: specification only */)",
    pre=MODEL + rs.ACC + "size_t GK, GI;   /* ghost location code and ghost slot */\n",
    rules=rs.GRID_VOCAB + [R(r"return m_neighbor_distances\[(.*)\];", r"return m_neighbor_distances + NB_MAX * FSL_IDX1(\1, 9); /* reference to row */", 1)],
    contract=RNI_CONTRACT)


def raster_impl_group(nbmax):
    h = ND + r"""
void h_rni(void)
{
    const uint8_t *codes; const double *nd; const ptrdiff_t *off; const size_t *cn;
%s    GK = nondet_size_t(); GI = nondet_size_t();
    const double *row = raster_neighbors_distances_impl(nondet_size_t(), nondet_size_t(), codes, nd, off, cn);
%s}
""" % (HAVOC_GHOSTS, CANARY)
    return Group(name="distances.raster.impl.nb%d" % nbmax, units=[raster_impl], harness=h, entry="h_rni", enforce="raster_neighbors_distances_impl",
                 defines=["NB_MAX=%d" % nbmax], backend="cadical", timeout=300, min_obligations=5, replay=REPLAY,
                 clause="raster neighbors_distances_impl(idx) (n_neighbors_max = %d) returns the row of the node's location code; with the table "
                        "contract: its i-th entry is the Euclidean length of the i-th offset of that code (ghost slot)" % nbmax)


# =========================================================================== 4. profile grid
GSP = "double GSP;   /* ghost: the spacing of the profile */\n#ifndef SAME_D\n#define SAME_D(x, y) ((x) == (y) || (isnan(x) && isnan(y)))\n#endif\n"
PROFILE_TABLE = " && ".join("SAME_D(m_neighbors_distances[%d], GSP)" % i for i in range(6))

profile_build = Unit(
    name="profile_build_neighbors_distances", file=PG_H, anchor=r"void profile_grid<S, C>::build_neighbors_distances\(\)",
    sig="void profile_build_neighbors_distances(double *m_neighbors_distances, double m_spacing)",
    pre=GSP,
    # array-of-3 .fill(row) with a braced row of 2: every row gets the two listed values
    rules=[R(r"m_neighbors_distances\.fill\(\{\s*([^{},]+?)\s*,\s*([^{},]+?)\s*\}\);",
             r"for (size_t fsl_k = 0; fsl_k < 3; ++fsl_k) { m_neighbors_distances[2 * fsl_k] = (\1); m_neighbors_distances[2 * fsl_k + 1] = (\2); }", 1)],
    contract=r"""
__CPROVER_requires(__CPROVER_is_fresh(m_neighbors_distances, 3 * 2 * sizeof(double)) && SAME_D(m_spacing, GSP))
__CPROVER_assigns(__CPROVER_object_whole(m_neighbors_distances))
/* C07 on a profile: for each of the 3 location codes both neighbours are at distance `spacing` */
__CPROVER_ensures(%s)
""" % PROFILE_TABLE)

profile_impl = Unit(
    name="profile_neighbors_distances_impl", file=PG_H,
    anchor=r"auto profile_grid<S, C>::neighbors_distances_impl\(const size_type&\s*\) const\s*-> const neighbors_distances_impl_type&",
    sig="const double *profile_neighbors_distances_impl(size_t idx, const double *m_neighbors_distances)",
    pre=GSP,
    rules=[R(r"return m_neighbors_distances\[([^\[\]]+)\];", r"return m_neighbors_distances + 2 * FSL_IDX1(\1, 3); /* reference to row */", 1)],
    contract=r"""
__CPROVER_requires(__CPROVER_is_fresh(m_neighbors_distances, 3 * 2 * sizeof(double)))
__CPROVER_requires(%s)   /* producer: distances.profile.build */
__CPROVER_assigns()
/* C07 on a profile: whatever the node, both reported distances are `spacing` */
__CPROVER_ensures(SAME_D(__CPROVER_return_value[0], GSP) && SAME_D(__CPROVER_return_value[1], GSP))
__CPROVER_ensures(__CPROVER_return_value == m_neighbors_distances || __CPROVER_return_value == m_neighbors_distances + 2 || __CPROVER_return_value == m_neighbors_distances + 4)
""" % PROFILE_TABLE)

H_PROFILE = ND + r"""
void h_%s(void)
{
    double *nd; const double *cnd;
    GSP = nondet_double();
    %s;
%s}
"""
G_PROFILE = [
    Group(name="distances.profile.build", units=[profile_build],
          harness=H_PROFILE % ("pbd", "profile_build_neighbors_distances(nd, nondet_double())", CANARY), entry="h_pbd",
          enforce="profile_build_neighbors_distances", unwindset={("profile_build_neighbors_distances", 0): 4}, timeout=120, min_obligations=5, replay=REPLAY,
          clause="profile build_neighbors_distances: all 3 x 2 entries of the distance table equal the spacing"),
    Group(name="distances.profile.impl", units=[profile_impl],
          harness=H_PROFILE % ("pni", "const double *r = profile_neighbors_distances_impl(nondet_size_t(), cnd)", CANARY), entry="h_pni",
          enforce="profile_neighbors_distances_impl", timeout=120, min_obligations=3, replay=REPLAY,
          clause="profile neighbors_distances_impl(idx): a row of the table, both entries == spacing, for every idx"),
]


# =========================================================================== 5. symmetry of the reported distances (relational lemma)
H_SYM = ND + r"""
void h_dsym(void)
{
    /* node a reports for the slot leading to b the distance of the offset (o0, o1) = b - a; b reports for the slot leading back to a
     * the distance of a - b = (-o0, -o1) (raster.coded_offsets.*: stored offsets are target - node; |offset| <= dim - 1 < 2^20) */
    ptrdiff_t ab[2], ba[2]; double sp[2];
%s    ab[0] = nondet_ptrdiff_t(); ab[1] = nondet_ptrdiff_t();
    __CPROVER_assume(-((ptrdiff_t) 1 << 20) < ab[0] && ab[0] < ((ptrdiff_t) 1 << 20) && -((ptrdiff_t) 1 << 20) < ab[1] && ab[1] < ((ptrdiff_t) 1 << 20));
    ba[0] = -ab[0]; ba[1] = -ab[1];
    __CPROVER_assume(GHOST_OK);   /* the spec's own domain: finite spacing, ghosts as defined */
    sp[0] = GS[0]; sp[1] = GS[1];
    double d_ab = compute_distance(ab, sp);
    double d_ba = compute_distance(ba, sp);
    __CPROVER_assert(SAME_D(d_ab, d_ba), "C07 symmetry: the distance reported from a to b equals the distance reported from b back to a");
%s}
""" % (HAVOC_GHOSTS, CANARY)
G_SYM = Group(name="distances.symmetry", units=[compute_distance], harness=H_SYM, entry="h_dsym", replace=["compute_distance"], backend="cadical",
              timeout=120, min_obligations=1,
              clause="relational lemma from the contract of compute_distance: the offset back is the negated offset, and the distance depends only on "
                     "which offsets are non-zero, so d(a -> b) == d(b -> a) (offsets within +-2^20; harness assumptions are the spec's own domain)")


# =========================================================================== 6. offsets of steps: non-zero exactly on the axes the step moves along
def step_pattern_group():
    asserts = []
    for dr, dc in rs.STEPS["queen"]:
        asserts.append('    __CPROVER_assert((((ptrdiff_t) TGT_R(GR, %d) - (ptrdiff_t) GR) != 0) == (%d != 0) && (((ptrdiff_t) TGT_C(GC, %d) - (ptrdiff_t) GC) != 0) == (%d != 0), '
                       '"step (%d,%d): the offset target - node is non-zero exactly on the axes the step moves along (wrap included)");' % (dr, dr, dc, dc, dr, dc))
    h = rs.ND + rs.GEO + r"""
void h_pat(void)
{
    size_t m_shape0 = nondet_size_t(), m_shape1 = nondet_size_t();
    GR = nondet_size_t(); GC = nondet_size_t();
    /* the spec's own domain: at least two nodes per axis (with one node a wrap offset would be 0), node inside */
    __CPROVER_assume(2 <= m_shape0 && m_shape0 <= DIM_MAX && 2 <= m_shape1 && m_shape1 <= DIM_MAX && GR < m_shape0 && GC < m_shape1);
%s
%s}
""" % ("\n".join(asserts), CANARY)
    return Group(name="distances.step_pattern", units=[rs.base], harness=h, entry="h_pat", timeout=120, min_obligations=8,
                 clause="spec-level lemma: for every node of a grid with >= 2 nodes per axis and each of the 8 steps (dr, dc), the offset "
                        "((r + dr) mod nrows - r, (c + dc) mod ncols - c) is non-zero on an axis iff the step moves along it, so PATROOT(offset) is the "
                        "Euclidean length of the step: sqrt(dr^2 * sy^2 + dc^2 * sx^2) with |dr|, |dc| <= 1")


G_RASTER = [build_group(8), build_group(4), raster_impl_group(8), raster_impl_group(4)]
GROUPS = {
    "C07": [G_CD] + G_LEMMAS + G_SQ_DET + [G_ADD_DET] + G_RASTER + G_PROFILE + [G_SYM, step_pattern_group()],
    "C08": [G_CD] + G_RASTER + G_PROFILE,
}
PROPS = {
    "C07": dict(
        level="other",
        explanation="Distance clause of C07.  compute_distance (two xtensor expression statements, turned into element loops by explicit rules) "
                    "returns the Euclidean step length sqrt(sum over the axes with a non-zero offset of spacing^2) for every offset pair and every finite "
                    "spacing -- products and sum are the real IEEE operations of the spacing, sqrt is a deterministic function with the sign behaviour of "
                    "sqrt; the raster distance table pairs the k-th distance with the k-th offset of each of the 9 location codes (complete unwinding), "
                    "neighbors_distances_impl returns the row of the node's code, the profile reports `spacing` twice for every node, and distances are "
                    "symmetric (d(a -> b) == d(b -> a)).  `other` because the arithmetic operations are linked to the function-level proof by "
                    "one-operation lemma groups (substitution of proved contracts, case analysis for the determinism of `*`), sqrt stays abstract, and "
                    "sqrt(fl(s * s)) == |s| (true without over/underflow) is not decided.",
        assumptions=[
            "xtensor semantics ASSUMED by the extraction of compute_distance: xt::adapt(std::array of 2) is the array (2 axes); xt::equal / xt::where / "
            "xt::square / `*` are element-wise with scalar broadcast; the lazily evaluated `auto drc` expression equals its eager evaluation (operands "
            "unmodified); xt::sum(e)(0) == ((0. + e[0]) + e[1]) (left to right from the initial value 0, xtensor 0.24 xreducer_stepper::aggregate_impl)",
            "sqrt is abstracted as a deterministic function of its operand (ghost table ROOT: equal radicands, equal roots) whose sign behaviour "
            "(ROOT_FACT: r >= 0 for x >= 0, r == 0 for x == 0, r > 0 for x > 0) is proved on cbmc's library model of sqrt only (distances.lemma.sqrt); "
            "`*` and `+` are calls with contracts in the function-level groups: their FACTS and their TABLE (determinism) clauses are proved against "
            "the real IEEE operations in distances.lemma.*",
            "grid spacing is finite (FIN(GS[a]) in GHOST_DEF; with an infinite or NaN spacing 0.0 * spacing is NaN and every distance is NaN)",
            "std::transform(first, last, out, f) writes out[i] = f(first[i]) for i = 0 .. n - 1 in order; the by-reference lambda to_dist is its body with the "
            "captured copy of m_spacing; `auto offsets = neighbor_offsets(k)` (a copy of an immutable list) is a view; the value-initialised distance row "
            "is all zeros; std::array assignment / .fill(row) are element loops; accessors that return a reference to a table row return a pointer to it",
            "precondition instances (producers named in each contract): every stored offset list has at most n_neighbors_max entries "
            "(raster.coded_offsets.*), the stored code of a node is one of the 9 location codes (raster.codes), the distance table entry at the ghost "
            "(code, slot) (distances.raster.build.*), the profile table (distances.profile.build)",
            "distances.symmetry, distances.step_pattern and distances.lemma.add_deterministic are spec-level harnesses whose __CPROVER_assume lines state the lemma's own "
            "hypothesis / the spec's domain (offsets within +-2^20, GHOST_OK, shape in [2, 2^20]^2 and node inside)",
        ],
        unmechanised=[
            "Euclidean length of the step: distances.step_pattern (the offset target - node of a step (dr, dc) is non-zero exactly on the axes with "
            "d != 0, |d| = 1, on grids with >= 2 nodes per axis) + distances.compute (length depends on that pattern only) ==> the stored distance of an "
            "offset is sqrt(dr^2 * sy^2 + dc^2 * sx^2) of its step",
            "distance/index pairing per slot: distances.raster.impl.* (slot i's distance is the length of offset i of the node's code) + "
            "raster.indices.nb* (slot i's index is built from the same offset i) + raster.coded_offsets.* (that offset is target - node of an admissible "
            "step) ==> the distance reported with a neighbour is the Euclidean length of the step that leads to it (same slot, same offset)",
            "symmetry at grid level: distances.symmetry (negated offset, same distance) + raster.symmetry.* (b is a neighbour of a as often as a of b)",
            "determinism of `*` at the table key from its cases: SAME_D(x, y) ==> (both NaN | both zero | x == y non-zero, hence bit-identical by D1) "
            "==> SAME_D(x * x, y * y) by D3b | D3a | D2 (distances.lemma.sq_cases, distances.lemma.sq_deterministic); the contracts of fsl_emul / "
            "fsl_sq / fsl_add / fsl_sqrt used by replacement in distances.compute are the ones enforced in distances.lemma.* (same text, "
            "DIST_REAL_OPS selects body + FACTS or FACTS + TABLE)",
            "from the ghost (code, slot) to all codes and slots; interpretation of the ghosts: Q[a], QSUM are constrained to the real IEEE values in "
            "GHOST_DEF, ROOT[p] reads sqrt(RAD_p) by the determinism assumption",
        ],
        undecided=[
            "sqrt(fl(s * s)) == |s| and the rounding error of sqrt(sy^2 + sx^2) against the exact Euclidean length; overflow / underflow of spacing^2 "
            "(spacing 1e-200: every distance is 0; spacing 1e200: +inf) -- the clause is stated over the computed squares",
            "profile grids report `spacing` itself: a negative spacing gives negative distances (the raster gives sqrt(s^2) >= 0); positive spacing "
            "is the documented domain and is not checked by the constructors",
            "the glue grid::neighbors_distances (xt::view / xt::adapt of the row, base.hpp:616-620) is xtensor view code, outside the extraction",
        ],
    ),
    "C08": dict(
        level="other",
        assumptions=["distances.*: offset lists are flat buffers of pairs with capacity 8 per location code (as in spec/raster.py); rows of the distance "
                     "tables are NB_MAX / 2 doubles wide; a write of std::transform beyond the destination row is an obligation (FSL_IDX1)"],
    ),
}
