"""Flow snapshot operator (flow/flow_snapshot.hpp:80-136): the two `_save` overloads of
flow_operator_impl<FG, flow_snapshot, flow_graph_fixed_array_tag> and `save()`.  Property C16
(clauses save.covers_state, save.no_alias, elevation_snapshot).

Units (all extracted mechanically on every run):
  snapshot_save_graph      _save(const FG& graph_impl, FG& graph_impl_snapshot)          106-131
  snapshot_save_elevation  _save(const data_array_type&, data_array_type&)              133-136
  snapshot_save            save(...): dispatch on the operator's save_graph()/save_elevation() 80-93

Data model.  A graph implementation is the tuple of its nine tables (flat row-major buffers) that the
snapshot graph's observers read, plus its single-flow flag.  The receiver tables of the live graph have
width SRC_W and those of the snapshot graph width DST_W (compile-time -D constants): a single-flow
snapshot has width 1 while the live graph has width n_neighbors_max as soon as *any* operator of the
sequence is multi-direction (flow_graph constructor: all_single_flow()).  `bfs_levels` has a dynamic
length (compute_bfs_indices_bottomup re-assigns it with the number of levels), so its length is part of
the state (`*_bfs_levels_n`).

Container model (assumed xtensor semantics, stated):
  `dst = src;`                               FSL_ASSIGN_ALL : dst takes the shape of src and dst.flat(k) == src.flat(k)
                                              for every k; the model needs equal compile-time widths (xtensor would
                                              resize) -- that check is a *supporting* obligation ("container model:")
  `auto c = xt::col(dst, 0); c = xt::col(src, 0);`  FSL_ASSIGN_COL0: dst(i, 0) = src(i, 0) for every row i
Both are element-wise loops closed by their own loop contracts over the ghost cell AG (no quantifier).

The list of tables in the postcondition is taken from the property statement (receivers, counts,
distances, weights, donors, traversal orders), NOT from the body of _save."""
import re

from fv import extract as ex
from fv.extract import Unit, R, V
from fv.runner import Group

SNAP_H = "include/fastscapelib/flow/flow_snapshot.hpp"

# (name, C type, kind)   kind: rec = gsize x {SRC_W|DST_W}, don = gsize x DON_W, n = gsize, lev = dynamic (<= gsize + 1), nb = gsize bytes, one = 1 byte
TABLES = [
    ("receivers", "size_t", "rec"),
    ("receivers_count", "size_t", "n"),
    ("receivers_distance", "double", "rec"),
    ("receivers_weight", "double", "rec"),
    ("donors", "size_t", "don"),
    ("donors_count", "size_t", "n"),
    ("dfs_indices", "size_t", "n"),
    ("bfs_indices", "size_t", "n"),
    ("bfs_levels", "size_t", "lev"),
    # inputs of the observers basins() / pits() / apply_kernel() (C16: "... accumulation, basins, kernel application"): the mask (xt::xarray<bool>,
    # one cell per node; meaningful when mask_initialized), its flag (a one-cell table), and the base-level set (std::unordered_set<size_type>
    # modelled by its characteristic function, one cell per node: copy-assignment of a set copies the characteristic function)
    ("mask", "_Bool", "nb"),
    ("mask_initialized", "_Bool", "one"),
    ("base_levels", "_Bool", "nb"),
]
NAMES = "|".join(t[0] for t in TABLES)


def _w(side, kind):
    return {"rec": "SRC_W" if side == "src" else "DST_W", "don": "DON_W", "n": "1", "lev": "1", "nb": "1", "one": "1"}[kind]


def table_macros():
    out = []
    for side in ("src", "snap"):
        for name, ty, kind in TABLES:
            x = "%s_%s" % (side, name)
            out.append("#define W_%s %s" % (x, _w(side, kind)))
            out.append("#define FOC_%s FOCUS_%s" % (x, name))
            out.append("#define ISSNAP_%s %d" % (x, 1 if side == "snap" else 0))
            if kind == "lev":
                out.append("#define LEN_%s (*%s_n)" % (x, x))
                out.append("#define SETLEN_%s(n) (*%s_n = (n))" % (x, x))
            elif kind == "one":
                out.append("#define LEN_%s ((size_t) 1)" % x)
                out.append("#define SETLEN_%s(n) ((void) 0)" % x)
            else:
                out.append("#define LEN_%s (gsize * %s)" % (x, _w(side, kind)))
                out.append('#define SETLEN_%s(n) FSL_CHECK((n) == LEN_%s, "container model: whole-array assignment between equal shapes (xtensor would resize the destination)")' % (x, x))
    for x in ("elevation", "elevation_snapshot"):
        out.append("#define W_%s 1" % x)
        out.append("#define FOC_%s 1" % x)
        out.append("#define ISSNAP_%s %d" % (x, 1 if x == "elevation_snapshot" else 0))
        out.append("#define LEN_%s (gsize)" % x)
        out.append('#define SETLEN_%s(n) FSL_CHECK((n) == LEN_%s, "container model: whole-array assignment between equal shapes (xtensor would resize the destination)")' % (x, x))
    for name, ty, kind in TABLES:
        out.append("#ifndef FOCUS_%s\n#define FOCUS_%s 0\n#endif" % (name, name))
    return "\n".join(out) + "\n"


MODEL = r"""
/* ---- ghost cell (DESIGN 3.1): AG is an arbitrary flat index / row, owned by the harness */
size_t AG;
#define SNAP_NMAX ((size_t) 1 << 40)
#define SAME_D(x, y) ((x) == (y) || (isnan(x) && isnan(y)))  /* equal double cells (NaN payloads aside) */

/* ---- xtensor assignment models (assumed semantics, see module docstring) */
static inline void fsl_assign_all_z(size_t *dst, const size_t *src, size_t n)
{
    for (size_t k = 0; k < n; ++k)
        __CPROVER_assigns(k, __CPROVER_object_whole(dst))
        __CPROVER_loop_invariant(k <= n)
        __CPROVER_loop_invariant(AG < k ==> dst[AG] == src[AG])
        __CPROVER_decreases(n - k)
    { dst[k] = src[k]; }
}
static inline void fsl_assign_all_d(double *dst, const double *src, size_t n)
{
    for (size_t k = 0; k < n; ++k)
        __CPROVER_assigns(k, __CPROVER_object_whole(dst))
        __CPROVER_loop_invariant(k <= n)
        __CPROVER_loop_invariant(AG < k ==> SAME_D(dst[AG], src[AG]))
        __CPROVER_decreases(n - k)
    { dst[k] = src[k]; }
}
static inline void fsl_assign_all_b(_Bool *dst, const _Bool *src, size_t n)
{
    for (size_t k = 0; k < n; ++k)
        __CPROVER_assigns(k, __CPROVER_object_whole(dst))
        __CPROVER_loop_invariant(k <= n)
        __CPROVER_loop_invariant(AG < k ==> dst[AG] == src[AG])
        __CPROVER_decreases(n - k)
    { dst[k] = src[k]; }
}
/* column 0 of a (nrows x dst_w) table := column 0 of a (nrows x src_w) table: element (i,0) -> (i,0) */
static inline void fsl_assign_col0_z(size_t *dst, size_t dst_w, const size_t *src, size_t src_w, size_t nrows)
{
    for (size_t k = 0; k < nrows; ++k)
        __CPROVER_assigns(k, __CPROVER_object_whole(dst))
        __CPROVER_loop_invariant(k <= nrows)
        __CPROVER_loop_invariant(AG < k ==> dst[AG * dst_w] == src[AG * src_w])
        __CPROVER_decreases(nrows - k)
    { dst[k * dst_w] = src[k * src_w]; }
}
static inline void fsl_assign_col0_d(double *dst, size_t dst_w, const double *src, size_t src_w, size_t nrows)
{
    for (size_t k = 0; k < nrows; ++k)
        __CPROVER_assigns(k, __CPROVER_object_whole(dst))
        __CPROVER_loop_invariant(k <= nrows)
        __CPROVER_loop_invariant(AG < k ==> SAME_D(dst[AG * dst_w], src[AG * src_w]))
        __CPROVER_decreases(nrows - k)
    { dst[k * dst_w] = src[k * src_w]; }
}
/* write-target lemma split: a group follows the assignments into its focus table(s) only.  An assignment into another
 * table writes that table's own, separately allocated buffer and nothing else, so it is skipped after the (syntactic) frame
 * check that its target is a snapshot table. */
#define FSL_NOT_FOCUS(d) FSL_CHECK(ISSNAP_##d, "C16 save.no_alias: the target of an assignment is a table of the snapshot, never of the source")
#define FSL_ASSIGN_ALL(d, s) do { if (FOC_##d) { \
    FSL_CHECK(W_##d == W_##s, "container model: whole-array assignment between equal shapes (xtensor would resize the destination)"); \
    _Generic((d), size_t *: fsl_assign_all_z, double *: fsl_assign_all_d, _Bool *: fsl_assign_all_b)((d), (s), LEN_##s); \
    SETLEN_##d(LEN_##s); } else { FSL_NOT_FOCUS(d); } } while (0)
/* unordered_set models on characteristic functions (one _Bool per node): range insert = union, clear = all false */
static inline void fsl_set_union_b(_Bool *dst, const _Bool *src, size_t n)
{
    for (size_t k = 0; k < n; ++k)
        __CPROVER_assigns(k, __CPROVER_object_whole(dst))
        __CPROVER_loop_invariant(k <= n)
        __CPROVER_loop_invariant(AG < n ==> dst[AG] == (AG < k ? (__CPROVER_loop_entry(dst[AG]) || src[AG]) : __CPROVER_loop_entry(dst[AG])))
        __CPROVER_decreases(n - k)
    { dst[k] = dst[k] || src[k]; }
}
static inline void fsl_set_clear_b(_Bool *dst, size_t n)
{
    for (size_t k = 0; k < n; ++k)
        __CPROVER_assigns(k, __CPROVER_object_whole(dst))
        __CPROVER_loop_invariant(k <= n)
        __CPROVER_loop_invariant((AG < n && AG < k) ==> !dst[AG])
        __CPROVER_decreases(n - k)
    { dst[k] = 0; }
}
#define FSL_SET_UNION(d, s) do { if (FOC_##d) { fsl_set_union_b((d), (s), LEN_##s); } else { FSL_NOT_FOCUS(d); } } while (0)
#define FSL_SET_CLEAR(d) do { if (FOC_##d) { fsl_set_clear_b((d), LEN_##d); } else { FSL_NOT_FOCUS(d); } } while (0)
#define FSL_ASSIGN_COL0(d, s) do { if (FOC_##d) { \
    _Generic((d), size_t *: fsl_assign_col0_z, double *: fsl_assign_col0_d)((d), W_##d, (s), W_##s, gsize); \
    } else { FSL_NOT_FOCUS(d); } } while (0)
""" + table_macros()

# ---------------------------------------------------------------- vocabulary of the objects in scope
GRAPH_RULES = [
    V(r"graph_impl_snapshot\.single_flow\(\)", "snap_single_flow"),
    V(r"graph_impl\.single_flow\(\)", "src_single_flow"),
    V(r"graph_impl_snapshot\.size\(\)", "gsize"),
    V(r"graph_impl\.size\(\)", "gsize"),
    V(r"graph_impl_snapshot\.m_(%s)\b" % NAMES, r"snap_\1"),
    V(r"graph_impl\.m_(%s)\b" % NAMES, r"src_\1"),
    # read-only accessors of the same tables
    V(r"graph_impl_snapshot\.(%s)\(\)" % NAMES, r"snap_\1"),
    V(r"graph_impl\.(%s)\(\)" % NAMES, r"src_\1"),
    # xtensor column-view assignment: `auto c = xt::col(A, 0); c = xt::col(B, 0);`  and the direct form
    V(r"auto\s+(\w+)\s*=\s*xt::col\(\s*(\w+)\s*,\s*0\s*\);\s*\1\s*=\s*xt::col\(\s*(\w+)\s*,\s*0\s*\);", r"FSL_ASSIGN_COL0(\2, \3);"),
    V(r"xt::col\(\s*(\w+)\s*,\s*0\s*\)\s*=\s*xt::col\(\s*(\w+)\s*,\s*0\s*\);", r"FSL_ASSIGN_COL0(\1, \2);"),
    # std::unordered_set range insert `dst.insert(src.begin(), src.end())`: set union on the characteristic functions (the destination keeps its elements)
    V(r"\b((?:snap|src)_base_levels)\.insert\(\s*((?:snap|src)_base_levels)\.begin\(\)\s*,\s*\2\.end\(\)\s*\);", r"FSL_SET_UNION(\1, \2);"),
    V(r"\b((?:snap|src)_base_levels)\.clear\(\);", r"FSL_SET_CLEAR(\1);"),
    # xtensor whole-array assignment
    V(r"\b((?:snap|src)_(?:%s))\s*=\s*((?:snap|src)_(?:%s));" % (NAMES, NAMES), r"FSL_ASSIGN_ALL(\1, \2);"),
    # a reference alias to a table (`auto& t = graph_impl_snapshot.m_receivers;`): tables are pointers in the model
    V(r"(?:const\s+)?auto&\s+(\w+)\s*=\s*((?:snap|src)_(?:%s));" % NAMES, r"__typeof__(\2) \1 = \2;"),
    # element access in a changed body
    V(r"\b((?:snap|src)_(?:%s))\.flat\(" % NAMES, r"FSL_FLAT(\1, "),
    V(r"\b((?:snap|src)_(?:%s))\(([^(),]+)\)" % NAMES, r"\1[\2]"),
    V(r"\b((?:snap|src)_(?:%s))\(([^(),]+),\s*([^(),]+)\)" % NAMES, r"\1[(\2) * W_\1 + (\3)]"),
]


def _params(side):
    ps = []
    for name, ty, kind in TABLES:
        ps.append("%s *%s_%s" % (ty, side, name))
        if kind == "lev":
            ps.append("size_t *%s_%s_n" % (side, name))
    return ", ".join(ps)


def _args(side):
    a = []
    for name, ty, kind in TABLES:
        a.append("%s_%s" % (side, name))
        if kind == "lev":
            a.append("%s_%s_n" % (side, name))
    return ", ".join(a)


# the source tables are deliberately NOT const-qualified: that the source lies outside the write
# frame is a checked obligation (assigns clause), not a type error
G_PARAMS = "size_t gsize, _Bool snap_single_flow, _Bool src_single_flow, %s, %s" % (_params("src"), _params("snap"))
G_ARGS = "gsize, snap_single_flow, src_single_flow, %s, %s" % (_args("src"), _args("snap"))

BYTES = {"rec": {"src": "SRC_REC_BYTES", "snap": "DST_REC_BYTES"}, "don": {"src": "DON_BYTES", "snap": "DON_BYTES"}}


def _sel(focus):
    return [t for t in TABLES if focus is None or t[0] in focus]


def _fresh(focus=None):
    """only the focus tables are real objects in a group (write-target lemma split)"""
    out = ["__CPROVER_requires(0 < gsize && gsize <= SNAP_NMAX)"]
    for side in ("src", "snap"):
        for name, ty, kind in _sel(focus):
            x = "%s_%s" % (side, name)
            if kind in BYTES:
                out.append("__CPROVER_requires(__CPROVER_is_fresh(%s, gsize * %s))" % (x, BYTES[kind][side]))
            elif kind == "n":
                out.append("__CPROVER_requires(__CPROVER_is_fresh(%s, gsize * 8))" % x)
            elif kind == "nb":
                out.append("__CPROVER_requires(__CPROVER_is_fresh(%s, gsize * sizeof(_Bool)))" % x)
            elif kind == "one":
                out.append("__CPROVER_requires(__CPROVER_is_fresh(%s, sizeof(_Bool)))" % x)
            else:
                out.append("__CPROVER_requires(__CPROVER_is_fresh(%s, gsize * 8 + 8))" % x)
                out.append("__CPROVER_requires(__CPROVER_is_fresh(%s_n, 8))" % x)
                out.append("__CPROVER_requires(*%s_n <= gsize + 1)" % x)
    # shape facts established by the constructors (C20 contracts): a single-flow graph has one receiver column;
    # a multi-direction snapshot exists only in a sequence that is not all-single, so the live graph has the same width
    out.append("__CPROVER_requires(snap_single_flow ==> DST_W == 1)")
    out.append("__CPROVER_requires(!snap_single_flow ==> SRC_W == DST_W)")
    return "\n".join(out) + "\n"


def _snap_assigns(focus=None):
    t = []
    for name, ty, kind in _sel(focus):
        t.append("__CPROVER_object_whole(snap_%s)" % name)
        if kind == "lev":
            t.append("*snap_%s_n" % name)
    return ", ".join(t)


def _eq(ty, a, b):
    return "SAME_D(%s, %s)" % (a, b) if ty == "double" else "%s == %s" % (a, b)


def covers(name, ty, kind):
    """snapshot table == source table at the ghost cell (from the property: every table an observer reads)"""
    s, d = "src_" + name, "snap_" + name
    if kind in ("n", "nb"):
        return "(AG < gsize ==> %s)" % _eq(ty, d + "[AG]", s + "[AG]")
    if kind == "one":
        return "(AG < 1 ==> %s)" % _eq(ty, d + "[AG]", s + "[AG]")   # a one-cell table: the ghost cell is cell 0
    if kind == "don":
        return "(AG < gsize * DON_W ==> %s)" % _eq(ty, d + "[AG]", s + "[AG]")
    if kind == "lev":
        return "(*%s_n == *%s_n && (AG < *%s_n ==> %s))" % (d, s, s, _eq(ty, d + "[AG]", s + "[AG]"))
    # receiver tables: first column when the snapshot is single-direction, every column otherwise
    return ("(snap_single_flow ? (AG < gsize ==> %s) : (AG < gsize * DST_W ==> %s))"
            % (_eq(ty, d + "[AG * DST_W]", s + "[AG * SRC_W]"), _eq(ty, d + "[AG]", s + "[AG]")))


def unchanged(name, ty, kind):
    d = "snap_" + name
    if kind == "one":
        return _eq(ty, d + "[0]", "__CPROVER_old(%s[0])" % d)
    if kind == "lev":
        return "(*%s_n == __CPROVER_old(*%s_n) && %s)" % (d, d, _eq(ty, d + "[AGC]", "__CPROVER_old(%s[AGC])" % d))
    return _eq(ty, d + "[AGC]", "__CPROVER_old(%s[AGC])" % d)


def covers_ensures(focus=None, guard=""):
    return "".join("__CPROVER_ensures(%s%s)  /* C16 save.covers_state: %s */\n" % (guard, covers(*t), t[0]) for t in _sel(focus))


def _no_loops(m):
    """the unbounded groups have no loop contract to offer for a loop written in the body itself (today's body has none:
    every copy is an xtensor assignment): such a body is an extraction break there (exit 2, never a violation) and is judged
    by the bounded stand-in"""
    if ex.find_loops(m.group(0)):
        raise ex.ExtractionError("snapshot _save: explicit loop in the body (no loop contract available; see the bounded group)")
    return m.group(0)


NO_LOOPS = R(r"\A.*\Z", _no_loops, 1, re.S)


def make_save_graph(focus=None, allow_loops=False):
    return Unit(
        name="snapshot_save_graph", file=SNAP_H,
        anchor=r"void _save\(const FG& graph_impl, FG& graph_impl_snapshot\) const",
        sig="void snapshot_save_graph(%s)" % G_PARAMS,
        pre=MODEL, rules=GRAPH_RULES + ([] if allow_loops else [NO_LOOPS]),
        contract=_fresh(focus) + "/* C16 save.no_alias: only the snapshot's tables are in the write frame */\n"
                 "__CPROVER_assigns(%s)\n" % _snap_assigns(focus) + covers_ensures(focus),
    )


E_PARAMS = "size_t gsize, double *elevation, double *elevation_snapshot"
E_FRESH = ("__CPROVER_requires(0 < gsize && gsize <= SNAP_NMAX)\n"
           "__CPROVER_requires(__CPROVER_is_fresh(elevation, gsize * 8) && __CPROVER_is_fresh(elevation_snapshot, gsize * 8))\n")
E_RULES = [
    V(r"\b(elevation_snapshot|elevation)\s*=\s*(elevation_snapshot|elevation);", r"FSL_ASSIGN_ALL(\1, \2);"),
    V(r"\b(elevation_snapshot|elevation)\.flat\(", r"FSL_FLAT(\1, "),
]
save_elevation = Unit(
    name="snapshot_save_elevation", file=SNAP_H,
    anchor=r"void _save\(const data_array_type& elevation, data_array_type& elevation_snapshot\) const",
    sig="void snapshot_save_elevation(%s)" % E_PARAMS,
    rules=E_RULES,
    contract=E_FRESH + r"""
__CPROVER_assigns(__CPROVER_object_whole(elevation_snapshot))   /* the elevation passed is outside the write frame */
__CPROVER_ensures(AG < gsize ==> SAME_D(elevation_snapshot[AG], elevation[AG]))   /* C16 elevation_snapshot */
""",
)

# ---------------------------------------------------------------- save(): dispatch on the operator's flags
SAVE_RULES = [
    V(r"this->m_op_ptr->save_graph\(\)", "op_save_graph"),
    V(r"this->m_op_ptr->save_elevation\(\)", "op_save_elevation"),
    # get_snapshot(map) = map.at(snapshot_name()): the pre-allocated snapshot object registered under this operator's name (glue, assumed)
    V(r"_save\(\s*graph_impl\s*,\s*get_snapshot\(graph_impl_snapshots\)\s*\);", "snapshot_save_graph(%s);" % G_ARGS),
    V(r"_save\(\s*elevation\s*,\s*get_snapshot\(elevation_snapshots\)\s*\);", "snapshot_save_elevation(gsize, elevation, elevation_snapshot);"),
]
# AGC: second ghost cell for the "untouched when the flag is off" clauses (must be in range for __CPROVER_old)
SAVE_PRE = "size_t AGC;\n"


def make_save(focus=None):
    return Unit(
        name="snapshot_save", file=SNAP_H,
        anchor=r"void save\(const FG& graph_impl,\s*graph_impl_map& graph_impl_snapshots,\s*const data_array_type& elevation,\s*elevation_map& elevation_snapshots\) const",
        sig="void snapshot_save(_Bool op_save_graph, _Bool op_save_elevation, %s, double *elevation, double *elevation_snapshot)" % G_PARAMS,
        pre=SAVE_PRE, rules=SAVE_RULES,
        contract=_fresh(focus) + r"""
__CPROVER_requires(__CPROVER_is_fresh(elevation, gsize * 8) && __CPROVER_is_fresh(elevation_snapshot, gsize * 8))
__CPROVER_requires(AGC < gsize)
__CPROVER_assigns(%s, __CPROVER_object_whole(elevation_snapshot))
""" % _snap_assigns(focus)
        + covers_ensures(focus, "op_save_graph ==> ")
        + "".join("__CPROVER_ensures(!op_save_graph ==> %s)  /* no graph snapshot requested: %s untouched */\n" % (unchanged(*t), t[0]) for t in _sel(focus))
        + r"""
__CPROVER_ensures(op_save_elevation ==> (AG < gsize ==> SAME_D(elevation_snapshot[AG], elevation[AG])))
__CPROVER_ensures(!op_save_elevation ==> SAME_D(elevation_snapshot[AGC], __CPROVER_old(elevation_snapshot[AGC])))
""",
    )


# ---------------------------------------------------------------- harnesses
def _decls():
    d = []
    for side in ("src", "snap"):
        for name, ty, kind in TABLES:
            d.append("%s *%s_%s;" % (ty, side, name))
            if kind == "lev":
                d.append("size_t *%s_%s_n;" % (side, name))
    return " ".join(d)


H_COMMON = "size_t nondet_size_t(void); _Bool nondet_bool(void);\n"

H_GRAPH = H_COMMON + r"""
void h_snapshot_save_graph(void)
{
    size_t gsize = nondet_size_t(); _Bool snap_single_flow = nondet_bool(), src_single_flow = nondet_bool();
    %s   /* pointers outside the group's focus stay invalid: any access through them is a failed obligation */
    AG = nondet_size_t();
    snapshot_save_graph(%s);
    __CPROVER_assert(0, "canary: postcondition point reachable");
}
""" % (_decls(), G_ARGS)

H_ELEV = H_COMMON + r"""
void h_snapshot_save_elevation(void)
{
    size_t gsize = nondet_size_t(); double *elevation, *elevation_snapshot;
    AG = nondet_size_t();
    if (0) fsl_assign_all_d(elevation_snapshot, elevation, 0);   /* keeps the assignment model (and its loop contract) in the binary whatever the body calls */
    snapshot_save_elevation(gsize, elevation, elevation_snapshot);
    __CPROVER_assert(0, "canary: postcondition point reachable");
}
"""

H_SAVE = H_COMMON + r"""
void h_snapshot_save(void)
{
    size_t gsize = nondet_size_t(); _Bool snap_single_flow = nondet_bool(), src_single_flow = nondet_bool();
    %s
    double *elevation, *elevation_snapshot;
    AG = nondet_size_t(); AGC = nondet_size_t();
    snapshot_save(nondet_bool(), nondet_bool(), %s, elevation, elevation_snapshot);
    __CPROVER_assert(0, "canary: postcondition point reachable");
}
""" % (_decls(), G_ARGS)

# bounded stand-in: the same contract with every loop (the assignment models' and any loop a changed body
# may contain) unwound for graphs of at most BND nodes -- never counted as proof
BND = 2
H_GRAPH_BOUNDED = H_COMMON + r"""
void h_snapshot_save_graph_b(void)
{
    size_t gsize = nondet_size_t(); _Bool snap_single_flow = nondet_bool(), src_single_flow = nondet_bool();
    %s
    AG = nondet_size_t();
    __CPROVER_assume(gsize <= %d);
    snapshot_save_graph(%s);
    __CPROVER_assert(0, "canary: postcondition point reachable");
}
""" % (_decls(), BND, G_ARGS)


def defines(src_w, dst_w, nb, focus=()):
    return (["SRC_W=%d" % src_w, "DST_W=%d" % dst_w, "DON_W=%d" % (nb + 1),
             "SRC_REC_BYTES=%d" % (8 * src_w), "DST_REC_BYTES=%d" % (8 * dst_w), "DON_BYTES=%d" % (8 * (nb + 1))]
            + ["FOCUS_%s=1" % f for f in focus])


def _called(unit, names):
    """callees that actually occur in the freshly extracted text (goto-instrument aborts on
    --replace-call-with-contract for a function that is never called)"""
    try:
        text = ex.extract(unit)["text"]
    except ex.ExtractionError:
        return list(names)
    body = text[text.index("{"):]
    return [n for n in names if re.search(r"\b%s\(" % n, body)]


# supporting (not deciding) obligation: the container model's equal-shape check
SUPPORTING = r"container model:"
WIDTHS = [(1, 1, "w1to1"), (8, 1, "w8to1"), (8, 8, "w8to8")]   # (live receiver width, snapshot receiver width)
NB = 8
WHAT = {
    "receivers": "receivers", "receivers_count": "receivers_count", "receivers_distance": "receivers_distance",
    "receivers_weight": "receivers_weight", "donors": "donors (all columns)", "donors_count": "donors_count",
    "dfs_indices": "dfs_indices (bottom-up order)", "bfs_indices": "bfs_indices", "bfs_levels": "bfs_levels including its length",
    "mask": "mask (input of basins() / kernels on the snapshot graph)", "mask_initialized": "mask_initialized (the flag that makes the mask effective)",
    "base_levels": "base_levels (the set, as its characteristic function; input of pits())",
}


def groups():
    gs = []
    for name, ty, kind in TABLES:
        # receiver tables: single/single, multi-width live graph with a single-flow snapshot (the case where column 0 is
        # not the first gsize flat cells), multi/multi.  The other tables do not depend on the receiver widths.
        for (sw, dw, tag) in (WIDTHS if kind == "rec" else [(8, 1, "")]):
            gs.append(Group(
                name="snapshot.save.graph.%s%s" % (name, "." + tag if tag else ""), units=[make_save_graph([name])], harness=H_GRAPH,
                entry="h_snapshot_save_graph", enforce="snapshot_save_graph", loop_contracts=True,
                defines=defines(sw, dw, NB, [name]), backend="sat", timeout=300, min_obligations=40, supporting=SUPPORTING,
                clause="C16 save.covers_state + save.no_alias for the table %s: after _save(graph) it equals the source at an arbitrary "
                       "cell%s; only snapshot tables are written; any number of nodes%s"
                       % (WHAT[name], " (column 0 for a single-flow snapshot, every column otherwise)" if kind == "rec" else "",
                          "; live receiver width %d, snapshot width %d" % (sw, dw) if kind == "rec" else "")))
    gs.append(Group(
        name="snapshot.save.elevation", units=[make_save_graph([]), save_elevation], harness=H_ELEV,
        entry="h_snapshot_save_elevation", enforce="snapshot_save_elevation", loop_contracts=True,
        defines=defines(8, 1, NB), backend="sat", timeout=300, min_obligations=10, supporting=SUPPORTING,
        clause="C16 elevation_snapshot: after _save(elevation) the snapshot equals the elevation passed at an arbitrary cell; the "
               "argument is outside the write frame"))
    # save(): callee contracts for three representative tables (a size_t receiver table, a double receiver table, the
    # dynamic-length order table); the dispatch itself does not depend on which tables the callee contract mentions
    foc = ["receivers", "receivers_weight", "bfs_levels"]
    sv = make_save(foc)
    gs.append(Group(
        name="snapshot.save.dispatch", units=[make_save_graph(foc), save_elevation, sv], harness=H_SAVE,
        entry="h_snapshot_save", enforce="snapshot_save",
        replace=_called(sv, ["snapshot_save_graph", "snapshot_save_elevation"]),
        defines=defines(8, 1, NB, foc), backend="sat", timeout=300, min_obligations=20, supporting=SUPPORTING,
        clause="C16 save(): the graph snapshot is (re)written exactly when the operator's save_graph() flag is set and then satisfies the "
               "_save contract, the elevation snapshot exactly when save_elevation() is set; otherwise the stored snapshot is untouched "
               "(callee contracts instantiated for receivers, receivers_weight, bfs_levels)"))
    gs.append(Group(
        name="snapshot.save.graph.bounded_receivers.w8to1", units=[make_save_graph(["receivers"], allow_loops=True)], harness=H_GRAPH_BOUNDED,
        entry="h_snapshot_save_graph_b", enforce="snapshot_save_graph", unwind=BND + 2,
        defines=defines(8, 1, NB, ["receivers"]), backend="sat", timeout=300, min_obligations=40, supporting=SUPPORTING,
        bounded="graphs of at most %d nodes (all loops unwound %d times)" % (BND, BND + 2),
        clause="bounded stand-in of save.covers_state for the receivers table that also judges bodies containing explicit element "
               "loops (no loop contract needed); live width 8, snapshot width 1"))
    return gs


GROUPS = {"C16": groups()}
PROPS = {
    "C16": dict(
        level="proof",
        assumptions=[
            "xtensor whole-array assignment `dst = src;` modelled as: dst takes the shape of src and dst.flat(k) == src.flat(k) "
            "(element-wise loop with its own loop contract); the model needs equal compile-time widths, checked as a supporting "
            "obligation 'container model:' (xtensor itself would resize the destination)",
            "xtensor column-view assignment `auto c = xt::col(dst, 0); c = xt::col(src, 0);` modelled as dst(i,0) = src(i,0) for every "
            "row i, with the widths of both tables (SRC_W, DST_W) taken into account",
            "write-target lemma split: one group per snapshot table; in the group of table T an assignment into another table is "
            "skipped after the syntactic frame check that its target is a snapshot table (each table is a separately allocated "
            "buffer, so such an assignment cannot touch T); the tables outside the focus are invalid pointers in that group, so any "
            "other access through them fails",
            "table shapes as allocated by the flow_graph_impl constructor (receiver tables gsize x width, donors gsize x "
            "(n_neighbors_max+1), orders gsize, bfs_levels <= gsize+1 with its current length as part of the state); width facts from "
            "the C20 constructor contracts: single-flow snapshot <=> snapshot width 1; a multi-direction snapshot implies the live "
            "graph has the same width",
            "snapshot objects are separately allocated objects (pre-allocation in the flow_graph constructor and the std::map lookup "
            "get_snapshot(...) = map.at(snapshot_name()) are glue); the operator's save_graph()/save_elevation() are its stored flags",
            "receiver widths instantiated at (1,1), (8,1), (8,8) and donors width 9: widths only enter the proof as constants of "
            "linear index arithmetic",
            "the base-level set (std::unordered_set<size_type>) is modelled by its characteristic function over the nodes and its copy-assignment as the "
            "element-wise copy of that function; the mask flag m_mask_initialized is a one-cell table; xt::xarray<bool> mask = one _Bool per node",
        ],
        undecided=[
            "equivalence of accumulate()/basins()/apply_kernel() on the snapshot with a graph running only the prefix, beyond equality "
            "of the tables they read (composition with C03/C19 contracts, not mechanised)",
        ],
        explanation="snapshot.py decides the save.covers_state, save.no_alias and elevation_snapshot clauses; the read-only guards are in opseq.py.",
    ),
}


# native replay: snapshots against prefix graphs on real objects
for _lst in GROUPS.values():
    for _g in _lst:
        if not getattr(_g, "replay", None):
            _g.replay = "replay/snapshot.cpp"
