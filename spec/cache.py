"""Neighbour-index cache (grid/base.hpp: neighbors_cache 117-195, neighbors_no_cache 205-260,
grid::get_nb_indices_from_cache 691-706).  Properties C07 (results independent of the cache type and of the
query history), C09 (cache state never changes a result), C10 (per-node storage handed out to concurrent callers).

std::array<size_t, N> rows of the xtensor `m_cache` are modelled as rows of a flat size_t buffer of width CACHE_N
(container model); `return m_cache[idx];` (a reference to the row) becomes a pointer to the row."""
from fv.extract import Unit, R, V
from fv.runner import Group

BASE_H = "include/fastscapelib/grid/base.hpp"

PRE = r"""
#ifndef FSL_CACHE_COMMON
#define FSL_CACHE_COMMON
#ifndef CACHE_N
#define CACHE_N 8
#endif
#ifndef CACHE_ROWS_LOG2
#define CACHE_ROWS_LOG2 8
#endif
#define ROW(c, i) (&(c)[(i) * CACHE_N])
size_t GI, GI2;            /* ghost nodes */
size_t GEXP[CACHE_N];      /* ghost: what neighbors_indices_impl computes for node GI (a function of the node only) */
size_t GEXP_CNT;           /* ... and how many entries it writes (1 <= count <= CACHE_N on structured grids) */
/* representation invariant of one cache row: empty marker in slot 0, or the computed list */
#define ROW_OK(c, i, exp, cnt) ((c)[(i) * CACHE_N] == SIZE_MAX || ROW_IS((c), (i), (exp), (cnt)))
#endif
"""


def row_is(n):
    return "#define ROW_SAME(c, i) (" + " && ".join("(c)[(i) * CACHE_N + %d] == __CPROVER_old((c)[(i) * CACHE_N + %d])" % (k, k) for k in range(n)) + ")\n" + "#define ROW_IS(c, i, exp, cnt) (" + " && ".join("(%d < (cnt) ==> (c)[(i) * CACHE_N + %d] == (exp)[%d])" % (k, k, k) for k in range(n)) + ")\n"


CACHE_CLS = r"class neighbors_cache\b.*?"
NOCACHE_CLS = r"class neighbors_no_cache\b.*?"

cache_has = Unit(
    name="cache_has", file=BASE_H, anchor=CACHE_CLS + r"bool has\(const std::size_t& idx\) const",
    sig="_Bool cache_has(const size_t *m_cache, size_t cache_size, size_t idx)",
    rules=[V(r"m_cache\[idx\]\[0\]", "m_cache[FSL_IDX1(idx, cache_size) * CACHE_N + 0]")],
    contract=r"""
__CPROVER_requires(cache_size <= ((size_t) 1 << CACHE_ROWS_LOG2) && idx < cache_size && __CPROVER_is_fresh(m_cache, cache_size * (CACHE_N * 8)))
__CPROVER_assigns()
__CPROVER_ensures(__CPROVER_return_value == (m_cache[idx * CACHE_N] != SIZE_MAX))
""",
)

cache_get = Unit(
    name="cache_get", file=BASE_H, anchor=CACHE_CLS + r"neighbors_indices_type& get\(const std::size_t& idx\)",
    sig="size_t *cache_get(size_t *m_cache, size_t cache_size, size_t idx)",
    rules=[V(r"return m_cache\[idx\];", "return ROW(m_cache, FSL_IDX1(idx, cache_size));")],
    contract=r"""
__CPROVER_requires(cache_size <= ((size_t) 1 << CACHE_ROWS_LOG2) && idx < cache_size && __CPROVER_is_fresh(m_cache, cache_size * (CACHE_N * 8)))
__CPROVER_assigns()
__CPROVER_ensures(__CPROVER_return_value == ROW(m_cache, idx))
""",
)

cache_get_storage = Unit(
    name="cache_get_storage", file=BASE_H, anchor=CACHE_CLS + r"neighbors_indices_type& get_storage\(const std::size_t& idx\)",
    sig="size_t *cache_get_storage(size_t *m_cache, size_t cache_size, size_t idx)",
    rules=[V(r"return m_cache\[idx\];", "return ROW(m_cache, FSL_IDX1(idx, cache_size));")],
    contract=r"""
__CPROVER_requires(cache_size <= ((size_t) 1 << CACHE_ROWS_LOG2) && idx < cache_size && __CPROVER_is_fresh(m_cache, cache_size * (CACHE_N * 8)))
__CPROVER_assigns()
__CPROVER_ensures(__CPROVER_return_value == ROW(m_cache, idx))
""",
)

nocache_has = Unit(
    name="nocache_has", file=BASE_H, anchor=NOCACHE_CLS + r"bool has\(const std::size_t&\s*\) const",
    sig="_Bool nocache_has(size_t idx)",
    contract="__CPROVER_assigns()\n__CPROVER_ensures(__CPROVER_return_value == 0)\n",
)

nocache_get_storage = Unit(
    name="nocache_get_storage", file=BASE_H, anchor=NOCACHE_CLS + r"neighbors_indices_type& get_storage\(const std::size_t&\s*\)",
    sig="size_t *nocache_get_storage(size_t *m_node_neighbors, size_t idx)",
    contract="__CPROVER_assigns()\n__CPROVER_ensures(__CPROVER_return_value == m_node_neighbors)\n",
)

# grid::get_nb_indices_from_cache, instantiated with the caching class
GET_RULES_CACHE = [
    V(r"m_neighbors_indices_cache\.has\(idx\)", "cache_has(m_cache, cache_size, idx)"),
    V(r"neighbors_indices_impl_type& n_indices = m_neighbors_indices_cache\.get\(idx\);", "size_t *n_indices = cache_get(m_cache, cache_size, idx);"),
    V(r"neighbors_indices_impl_type& n_indices = m_neighbors_indices_cache\.get_storage\(idx\);", "size_t *n_indices = cache_get_storage(m_cache, cache_size, idx);"),
    V(r"this->derived_grid\(\)\.neighbors_indices_impl\(n_indices, idx\);", "grid_neighbors_indices_impl(n_indices, idx);"),
]

IMPL_CONTRACT = r"""
#ifndef FSL_IMPL_CONTRACT
#define FSL_IMPL_CONTRACT
/* derived_grid().neighbors_indices_impl(buf, idx): writes the node's neighbour list (a function of idx only -- its own
 * contract is C07's business) into the first `count` slots of buf; slot 0 never receives the empty marker */
void grid_neighbors_indices_impl(size_t *buf, size_t idx)
__CPROVER_requires(buf != (size_t *) 0)
__CPROVER_assigns(buf[0], buf[1], buf[2], buf[3], buf[4], buf[5], buf[6], buf[7])
__CPROVER_ensures(idx == GI ==> ROW_IS(buf, 0, GEXP, GEXP_CNT))
__CPROVER_ensures(buf[0] != SIZE_MAX)
;
#endif
"""

get_from_cache = Unit(
    name="get_nb_indices_from_cache", file=BASE_H,
    anchor=r"inline auto grid<G>::get_nb_indices_from_cache\(const size_type& idx\)\s*-> const neighbors_indices_impl_type&",
    sig="const size_t *get_nb_indices_from_cache(size_t *m_cache, size_t cache_size, size_t idx)",
    pre=IMPL_CONTRACT,
    rules=GET_RULES_CACHE,
    contract=r"""
__CPROVER_requires(cache_size <= ((size_t) 1 << CACHE_ROWS_LOG2) && idx < cache_size && GI < cache_size && __CPROVER_is_fresh(m_cache, cache_size * (CACHE_N * 8)))
__CPROVER_requires(1 <= GEXP_CNT && GEXP_CNT <= CACHE_N && GEXP[0] != SIZE_MAX)
__CPROVER_requires(ROW_OK(m_cache, GI, GEXP, GEXP_CNT))       /* representation invariant at the ghost row */
/* write frame: the row of the queried node only (C10: concurrent callers working on different nodes do not interfere);
 * stated through a ghost row GI2 (cheaper for the back end than a sliced assigns target) */
__CPROVER_requires(GI2 < cache_size)
__CPROVER_assigns(__CPROVER_object_whole(m_cache))
__CPROVER_ensures(GI2 != idx ==> ROW_SAME(m_cache, GI2))
__CPROVER_ensures(ROW_OK(m_cache, GI, GEXP, GEXP_CNT))        /* invariant preserved for every row */
__CPROVER_ensures(__CPROVER_return_value == ROW(m_cache, idx))
/* C07/C09: whatever was queried before, the result for node GI is the uncached computation */
__CPROVER_ensures(idx == GI ==> ROW_IS(m_cache, GI, GEXP, GEXP_CNT))
""",
)

get_from_nocache = Unit(
    name="get_nb_indices_from_nocache", file=BASE_H,
    anchor=r"inline auto grid<G>::get_nb_indices_from_cache\(const size_type& idx\)\s*-> const neighbors_indices_impl_type&",
    sig="const size_t *get_nb_indices_from_nocache(size_t *m_node_neighbors, size_t idx)",
    pre=IMPL_CONTRACT,
    rules=[
        V(r"m_neighbors_indices_cache\.has\(idx\)", "nocache_has(idx)"),
        V(r"neighbors_indices_impl_type& n_indices = m_neighbors_indices_cache\.get\(idx\);", "size_t *n_indices = nocache_get_storage(m_node_neighbors, idx);"),
        V(r"neighbors_indices_impl_type& n_indices = m_neighbors_indices_cache\.get_storage\(idx\);", "size_t *n_indices = nocache_get_storage(m_node_neighbors, idx);"),
        V(r"this->derived_grid\(\)\.neighbors_indices_impl\(n_indices, idx\);", "grid_neighbors_indices_impl(n_indices, idx);"),
    ],
    contract=r"""
__CPROVER_requires(__CPROVER_is_fresh(m_node_neighbors, CACHE_N * 8))
__CPROVER_requires(1 <= GEXP_CNT && GEXP_CNT <= CACHE_N && GEXP[0] != SIZE_MAX)
__CPROVER_assigns(__CPROVER_object_whole(m_node_neighbors))
/* C07: without cache the result is the uncached computation too */
__CPROVER_ensures(idx == GI ==> ROW_IS(__CPROVER_return_value, 0, GEXP, GEXP_CNT))
""",
)


H_BOUNDED = r"""
size_t nondet_size_t(void);
#define ROWS 4
/* bounded stand-in for the lazy-cache lookup: a cache of 4 rows (rows are independent: the lookup touches one row) */
void grid_neighbors_indices_impl(size_t *buf, size_t idx)
{
    for (int k = 0; k < CACHE_N; ++k) { size_t v = nondet_size_t(); if (idx == GI && (size_t) k < GEXP_CNT) v = GEXP[k]; buf[k] = v; }
    __CPROVER_assume(buf[0] != SIZE_MAX);
}
void h_lookup_bounded(void)
{
    size_t m_cache[ROWS * CACHE_N], before[ROWS * CACHE_N];
    for (int k = 0; k < ROWS * CACHE_N; ++k) { m_cache[k] = nondet_size_t(); before[k] = m_cache[k]; }
    size_t idx = nondet_size_t(); GI = nondet_size_t(); GI2 = nondet_size_t(); GEXP_CNT = nondet_size_t();
    for (int k = 0; k < CACHE_N; ++k) GEXP[k] = nondet_size_t();
    __CPROVER_assume(idx < ROWS && GI < ROWS && GI2 < ROWS && 1 <= GEXP_CNT && GEXP_CNT <= CACHE_N && GEXP[0] != SIZE_MAX);
    __CPROVER_assume(ROW_OK(m_cache, GI, GEXP, GEXP_CNT));
    const size_t *r = get_nb_indices_from_cache(m_cache, ROWS, idx);
    __CPROVER_assert(ROW_OK(m_cache, GI, GEXP, GEXP_CNT), "C07 cache invariant preserved: every row is empty or equals the uncached list");
    __CPROVER_assert(r == ROW(m_cache, idx), "the lookup returns the row of the queried node");
    __CPROVER_assert(idx == GI ==> ROW_IS(m_cache, GI, GEXP, GEXP_CNT), "C07/C09 the result is the uncached computation whatever was queried before");
    for (int k = 0; k < CACHE_N; ++k) __CPROVER_assert(GI2 != idx ==> m_cache[GI2 * CACHE_N + k] == before[GI2 * CACHE_N + k], "C10 write frame: only the queried node's row");
    __CPROVER_assert(0, "canary: postcondition point reachable");
}
"""

ROWS_UNWIND = 4 * 8 + 2
import copy
get_from_cache_b = copy.copy(get_from_cache)
get_from_cache_b.pre = ""          # the stand-in defines the callee itself
get_from_cache_b.contract = ""


def H(fn, decls, call):
    return r"""
size_t nondet_size_t(void);
void h_%s(void)
{
    %s
    GI = nondet_size_t(); GI2 = nondet_size_t(); GEXP_CNT = nondet_size_t();
    %s;
    __CPROVER_assert(0, "canary: postcondition point reachable");
}
""" % (fn, decls, call)


H_DISJ_CACHE = r"""
size_t nondet_size_t(void);
/* C10: two concurrent callers (different nodes) must be handed different storage */
void h_storage_disjoint_cache(void)
{
    size_t cache_size = nondet_size_t(); size_t i = nondet_size_t(), j = nondet_size_t();
    __CPROVER_assume(cache_size <= ((size_t) 1 << CACHE_ROWS_LOG2) && i < cache_size && j < cache_size && i != j);
    size_t *m_cache = malloc(cache_size * (CACHE_N * 8));
    __CPROVER_assume(m_cache != 0);
    size_t *a = cache_get_storage(m_cache, cache_size, i), *b = cache_get_storage(m_cache, cache_size, j);
    __CPROVER_assert(a + CACHE_N <= b || b + CACHE_N <= a, "C10 storage handed out for different nodes does not overlap (caching grid)");
    __CPROVER_assert(0, "canary: postcondition point reachable");
}
"""
H_DISJ_NOCACHE = r"""
size_t nondet_size_t(void);
void h_storage_disjoint_nocache(void)
{
    size_t i = nondet_size_t(), j = nondet_size_t();
    __CPROVER_assume(i != j);
    size_t buf[CACHE_N];
    size_t *a = nocache_get_storage(buf, i), *b = nocache_get_storage(buf, j);
    __CPROVER_assert(a + CACHE_N <= b || b + CACHE_N <= a, "C10 storage handed out for different nodes does not overlap (cache-less grid)");
    __CPROVER_assert(0, "canary: postcondition point reachable");
}
"""

cache_has.pre = PRE + row_is(8)
nocache_has.pre = PRE + row_is(8)

_HDR = "#include <stdlib.h>\n"
_G_CACHE = [
    Group(name="cache.has", units=[cache_has], harness=H("cache_has", "const size_t *c;", "_Bool r = cache_has(c, nondet_size_t(), nondet_size_t())"),
          entry="h_cache_has", enforce="cache_has", timeout=120, min_obligations=3, clause="has(idx) <=> slot 0 of the row is not the empty marker"),
    Group(name="cache.get_storage", units=[cache_has, cache_get_storage], harness=H("cache_get_storage", "size_t *c;", "size_t *r = cache_get_storage(c, nondet_size_t(), nondet_size_t())"),
          entry="h_cache_get_storage", enforce="cache_get_storage", timeout=120, min_obligations=3, clause="get_storage(idx) is the row of idx"),
    Group(name="cache.get", units=[cache_has, cache_get], harness=H("cache_get", "size_t *c;", "size_t *r = cache_get(c, nondet_size_t(), nondet_size_t())"),
          entry="h_cache_get", enforce="cache_get", timeout=120, min_obligations=3, clause="get(idx) is the row of idx"),
    Group(name="cache.lookup.cached", units=[cache_has, cache_get, cache_get_storage, get_from_cache_b],
          harness=H_BOUNDED, entry="h_lookup_bounded", unwind=ROWS_UNWIND, timeout=300, min_obligations=10,
          bounded="cache of 4 rows, width 8 (the DFCC proof over a symbolic number of rows runs out of memory in the back end)",
          clause="lazy cache: representation invariant (row empty or equal to the uncached list) preserved for every row; the result for a node is the "
                 "uncached computation whatever was queried before; write frame = the queried node's own row"),
    Group(name="cache.lookup.nocache", units=[nocache_has, nocache_get_storage, get_from_nocache],
          harness=H("get_nb_indices_from_nocache", "size_t *b;", "const size_t *r = get_nb_indices_from_nocache(b, nondet_size_t())"),
          entry="h_get_nb_indices_from_nocache", enforce="get_nb_indices_from_nocache",
          replace=["nocache_has", "nocache_get_storage", "grid_neighbors_indices_impl"], timeout=300, min_obligations=5,
          clause="pass-through storage: the result is the uncached computation (same as the cached grid)"),
]
_G_DISJ = [
    Group(name="cache.storage_disjoint.cached", units=[cache_has, cache_get_storage], harness=_HDR + H_DISJ_CACHE, entry="h_storage_disjoint_cache",
          timeout=120, min_obligations=1, clause="per-node storage: different nodes get non-overlapping rows (caching grids)"),
    Group(name="cache.storage_disjoint.nocache", units=[nocache_has, nocache_get_storage], harness=H_DISJ_NOCACHE, entry="h_storage_disjoint_nocache",
          timeout=120, min_obligations=1,
          clause="per-node storage on cache-less grids (every triangular mesh): expected to FAIL -- one shared buffer (known finding F7)"),
]
GROUPS = {"C07": _G_CACHE, "C09": [_G_CACHE[3], _G_CACHE[4]], "C10": _G_DISJ + [_G_CACHE[3]]}
PROPS = {
    "C07": dict(level="other", assumptions=["std::array rows of the cache modelled as rows of a flat buffer; neighbors_indices_impl is a function of the node "
                                            "only and never writes the empty marker into slot 0 (indices are < size <= 2^40)"]),
}
