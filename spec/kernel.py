"""Flow-kernel application (flow/impl/flow_graph_inl.hpp: apply_kernel_seq 288-333, apply_kernel_par 337-414 with its
`run` lambda 374-394, apply_kernel 418-429).  Property C10, kernel clause.

What is decided (unbounded: any number of nodes, levels, threads; ghost order positions GP, GP2 with ghost levels GL, GL2 and a
ghost node-data slot GSL, all arbitrary):
  a. sequential: every position of the chosen order (storage / breadth-first / depth-first according to apply_dir) is processed
     exactly once, position p as the p-th triple, each triple = getter -> func -> setter on the one node-data object and the
     same node index; a getter failure throws; any other apply_dir throws before any callback runs.
  b. multi-threaded (sequential model of thread_pool::run_blocks: the blocks of SOME partition of the level into at most
     pool-size contiguous non-empty blocks, block k run with runner k -- the contract proved in spec/pool.py): every position of
     every level is processed exactly once, with the node data of a slot `runner < n_threads`; all triples of a level are
     complete before a triple of a later level starts (program order in the sequential model; the real synchronisation is C11's
     undecided clause); levels smaller than min_level_size run inline on slot 0; the pool is resized to n_threads before any
     dispatch; node data are created (and initialised) before the first triple and freed after the last, once per slot.
  c. apply_kernel: n_threads > 1 selects the multi-threaded path, otherwise the sequential one.

The kernel callbacks are user std::function objects.  Each is modelled as an OPAQUE RECORDER: its only effect is to update the
ghost record KG (event clock, counters for the ghost positions / slot, a protocol monitor getter->func->setter) and to return an
unconstrained value.  They are given as C bodies rather than as replaced contracts so that a changed caller that drops a call is
still judged by its contract (goto-instrument aborts on `--replace-call-with-contract f` for an f that is never called)."""
import re

from fv.extract import Unit, R, V, RB
from fv.runner import Group

INL_H = "include/fastscapelib/flow/impl/flow_graph_inl.hpp"

MODEL = r"""
#ifndef FSL_KERNEL_MODEL
#define FSL_KERNEL_MODEL
typedef size_t fsl_handle;   /* an opaque void* of the kernel API (node data, kernel data): never dereferenced by the library */
/* flow_kernel.hpp:20-27 */
enum { DIR_any = 0, DIR_depth_downstream = 1, DIR_depth_upstream = 2, DIR_breadth_downstream = 3, DIR_breadth_upstream = 4 };
/* detail::flow_kernel, scalar members; has_init = bool(node_data_init) */
struct kernel { int n_threads; int min_block_size; int min_level_size; int apply_dir; _Bool has_init; };
#define K_NMAX ((size_t) 1 << 40)
/* the event clock does not wrap: at most 2 events per slot and 3 per position */
#define EVT_MAX ((size_t) 1 << 52)
#define EVT_LEVEL_MAX ((size_t) 1 << 51)

/* ---- ghost parameters (arbitrary, owned by the harness): two order positions with the node index stored there, a node-data slot */
size_t GP, GNODE, GL;      /* position GP of the order holds node GNODE; GP lies in level GL */
size_t GP2, GNODE2, GL2;
size_t GSL;                /* a node-data slot == the handle created by the GSL-th call of node_data_create */

/* ---- ghost record written by the callback recorders and by the pool model */
struct kghost
{
    size_t evt;                       /* event clock: one tick per callback call */
    size_t ncreated, nfree, nget, nset;
    int phase;                        /* protocol monitor: 0 idle, 1 after getter, 2 after func */
    size_t cur_idx; fsl_handle cur_nd;
    int bad;                          /* sticky: a call out of protocol (wrong phase, other node data / node index / kernel data than the triple's) */
    int get_failed;                   /* some getter returned non-zero */
    int alien;                        /* sticky: a getter received node data that no node_data_create call has returned */
    fsl_handle data;                  /* the kernel data handle every callback must receive */
    /* triples at the ghost positions */
    size_t g_get, g_func, g_set; fsl_handle g_nd; size_t g_get_clk, g_set_clk, g_get_ord, g_runner;
    size_t h_get, h_func, h_set; fsl_handle h_nd; size_t h_get_clk, h_set_clk, h_get_ord, h_runner;
    /* life cycle of the node data of slot GSL */
    size_t s_create, s_init, s_free; size_t s_create_nget, s_init_nget, s_init_ncreated, s_free_nset;
    /* worker pool (thread_pool members m_size / m_paused as far as the dispatch depends on them) */
    size_t pool_size; int pool_paused; size_t n_run_blocks;
} KG;
int nondet_int(void); size_t nondet_size_t(void);

static fsl_handle k_node_data_create(void)
{
    fsl_handle h = KG.ncreated;      /* ASSUMED: every call returns a new object (modelled: the creation ordinal) */
    if (KG.phase != 0) KG.bad = 1;
    if (h == GSL) { KG.s_create = KG.s_create + 1; KG.s_create_nget = KG.nget; }
    KG.ncreated = KG.ncreated + 1; KG.evt = KG.evt + 1;
    return h;
}
static void k_node_data_init(fsl_handle nd, fsl_handle data)
{
    if (KG.phase != 0 || data != KG.data) KG.bad = 1;
    if (nd == GSL) { KG.s_init = KG.s_init + 1; KG.s_init_nget = KG.nget; KG.s_init_ncreated = KG.ncreated; }
    KG.evt = KG.evt + 1;
}
static int k_node_data_getter(size_t idx, fsl_handle data, fsl_handle nd)
{
    if (KG.phase != 0 || data != KG.data) KG.bad = 1;
    if (nd >= KG.ncreated) KG.alien = 1;
    KG.phase = 1; KG.cur_idx = idx; KG.cur_nd = nd;
    if (idx == GNODE) { KG.g_get = KG.g_get + 1; KG.g_nd = nd; KG.g_get_clk = KG.evt; KG.g_get_ord = KG.nget; }
    if (idx == GNODE2) { KG.h_get = KG.h_get + 1; KG.h_nd = nd; KG.h_get_clk = KG.evt; KG.h_get_ord = KG.nget; }
    KG.nget = KG.nget + 1; KG.evt = KG.evt + 1;
    int r = nondet_int();
    if (r) KG.get_failed = 1;
    return r;
}
static int k_func(fsl_handle nd)
{
    if (KG.phase != 1 || nd != KG.cur_nd) KG.bad = 1;
    KG.phase = 2;
    if (KG.cur_idx == GNODE) KG.g_func = KG.g_func + 1;
    if (KG.cur_idx == GNODE2) KG.h_func = KG.h_func + 1;
    KG.evt = KG.evt + 1;
    return nondet_int();
}
static int k_node_data_setter(size_t idx, fsl_handle nd, fsl_handle data)
{
    if (KG.phase != 2 || nd != KG.cur_nd || idx != KG.cur_idx || data != KG.data) KG.bad = 1;
    KG.phase = 0;
    if (idx == GNODE) { KG.g_set = KG.g_set + 1; KG.g_set_clk = KG.evt; }
    if (idx == GNODE2) { KG.h_set = KG.h_set + 1; KG.h_set_clk = KG.evt; }
    KG.nset = KG.nset + 1; KG.evt = KG.evt + 1;
    return nondet_int();
}
static void k_node_data_free(fsl_handle nd)
{
    if (KG.phase != 0) KG.bad = 1;
    if (nd == GSL) { KG.s_free = KG.s_free + 1; KG.s_free_nset = KG.nset; }
    KG.nfree = KG.nfree + 1; KG.evt = KG.evt + 1;
}
#define B01(x) ((x) == 0 || (x) == 1)
/* nothing recorded yet */
#define KG_ZERO (KG.evt == 0 && KG.ncreated == 0 && KG.nfree == 0 && KG.nget == 0 && KG.nset == 0 && KG.phase == 0 && KG.bad == 0 \
    && KG.get_failed == 0 && KG.alien == 0 && KG.g_get == 0 && KG.g_func == 0 && KG.g_set == 0 && KG.h_get == 0 && KG.h_func == 0 && KG.h_set == 0 \
    && KG.s_create == 0 && KG.s_init == 0 && KG.s_free == 0 && KG.n_run_blocks == 0)
#define G_ONCE (KG.g_get == 1 && KG.g_func == 1 && KG.g_set == 1)
#define H_ONCE (KG.h_get == 1 && KG.h_func == 1 && KG.h_set == 1)
#define G_NONE (KG.g_get == 0 && KG.g_func == 0 && KG.g_set == 0)
#define H_NONE (KG.h_get == 0 && KG.h_func == 0 && KG.h_set == 0)
#endif
"""

# vocabulary of the objects in scope of flow_graph::apply_kernel_*: the kernel (scalars + callbacks), the kernel data, the graph
# implementation's order / level tables, the worker pool
KERNEL_VOCAB = [
    V(r"using nodes_indices_type = [^;]*;", ""),
    V(r"const nodes_indices_type\s*\*\s*indices\s*,\s*\*\s*levels;", "const size_t *indices; size_t indices_n; const size_t *levels; size_t levels_n;"),
    V(r"const nodes_indices_type\s*\*\s*indices;", "const size_t *indices; size_t indices_n;"),
    V(r"\b(indices|levels) = &impl\(\)\.(\w+)\(\);", r"{ \1 = m_\2; \1_n = m_\2_n; }"),
    V(r"flow_graph_traversal_dir::(\w+)", r"DIR_\1"),
    V(r"throw std::runtime_error\(\s*\"[^;]*\);", "{ FSL_THROW(1); return FSL_RET; }", re.S),
    V(r"\(\*(indices|levels)\)\[([^\[\]]*)\]", r"\1[FSL_IDX1(\2, \1_n)]"),
    V(r"\b(indices|levels)->size\(\)", r"\1_n"),
    # node data life cycle; the IH instance at the read in the free loop is explained in PROPS
    V(r"kernel\.node_data_free\(node_data\[(\w+)\]\);", r"{ FSL_PRE(node_data[\1] == (fsl_handle) (\1)); k_node_data_free(node_data[FSL_IDX1(\1, node_data_n)]); }"),
    V(r"\bauto (\w+) = kernel\.node_data_create\(\);", r"fsl_handle \1 = k_node_data_create();"),
    V(r"if \(kernel\.node_data_init\)", "if (kernel->has_init)"),
    V(r"kernel\.node_data_(create|init|getter|setter|free)\(", r"k_node_data_\1("),
    V(r"kernel\.func\(", "k_func("),
    V(r"kernel\.(n_threads|min_block_size|min_level_size|apply_dir)\b", r"kernel->\1"),
    V(r"\bdata\.data\b", "kdata"),
    V(r"\bnode_data\[([^\[\]]*)\]", r"node_data[FSL_IDX1(\1, node_data_n)]"),
    V(r"m_thread_pool\.resume\(\);", "KG.pool_paused = 0;"),
    V(r"m_thread_pool\.pause\(\);", "KG.pool_paused = 1;"),
    V(r"m_thread_pool\.resize\(([^;]*)\);", r"KG.pool_size = (size_t) (\1);"),
]

TABLES = ("const size_t *m_storage_indices, const size_t *m_bfs_indices, const size_t *m_dfs_indices, size_t gsize, "
          "const size_t *m_any_order_levels, size_t m_any_order_levels_n, const size_t *m_bfs_levels, size_t m_bfs_levels_n")
TABLE_DEFS = r"""
#define m_storage_indices_n gsize
#define m_bfs_indices_n gsize
#define m_dfs_indices_n gsize
"""
FRESH_KERNEL = r"""
__CPROVER_requires(__CPROVER_is_fresh(kernel, sizeof(*kernel)) && B01(kernel->has_init))
"""
FRESH_ORDERS = r"""
__CPROVER_requires(gsize <= K_NMAX)
__CPROVER_requires(__CPROVER_is_fresh(m_storage_indices, gsize * sizeof(size_t)) && __CPROVER_is_fresh(m_bfs_indices, gsize * sizeof(size_t))
                   && __CPROVER_is_fresh(m_dfs_indices, gsize * sizeof(size_t)))
"""

# ====================================================================================================== a. sequential
SEQ_SUPPORTED = "(kernel->apply_dir == DIR_any || kernel->apply_dir == DIR_breadth_upstream || kernel->apply_dir == DIR_depth_upstream)"
SEQ_ORDER = "(kernel->apply_dir == DIR_any ? m_storage_indices : kernel->apply_dir == DIR_breadth_upstream ? m_bfs_indices : m_dfs_indices)"

kernel_seq = Unit(
    name="kernel_seq", file=INL_H,
    anchor=r"int flow_graph<G, S, Tag>::apply_kernel_seq\(FK& kernel, FKD& data\)",
    sig="int kernel_seq(const struct kernel *kernel, fsl_handle kdata, %s)" % TABLES,
    pre=MODEL, defs=TABLE_DEFS + "#define FSL_RET 0\n#define SPEC_ORDER %s\n" % SEQ_ORDER,
    rules=[
        # range-for over the order table -> index loop, element read first.  The read carries the instance of the order's
        # permutation clause (C06: no node occurs at two positions) at the position read.
        R(r"for \(std::size_t i : \*indices\)\s*\{",
          "for (size_t pos_ = 0; pos_ < indices_n; ++pos_)\n{ size_t i = indices[FSL_IDX1(pos_, indices_n)]; "
          "FSL_PRE((SPEC_ORDER[pos_] == GNODE) == (pos_ == GP)); /* the order the PROPERTY names for the given apply_dir is injective (C06 permutation), instance at the position being processed */", 1),
    ] + KERNEL_VOCAB,
    contract=FRESH_KERNEL + FRESH_ORDERS + r"""
/* ghost position GP of the chosen order holds node GNODE */
__CPROVER_requires(GP < gsize && %(ORDER)s[GP] == GNODE && GNODE2 == GNODE && GSL == 0)
__CPROVER_requires(KG_ZERO && KG.data == kdata && fsl_thrown == 0)
__CPROVER_assigns(KG, fsl_thrown)
/* refused exactly for an order other than any / breadth-first upstream / depth-first upstream, or when a getter reports failure */
__CPROVER_ensures((fsl_thrown != 0) == (!%(SUP)s || KG.get_failed))
__CPROVER_ensures(!%(SUP)s ==> KG.evt == 0)
__CPROVER_ensures(fsl_thrown == 0 ==> (__CPROVER_return_value == 0
    /* every call in protocol: getter -> func -> setter, same node data, same node index, the kernel's data */
    && !KG.bad && !KG.alien && KG.phase == 0
    /* one triple per position, the triple of position GP is the GP-th one and is the only one on node GNODE */
    && KG.nget == gsize && KG.nset == gsize && G_ONCE && KG.g_get_ord == GP
    /* one node-data object: created (and initialised iff an initialiser is given) before the first triple, freed after the last */
    && KG.ncreated == 1 && KG.nfree == 1 && KG.g_nd == 0
    && KG.s_create == 1 && KG.s_create_nget == 0 && KG.s_init == (kernel->has_init ? 1 : 0)
    && (kernel->has_init ==> (KG.s_init_nget == 0 && KG.s_init_ncreated == 1))
    && KG.s_free == 1 && KG.s_free_nset == gsize))
""" % dict(ORDER=SEQ_ORDER, SUP=SEQ_SUPPORTED),
    loops={0: r"""
__CPROVER_assigns(pos_, KG, fsl_thrown)
__CPROVER_loop_invariant(pos_ <= indices_n && fsl_thrown == 0 && !KG.get_failed && !KG.bad && !KG.alien && KG.phase == 0 && KG.data == kdata)
__CPROVER_loop_invariant(KG.nget == pos_ && KG.nset == pos_ && KG.ncreated == 1 && KG.nfree == 0)
__CPROVER_loop_invariant(GP < pos_ ? (G_ONCE && KG.g_get_ord == GP && KG.g_nd == 0) : G_NONE)
__CPROVER_loop_invariant(KG.s_create == 1 && KG.s_create_nget == 0 && KG.s_init == (kernel->has_init ? 1 : 0) && KG.s_free == 0)
__CPROVER_loop_invariant(kernel->has_init ==> (KG.s_init_nget == 0 && KG.s_init_ncreated == 1))
__CPROVER_decreases(indices_n - pos_)
"""},
)

H_DECLS = r"""
_Bool nondet_bool(void);
static void kg_havoc(void)
{
    /* the ghost record is arbitrary; the contract's requires constrain it */
    struct kghost z; KG = z;
    GP = nondet_size_t(); GNODE = nondet_size_t(); GL = nondet_size_t(); GP2 = nondet_size_t(); GNODE2 = nondet_size_t(); GL2 = nondet_size_t();
    GSL = nondet_size_t();
}
"""

H_SEQ = H_DECLS + r"""
void h_kernel_seq(void)
{
    const struct kernel *kernel; const size_t *st, *bfs, *dfs, *al, *bl;
    kg_havoc();
    int r = kernel_seq(kernel, nondet_size_t(), st, bfs, dfs, nondet_size_t(), al, nondet_size_t(), bl, nondet_size_t());
    __CPROVER_assert(0, "canary: postcondition point reachable");
}
"""

_SEQ = [Group(
    name="kernel.seq", units=[kernel_seq], harness=H_SEQ, entry="h_kernel_seq", enforce="kernel_seq", loop_contracts=True,
    backend="sat", timeout=600, min_obligations=20,
    clause="apply_kernel_seq, any number of nodes: the order is chosen by apply_dir (storage / breadth-first / depth-first), any other "
           "direction throws before any callback; position p is processed as the p-th triple getter -> func -> setter on the single node-data "
           "object, exactly once; a getter failure throws; node data created/initialised before and freed after")]


# ====================================================================================================== b. multi-threaded
def same(fields, old="__CPROVER_old"):
    return "(" + " && ".join("KG.%s == %s(KG.%s)" % (f, old, f) for f in fields) + ")"


LIFE = ["ncreated", "nfree", "s_create", "s_init", "s_free", "s_create_nget", "s_init_nget", "s_init_ncreated", "s_free_nset", "pool_size", "pool_paused"]
GF = ["g_get", "g_func", "g_set", "g_nd", "g_get_clk", "g_set_clk", "g_runner"]
HF = ["h_get", "h_func", "h_set", "h_nd", "h_get_clk", "h_set_clk", "h_runner"]


def triple_done(p, old, lo, extra=""):
    """the triple of ghost position g/h ran exactly once since `old`, on the node data of slot <p>_runner, inside the clock window"""
    return ("(KG.%(p)s_get == %(old)s(KG.%(p)s_get) + 1 && KG.%(p)s_func == %(old)s(KG.%(p)s_func) + 1 && KG.%(p)s_set == %(old)s(KG.%(p)s_set) + 1 "
            "&& KG.%(p)s_runner < node_data_n && KG.%(p)s_nd == node_data[KG.%(p)s_runner] "
            "&& %(lo)s <= KG.%(p)s_get_clk && KG.%(p)s_get_clk < KG.%(p)s_set_clk && KG.%(p)s_set_clk < KG.evt%(extra)s)") % dict(p=p, old=old, lo=lo, extra=extra)


BLOCK_PARAMS = "const struct kernel *kernel, fsl_handle kdata, const size_t *indices, size_t indices_n, const fsl_handle *node_data, size_t node_data_n"
BLOCK_ARGS = "kernel, kdata, indices, indices_n, node_data, node_data_n"
BLOCK_REQ = FRESH_KERNEL + r"""
__CPROVER_requires(indices_n <= K_NMAX && 1 <= node_data_n && node_data_n <= K_NMAX)
__CPROVER_requires(__CPROVER_is_fresh(indices, indices_n * sizeof(size_t)) && __CPROVER_is_fresh(node_data, node_data_n * sizeof(fsl_handle)))
/* ghost positions: GP holds node GNODE, GP2 holds node GNODE2 */
__CPROVER_requires(GP < indices_n && indices[GP] == GNODE && GP2 < indices_n && indices[GP2] == GNODE2)
__CPROVER_requires(KG.phase == 0 && KG.data == kdata && fsl_thrown == 0 && !KG.get_failed && KG.evt <= EVT_MAX)
"""
PAR_ANCHOR = r"int flow_graph<G, S, Tag>::apply_kernel_par\(FK& kernel, FKD& data\)"

kernel_par_block = Unit(
    name="kernel_par_block", file=INL_H, anchor=PAR_ANCHOR,
    inner=r"auto run = \[[^\]]*\]\(\s*std::size_t runner, std::size_t start, std::size_t end\)\s*\{",
    sig="void kernel_par_block(size_t runner, size_t start, size_t end, %s)" % BLOCK_PARAMS,
    pre=MODEL, defs="#define FSL_RET\n",
    # which block holds the ghost positions is recorded here (the callbacks do not see the runner)
    body_prefix="FSL_GHOST(if (start <= GP && GP < end) KG.g_runner = runner; if (start <= GP2 && GP2 < end) KG.h_runner = runner;)\n",
    rules=[
        V(r"for \(auto (\w+) = start;", r"for (size_t \1 = start;"),
        # element read of the order + the instances of its permutation clause (C06) for the two ghost nodes at the position read
        V(r"auto (\w+) = \(\*indices\)\[(\w+)\];",
          r"size_t \1 = indices[FSL_IDX1(\2, indices_n)]; FSL_PRE((\1 == GNODE) == (\2 == GP)); FSL_PRE((\1 == GNODE2) == (\2 == GP2));"),
        V(r"auto (\w+) = node_data\[(\w+)\];", r"fsl_handle \1 = node_data[FSL_IDX1(\2, node_data_n)];"),
    ] + KERNEL_VOCAB,
    contract=BLOCK_REQ + r"""
/* the node-data vector has n_threads entries: the runner must be one of them (proved at every call site) */
__CPROVER_requires(runner < node_data_n)
__CPROVER_requires(start <= end && end <= indices_n)
__CPROVER_assigns(KG, fsl_thrown)
__CPROVER_ensures((fsl_thrown != 0) == (KG.get_failed != 0))
__CPROVER_ensures(fsl_thrown == 0 ==> (KG.phase == 0 && KG.bad == __CPROVER_old(KG.bad) && KG.data == kdata
    && KG.nget == __CPROVER_old(KG.nget) + (end - start) && KG.nset == __CPROVER_old(KG.nset) + (end - start)
    && KG.evt == __CPROVER_old(KG.evt) + 3 * (end - start) && KG.n_run_blocks == __CPROVER_old(KG.n_run_blocks) && %(LIFE)s))
/* a position inside the block: its triple ran once, on node_data[runner]; a position outside: untouched */
__CPROVER_ensures(fsl_thrown == 0 ==> ((start <= GP && GP < end) ? (%(GDONE)s && KG.g_runner == runner) : %(GSAME)s))
__CPROVER_ensures(fsl_thrown == 0 ==> ((start <= GP2 && GP2 < end) ? (%(HDONE)s && KG.h_runner == runner) : %(HSAME)s))
""" % dict(LIFE=same(LIFE), GDONE=triple_done("g", "__CPROVER_old", "__CPROVER_old(KG.evt)"), GSAME=same(GF),
           HDONE=triple_done("h", "__CPROVER_old", "__CPROVER_old(KG.evt)"), HSAME=same(HF)),
    loops={0: r"""
__CPROVER_assigns(i, KG, fsl_thrown)
__CPROVER_loop_invariant(start <= i && i <= end && fsl_thrown == 0 && !KG.get_failed && KG.phase == 0 && KG.bad == __CPROVER_loop_entry(KG.bad) && KG.data == kdata)
__CPROVER_loop_invariant(KG.nget == __CPROVER_loop_entry(KG.nget) + (i - start) && KG.nset == __CPROVER_loop_entry(KG.nset) + (i - start)
    && KG.evt == __CPROVER_loop_entry(KG.evt) + 3 * (i - start) && KG.n_run_blocks == __CPROVER_loop_entry(KG.n_run_blocks) && %(LIFE)s)
__CPROVER_loop_invariant(KG.g_runner == __CPROVER_loop_entry(KG.g_runner) && KG.h_runner == __CPROVER_loop_entry(KG.h_runner))
__CPROVER_loop_invariant((start <= GP && GP < i) ? %(GDONE)s : %(GSAME)s)
__CPROVER_loop_invariant((start <= GP2 && GP2 < i) ? %(HDONE)s : %(HSAME)s)
__CPROVER_decreases(end - i)
""" % dict(LIFE=same(LIFE, "__CPROVER_loop_entry"), GDONE=triple_done("g", "__CPROVER_loop_entry", "__CPROVER_loop_entry(KG.evt)"),
           GSAME=same(GF, "__CPROVER_loop_entry"), HDONE=triple_done("h", "__CPROVER_loop_entry", "__CPROVER_loop_entry(KG.evt)"),
           HSAME=same(HF, "__CPROVER_loop_entry"))},
)

H_BLOCK = H_DECLS + r"""
void h_kernel_par_block(void)
{
    const struct kernel *kernel; const size_t *indices; const fsl_handle *node_data;
    kg_havoc();
    kernel_par_block(nondet_size_t(), nondet_size_t(), nondet_size_t(), kernel, nondet_size_t(), indices, nondet_size_t(), node_data, nondet_size_t());
    __CPROVER_assert(0, "canary: postcondition point reachable");
}
"""

_PAR = [Group(
    name="kernel.par.block", units=[kernel_par_block], harness=H_BLOCK, entry="h_kernel_par_block", enforce="kernel_par_block",
    loop_contracts=True, backend="cadical", timeout=600, min_obligations=20,
    clause="the `run` lambda of apply_kernel_par on one block (runner, [start, end)): every position of the block is processed exactly once "
           "(getter -> func -> setter, same node index) with node_data[runner]; positions outside the block are untouched; a getter failure throws")]


# ---------------------------------------------------------------------------------------------------- one level (dispatch)
POOL_MODEL = r"""
#define KERNEL_RUN(r, s, e) kernel_par_block((r), (s), (e), %(ARGS)s)
/* Sequential model of thread_pool::run_blocks(first, last, run, min_size) (contract proved in spec/pool.py, C11 block-partition
 * clause): the callback runs once on each block of SOME partition of [first, last) into contiguous non-empty blocks, at most one
 * per worker (pool size), block k with runner k.  Blocks run one after the other here: that every interleaving of the real workers
 * gives the same result is the (unmechanised) DRF lemma plus the pool's synchronisation (C11, undecided). */
#define FSL_RUN_BLOCKS(first, last, min_size)                                                                   \
    {                                                                                                           \
        size_t rb_f = (first), rb_l = (last), rb_k = 0, rb_s = (first);                                        \
        (void) (min_size);                                                                                      \
        KG.n_run_blocks = KG.n_run_blocks + 1;                                                                  \
        __CPROVER_assert(KG.pool_size >= 1, "run_blocks precondition (pool.py): the pool has at least one worker"); \
        while (rb_s < rb_l)                                                                                     \
        __CPROVER_assigns(rb_s, rb_k, KG, fsl_thrown)                                                           \
        __CPROVER_loop_invariant(rb_f <= rb_s && rb_s <= rb_l && (rb_s < rb_l ==> rb_k < KG.pool_size))         \
        __CPROVER_loop_invariant(fsl_thrown == 0 && !KG.get_failed && KG.phase == 0 && KG.bad == __CPROVER_loop_entry(KG.bad) && KG.data == kdata) \
        __CPROVER_loop_invariant(KG.nget == __CPROVER_loop_entry(KG.nget) + (rb_s - rb_f) && KG.nset == __CPROVER_loop_entry(KG.nset) + (rb_s - rb_f) \
            && KG.evt == __CPROVER_loop_entry(KG.evt) + 3 * (rb_s - rb_f) && KG.n_run_blocks == __CPROVER_loop_entry(KG.n_run_blocks) && %(LIFE)s) \
        __CPROVER_loop_invariant((rb_f <= GP && GP < rb_s) ? %(GDONE)s : %(GSAME)s)                              \
        __CPROVER_loop_invariant((rb_f <= GP2 && GP2 < rb_s) ? %(HDONE)s : %(HSAME)s)                            \
        __CPROVER_decreases(rb_l - rb_s)                                                                        \
        {                                                                                                       \
            size_t rb_e = nondet_size_t();                                                                      \
            __CPROVER_assume(rb_s < rb_e && rb_e <= rb_l && (rb_k + 1 < KG.pool_size || rb_e == rb_l));         \
            KERNEL_RUN(rb_k, rb_s, rb_e);                                                                       \
            if (fsl_thrown) break;                                                                              \
            rb_s = rb_e; rb_k = rb_k + 1;                                                                       \
        }                                                                                                       \
    }
""" % dict(ARGS=BLOCK_ARGS, LIFE=same(LIFE, "__CPROVER_loop_entry"),
           GDONE=triple_done("g", "__CPROVER_loop_entry", "__CPROVER_loop_entry(KG.evt)"), GSAME=same(GF, "__CPROVER_loop_entry"),
           HDONE=triple_done("h", "__CPROVER_loop_entry", "__CPROVER_loop_entry(KG.evt)"), HSAME=same(HF, "__CPROVER_loop_entry"))
POOL_MODEL = "\n".join(l.rstrip() if not l.rstrip().endswith("\\") else l.rstrip()[:-1].rstrip() + " \\" for l in POOL_MODEL.splitlines()) + "\n"

LEVEL_PARAMS = "const struct kernel *kernel, fsl_handle kdata, const size_t *indices, size_t indices_n, const size_t *levels, size_t levels_n, const fsl_handle *node_data, size_t node_data_n"
LEVEL_ARGS = "kernel, kdata, indices, indices_n, levels, levels_n, node_data, node_data_n"
SMALL = "(levels[%s] - levels[%s - 1] < (size_t) kernel->min_level_size)"
# level-table contract (C06 breadth-first levels postcondition): levels[0] == 0, non-decreasing, last == number of nodes.
# Instances used by the level step: at the two entries read, and between them and the entries bounding the ghost positions' levels.
LEVEL_INST = ("levels[i - 1] <= levels[i] && levels[i] <= indices_n "
              "&& (i < GL ==> levels[i] <= levels[GL - 1]) && (i > GL ==> levels[GL] <= levels[i - 1]) "
              "&& (i < GL2 ==> levels[i] <= levels[GL2 - 1]) && (i > GL2 ==> levels[GL2] <= levels[i - 1])")
GHOST_LEVELS = ("1 <= GL && GL < levels_n && levels[GL - 1] <= GP && GP < levels[GL] && 1 <= GL2 && GL2 < levels_n && levels[GL2 - 1] <= GP2 && GP2 < levels[GL2]")

kernel_par_level = Unit(
    name="kernel_par_level", file=INL_H, anchor=PAR_ANCHOR,
    inner=r"for \(std::size_t i = [^;]*; i < levels->size\(\); \+\+i\)\s*\{",
    sig="void kernel_par_level(size_t i, %s)" % LEVEL_PARAMS,
    pre=POOL_MODEL, defs="#define FSL_RET\n",
    rules=[
        V(r"\brun\(((?:[^;()]|\([^()]*\))*)\);", r"{ KERNEL_RUN(\1); if (fsl_thrown) return; }"),
        V(r"m_thread_pool\.run_blocks\(([^;]*), run, ([^;]*)\);", r"{ FSL_RUN_BLOCKS(\1, \2); if (fsl_thrown) return; }"),
    ] + KERNEL_VOCAB,
    contract=BLOCK_REQ.replace("EVT_MAX", "EVT_LEVEL_MAX") + r"""
__CPROVER_requires(levels_n <= K_NMAX && __CPROVER_is_fresh(levels, levels_n * sizeof(size_t)) && 1 <= i && i < levels_n)
__CPROVER_requires(%(GHOST_LEVELS)s)
__CPROVER_requires(%(LEVEL_INST)s)
/* the pool has been resized to the number of node-data slots (proved at the call site in apply_kernel_par) */
__CPROVER_requires(KG.pool_size == node_data_n)
__CPROVER_assigns(KG, fsl_thrown)
__CPROVER_ensures((fsl_thrown != 0) == (KG.get_failed != 0))
__CPROVER_ensures(fsl_thrown == 0 ==> (KG.phase == 0 && KG.bad == __CPROVER_old(KG.bad) && KG.data == kdata
    && KG.nget == __CPROVER_old(KG.nget) + (levels[i] - levels[i - 1]) && KG.nset == __CPROVER_old(KG.nset) + (levels[i] - levels[i - 1])
    && KG.evt == __CPROVER_old(KG.evt) + 3 * (levels[i] - levels[i - 1]) && %(LIFE)s
    /* a level below the minimum level size is not handed to the pool */
    && KG.n_run_blocks == __CPROVER_old(KG.n_run_blocks) + (%(SMALL_I)s ? 0 : 1)))
/* every position of level i is processed exactly once, with the node data of a slot < n_threads (slot 0 when the level is small);
 * positions of other levels are untouched */
__CPROVER_ensures(fsl_thrown == 0 ==> (i == GL ? (%(GDONE)s && (%(SMALL_I)s ==> KG.g_runner == 0)) : %(GSAME)s))
__CPROVER_ensures(fsl_thrown == 0 ==> (i == GL2 ? (%(HDONE)s && (%(SMALL_I)s ==> KG.h_runner == 0)) : %(HSAME)s))
""" % dict(GHOST_LEVELS=GHOST_LEVELS, LEVEL_INST=LEVEL_INST, LIFE=same(LIFE), SMALL_I=SMALL % ("i", "i"),
           GDONE=triple_done("g", "__CPROVER_old", "__CPROVER_old(KG.evt)"), GSAME=same(GF),
           HDONE=triple_done("h", "__CPROVER_old", "__CPROVER_old(KG.evt)"), HSAME=same(HF)),
)

H_LEVEL = H_DECLS + r"""
void h_kernel_par_level(void)
{
    const struct kernel *kernel; const size_t *indices, *levels; const fsl_handle *node_data;
    kg_havoc();
    kernel_par_level(nondet_size_t(), kernel, nondet_size_t(), indices, nondet_size_t(), levels, nondet_size_t(), node_data, nondet_size_t());
    __CPROVER_assert(0, "canary: postcondition point reachable");
}
"""

_PAR.append(Group(
    name="kernel.par.level", units=[kernel_par_block, kernel_par_level], harness=H_LEVEL, entry="h_kernel_par_level",
    enforce="kernel_par_level", replace=["kernel_par_block"], loop_contracts=True, backend="cadical", timeout=900, min_obligations=20,
    no_checks=["--conversion-check"],   # `level_size < kernel.min_level_size` compares size_t with int: the intended implicit conversion
    clause="one level [levels[i-1], levels[i]) of apply_kernel_par under the sequential model of run_blocks (any partition into at most "
           "pool-size contiguous blocks, block k on runner k): every position of the level processed exactly once with a slot < n_threads; "
           "levels smaller than min_level_size run inline on slot 0 without the pool; other levels' positions untouched"))


# ---------------------------------------------------------------------------------------------------- apply_kernel_par, whole
PAR_SUPPORTED = "(kernel->apply_dir == DIR_any || kernel->apply_dir == DIR_breadth_upstream)"
# the three cases of apply_dir are decided by separate groups (complete case split: any / breadth_upstream / everything else); in each
# the order and level table the PROPERTY names are fixed names, which keeps pointer case-distinctions out of the contract
PAR_CASES = {
    "any": dict(COND="kernel->apply_dir == DIR_any", ORDER="m_storage_indices", LV="m_any_order_levels", LN="m_any_order_levels_n"),
    "breadth": dict(COND="kernel->apply_dir == DIR_breadth_upstream", ORDER="m_bfs_indices", LV="m_bfs_levels", LN="m_bfs_levels_n"),
    "other": dict(COND="!" + PAR_SUPPORTED, ORDER="m_bfs_indices", LV="m_bfs_levels", LN="m_bfs_levels_n"),
}
# scalar ghosts tied to the inputs once (in `requires`): every read of kernel->..., levels[...] inside an invariant costs a set of pointer
# obligations at each of its instantiations
PAR_GHOSTS = r"""
size_t K_NT;                 /* == (size_t) kernel->n_threads */
int K_HI;                    /* == kernel has an initialiser */
size_t K_E0;                 /* number of events of the creation loop: one create (+ one init) per slot */
size_t LG_LO, LG_HI, LH_LO, LH_HI;   /* bounds of the levels GL / GL2 of the ghost positions: levels[GL - 1], levels[GL], ... */
int LG_SMALL, LH_SMALL;      /* that level is smaller than min_level_size */
"""
NT = "K_NT"
HAS_INIT = "K_HI"
E0 = "K_E0"
# node-data life cycle of slot GSL after the creation loop (stable until the free loop)
CREATED = ("(KG.ncreated == K_NT && KG.s_create == 1 && KG.s_create_nget == 0 && KG.s_init == (size_t) K_HI "
           "&& (K_HI ==> (KG.s_init_nget == 0 && KG.s_init_ncreated > GSL)) && node_data_buf[GSL] == GSL "
           "&& KG.pool_size == K_NT && KG.pool_paused == 0)")
QUIET = "(fsl_thrown == 0 && !KG.get_failed && !KG.bad && KG.phase == 0 && KG.data == kdata)"


def level_done(p, L):
    """position <p> has been processed: once, with the node data of a slot < n_threads (GSL's handle if that slot is GSL; slot 0 if the
    level is small), inside the window of the event clock that belongs to its level"""
    return ("(KG.%(p)s_get == 1 && KG.%(p)s_func == 1 && KG.%(p)s_set == 1 && KG.%(p)s_runner < K_NT && (KG.%(p)s_runner == GSL ==> KG.%(p)s_nd == GSL) "
            "&& K_E0 + 3 * %(L)s_LO <= KG.%(p)s_get_clk && KG.%(p)s_get_clk < KG.%(p)s_set_clk && KG.%(p)s_set_clk < K_E0 + 3 * %(L)s_HI "
            "&& (%(L)s_SMALL ==> KG.%(p)s_runner == 0))") % dict(p=p, L=L)


def make_par(case):
  C = PAR_CASES[case]
  return Unit(
    name="kernel_par", file=INL_H, anchor=PAR_ANCHOR,
    sig="int kernel_par(const struct kernel *kernel, fsl_handle kdata, %s, fsl_handle *node_data_buf, size_t nd_cap)" % TABLES,
    pre=PAR_GHOSTS, defs=TABLE_DEFS + "#define FSL_RET 0\n",
    rules=[
        R(r"auto run = \[.*?\n        \};", "/* lambda `run`: extracted as kernel_par_block */", 1, re.S),
        # the level loop's body is the unit kernel_par_level; the instances of the level-table contract (non-decreasing, bounded by
        # the number of nodes: C06 breadth-first levels postcondition) are taken at the entries read in this iteration
        RB(r"for \(std::size_t i = [^;]*; i < levels->size\(\); \+\+i\)",
           "{ FSL_PRE(%s); kernel_par_level(i, %s); if (fsl_thrown) return 0; }" % (LEVEL_INST, LEVEL_ARGS)),
        R(r"std::vector<decltype\(kernel\.node_data_create\(\)\)> node_data\(([^;]*)\);",
          r"fsl_handle *node_data = node_data_buf; size_t node_data_n = (size_t) (\1); /* vector of that many handles; storage = container model */", 1),
        V(r"for \(auto (\w+) = 0;", r"for (int \1 = 0;"),
        V(r"auto n_threads =", "int n_threads ="),
    ] + KERNEL_VOCAB,
    contract=FRESH_KERNEL + FRESH_ORDERS + r"""
__CPROVER_requires(m_any_order_levels_n <= K_NMAX && m_bfs_levels_n <= K_NMAX
                   && __CPROVER_is_fresh(m_any_order_levels, m_any_order_levels_n * sizeof(size_t)) && __CPROVER_is_fresh(m_bfs_levels, m_bfs_levels_n * sizeof(size_t)))
/* dispatched by apply_kernel only for more than one thread (apply_kernel_par is private) */
__CPROVER_requires(%(COND)s)
__CPROVER_requires(kernel->n_threads > 1 && K_NT == (size_t) kernel->n_threads && K_HI == (kernel->has_init ? 1 : 0) && K_E0 == (K_HI ? 2 * K_NT : K_NT))
__CPROVER_requires(nd_cap == K_NT && __CPROVER_is_fresh(node_data_buf, nd_cap * sizeof(fsl_handle)))
/* level table of the chosen order (C06 / constructor): starts at 0, ends at the number of nodes; `non-decreasing` is instantiated on read */
__CPROVER_requires(%(LN)s >= 1 && %(LV)s[0] == 0 && %(LV)s[%(LN)s - 1] == gsize)
/* ghost positions GP, GP2 of the chosen order with the nodes stored there and the levels they lie in; ghost slot GSL */
__CPROVER_requires(GP < gsize && %(ORDER)s[GP] == GNODE && GP2 < gsize && %(ORDER)s[GP2] == GNODE2 && GSL < %(NT)s)
__CPROVER_requires(1 <= GL && GL < %(LN)s && %(LV)s[GL - 1] <= GP && GP < %(LV)s[GL] && 1 <= GL2 && GL2 < %(LN)s && %(LV)s[GL2 - 1] <= GP2 && GP2 < %(LV)s[GL2])
__CPROVER_requires(LG_LO == %(LV)s[GL - 1] && LG_HI == %(LV)s[GL] && LG_SMALL == (LG_HI - LG_LO < (size_t) kernel->min_level_size))
__CPROVER_requires(LH_LO == %(LV)s[GL2 - 1] && LH_HI == %(LV)s[GL2] && LH_SMALL == (LH_HI - LH_LO < (size_t) kernel->min_level_size))
/* level table non-decreasing, instance between the two ghost levels */
__CPROVER_requires((GL2 < GL ==> LH_HI <= LG_LO) && (GL < GL2 ==> LG_HI <= LH_LO))
__CPROVER_requires(KG_ZERO && KG.data == kdata && fsl_thrown == 0)
__CPROVER_assigns(KG, fsl_thrown, __CPROVER_object_whole(node_data_buf))
/* refused exactly for an order other than any / breadth-first upstream (before any callback, pool untouched), or on a getter failure */
__CPROVER_ensures((fsl_thrown != 0) == (!%(SUP)s || KG.get_failed))
__CPROVER_ensures(!%(SUP)s ==> (KG.evt == 0 && KG.pool_size == __CPROVER_old(KG.pool_size) && KG.pool_paused == __CPROVER_old(KG.pool_paused)))
__CPROVER_ensures(fsl_thrown == 0 ==> (__CPROVER_return_value == 0 && !KG.bad && KG.phase == 0
    /* one triple per position of the order; the pool has n_threads workers and is paused again */
    && KG.nget == gsize && KG.nset == gsize && KG.pool_size == %(NT)s && KG.pool_paused == 1
    /* position GP: exactly once, node data of a slot < n_threads (slot 0 for a small level), inside its level's window of the event clock */
    && %(GDONE)s && %(HDONE)s))
/* levels one after the other: everything of an earlier level is complete before a later level starts */
__CPROVER_ensures(fsl_thrown == 0 ==> ((GL2 < GL ==> KG.h_set_clk < KG.g_get_clk) && (GL < GL2 ==> KG.g_set_clk < KG.h_get_clk)))
/* node data of slot GSL: created once (and initialised iff an initialiser is given) before the first triple, freed once after the last */
__CPROVER_ensures(fsl_thrown == 0 ==> (KG.ncreated == %(NT)s && KG.nfree == %(NT)s && node_data_buf[GSL] == GSL
    && KG.s_create == 1 && KG.s_create_nget == 0 && KG.s_init == (size_t) K_HI && (K_HI ==> (KG.s_init_nget == 0 && KG.s_init_ncreated > GSL))
    && KG.s_free == 1 && KG.s_free_nset == gsize))
""" % dict(NT=NT, LN=C["LN"], LV=C["LV"], ORDER=C["ORDER"], SUP=PAR_SUPPORTED, HI=HAS_INIT, COND=C["COND"],
           GDONE=level_done("g", "LG"), HDONE=level_done("h", "LH")),
    loops={
        0: r"""
__CPROVER_assigns(i, KG, __CPROVER_object_whole(node_data_buf))
__CPROVER_loop_invariant(0 <= i && i <= n_threads && n_threads > 1 && (size_t) n_threads == K_NT && %(QUIET)s)
__CPROVER_loop_invariant(KG.ncreated == (size_t) i && KG.evt == (K_HI ? 2 * (size_t) i : (size_t) i) && KG.nget == 0 && KG.nset == 0 && KG.nfree == 0
    && G_NONE && H_NONE && KG.s_free == 0 && KG.pool_size == %(NT)s && KG.pool_paused == 0 && KG.n_run_blocks == 0)
__CPROVER_loop_invariant(GSL < (size_t) i ? (KG.s_create == 1 && KG.s_create_nget == 0 && KG.s_init == (size_t) K_HI
    && (K_HI ==> (KG.s_init_nget == 0 && KG.s_init_ncreated > GSL)) && node_data_buf[GSL] == GSL) : (KG.s_create == 0 && KG.s_init == 0))
__CPROVER_decreases(n_threads - i)
""" % dict(QUIET=QUIET, NT=NT, HI=HAS_INIT),
        1: r"""
__CPROVER_assigns(i, KG, fsl_thrown)
__CPROVER_loop_invariant(1 <= i && i <= levels_n && n_threads > 1 && (size_t) n_threads == K_NT && %(QUIET)s && %(CREATED)s)
__CPROVER_loop_invariant(KG.nget == levels[i - 1] && KG.nset == KG.nget && KG.evt == K_E0 + 3 * KG.nget && KG.nfree == 0 && KG.s_free == 0)
__CPROVER_loop_invariant(GL < i ? %(GDONE)s : G_NONE)
__CPROVER_loop_invariant(GL2 < i ? %(HDONE)s : H_NONE)
__CPROVER_decreases(levels_n - i)
""" % dict(QUIET=QUIET, CREATED=CREATED, E0=E0, GDONE=level_done("g", "LG"), HDONE=level_done("h", "LH")),
        2: r"""
__CPROVER_assigns(i, KG)
__CPROVER_loop_invariant(i <= K_NT && n_threads > 1 && (size_t) n_threads == K_NT && %(QUIET)s && %(CREATED)s)
__CPROVER_loop_invariant(KG.nget == gsize && KG.nset == gsize && %(GDONE)s && %(HDONE)s)
__CPROVER_loop_invariant(KG.nfree == i && (GSL < i ? (KG.s_free == 1 && KG.s_free_nset == gsize) : KG.s_free == 0))
__CPROVER_decreases(%(NT)s - i)
""" % dict(QUIET=QUIET, CREATED=CREATED, NT=NT, GDONE=level_done("g", "LG"), HDONE=level_done("h", "LH")),
    },
)

H_PAR = H_DECLS + r"""
void h_kernel_par(void)
{
    const struct kernel *kernel; const size_t *st, *bfs, *dfs, *al, *bl; fsl_handle *ndb;
    kg_havoc();
    K_NT = nondet_size_t(); K_HI = nondet_int(); K_E0 = nondet_size_t(); LG_LO = nondet_size_t(); LG_HI = nondet_size_t(); LH_LO = nondet_size_t(); LH_HI = nondet_size_t();
    LG_SMALL = nondet_int(); LH_SMALL = nondet_int();
    int r = kernel_par(kernel, nondet_size_t(), st, bfs, dfs, nondet_size_t(), al, nondet_size_t(), bl, nondet_size_t(), ndb, nondet_size_t());
    __CPROVER_assert(0, "canary: postcondition point reachable");
}
"""

for _case, _what in (("any", "apply_dir == any (storage order, the single level [0, size))"),
                     ("breadth", "apply_dir == breadth_upstream (breadth-first order and its level table)"),
                     ("other", "any other apply_dir: throws before any callback, pool untouched")):
    _PAR.append(Group(
        name="kernel.par.whole.%s" % _case, units=[kernel_par_block, kernel_par_level, make_par(_case)], harness=H_PAR, entry="h_kernel_par",
        enforce="kernel_par", replace=["kernel_par_level"], loop_contracts=True, backend="cadical", timeout=900, min_obligations=20,
        no_checks=["--conversion-check"],   # n_threads (int) sizes the vector and bounds a size_t loop: the intended implicit conversions
        clause="apply_kernel_par as a whole (any numbers of nodes, levels, threads > 1), case " + _what + ": pool resized to n_threads before the "
               "first dispatch; one node-data object per slot created (+initialised) before the first triple and freed after the last; every "
               "position processed exactly once with a slot < n_threads; levels strictly one after the other (event clock windows); small "
               "levels on slot 0"))

# ---------------------------------------------------------------------------------------------------- apply_kernel_par, BOUNDED whole function
# The unbounded groups above outline the level loop's body; a change that restructures that loop (state carried across levels, levels gathered,
# extra branches) cannot be cut at the same places and ends in an extraction break (exit 2).  This bounded stand-in extracts the function as ONE
# unit -- only the `run` lambda is the separately extracted kernel_par_block, called wherever the text calls `run` or hands it to run_blocks -- and
# executes the recorder callbacks and the sequential pool model on ALL level tables within the bound.  Labelled bounded, never counted as proof.
KB_N = 4      # positions of the order
KB_L = 3      # levels
kernel_par_b = Unit(
    name="kernel_par_b", file=INL_H, anchor=PAR_ANCHOR,
    sig="int kernel_par_b(const struct kernel *kernel, fsl_handle kdata, %s, fsl_handle *node_data_buf, size_t nd_cap)" % TABLES,
    pre=POOL_MODEL.replace("KERNEL_RUN(r, s, e) kernel_par_block((r), (s), (e), %s)" % BLOCK_ARGS,
                           "KERNEL_RUN(r, s, e) kernel_par_block((r), (s), (e), %s)" % BLOCK_ARGS), defs=TABLE_DEFS + "#define FSL_RET 0\n",
    rules=[
        R(r"auto run = \[.*?\n        \};", "/* lambda `run`: extracted as kernel_par_block */", 1, re.S),
        V(r"\brun\(((?:[^;()]|\([^()]*\))*)\);", r"{ KERNEL_RUN(\1); if (fsl_thrown) return 0; }"),
        V(r"m_thread_pool\.run_blocks\(([^;]*), run, ([^;]*)\);", r"{ FSL_RUN_BLOCKS(\1, \2); if (fsl_thrown) return 0; }"),
        R(r"std::vector<decltype\(kernel\.node_data_create\(\)\)> node_data\(([^;]*)\);",
          r"fsl_handle *node_data = node_data_buf; size_t node_data_n = (size_t) (\1); /* vector of that many handles; storage = container model */", 1),
        V(r"for \(auto (\w+) = 0;", r"for (int \1 = 0;"),
        V(r"auto n_threads =", "int n_threads ="),
    ] + KERNEL_VOCAB,
)
H_PAR_B = H_DECLS + r"""
void h_kernel_par_b(void)
{
    struct kernel k; size_t order[KB_N], levels[KB_L + 1], one[2]; fsl_handle ndb[KB_N];
    size_t gsize = nondet_size_t(), nlev = nondet_size_t();
    k.n_threads = nondet_int(); k.min_block_size = nondet_int(); k.min_level_size = nondet_int(); k.apply_dir = nondet_int(); k.has_init = nondet_bool();
    __CPROVER_assume(1 <= gsize && gsize <= KB_N && 2 <= nlev && nlev <= KB_L + 1);
    __CPROVER_assume(2 <= k.n_threads && k.n_threads <= KB_N && 0 <= k.min_block_size && k.min_block_size <= KB_N + 1 && 0 <= k.min_level_size && k.min_level_size <= KB_N + 1);
    __CPROVER_assume(k.apply_dir == DIR_any || k.apply_dir == DIR_breadth_upstream);
    /* the order is a permutation of the nodes (C06); the level table starts at 0, is strictly increasing (levels are non-empty, C06) and ends at size */
    for (int p = 0; p < KB_N; ++p) { order[p] = nondet_size_t(); if ((size_t) p < gsize) { __CPROVER_assume(order[p] < gsize); for (int q = 0; q < p; ++q) __CPROVER_assume(order[q] != order[p]); } }
    for (int l = 0; l <= KB_L; ++l) { levels[l] = nondet_size_t(); if ((size_t) l < nlev) __CPROVER_assume(l == 0 ? levels[l] == 0 : levels[l - 1] < levels[l]); }
    __CPROVER_assume(levels[nlev - 1] == gsize);
    one[0] = 0; one[1] = gsize;
    kg_havoc();
    { struct kghost z = {0}; KG = z; }   /* nothing recorded yet */
    fsl_handle kdata = nondet_size_t(); KG.data = kdata; fsl_thrown = 0;
    KG.pool_size = nondet_size_t(); KG.pool_paused = nondet_int();
    __CPROVER_assume(GP < gsize && order[GP] == GNODE && GSL < (size_t) k.n_threads);
    GNODE2 = GNODE; GP2 = GP;
    int r = kernel_par_b(&k, kdata, order, order, order, gsize, one, 2, levels, nlev, ndb, KB_N);
    if (!KG.get_failed)
    {
        /* C10, from the statement (kernel outputs equal the sequential application): every position of the order is processed exactly once, by a complete
         * getter -> func -> setter triple in protocol, with the node data of a slot < n_threads; node data created before / freed after, once per slot */
        __CPROVER_assert(fsl_thrown == 0 && r == 0, "C10 kernel application completes when no getter fails");
        __CPROVER_assert(KG.g_get == 1 && KG.g_func == 1 && KG.g_set == 1, "C10 every position of the order is processed exactly once (as in the sequential application)");
        __CPROVER_assert(!KG.bad && KG.phase == 0 && !KG.alien, "C10 callbacks run in protocol (getter -> func -> setter on one node-data object created by node_data_create)");
        __CPROVER_assert(KG.nget == gsize && KG.nset == gsize, "C10 exactly one triple per position");
        __CPROVER_assert(KG.g_runner < (size_t) k.n_threads, "C10 node-data slot below the number of threads");
        __CPROVER_assert(KG.ncreated == (size_t) k.n_threads && KG.nfree == (size_t) k.n_threads && KG.s_create == 1 && KG.s_free == 1 && KG.s_create_nget == 0 && KG.s_free_nset == gsize,
                         "C10 one node-data object per slot, created before the first and freed after the last triple");
    }
    else
        __CPROVER_assert(fsl_thrown != 0, "a getter failure is reported");
    __CPROVER_assert(0, "canary: postcondition point reachable");
}
"""
_PAR.append(Group(
    name="kernel.par.bounded", units=[kernel_par_block, kernel_par_b], harness=H_PAR_B, entry="h_kernel_par_b",
    defines=["KB_N=%d" % KB_N, "KB_L=%d" % KB_L], unwind=KB_N + 2, backend="cadical", timeout=900, min_obligations=10,
    no_checks=["--conversion-check"],
    bounded="orders of <= %d positions, <= %d levels (all strictly increasing level tables), 2..%d threads, min_block_size / min_level_size in 0..%d, both supported "
            "apply directions, every partition of a level into at most pool-size contiguous blocks (sequential model of run_blocks); complete unwinding %d"
            % (KB_N, KB_L, KB_N, KB_N + 1, KB_N + 2),
    clause="apply_kernel_par extracted as ONE unit (no outlined loop body, so restructured level loops are still judged): every position processed exactly once "
           "in protocol with a slot < n_threads, one triple per position, node data created / freed once per slot around the triples"))

# ====================================================================================================== c. apply_kernel
APPLY_MODEL = r"""
int SEL_PAR, SEL_SEQ, SEL_RET;
static int sel_par(void) { SEL_PAR = SEL_PAR + 1; SEL_RET = nondet_int(); return SEL_RET; }
static int sel_seq(void) { SEL_SEQ = SEL_SEQ + 1; SEL_RET = nondet_int(); return SEL_RET; }
"""
kernel_apply = Unit(
    name="kernel_apply", file=INL_H,
    anchor=r"int flow_graph<G, S, Tag>::apply_kernel\(FK& kernel, FKD& data\)",
    sig="int kernel_apply(const struct kernel *kernel, fsl_handle kdata)",
    pre=MODEL + APPLY_MODEL,
    rules=[V(r"apply_kernel_par\(kernel, data\)", "sel_par()"), V(r"apply_kernel_seq\(kernel, data\)", "sel_seq()")] + KERNEL_VOCAB,
)
H_APPLY = r"""
void h_kernel_apply(void)
{
    struct kernel k; k.n_threads = nondet_int(); k.min_block_size = nondet_int(); k.min_level_size = nondet_int(); k.apply_dir = nondet_int(); k.has_init = 0;
    SEL_PAR = 0; SEL_SEQ = 0;
    int r = kernel_apply(&k, nondet_size_t());
    __CPROVER_assert(SEL_PAR + SEL_SEQ == 1, "C10 apply_kernel runs exactly one of the two paths");
    __CPROVER_assert((SEL_PAR == 1) == (k.n_threads > 1), "C10 the multi-threaded path is taken iff n_threads > 1, the sequential one otherwise");
    __CPROVER_assert(r == SEL_RET, "apply_kernel returns the chosen path's result");
    __CPROVER_assert(0, "canary: postcondition point reachable");
}
"""
_APPLY = [Group(name="kernel.apply", units=[kernel_apply], harness=H_APPLY, entry="h_kernel_apply", backend="sat", timeout=60, min_obligations=3,
                clause="apply_kernel: n_threads > 1 selects apply_kernel_par, anything else apply_kernel_seq; exactly one path runs")]

GROUPS = {"C10": _SEQ + _PAR + _APPLY}
# native replay: counting kernel on real graphs, multi-threaded against sequential application over thread counts / block / level sizes
for _g in GROUPS["C10"]:
    if not getattr(_g, "replay", None):
        _g.replay = "replay/kernel.cpp"
PROPS = {
    "C10": dict(
        level="other",
        explanation="Kernel clause of C10.  Decided (unbounded, for arbitrary ghost positions/levels/slot): the sequential path runs one triple "
                    "getter -> func -> setter per position of the order named by apply_dir, position p as the p-th triple, on one node-data object; "
                    "the multi-threaded path, under the sequential model of run_blocks (blocks of an arbitrary partition of the level into at most "
                    "pool-size contiguous blocks, block k on runner k), runs one triple per position as well, each with the node data of a slot "
                    "< n_threads, level after level, small levels inline on slot 0, node data created before / freed after, once per slot; "
                    "apply_kernel selects the path by n_threads > 1.  Hence both paths perform the same multiset of triples, and the same "
                    "per-level sequence up to the order inside a level.  That the kernel OUTPUTS are then equal needs: triples of one level "
                    "commute (they touch only their node's data and their slot's node data -- assumed of the user callbacks, this is what the "
                    "level structure of C06 is for), the DRF lemma, and the pool's synchronisation.",
        unmechanised=[
            "DRF lemma: blocks of one level that write pairwise disjoint memory (their positions' node outputs, their own slot's node data) and "
            "read only memory no block of the level writes give the sequential result under every interleaving",
            "same multiset of triples + per-level commutation ==> same kernel outputs as the sequential order (needs C06: every receiver of a "
            "node lies in a strictly earlier level)",
        ],
        undecided=[
            "the interleavings themselves and the pool's synchronisation of dispatch and completion (run_tasks / wait / pause / resume / resize "
            "sequences): C11's undecided clauses.  `a later level starts after the earlier one is complete` is program order in the sequential "
            "model of run_blocks used here",
            "an exception thrown by a getter inside a pool job reaches the worker thread's top level (std::terminate), it is not propagated to "
            "the caller as in the inline / sequential case: the model lets it propagate and claims nothing after a getter failure",
            "on the throwing paths of apply_kernel_par/seq the node data are not freed and the pool is left resumed (exception safety): recorded, no clause of C10",
            "what the user callbacks do (kernel outputs): they are opaque recorders here",
        ],
        assumptions=[
            "kernel callbacks (node_data_create/init/getter/func/setter/free) are modelled as opaque recorders: they update only the ghost record "
            "and return unconstrained values; node_data_create returns a new object on every call (modelled: the creation ordinal)",
            "void* node data / kernel data are opaque handles (never dereferenced by the library)",
            "sequential model of thread_pool::run_blocks: SOME partition of [first, last) into contiguous non-empty blocks, at most one per worker, "
            "block k with runner k (C11 block-partition lemmas of spec/pool.py, proved there for pool sizes <= 64), blocks executed one after the other",
            "order tables are injective (C06 permutation clause; trivially true for the storage order): instantiate-on-read at each position read, "
            "for the two ghost nodes -- stated on the table the PROPERTY names for the apply_dir, so that reading another table is not masked",
            "level table contract (C06 breadth-first levels postcondition / constructor for any_order_levels): levels[0] == 0, non-decreasing, "
            "last == number of nodes; `non-decreasing` is instantiated at the entries read by each level step and between the ghost levels",
            "IH instance in the free loop of apply_kernel_par: node_data[i] is the i-th created handle -- proved for an arbitrary ghost slot by the "
            "creation loop's invariant (node_data[GSL] == GSL); the vector is not written afterwards (the lambda captures a copy)",
            "std::vector<void*> node_data(n_threads): an array of n_threads handles (container model)",
            "apply_kernel_par is private and only called by apply_kernel with n_threads > 1 (stated precondition)",
            "--conversion-check is off in kernel.par.level / kernel.par.whole.*: `level_size < kernel.min_level_size` and `i < n_threads` compare "
            "size_t with int (a negative minimum level size converts to a huge value: every level then runs inline; same meaning in C and C++)",
        ],
    ),
}
