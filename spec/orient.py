"""basin_graph::orient_edges (flow/basin_graph.hpp, last function) and the `carve` re-routing of pits by the spanning-tree sink
resolver (flow/sink_resolver.hpp: update_routes_sinks_carve).  Properties C15 (orientation clause), C01 (carve), C08.

orient_edges is cut into
  orient_count / orient_fill   the bodies of the two `for (size_type l_id : m_tree)` loops (CSR construction), outlined,
  orient_visit                 the body of the inner `for` of the depth-first parse (one incident edge of the popped basin), outlined,
  orient_edges                 the whole function with these bodies replaced by calls; every loop closed by a loop contract.
update_routes_sinks_carve is cut into carve_step (body of the loop over the tree, with the inner `while` under a loop contract)
and carve (the loop over the tree)."""
from fv.extract import Unit, R, V, RB
from fv.runner import Group
from spec.basin import MODEL_H, SINK_H, BG_H, _sink_constants, _sink_defs

OR_H = "models/orient.h"
OR_ANCHOR = r"void basin_graph<FG>::orient_edges\(\)"

# --------------------------------------------------------------------------- vocabulary of the basin_graph object as seen by orient_edges
_VEC = r"(m_nodes_connects_size|m_nodes_connects_ptr|m_nodes_adjacency|m_parent_basins|m_pass_stack)"
OR_VOCAB = [
    V(r"const auto nbasins = basins_count\(\);", "/* nbasins: parameter (basins_count()) */"),
    V(r"basins_count\(\)", "nbasins"),
    V(r"\bsize_t\(0\)", "((size_t) 0)"),
    V(r"\bstd::swap\(", "OR_SWAP("),
    # edge& edg = <lvalue>;  -> pointer to the same object
    V(r"\bedge\s*&\s*(\w+) = ([^;]+);", r"struct fsl_edge *\1_ref = &(\2);"),
    V(r"\bedg\b", "(*edg_ref)"),
    # m_reorder_stack: vector of 4-tuples
    V(r"m_reorder_stack\.reserve\(([^;]*)\);", r"FSL_RESERVE(\1);"),
    V(r"m_reorder_stack\.clear\(\)", "m_reorder_stack_n = 0"),
    V(r"m_reorder_stack\.size\(\)", "m_reorder_stack_n"),
    V(r"!m_reorder_stack\.empty\(\)", "(m_reorder_stack_n != 0)"),
    V(r"m_reorder_stack\.push_back\(\s*\{([^{}]*)\}\s*\)", r"OR_RS_PUSH(\1)"),
    V(r"std::tie\(\s*(\w+),\s*(\w+),\s*(\w+),\s*(\w+)\s*\)\s*=\s*m_reorder_stack\.back\(\);", r"OR_RS_TOP(\1, \2, \3, \4);"),
    V(r"m_reorder_stack\.pop_back\(\)", "OR_RS_POP()"),
    # m_pass_stack / m_parent_basins (m_keep_order bookkeeping)
    V(r"m_pass_stack\.clear\(\)", "m_pass_stack_n = 0"),
    V(r"m_pass_stack\.push_back\(([^;]*)\);", r"OR_PS_PUSH(\1);"),
    V(r"m_parent_basins\.resize\(([^()]+)\)", r"fsl_vsz_resize_o(m_parent_basins, &m_parent_basins_n, m_parent_basins_cap, \1, 0)"),
    # CSR vectors
    V(r"(m_nodes_connects_size|m_nodes_connects_ptr)\.resize\(([^()]+)\)", r"fsl_vsz_resize_o(\1, &\1_n, m_nodes_connects_cap, \2, 0)"),
    V(r"std::fill\((\w+)\.begin\(\),\s*\1\.end\(\),\s*([^;]+)\);", r"fsl_vsz_fill_o(\1, \1_n, \2);"),
    V(r"m_nodes_adjacency\.resize\(([^;]+)\);", r"fsl_vsz_resize_adj(m_nodes_adjacency, &m_nodes_adjacency_n, m_nodes_adjacency_cap, \1);"),
    V(_VEC + r"\.back\(\)", r"\1[FSL_IDX1(\1_n - 1, \1_n)]"),
    V(_VEC + r"\.size\(\)", r"\1_n"),
    V(r"\bm_tree\.size\(\)", "m_tree_n"),
    V(r"\bm_edges\.size\(\)", "m_edges_n"),
]
# element accesses a[expr]: innermost first (expr without brackets), repeated so that nested accesses are translated inside out
_IDX = [V(r"\b(m_nodes_connects_size|m_nodes_connects_ptr|m_nodes_adjacency|m_parent_basins|m_edges|m_tree)\[([^\[\]]+)\]", r"\1@<FSL_IDX1(\2, \1_n)@>")] * 4 \
       + [V(r"@<", "["), V(r"@>", "]")]
OR_VOCAB = OR_VOCAB + _IDX

OR_PARAMS = ("size_t nbasins, struct fsl_edge *m_edges, const size_t *m_tree, size_t *m_nodes_connects_size, size_t *m_nodes_connects_ptr, "
             "size_t *m_nodes_adjacency, struct fsl_rs *m_reorder_stack, _Bool m_keep_order, size_t *m_pass_stack, size_t *m_parent_basins")
OR_ARGS = ("nbasins, m_edges, m_tree, m_nodes_connects_size, m_nodes_connects_ptr, m_nodes_adjacency, m_reorder_stack, m_keep_order, "
           "m_pass_stack, m_parent_basins")

OR_PRE = r"""
#ifndef FSL_ORIENT_PRED
#define FSL_ORIENT_PRED
#define SAME_D(x, y) ((x) == (y) || (isnan(x) && isnan(y)))
#define L0(e) (m_edges[(e)].link[0])
#define L1(e) (m_edges[(e)].link[1])
#define P0(e) (m_edges[(e)].pass[0])
#define P1(e) (m_edges[(e)].pass[1])
#define PE(e) (m_edges[(e)].pass_elevation)
#define PL(e) (m_edges[(e)].pass_length)
#define OLD(x) __CPROVER_old(x)
#define EDGE_SAME(e) (L0(e) == OLD(L0(e)) && L1(e) == OLD(L1(e)) && P0(e) == OLD(P0(e)) && P1(e) == OLD(P1(e)) \
    && SAME_D(PE(e), OLD(PE(e))) && SAME_D(PL(e), OLD(PL(e))))
#define RS(s) (m_reorder_stack[(s)])
#endif
"""

# shapes of the objects (no statement about contents)
OR_SHAPE = r"""
__CPROVER_requires(1 <= nbasins && nbasins <= FSL_BASIN_NMAX)
__CPROVER_requires(1 <= m_edges_n && m_edges_n <= FSL_BASIN_NMAX && __CPROVER_is_fresh(m_edges, m_edges_n * sizeof(struct fsl_edge)))
__CPROVER_requires(1 <= m_tree_cap && m_tree_cap <= FSL_BASIN_NMAX && m_tree_n <= m_tree_cap && __CPROVER_is_fresh(m_tree, m_tree_cap * sizeof(size_t)))
__CPROVER_requires(nbasins <= m_nodes_connects_cap && m_nodes_connects_cap <= FSL_BASIN_NMAX)
__CPROVER_requires(__CPROVER_is_fresh(m_nodes_connects_size, m_nodes_connects_cap * sizeof(size_t)) && __CPROVER_is_fresh(m_nodes_connects_ptr, m_nodes_connects_cap * sizeof(size_t)))
__CPROVER_requires(1 <= m_nodes_adjacency_cap && m_nodes_adjacency_cap <= FSL_BASIN_NMAX && __CPROVER_is_fresh(m_nodes_adjacency, m_nodes_adjacency_cap * sizeof(size_t)))
__CPROVER_requires(1 <= m_reorder_stack_cap && m_reorder_stack_cap <= FSL_BASIN_NMAX && __CPROVER_is_fresh(m_reorder_stack, m_reorder_stack_cap * sizeof(struct fsl_rs)))
__CPROVER_requires(1 <= m_pass_stack_cap && m_pass_stack_cap <= FSL_BASIN_NMAX && __CPROVER_is_fresh(m_pass_stack, m_pass_stack_cap * sizeof(size_t)))
__CPROVER_requires(nbasins <= m_parent_basins_cap && m_parent_basins_cap <= FSL_BASIN_NMAX && __CPROVER_is_fresh(m_parent_basins, m_parent_basins_cap * sizeof(size_t)))
__CPROVER_requires(m_keep_order == 0 || m_keep_order == 1)
"""
# lengths as they are when the depth-first parse runs
OR_LENS = r"""
__CPROVER_requires(m_nodes_connects_size_n == nbasins && m_nodes_connects_ptr_n == nbasins && m_nodes_adjacency_n <= m_nodes_adjacency_cap)
__CPROVER_requires(m_reorder_stack_n <= m_reorder_stack_cap && m_pass_stack_n <= m_pass_stack_cap && m_parent_basins_n <= m_parent_basins_cap)
__CPROVER_requires(m_keep_order ==> m_parent_basins_n == nbasins)
"""

OR_LOCALS = "    const size_t init_idx = SIZE_MAX; /* local constant of the enclosing function (its definition is part of unit orient_edges) */\n"

# --------------------------------------------------------------------------- (b) one incident edge of the popped basin
VISIT_INNER = r"for \(size_t i = m_nodes_connects_ptr\[node\];[^{}]*\)\s*\{"
# VE: the visited edge; PEDGE_OLD: it is the edge towards the parent, already stored as (parent, node)
VISIT_DEFS = r"""
#define VE (m_nodes_adjacency[i])
#define IS_PARENT_EDGE (OLD(L0(VE)) == parent && node != parent)
#define OTHER_END (OLD(L0(VE)) == node ? OLD(L1(VE)) : OLD(L0(VE)))
#define TOP (RS(OLD(m_reorder_stack_n)))
"""
orient_visit = Unit(
    name="orient_visit", file=BG_H, anchor=OR_ANCHOR, inner=VISIT_INNER,
    sig="void orient_visit(%s, size_t node, size_t parent, double pass_elevation, double parent_pass_elevation, size_t i)" % OR_PARAMS,
    pre=OR_PRE + VISIT_DEFS, rules=OR_VOCAB, body_prefix=OR_LOCALS,
    contract=OR_SHAPE + OR_LENS + r"""
__CPROVER_requires(node < nbasins && parent < nbasins && i < m_nodes_adjacency_n && OGE < m_edges_n && OGS < m_reorder_stack_cap)
/* the slot holds a tree edge incident to the popped basin (postcondition of the CSR phase, instance at slot i); a tree edge joins
 * two different basins (input well-formedness of the tree, producer compute_tree_*: an edge enters iff its end points are in different classes) */
__CPROVER_requires(VE < m_edges_n && L0(VE) < nbasins && L1(VE) < nbasins && L0(VE) != L1(VE) && (L0(VE) == node || L1(VE) == node))
__CPROVER_assigns(__CPROVER_object_whole(m_edges), __CPROVER_object_whole(m_reorder_stack), m_reorder_stack_n,
                  __CPROVER_object_whole(m_pass_stack), m_pass_stack_n, __CPROVER_object_whole(m_parent_basins))
/* C15 (orientation), from the statement: the edge towards the parent basin is already stored as (parent, node) and stays as it is,
 * nothing is stacked for it ... */
__CPROVER_ensures(IS_PARENT_EDGE ==> (EDGE_SAME(VE) && m_reorder_stack_n == OLD(m_reorder_stack_n)))
/* ... every other incident edge ends up pointing AWAY from the popped basin: (node, other end point) ... */
__CPROVER_ensures(!IS_PARENT_EDGE ==> (L0(VE) == node && L1(VE) == OTHER_END))
/* ... link and pass are swapped TOGETHER (pass[k] stays the pass node lying in basin link[k]), weight and length are untouched ... */
__CPROVER_ensures((L0(VE) == OLD(L0(VE)) && L1(VE) == OLD(L1(VE)) && P0(VE) == OLD(P0(VE)) && P1(VE) == OLD(P1(VE)))
               || (L0(VE) == OLD(L1(VE)) && L1(VE) == OLD(L0(VE)) && P0(VE) == OLD(P1(VE)) && P1(VE) == OLD(P0(VE))))
__CPROVER_ensures(SAME_D(PE(VE), OLD(PE(VE))) && SAME_D(PL(VE), OLD(PL(VE))))
/* ... and exactly one entry (child basin, this basin, max(weight of the edge, level of this basin), level of this basin) is stacked */
__CPROVER_ensures(!IS_PARENT_EDGE ==> (m_reorder_stack_n == OLD(m_reorder_stack_n) + 1 && TOP.node == L1(VE) && TOP.parent == node
    && (SAME_D(TOP.pe, PE(VE)) || SAME_D(TOP.pe, pass_elevation)) && !(TOP.pe < PE(VE)) && !(TOP.pe < pass_elevation)
    && SAME_D(TOP.ppe, pass_elevation)))
/* frame: every other edge and every older stack entry is untouched */
__CPROVER_ensures(OGE != VE ==> EDGE_SAME(OGE))
__CPROVER_ensures(OGS < OLD(m_reorder_stack_n) ==> (RS(OGS).node == OLD(RS(OGS).node) && RS(OGS).parent == OLD(RS(OGS).parent)
    && SAME_D(RS(OGS).pe, OLD(RS(OGS).pe)) && SAME_D(RS(OGS).ppe, OLD(RS(OGS).ppe))))
""",
)

H_OR = r"""
size_t nondet_size_t(void); _Bool nondet_bool(void); double nondet_double(void);
void h_%(fn)s(void)
{
    size_t nbasins = nondet_size_t();
    struct fsl_edge *m_edges; const size_t *m_tree; size_t *m_nodes_connects_size, *m_nodes_connects_ptr, *m_nodes_adjacency, *m_pass_stack, *m_parent_basins;
    struct fsl_rs *m_reorder_stack; _Bool m_keep_order = nondet_bool();
    /* lengths / capacities and every scratch member: arbitrary pre-state */
    m_edges_n = nondet_size_t(); m_tree_n = nondet_size_t(); m_tree_cap = nondet_size_t(); m_root = nondet_size_t();
    m_nodes_connects_size_n = nondet_size_t(); m_nodes_connects_ptr_n = nondet_size_t(); m_nodes_connects_cap = nondet_size_t();
    m_nodes_adjacency_n = nondet_size_t(); m_nodes_adjacency_cap = nondet_size_t();
    m_reorder_stack_n = nondet_size_t(); m_reorder_stack_cap = nondet_size_t();
    m_pass_stack_n = nondet_size_t(); m_pass_stack_cap = nondet_size_t(); m_parent_basins_n = nondet_size_t(); m_parent_basins_cap = nondet_size_t();
    OGE = nondet_size_t(); OGS = nondet_size_t(); OGB = nondet_size_t(); OGB2 = nondet_size_t(); OGT = nondet_size_t(); OGI = nondet_size_t();
%(pre)s
    %(call)s;
    __CPROVER_assert(0, "canary: postcondition point reachable");
}
"""


def _h(fn, call, pre=""):
    return H_OR % dict(fn=fn, call=call, pre=pre)


G_VISIT = Group(
    name="orient.visit", units=[orient_visit], extra_c=[MODEL_H, OR_H],
    harness=_h("orient_visit", "orient_visit(%s, nondet_size_t(), nondet_size_t(), nondet_double(), nondet_double(), nondet_size_t())" % OR_ARGS),
    entry="h_orient_visit", enforce="orient_visit", backend="cvc5", timeout=600, min_obligations=30,
    clause="orient_edges, one incident edge of the popped basin: the edge towards the parent is left as (parent, node); every other incident edge "
           "ends up as (node, other end) with link and pass swapped together and weight/length untouched, and exactly one entry "
           "(other end, node, max(weight, level), level) is stacked; every other edge and every older stack entry is untouched")


# --------------------------------------------------------------------------- BOUNDED: the whole function on all trees with <= NB_B basins
import os as _os
NB_B = int(_os.environ.get("OR_NB", "4"))      # basins
NE_B = int(_os.environ.get("OR_NE", "4"))      # entries of m_edges (tree edges + edges that did not enter the tree)
TREE_LOOPS = [R(r"for \(size_type l_id : m_tree\)\s*\{", "for (size_t t_ = 0; t_ < m_tree_n; ++t_)\n{ size_t l_id = m_tree[FSL_IDX1(t_, m_tree_n)];", 2)]
orient_edges_b = Unit(
    name="orient_edges_b", file=BG_H, anchor=OR_ANCHOR, sig="void orient_edges_b(%s)" % OR_PARAMS, pre=OR_PRE, rules=TREE_LOOPS + OR_VOCAB)

H_OR_B = r"""
size_t nondet_size_t(void); _Bool nondet_bool(void); double nondet_double(void);
#define NB %(NB)d
#define NE %(NE)d
void h_orient_bounded(void)
{
    size_t nbasins = nondet_size_t();
    __CPROVER_assume(1 <= nbasins && nbasins <= NB);
    struct fsl_edge edges[NE], old[NE];
    size_t tree[NB], child[NB], par[NB], dep[NB];
    m_edges_n = nondet_size_t(); m_tree_n = nondet_size_t(); m_root = nondet_size_t();
    __CPROVER_assume(m_edges_n <= NE && m_tree_n <= m_edges_n && m_tree_n + 1 <= nbasins && m_root < nbasins);
    /* ALL rooted forests on <= NB basins, in every storage order and with every initial direction of every edge: tree slot t holds a distinct
     * edge index; that edge joins a distinct non-root basin child[t] and its parent par[child[t]], which lies strictly nearer the root of
     * its component (ghost depth); the basin m_root has no parent (any node of a tree can be taken as its root) */
    _Bool haspar[NB]; for (int b = 0; b < NB; ++b) { haspar[b] = 0; par[b] = nondet_size_t(); dep[b] = nondet_size_t(); }
    for (int t = 0; t < NB; ++t)
    {
        tree[t] = nondet_size_t(); child[t] = nondet_size_t();
        if ((size_t) t < m_tree_n)
        {
            size_t e = tree[t], c = child[t];
            __CPROVER_assume(e < m_edges_n && c < nbasins && c != m_root && !haspar[c]);
            for (int t2 = 0; t2 < t; ++t2) __CPROVER_assume(tree[t2] != e);
            haspar[c] = 1;
            __CPROVER_assume(par[c] < nbasins && dep[par[c]] < dep[c]);
            __CPROVER_assume((edges[e].link[0] == c && edges[e].link[1] == par[c]) || (edges[e].link[0] == par[c] && edges[e].link[1] == c));
        }
    }
    for (int e = 0; e < NE; ++e) old[e] = edges[e];
    /* the basins connected to the root through tree edges */
    _Bool inroot[NB]; for (int b = 0; b < NB; ++b) inroot[b] = ((size_t) b == m_root);
    for (int it = 0; it < NB; ++it) for (int b = 0; b < NB; ++b) if ((size_t) b < nbasins && haspar[b] && inroot[par[b]]) inroot[b] = 1;
    /* scratch members: arbitrary pre-state (contents and lengths), buffers at the size this call needs */
    size_t csize[NB], cptr[NB], adj[2 * NB], pstack[2 * NB], pbasins[NB]; struct fsl_rs stack[2 * NB]; _Bool m_keep_order = nondet_bool();
    m_nodes_connects_cap = NB; m_nodes_connects_size_n = nondet_size_t(); m_nodes_connects_ptr_n = nondet_size_t();
    m_nodes_adjacency_cap = 2 * NB; m_nodes_adjacency_n = nondet_size_t(); m_reorder_stack_cap = 2 * NB; m_reorder_stack_n = nondet_size_t();
    m_pass_stack_cap = 2 * NB; m_pass_stack_n = nondet_size_t(); m_parent_basins_cap = NB; m_parent_basins_n = nondet_size_t();
    __CPROVER_assume(m_nodes_connects_size_n <= NB && m_nodes_connects_ptr_n <= NB && m_nodes_adjacency_n <= 2 * NB && m_reorder_stack_n <= 2 * NB
                     && m_pass_stack_n <= 2 * NB && m_parent_basins_n <= NB);
    orient_edges_b(nbasins, edges, tree, csize, cptr, adj, stack, m_keep_order, pstack, pbasins);
    for (int t = 0; t < NB; ++t) if ((size_t) t < m_tree_n && inroot[child[t]])
    {
        /* C15, from the statement: after orientation every tree edge points from the basin nearer the root to the farther one */
        __CPROVER_assert(edges[tree[t]].link[0] == par[child[t]] && edges[tree[t]].link[1] == child[t], "C15 every tree edge connected to the root points from the basin nearer the root to the farther one");
    }
    for (int e = 0; e < NE; ++e) if ((size_t) e < m_edges_n)
    {
        __CPROVER_assert((edges[e].link[0] == old[e].link[0] && edges[e].link[1] == old[e].link[1] && edges[e].pass[0] == old[e].pass[0] && edges[e].pass[1] == old[e].pass[1])
                      || (edges[e].link[0] == old[e].link[1] && edges[e].link[1] == old[e].link[0] && edges[e].pass[0] == old[e].pass[1] && edges[e].pass[1] == old[e].pass[0]),
                         "C15 orientation swaps link and pass of an edge together or not at all");
        __CPROVER_assert(SAME_D(edges[e].pass_elevation, old[e].pass_elevation) && SAME_D(edges[e].pass_length, old[e].pass_length), "C15 orientation keeps weight and length of every edge");
        _Bool intree = 0; for (int t = 0; t < NB; ++t) if ((size_t) t < m_tree_n && tree[t] == (size_t) e) intree = 1;
        __CPROVER_assert(intree || (edges[e].link[0] == old[e].link[0] && edges[e].pass[0] == old[e].pass[0]), "C15 edges outside the tree are untouched");
    }
    __CPROVER_assert(m_reorder_stack_n == 0, "the depth-first parse ends with an empty stack");
    __CPROVER_assert(0, "canary: postcondition point reachable");
}
""" % dict(NB=NB_B, NE=NE_B)

G_OR_BOUNDED = Group(
    name="orient.bounded", units=[orient_edges_b], extra_c=[MODEL_H, OR_H], harness=H_OR_B, entry="h_orient_bounded",
    defines=["OR_CONCRETE_VEC"], backend="sat", timeout=1500, min_obligations=20,
    # loops of the function: count / prefix / fill over <= NB-1 tree edges resp. NB basins, at most NB pops, at most NB-1 incident edges per basin
    unwindset={("orient_edges_b", 0): NB_B, ("orient_edges_b", 1): NB_B, ("orient_edges_b", 2): NB_B, ("orient_edges_b", 3): NB_B + 1, ("orient_edges_b", 4): NB_B},
    unwind=NB_B + 2,   # harness loops and the executable vector models
    bounded="all rooted forests with <= %d basins, <= %d stored edges, every storage order and initial direction, arbitrary scratch pre-state "
            "(complete unwinding: every loop to its maximal trip count for these sizes, unwinding assertions on)" % (NB_B, NE_B),
    clause="orient_edges, whole extracted function: after orientation every tree edge connected to the root is stored as (basin nearer the root, "
           "farther basin); link and pass are swapped together; weights, lengths and edges outside the tree are untouched; every index stays inside "
           "its vector (CSR tables sized by this call)")

# =========================================================================== update_routes_sinks_carve (C01)
from spec.basin import SB_VOCAB

CV_ANCHOR = r"::\s*update_routes_sinks_carve\("
# coff, K: the segment of the ghost chain table that belongs to the edge (ghost parameters added to the C signature)
CV_PARAMS = ("size_t gsize, size_t nbasins, size_t *m_receivers, double *m_receivers_distance, const size_t *pits, "
             "const struct fsl_edge *m_edges, const size_t *m_tree, const struct cv_node *NG")
CV_ARGS = "gsize, nbasins, m_receivers, m_receivers_distance, pits, m_edges, m_tree, NG"
CV_GPARAMS = ", size_t cv_off, size_t cv_k"   # ghost parameters of the step: the segment of the chain table that belongs to its edge


def cv_pre():
    c = _sink_constants()
    return (r"""
#ifndef FSL_CARVE_PRED
#define FSL_CARVE_PRED
size_t SG;            /* ghost node */
size_t GJ;            /* ghost position on the chain of the edge */
size_t SGT, SE;       /* ghost slot of the tree and the edge index stored there */
#define SAME_D(x, y) ((x) == (y) || (isnan(x) && isnan(y)))
#define OLD(x) __CPROVER_old(x)
#define REC(x) m_receivers[(x)]
#define DIST(x) m_receivers_distance[(x)]
#define E_OUT(e) (m_edges[(e)].pass[CV_OUTFLOW])
#define E_IN(e) (m_edges[(e)].pass[CV_INFLOW])
#define E_BIN(e) (m_edges[(e)].link[CV_INFLOW])
#define E_BOUT(e) (m_edges[(e)].link[CV_OUTFLOW])
#define E_PIT(e) (pits[E_BIN(e)])
#define E_PL(e) (m_edges[(e)].pass_length)
#define NB(x) (NG[(x)].basin)
#define RANK(x) (NG[(x)].rank)
#define POS(x) (NG[(x)].pos)
#define COFF(e) cv_off
#define CK(e) cv_k
#define CHN(e, j) (NG[COFF(e) + (j)].ch)  /* the node at position j of the old receiver chain of edge e */
/* input well-formedness of an oriented tree edge with a pass (producers: connect_basins, orient_edges, compute_basins): two different
 * basins, the pass nodes are grid nodes lying in the basin of their side, the pit is the outlet of the inflow basin; its chain segment
 * lies inside the ghost table */
#define E_WF(e) (E_BIN(e) < nbasins && E_BOUT(e) < nbasins && E_BIN(e) != E_BOUT(e) && E_IN(e) < gsize && E_OUT(e) < gsize \
    && NB(E_IN(e)) == E_BIN(e) && NB(E_OUT(e)) == E_BOUT(e) && E_PIT(e) < gsize && NB(E_PIT(e)) == E_BIN(e) \
    && CK(e) < gsize && COFF(e) < gsize && COFF(e) + CK(e) < gsize)
/* definition of the chain at position j: a grid node of the inflow basin whose rank (receiver steps to the pit) is k - j; position 0 is the
 * inflow pass node, position k the pit  --  THE PIT IS REACHED BY FOLLOWING RECEIVERS FROM THE INFLOW PASS NODE (basin contract) */
#define CV_CWF(e, j) ((j) > CK(e) || (CHN(e, j) < gsize && NB(CHN(e, j)) == E_BIN(e) && POS(CHN(e, j)) == (j) \
    && ((j) != 0 || CHN(e, j) == E_IN(e)) && ((j) != CK(e) || CHN(e, j) == E_PIT(e))))
/* ... and consecutive chain nodes are linked by the receivers as they are when the function is entered (the pit is its own receiver) */
#define CV_ORIG(e, j) ((j) > CK(e) || REC(CHN(e, j)) == CHN(e, (j) < CK(e) ? (j) + 1 : (j)))
/* x lies on the chain of e: it is the chain node at the position its rank names */
#define ONCH(e, x) (NB(x) == E_BIN(e) && POS(x) <= CK(e) && CHN(e, POS(x)) == (x))
/* C01 inside the re-routed basin: a potential that strictly decreases along the NEW receivers until the inflow pass node (which drains
 * out of the basin): chain nodes count the steps back up the reversed chain, the others first walk down to the chain */
#define PHI(e, x) (ONCH(e, x) ? POS(x) : CK(e) + 1 + RANK(x))
/* position of the walk */
#define CJ POS(current_node)
/* receivers(x, 0) read inside the `while` (x is the chain node after current_node): input instances of the chain definition at the next two
 * positions, and the induction-hypothesis instance "a chain node further down than current_node has not been written yet" (DESIGN 3.9) */
#define CV_REC_RD(x) ( \
    { \
        const size_t cv_x_ = (x); \
        const size_t cv_v_ = receivers(cv_x_, 0); \
        FSL_PRE(CV_CWF(edge_idx, CJ + 1) && CV_CWF(edge_idx, CJ + 2)); \
        FSL_PRE(!(ONCH(edge_idx, cv_x_) && POS(cv_x_) > CJ) \
                || cv_v_ == CHN(edge_idx, POS(cv_x_) < CK(edge_idx) ? POS(cv_x_) + 1 : CK(edge_idx))); \
        cv_v_; \
    })
#endif
""").replace("CV_OUTFLOW", str(c["outflow"])).replace("CV_INFLOW", str(c["inflow"]))


CV_SHAPE = r"""
__CPROVER_requires(0 < gsize && gsize <= FSL_BASIN_NMAX && 0 < nbasins && nbasins <= gsize && gsize + 2 <= NGN && NGN <= FSL_BASIN_NMAX + 2)
__CPROVER_requires(0 < m_edges_n && m_edges_n <= FSL_BASIN_NMAX && 0 < m_tree_cap && m_tree_n <= m_tree_cap && m_tree_cap <= FSL_BASIN_NMAX)
__CPROVER_requires(__CPROVER_is_fresh(m_receivers, gsize * sizeof(size_t)) && __CPROVER_is_fresh(m_receivers_distance, gsize * sizeof(double)))
__CPROVER_requires(__CPROVER_is_fresh(pits, nbasins * sizeof(size_t)) && __CPROVER_is_fresh(NG, NGN * sizeof(struct cv_node)))
__CPROVER_requires(__CPROVER_is_fresh(m_edges, m_edges_n * sizeof(struct fsl_edge)))
"""
# what the property demands of one re-routed basin, for the ghost chain position GJ (nodes A = chain[GJ], B = chain[GJ + 1]) and the ghost
# node SG, split into lemmas (the union is the contract used by the caller).  `a`/`b` name the two chain nodes, `or`/`od`/`oda` the pre-state
# values of REC(SG), DIST(SG), DIST(A) in the context (OLD(..) in a function contract, entry snapshots in a loop invariant)
CV_POST = {
    # receivers: the inflow pass node is re-routed to the outflow pass node; the old receiver chain below it is reversed (chain[j + 1] now
    # flows to chain[j]); no other receiver is written
    "rec": r"""(REC(E_IN(%(e)s)) == E_OUT(%(e)s)
 && (GJ < CK(%(e)s) ==> REC(%(b)s) == %(a)s)
 && (!ONCH(%(e)s, SG) ==> REC(SG) == %(or)s))""",
    # distances: pass_length at the inflow pass node; chain[j + 1] gets the OLD distance of chain[j]; nothing else is written
    "dist": r"""(SAME_D(DIST(E_IN(%(e)s)), E_PL(%(e)s))
 && (GJ < CK(%(e)s) ==> SAME_D(DIST(%(b)s), %(oda)s))
 && (!ONCH(%(e)s, SG) ==> SAME_D(DIST(SG), %(od)s)))""",
    # C01: inside the basin every node but the inflow pass node keeps a receiver in the basin with a strictly smaller potential (no cycle,
    # the inflow pass node is reached in finitely many steps), and the inflow pass node drains into ANOTHER basin
    "drain": r"""(((NB(SG) == E_BIN(%(e)s) && SG != E_IN(%(e)s)) ==> (REC(SG) < gsize && NB(REC(SG)) == E_BIN(%(e)s) && PHI(%(e)s, REC(SG)) < PHI(%(e)s, SG)))
 && REC(E_IN(%(e)s)) < gsize && NB(REC(E_IN(%(e)s))) != E_BIN(%(e)s))""",
}
# instances, at the ghosts, of the chain definition, of the basin contract (a node of the basin other than the pit has its receiver in the
# basin, one step nearer the pit) and of "the basin has not been re-routed yet"
CV_GHOST_REQ = r"""(
    CV_CWF(%(e)s, 0) && CV_CWF(%(e)s, 1) && CV_CWF(%(e)s, CK(%(e)s)) && CV_CWF(%(e)s, GJ) && CV_CWF(%(e)s, GJ + 1)
 && CV_ORIG(%(e)s, 0) && CV_ORIG(%(e)s, GJ) && CV_ORIG(%(e)s, GJ + 1)
 && RANK(SG) < gsize && (NB(SG) != E_BIN(%(e)s) || POS(SG) > CK(%(e)s) || CV_CWF(%(e)s, POS(SG)))
 && ((ONCH(%(e)s, SG) && SG != E_IN(%(e)s)) ==> GJ + 1 == POS(SG))
 && ((NB(SG) == E_BIN(%(e)s) && SG != E_PIT(%(e)s)) ==> (REC(SG) < gsize && NB(REC(SG)) == E_BIN(%(e)s) && RANK(REC(SG)) + 1 == RANK(SG)
      && (POS(REC(SG)) > CK(%(e)s) || CV_CWF(%(e)s, POS(REC(SG))))))
)"""
_GJK = "GJ < CK(edge_idx)"
CV_INV = {
    # the walk is at chain position CJ, next_node is the chain node after it (the pit's own receiver is the pit)
    "walk": ["current_node < gsize && next_node < gsize && CJ <= CK(edge_idx) && CHN(edge_idx, CJ) == current_node "
             "&& next_node == CHN(edge_idx, CJ < CK(edge_idx) ? CJ + 1 : CJ) && pit_inflow == E_PIT(edge_idx) && NB(current_node) == E_BIN(edge_idx)"],
    "rec": [  # chain nodes further down than the walk are not written yet; those above are reversed; nodes off the chain are never written
        "(%s && GJ + 1 > CJ) ==> REC(gh_b) == gh_rb" % _GJK,
        "REC(E_IN(edge_idx)) == E_OUT(edge_idx)",
        "(%s && GJ + 1 <= CJ) ==> REC(gh_b) == gh_a" % _GJK,
        "!ONCH(edge_idx, SG) ==> REC(SG) == gh_r"],
    "dist": [
        "(%s && GJ > CJ) ==> SAME_D(DIST(gh_a), gh_da)" % _GJK,
        "(%s && GJ + 1 > CJ) ==> SAME_D(DIST(gh_b), gh_db)" % _GJK,
        # previous_dist carries the OLD distance of current_node
        "(%s && GJ == CJ) ==> SAME_D(previous_dist, gh_da)" % _GJK,
        "SAME_D(DIST(E_IN(edge_idx)), E_PL(edge_idx))",
        "(%s && GJ + 1 <= CJ) ==> SAME_D(DIST(gh_b), gh_da)" % _GJK,
        "!ONCH(edge_idx, SG) ==> SAME_D(DIST(SG), gh_d)"],
}
CV_LEMMAS = {"rec": (["rec"], ["rec"]), "dist": (["dist"], ["dist"]), "drain": (["rec"], ["drain"])}   # lemma -> (invariant parts, ensures parts)
CV_ASSUMPTIONS = []


def make_carve_step(lemma=None):
    invs, ens = (["rec", "dist"], ["rec", "dist", "drain"]) if lemma is None else CV_LEMMAS[lemma]
    post = " && ".join(CV_POST[k] % dict(e="edge_idx", a="CHN(edge_idx, GJ)", b="CHN(edge_idx, GJ + 1)", oda="OLD(DIST(CHN(edge_idx, GJ)))",
                                         od="OLD(DIST(SG))", **{"or": "OLD(REC(SG))"}) for k in ens)
    inv = "".join("__CPROVER_loop_invariant(%s)\n" % c for part in ["walk"] + invs for c in CV_INV[part])
    return Unit(
        name="carve_step", file=SINK_H, anchor=CV_ANCHOR, inner=r"for \(size_type edge_idx : basin_graph\.tree\(\)\)\s*\{",
        sig="void carve_step(%s, size_t edge_idx%s)" % (CV_PARAMS, CV_GPARAMS), pre=cv_pre(), defs=_sink_defs(),
        rules=[V(r"auto& edge = (basin_graph\.edges\(\)\[edge_idx\]);", r"const struct fsl_edge edge = \1;"),
               V(r"\bauto (\w+) = receivers\((\w+), 0\);", r"size_t \1 = CV_REC_RD(\2);"),
               V(r"\bstd::swap\(", "OR_SWAP(")] + SB_VOCAB,
        body_prefix="    /* ghost: the two chain nodes at the ghost position and entry values at the ghosts (a loop invariant cannot use __CPROVER_old) */\n"
                    "    const size_t gh_a = CHN(edge_idx, GJ), gh_b = CHN(edge_idx, GJ + 1);\n"
                    "    const size_t gh_r = REC(SG), gh_rb = REC(gh_b); const double gh_d = DIST(SG), gh_da = DIST(gh_a), gh_db = DIST(gh_b);\n",
        contract=CV_SHAPE + r"""
__CPROVER_requires(edge_idx < m_edges_n && SG < gsize)
/* ghost chain position: inside the ghost table; the two table entries there name grid nodes (a choice of the ghost, no statement about the code) */
__CPROVER_requires(GJ < gsize && COFF(edge_idx) < gsize && COFF(edge_idx) + GJ + 1 < NGN && CHN(edge_idx, GJ) < gsize && CHN(edge_idx, GJ + 1) < gsize)
/* the edge is either an outer-basin link without a pass (skipped) or a well-formed oriented pass */
__CPROVER_requires(E_OUT(edge_idx) == SIZE_MAX || (E_WF(edge_idx) && %(GREQ)s))
__CPROVER_assigns(__CPROVER_object_whole(m_receivers), __CPROVER_object_whole(m_receivers_distance))
/* skip outer basins: untouched */
__CPROVER_ensures(E_OUT(edge_idx) == SIZE_MAX ==> (REC(SG) == OLD(REC(SG)) && SAME_D(DIST(SG), OLD(DIST(SG)))))
__CPROVER_ensures(E_OUT(edge_idx) != SIZE_MAX ==> (%(POST)s))
""" % dict(GREQ=CV_GHOST_REQ % dict(e="edge_idx"), POST=post),
        loops={0: r"""
__CPROVER_assigns(current_node, next_node, previous_dist, __CPROVER_object_whole(m_receivers), __CPROVER_object_whole(m_receivers_distance))
""" + inv + r"""/* termination: the pit is reached by following receivers (it sits at the last position of the chain) */
__CPROVER_decreases(CK(edge_idx) - CJ)
"""})


carve_step = make_carve_step()

H_CV = r"""
size_t nondet_size_t(void); _Bool nondet_bool(void); double nondet_double(void);
void h_%(fn)s(void)
{
    size_t gsize = nondet_size_t(), nbasins = nondet_size_t();
    size_t *m_receivers; double *m_receivers_distance; const size_t *pits, *m_tree; const struct fsl_edge *m_edges; const struct cv_node *NG;
    m_edges_n = nondet_size_t(); m_tree_n = nondet_size_t(); m_tree_cap = nondet_size_t(); NGN = nondet_size_t();
    SG = nondet_size_t(); GJ = nondet_size_t(); SGT = nondet_size_t(); SE = nondet_size_t();
    %(call)s;
    __CPROVER_assert(0, "canary: postcondition point reachable");
}
"""

_CV_WHAT = {
    "rec": "the inflow pass node is re-routed to the outflow pass node, the old receiver chain from it down to the pit is reversed (chain[j+1] now "
           "flows to chain[j]), no other receiver is written",
    "dist": "the inflow pass node gets distance pass_length, chain[j+1] gets the OLD distance of chain[j], no other distance is written",
    "drain": "inside the basin a potential strictly decreases along the NEW receivers up to the inflow pass node, which drains into another basin "
             "(no cycle inside the basin, the basin is left after finitely many steps)",
}
G_CV_STEP = [Group(
    name="orient.carve.step.%s" % l, units=[make_carve_step(l)], extra_c=[MODEL_H, OR_H],
    harness=H_CV % dict(fn="carve_step", call="carve_step(%s, nondet_size_t(), nondet_size_t(), nondet_size_t())" % CV_ARGS),
    entry="h_carve_step", enforce="carve_step", loop_contracts=True, backend="cvc5", timeout=900, min_obligations=30,
    clause="update_routes_sinks_carve, one tree edge (an outer-basin link is skipped untouched; the walk down the old receiver chain terminates: "
           "rank to the pit decreases), lemma `%s`: %s" % (l, _CV_WHAT[l])) for l in CV_LEMMAS]

GROUPS = {"C15": [G_VISIT, G_OR_BOUNDED], "C01": G_CV_STEP}
PROPS = {}
