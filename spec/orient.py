"""basin_graph::orient_edges (flow/basin_graph.hpp, last function) and the `carve` re-routing of pits by the spanning-tree sink
resolver (flow/sink_resolver.hpp: update_routes_sinks_carve).  Properties C15 (orientation clause), C01 (carve), C08.

orient_edges is cut into
  orient_count / orient_fill   the bodies of the two `for (size_type l_id : m_tree)` loops (CSR construction), outlined,
  orient_visit                 the body of the inner `for` of the depth-first parse (one incident edge of the popped basin), outlined,
  orient_csr_init / _count / _prefix / _fill
                               the CSR phase (text up to `m_reorder_stack.reserve`) cut at three fixed statements into four consecutive slices,
                               loop bodies replaced by calls, every loop closed by a loop contract (the monolithic unit orient_csr runs out of memory),
  orient_pop                   the body of the depth-first `while` (one pop + scan of the row, inner `for` under a loop contract over orient_visit),
  orient_dfs                   the text from `m_reorder_stack.reserve` to the end, `while` under a loop contract over orient_pop's contract.
Measured pitfall (cost the previous round its three loop-level groups): `requires(bounds && is_fresh(p, n))` makes the allocation conditional and every
later dereference of p a two-way case split with a byte-level fallback; the loop-level units put each is_fresh in a requires clause of its own.
update_routes_sinks_carve is cut into carve_step (body of the loop over the tree, with the inner `while` under a loop contract)
and carve (the loop over the tree)."""
from fv.extract import Unit, R, V, RB
from fv.runner import Group
from spec.basin import MODEL_H, SINK_H, BG_H, _sink_constants, _sink_defs

OR_H = "models/orient.h"
OR_ANCHOR = r"void basin_graph<FG>::orient_edges\(\)"

# --------------------------------------------------------------------------- vocabulary of the basin_graph object as seen by orient_edges
_VEC = r"(m_nodes_connects_size|m_nodes_connects_ptr|m_nodes_adjacency|m_parent_basins|m_pass_stack)"
OR_VOCAB = [
    V(r"const auto nbasins = basins_count\(\);", "/* nbasins: parameter (basins_count()) */"),
    V(r"basins_count\(\)", "nbasins"),
    V(r"\bsize_t\(0\)", "((size_t) 0)"),
    V(r"\bstd::swap\(", "OR_SWAP("),
    # edge& edg = <lvalue>;  -> pointer to the same object
    V(r"\bedge\s*&\s*(\w+) = ([^;]+);", r"struct fsl_edge *\1_ref = &(\2);"),
    V(r"\bedg\b", "(*edg_ref)"),
    # m_reorder_stack: vector of 4-tuples
    V(r"m_reorder_stack\.reserve\(([^;]*)\);", r"FSL_RESERVE(\1);"),
    V(r"m_reorder_stack\.clear\(\)", "m_reorder_stack_n = 0"),
    V(r"m_reorder_stack\.size\(\)", "m_reorder_stack_n"),
    V(r"!m_reorder_stack\.empty\(\)", "(m_reorder_stack_n != 0)"),
    V(r"m_reorder_stack\.push_back\(\s*\{([^{}]*)\}\s*\)", r"OR_RS_PUSH(\1)"),
    V(r"std::tie\(\s*(\w+),\s*(\w+),\s*(\w+),\s*(\w+)\s*\)\s*=\s*m_reorder_stack\.back\(\);", r"OR_RS_TOP(\1, \2, \3, \4);"),
    V(r"m_reorder_stack\.pop_back\(\)", "OR_RS_POP()"),
    # m_pass_stack / m_parent_basins (m_keep_order bookkeeping)
    V(r"m_pass_stack\.clear\(\)", "m_pass_stack_n = 0"),
    V(r"m_pass_stack\.push_back\(([^;]*)\);", r"OR_PS_PUSH(\1);"),
    V(r"m_parent_basins\.resize\(([^()]+)\)", r"fsl_vsz_resize_o(m_parent_basins, &m_parent_basins_n, m_parent_basins_cap, \1, 0)"),
    # CSR vectors
    V(r"(m_nodes_connects_size|m_nodes_connects_ptr)\.resize\(([^()]+)\)", r"fsl_vsz_resize_o(\1, &\1_n, m_nodes_connects_cap, \2, 0)"),
    V(r"std::fill\((\w+)\.begin\(\),\s*\1\.end\(\),\s*([^;]+)\);", r"fsl_vsz_fill_o(\1, \1_n, \2);"),
    V(r"m_nodes_adjacency\.resize\(([^;]+)\);", r"fsl_vsz_resize_adj(m_nodes_adjacency, &m_nodes_adjacency_n, m_nodes_adjacency_cap, \1);"),
    V(_VEC + r"\.back\(\)", r"\1[FSL_IDX1(\1_n - 1, \1_n)]"),
    V(_VEC + r"\.size\(\)", r"\1_n"),
    V(r"\bm_tree\.size\(\)", "m_tree_n"),
    V(r"\bm_edges\.size\(\)", "m_edges_n"),
]
# element accesses a[expr]: innermost first (expr without brackets), repeated so that nested accesses are translated inside out
_IDX = [V(r"\b(m_nodes_connects_size|m_nodes_connects_ptr|m_nodes_adjacency|m_parent_basins|m_edges|m_tree)\[([^\[\]]+)\]", r"\1@<FSL_IDX1(\2, \1_n)@>")] * 4 \
       + [V(r"@<", "["), V(r"@>", "]")]
OR_VOCAB = OR_VOCAB + _IDX

OR_PARAMS = ("size_t nbasins, struct fsl_edge *m_edges, const size_t *m_tree, size_t *m_nodes_connects_size, size_t *m_nodes_connects_ptr, "
             "size_t *m_nodes_adjacency, struct fsl_rs *m_reorder_stack, _Bool m_keep_order, size_t *m_pass_stack, size_t *m_parent_basins")
OR_ARGS = ("nbasins, m_edges, m_tree, m_nodes_connects_size, m_nodes_connects_ptr, m_nodes_adjacency, m_reorder_stack, m_keep_order, "
           "m_pass_stack, m_parent_basins")

OR_PRE = r"""
#ifndef FSL_ORIENT_PRED
#define FSL_ORIENT_PRED
#define SAME_D(x, y) ((x) == (y) || (isnan(x) && isnan(y)))
#define L0(e) (m_edges[(e)].link[0])
#define L1(e) (m_edges[(e)].link[1])
#define P0(e) (m_edges[(e)].pass[0])
#define P1(e) (m_edges[(e)].pass[1])
#define PE(e) (m_edges[(e)].pass_elevation)
#define PL(e) (m_edges[(e)].pass_length)
#define OLD(x) __CPROVER_old(x)
#define EDGE_SAME(e) (L0(e) == OLD(L0(e)) && L1(e) == OLD(L1(e)) && P0(e) == OLD(P0(e)) && P1(e) == OLD(P1(e)) \
    && SAME_D(PE(e), OLD(PE(e))) && SAME_D(PL(e), OLD(PL(e))))
#define RS(s) (m_reorder_stack[(s)])
#endif
"""

# shapes of the objects (no statement about contents)
OR_SHAPE = r"""
__CPROVER_requires(1 <= nbasins && nbasins <= FSL_BASIN_NMAX)
__CPROVER_requires(1 <= m_edges_n && m_edges_n <= FSL_BASIN_NMAX && __CPROVER_is_fresh(m_edges, m_edges_n * sizeof(struct fsl_edge)))
__CPROVER_requires(1 <= m_tree_cap && m_tree_cap <= FSL_BASIN_NMAX && m_tree_n <= m_tree_cap && __CPROVER_is_fresh(m_tree, m_tree_cap * sizeof(size_t)))
__CPROVER_requires(nbasins <= m_nodes_connects_cap && m_nodes_connects_cap <= FSL_BASIN_NMAX)
__CPROVER_requires(__CPROVER_is_fresh(m_nodes_connects_size, m_nodes_connects_cap * sizeof(size_t)) && __CPROVER_is_fresh(m_nodes_connects_ptr, m_nodes_connects_cap * sizeof(size_t)))
__CPROVER_requires(1 <= m_nodes_adjacency_cap && m_nodes_adjacency_cap <= FSL_BASIN_NMAX && __CPROVER_is_fresh(m_nodes_adjacency, m_nodes_adjacency_cap * sizeof(size_t)))
__CPROVER_requires(1 <= m_reorder_stack_cap && m_reorder_stack_cap <= FSL_BASIN_NMAX && __CPROVER_is_fresh(m_reorder_stack, m_reorder_stack_cap * sizeof(struct fsl_rs)))
__CPROVER_requires(1 <= m_pass_stack_cap && m_pass_stack_cap <= FSL_BASIN_NMAX && __CPROVER_is_fresh(m_pass_stack, m_pass_stack_cap * sizeof(size_t)))
__CPROVER_requires(nbasins <= m_parent_basins_cap && m_parent_basins_cap <= FSL_BASIN_NMAX && __CPROVER_is_fresh(m_parent_basins, m_parent_basins_cap * sizeof(size_t)))
__CPROVER_requires(m_keep_order == 0 || m_keep_order == 1)
"""


def _split_fresh(shape):
    """the same clauses with every `bounds && is_fresh(..)` cut into `requires(bounds) requires(is_fresh(..))`: inside a conjunction the allocation is
    conditional, symex then keeps the pointer's initial (invalid) target in its value set and every later dereference becomes a two-way case split
    with a byte-level fallback (measured on the CSR fill slice: 6391 byte_extract operators, out of memory; none and 40 s after the cut)"""
    out = []
    for line in shape.strip().splitlines():
        if line.startswith("__CPROVER_requires(") and "__CPROVER_is_fresh(" in line:
            assert line.endswith(")")
            parts = line[len("__CPROVER_requires("):-1].split(" && ")
            plain = [c for c in parts if "__CPROVER_is_fresh(" not in c]
            if plain:
                out.append("__CPROVER_requires(%s)" % " && ".join(plain))
            out.extend("__CPROVER_requires(%s)" % c for c in parts if "__CPROVER_is_fresh(" in c)
        else:
            out.append(line)
    return "\n" + "\n".join(out) + "\n"


# lengths as they are when the depth-first parse runs
OR_LENS = r"""
__CPROVER_requires(m_nodes_connects_size_n == nbasins && m_nodes_connects_ptr_n == nbasins && m_nodes_adjacency_n <= m_nodes_adjacency_cap)
__CPROVER_requires(m_reorder_stack_n <= m_reorder_stack_cap && m_pass_stack_n <= m_pass_stack_cap && m_parent_basins_n <= m_parent_basins_cap)
__CPROVER_requires(m_keep_order ==> m_parent_basins_n == nbasins)
"""

OR_LOCALS = "    const size_t init_idx = SIZE_MAX; /* local constant of the enclosing function (its definition is part of unit orient_edges) */\n"

# --------------------------------------------------------------------------- (b) one incident edge of the popped basin
VISIT_INNER = r"for \(size_t i = m_nodes_connects_ptr\[node\];[^{}]*\)\s*\{"
# VE: the visited edge; PEDGE_OLD: it is the edge towards the parent, already stored as (parent, node)
VISIT_DEFS = r"""
#define VE (m_nodes_adjacency[i])
#define IS_PARENT_EDGE (OLD(L0(VE)) == parent && node != parent)
#define OTHER_END (OLD(L0(VE)) == node ? OLD(L1(VE)) : OLD(L0(VE)))
#define TOP (RS(OLD(m_reorder_stack_n)))
"""
orient_visit = Unit(
    name="orient_visit", file=BG_H, anchor=OR_ANCHOR, inner=VISIT_INNER,
    sig="void orient_visit(%s, size_t node, size_t parent, double pass_elevation, double parent_pass_elevation, size_t i)" % OR_PARAMS,
    pre=OR_PRE + VISIT_DEFS, rules=OR_VOCAB, body_prefix=OR_LOCALS,
    contract=OR_SHAPE + OR_LENS + r"""
__CPROVER_requires(node < nbasins && parent < nbasins && i < m_nodes_adjacency_n && OGE < m_edges_n && OGS < m_reorder_stack_cap)
/* the slot holds a tree edge incident to the popped basin (postcondition of the CSR phase, instance at slot i); a tree edge joins
 * two different basins (input well-formedness of the tree, producer compute_tree_*: an edge enters iff its end points are in different classes) */
__CPROVER_requires(VE < m_edges_n && L0(VE) < nbasins && L1(VE) < nbasins && L0(VE) != L1(VE) && (L0(VE) == node || L1(VE) == node))
/* model artefact: room below the ghost capacities (the real vectors reallocate) */
__CPROVER_requires(m_reorder_stack_n < m_reorder_stack_cap && m_pass_stack_n < m_pass_stack_cap)
/* frame: the visited edge, the new top of the stack, and the m_keep_order bookkeeping -- nothing else */
__CPROVER_assigns(m_edges[m_nodes_adjacency[i]], m_reorder_stack[m_reorder_stack_n], m_reorder_stack_n,
                  m_pass_stack[m_pass_stack_n], m_pass_stack_n, __CPROVER_object_whole(m_parent_basins))
/* C15 (orientation), from the statement: the edge towards the parent basin is already stored as (parent, node) and stays as it is,
 * nothing is stacked for it ... */
__CPROVER_ensures(IS_PARENT_EDGE ==> (EDGE_SAME(VE) && m_reorder_stack_n == OLD(m_reorder_stack_n)))
/* ... every other incident edge ends up pointing AWAY from the popped basin: (node, other end point) ... */
__CPROVER_ensures(!IS_PARENT_EDGE ==> (L0(VE) == node && L1(VE) == OTHER_END))
/* ... link and pass are swapped TOGETHER (pass[k] stays the pass node lying in basin link[k]), weight and length are untouched ... */
__CPROVER_ensures((L0(VE) == OLD(L0(VE)) && L1(VE) == OLD(L1(VE)) && P0(VE) == OLD(P0(VE)) && P1(VE) == OLD(P1(VE)))
               || (L0(VE) == OLD(L1(VE)) && L1(VE) == OLD(L0(VE)) && P0(VE) == OLD(P1(VE)) && P1(VE) == OLD(P0(VE))))
__CPROVER_ensures(SAME_D(PE(VE), OLD(PE(VE))) && SAME_D(PL(VE), OLD(PL(VE))))
/* ... and exactly one entry (child basin, this basin, max(weight of the edge, level of this basin), level of this basin) is stacked */
__CPROVER_ensures(!IS_PARENT_EDGE ==> (m_reorder_stack_n == OLD(m_reorder_stack_n) + 1 && TOP.node == L1(VE) && TOP.parent == node
    && (SAME_D(TOP.pe, PE(VE)) || SAME_D(TOP.pe, pass_elevation)) && !(TOP.pe < PE(VE)) && !(TOP.pe < pass_elevation)
    && SAME_D(TOP.ppe, pass_elevation)))
/* frame: every other edge and every older stack entry is untouched */
__CPROVER_ensures(OGE != VE ==> EDGE_SAME(OGE))
__CPROVER_ensures(OGS < OLD(m_reorder_stack_n) ==> (RS(OGS).node == OLD(RS(OGS).node) && RS(OGS).parent == OLD(RS(OGS).parent)
    && SAME_D(RS(OGS).pe, OLD(RS(OGS).pe)) && SAME_D(RS(OGS).ppe, OLD(RS(OGS).ppe))))
""",
)

# lemma `len` of the visit (same function, same requires / assigns, one more ensures; proved by its own group orient.visit.len): the clause the
# depth-first loop needs about the one assigned scalar the contract above is silent about.  orient_visit_all = the union, used where the call is replaced.
import copy as _copy
VISIT_LEN_ENS = r"""
/* the m_keep_order bookkeeping pushes at most one pass index */
__CPROVER_ensures(m_pass_stack_n == OLD(m_pass_stack_n) || m_pass_stack_n == OLD(m_pass_stack_n) + 1)
"""
orient_visit_len = _copy.copy(orient_visit)
orient_visit_len.contract = orient_visit.contract[:orient_visit.contract.index("__CPROVER_ensures(")] + VISIT_LEN_ENS
orient_visit_all = _copy.copy(orient_visit)
orient_visit_all.contract = orient_visit.contract + VISIT_LEN_ENS

H_OR = r"""
size_t nondet_size_t(void); _Bool nondet_bool(void); double nondet_double(void);
void h_%(fn)s(void)
{
    size_t nbasins = nondet_size_t();
    struct fsl_edge *m_edges; const size_t *m_tree; size_t *m_nodes_connects_size, *m_nodes_connects_ptr, *m_nodes_adjacency, *m_pass_stack, *m_parent_basins;
    struct fsl_rs *m_reorder_stack; _Bool m_keep_order = nondet_bool();
    /* lengths / capacities and every scratch member: arbitrary pre-state */
    m_edges_n = nondet_size_t(); m_tree_n = nondet_size_t(); m_tree_cap = nondet_size_t(); m_root = nondet_size_t();
    m_nodes_connects_size_n = nondet_size_t(); m_nodes_connects_ptr_n = nondet_size_t(); m_nodes_connects_cap = nondet_size_t();
    m_nodes_adjacency_n = nondet_size_t(); m_nodes_adjacency_cap = nondet_size_t();
    m_reorder_stack_n = nondet_size_t(); m_reorder_stack_cap = nondet_size_t();
    m_pass_stack_n = nondet_size_t(); m_pass_stack_cap = nondet_size_t(); m_parent_basins_n = nondet_size_t(); m_parent_basins_cap = nondet_size_t();
    OGE = nondet_size_t(); OGS = nondet_size_t(); OGB = nondet_size_t(); OGB2 = nondet_size_t(); OGT = nondet_size_t(); OGI = nondet_size_t();
%(pre)s
    %(call)s;
    __CPROVER_assert(0, "canary: postcondition point reachable");
}
"""


def _h(fn, call, pre=""):
    return H_OR % dict(fn=fn, call=call, pre=pre)


G_VISIT = Group(
    name="orient.visit", units=[orient_visit], extra_c=[MODEL_H, OR_H],
    harness=_h("orient_visit", "orient_visit(%s, nondet_size_t(), nondet_size_t(), nondet_double(), nondet_double(), nondet_size_t())" % OR_ARGS),
    entry="h_orient_visit", enforce="orient_visit", backend="cvc5", timeout=600, min_obligations=30,
    clause="orient_edges, one incident edge of the popped basin: the edge towards the parent is left as (parent, node); every other incident edge "
           "ends up as (node, other end) with link and pass swapped together and weight/length untouched, and exactly one entry "
           "(other end, node, max(weight, level), level) is stacked; every other edge and every older stack entry is untouched")


G_VISIT_LEN = Group(
    name="orient.visit.len", units=[orient_visit_len], extra_c=[MODEL_H, OR_H],
    harness=_h("orient_visit", "orient_visit(%s, nondet_size_t(), nondet_size_t(), nondet_double(), nondet_double(), nondet_size_t())" % OR_ARGS),
    entry="h_orient_visit", enforce="orient_visit", backend="cvc5", timeout=600, min_obligations=30,
    clause="orient_edges, one incident edge of the popped basin, lemma `len`: the m_keep_order bookkeeping pushes at most one pass index")

# --------------------------------------------------------------------------- (c) the depth-first parse: one pop, and the while loop
import re as _re
# the function is cut at the statement `m_reorder_stack.reserve(nbasins);`: unit orient_csr is the text before it, unit orient_dfs the text from it on
CUT_KEEP_DFS = R(r"\A.*?(?=m_reorder_stack\.reserve\()", "\n", 1, flags=_re.S)
CUT_KEEP_CSR = R(r"m_reorder_stack\.reserve\(.*\Z", "\n", 1, flags=_re.S)
POP_INNER = r"while \(m_reorder_stack\.size\(\)\)\s*\{"
TG_PARAMS = ", const struct or_tnode *TG, const size_t *ECH"
TG_ARGS = ", TG, ECH"
DFS_PRE = r"""
#ifndef FSL_ORIENT_FOREST
#define FSL_ORIENT_FOREST
#define TPAR(b) (TG[(b)].par)
#define TDEP(b) (TG[(b)].dep)
#define TPED(b) (TG[(b)].pedge)
#define TWSP(b) (TG[(b)].wsp)
#define ECHILD(e) (ECH[(e)])
#define HASP(b) (TPED(b) != SIZE_MAX)
/* definition of the forest ghost at basin b: a basin with a parent edge is not the root, its parent is a basin one level nearer the
 * root, and the parent edge names b as its child end */
#define TWF(b) (!HASP(b) || ((b) != m_root && TPAR(b) < nbasins && TPED(b) < m_edges_n && ECHILD(TPED(b)) == (b) \
    && TDEP(TPAR(b)) < nbasins && TDEP(TPAR(b)) + 1 == TDEP(b)))
/* ... and at edge e: a tree edge is the parent edge of exactly one basin */
#define EWF(e) (ECHILD(e) == SIZE_MAX || (ECHILD(e) < nbasins && TPED(ECHILD(e)) == (e) && TWF(ECHILD(e)) && TWF(TPAR(ECHILD(e)))))
/* C15: tree edge e points from the basin nearer the root to the farther one */
#define ORIENTED(e) (L0(e) == TPAR(ECHILD(e)) && L1(e) == ECHILD(e))
/* the end points of tree edge e are its child basin and that basin's parent, in either order */
#define LINKS(e) (ORIENTED(e) || (L0(e) == ECHILD(e) && L1(e) == TPAR(ECHILD(e))))
/* stack-element invariant at slot s, from the task: the start entry is (root, root); every other entry (node, parent) names a basin
 * and its parent in the forest, and the tree edge between them is already stored as (parent, node) */
#define SE(s) (RS(s).node < nbasins && RS(s).parent < nbasins && (RS(s).node == RS(s).parent ? RS(s).node == m_root \
    : (HASP(RS(s).node) && TPAR(RS(s).node) == RS(s).parent && TWF(RS(s).node) && ORIENTED(TPED(RS(s).node)))))
/* slot i of the adjacency table lies in the row of basin b and holds a tree edge incident to b (postcondition of the CSR phase at (b, i)) */
#define CSR_SLOT(b, i) ((i) < m_nodes_adjacency_n && m_nodes_adjacency[(i)] < m_edges_n && ECHILD(m_nodes_adjacency[(i)]) != SIZE_MAX \
    && EWF(m_nodes_adjacency[(i)]) && ((b) == ECHILD(m_nodes_adjacency[(i)]) || (b) == TPAR(ECHILD(m_nodes_adjacency[(i)]))))
/* the parent edge of basin b sits at slot wsp(b) in the row of its parent (postcondition of the CSR phase: every tree edge occurs in the
 * rows of both its end points) */
#define CSR_PEDGE(b) (!HASP(b) || (m_nodes_connects_ptr[TPAR(b)] <= TWSP(b) && TWSP(b) < m_nodes_connects_ptr[TPAR(b)] + m_nodes_connects_size[TPAR(b)] \
    && TWSP(b) < m_nodes_adjacency_n && m_nodes_adjacency[TWSP(b)] == TPED(b)))
/* ghost basin OGB is on the stack at the slot recorded for it */
#define ONSTACK_B (OGS_B < m_reorder_stack_n && RS(OGS_B).node == OGB && RS(OGS_B).parent == TPAR(OGB))
/* progress for the ghost basin OGB: once its parent has been popped, its parent edge is oriented and OGB itself has been popped or is stacked */
#define W1 (!(HASP(OGB) && OGV_P) || (ORIENTED(TPED(OGB)) && (OGV_B || ONSTACK_B)))
/* the root is popped first: it sits at slot 0 until it is popped */
#define W0 (!(HASP(OGB) && TPAR(OGB) == m_root) || OGV_P || (m_reorder_stack_n >= 1 && RS(0).node == m_root && RS(0).parent == m_root))
/* an edge is either as it was (o..) or has link and pass swapped together; weight and length never change */
#define EDGE_REL(e, ol0, ol1, op0, op1, ope, opl) ((((L0(e) == (ol0) && L1(e) == (ol1) && P0(e) == (op0) && P1(e) == (op1)) \
    || (L0(e) == (ol1) && L1(e) == (ol0) && P0(e) == (op1) && P1(e) == (op0))) && SAME_D(PE(e), ope) && SAME_D(PL(e), opl)) \
    && (ECHILD(e) != SIZE_MAX || L0(e) == (ol0)))
#endif
"""
DFS_SHAPE = _split_fresh(OR_SHAPE) + OR_LENS + r"""
__CPROVER_requires(__CPROVER_is_fresh(TG, nbasins * sizeof(struct or_tnode)))
__CPROVER_requires(__CPROVER_is_fresh(ECH, m_edges_n * sizeof(size_t)))
__CPROVER_requires(OGE < m_edges_n && OGS < m_reorder_stack_cap && OGB < nbasins)
/* documented domain: an unmasked base-level node exists, so connect_basins chose a root basin (m_root == size_type(-1) would index
 * m_parent_basins / m_nodes_connects_ptr out of bounds) */
__CPROVER_requires(m_root < nbasins && !HASP(m_root))
/* definition of the forest ghost at the ghost basin, its parent and the ghost edge; CSR postcondition at the ghost basin */
__CPROVER_requires(TWF(OGB) && (!HASP(OGB) || TWF(TPAR(OGB))) && EWF(OGE) && CSR_PEDGE(OGB))
"""
# state that holds between two pops (for the ghost slot OGS, the ghost edge OGE, the ghost basin OGB); %(rel)s relates OGE to its value at entry
# (the lengths clause comes first: the clauses are assumed / asserted in this order and W1 reads the stack at a slot below its length)
DFS_STATE = ["m_reorder_stack_n <= m_reorder_stack_cap && m_pass_stack_n <= m_pass_stack_cap && (!m_keep_order || m_parent_basins_n == nbasins)",
             "OGS >= m_reorder_stack_n || SE(OGS)",
             "ECHILD(OGE) == SIZE_MAX || LINKS(OGE)",
             "%(rel)s",
             "W1", "W0"]
REL_OLD = "EDGE_REL(OGE, OLD(L0(OGE)), OLD(L1(OGE)), OLD(P0(OGE)), OLD(P1(OGE)), OLD(PE(OGE)), OLD(PL(OGE)))"
REL_GH = "EDGE_REL(OGE, gh_e.link[0], gh_e.link[1], gh_e.pass[0], gh_e.pass[1], gh_e.pass_elevation, gh_e.pass_length)"
DFS_ASSIGNS = ("__CPROVER_object_whole(m_edges), __CPROVER_object_whole(m_reorder_stack), m_reorder_stack_n, __CPROVER_object_whole(m_pass_stack), "
               "m_pass_stack_n, __CPROVER_object_whole(m_parent_basins), OGV_P, OGV_B, OGS_B")

# the pop is proved lemma by lemma (same function, same requires / assigns / ghost code; each lemma carries a subset of the state clauses through the
# inner loop and ensures that subset; the union of the lemmas' ensures is the contract the while loop uses).  Indices into DFS_STATE; the lengths clause
# (0) and the two clauses about the popped basin itself are needed by every lemma.
POP_LEMMAS = {"stack": [0, 1], "edge": [0, 2, 3], "progress": [0, 4, 5]}
_POP_INV_W = {
    "W1": "/* as long as the parent of the ghost basin is being processed: the slots before i have been visited */\n"
          "__CPROVER_loop_invariant(!(HASP(OGB) && (OGV_P || (node == TPAR(OGB) && TWSP(OGB) < i))) || (ORIENTED(TPED(OGB)) && (OGV_B || node == OGB || ONSTACK_B)))\n",
    "W0": "__CPROVER_loop_invariant(!(HASP(OGB) && TPAR(OGB) == m_root) || OGV_P || node == m_root || (m_reorder_stack_n >= 1 && RS(0).node == m_root && RS(0).parent == m_root))\n",
}


def make_pop(lemma=None):
    idx = list(range(len(DFS_STATE))) if lemma is None else POP_LEMMAS[lemma]
    state = [DFS_STATE[k] for k in idx]
    grow = lemma in (None, "stack")
    return Unit(
        name="orient_pop", file=BG_H, anchor=OR_ANCHOR, inner=POP_INNER,
        sig="void orient_pop(%s%s)" % (OR_PARAMS, TG_PARAMS), pre=OR_PRE + DFS_PRE,
        rules=[RB(VISIT_INNER.replace(r"\s*\{", ""),
                  "{ /* instances: CSR postcondition at slot i, room below the ghost capacities (model artefact), induction hypothesis `the end points "
                  "of a tree edge are its child and that child's parent` at the edge read */\n"
                  "  FSL_PRE(CSR_SLOT(node, i) && LINKS(m_nodes_adjacency[i])); FSL_PRE(m_reorder_stack_n < m_reorder_stack_cap && m_pass_stack_n < m_pass_stack_cap);\n"
                  "  const size_t or_n0_ = m_reorder_stack_n;\n"
                  "  orient_visit(%s, node, parent, pass_elevation, parent_pass_elevation, i);\n"
                  "  /* ghost: remember where the ghost basin was stacked */ if (m_reorder_stack_n > or_n0_ && RS(or_n0_).node == OGB) OGS_B = or_n0_; }" % OR_ARGS)] + OR_VOCAB,
        body_prefix=OR_LOCALS + "    /* ghost: value of the ghost edge at entry (a loop invariant cannot use __CPROVER_old) */ const struct fsl_edge gh_e = m_edges[OGE];\n"
                    "    /* ghost: length of the stack at entry */ const size_t gh_n0 = m_reorder_stack_n;\n",
        body_suffix="    /* ghost: this basin has been popped */ if (HASP(OGB) && node == TPAR(OGB)) OGV_P = 1; if (node == OGB) OGV_B = 1;\n",
        contract=DFS_SHAPE + r"""
/* a non-empty stack; induction-hypothesis instance of the stack-element invariant at the slot that is popped (DESIGN 3.9) */
__CPROVER_requires(m_reorder_stack_n >= 1 && SE(m_reorder_stack_n - 1))
""" + "".join("__CPROVER_requires(%s)\n" % (c % dict(rel="1")) for c in DFS_STATE) + r"""
__CPROVER_assigns(""" + DFS_ASSIGNS + r""")
""" + "".join("__CPROVER_ensures(%s)\n" % (c % dict(rel=REL_OLD)) for c in state)
        + ("__CPROVER_ensures(m_reorder_stack_n + 1 >= OLD(m_reorder_stack_n))\n" if grow else ""),
        loops={0: r"""
__CPROVER_assigns(i, """ + DFS_ASSIGNS + r""")
__CPROVER_loop_invariant(node < nbasins && parent < nbasins && m_nodes_connects_ptr[node] <= i)
""" + ("/* the visits only push */\n__CPROVER_loop_invariant(m_reorder_stack_n + 1 >= gh_n0)\n" if grow else "") + r"""
/* the edge towards the parent of the popped basin stays (parent, basin) during the scan of its row (it is the one edge of the row that is left as it is) */
__CPROVER_loop_invariant(node == parent || ORIENTED(TPED(node)))
""" + "".join(_POP_INV_W[c] if c in _POP_INV_W else "__CPROVER_loop_invariant(%s)\n" % (c % dict(rel=REL_GH)) for c in state)})


orient_pop = make_pop()

orient_dfs = Unit(
    name="orient_dfs", file=BG_H, anchor=OR_ANCHOR, sig="void orient_dfs(%s%s)" % (OR_PARAMS, TG_PARAMS), pre=OR_PRE + DFS_PRE,
    rules=[CUT_KEEP_DFS,
           RB(POP_INNER.replace(r"\s*\{", ""),
              "{ /* induction-hypothesis instance of the stack-element invariant at the slot that is popped (DESIGN 3.9) */\n"
              "  FSL_PRE(SE(m_reorder_stack_n - 1)); orient_pop(%s%s); }" % (OR_ARGS, TG_ARGS))] + OR_VOCAB,
    body_prefix=OR_LOCALS + "    /* ghost: value of the ghost edge at entry */ const struct fsl_edge gh_e = m_edges[OGE];\n",
    contract=DFS_SHAPE.replace(OR_LENS, r"""
__CPROVER_requires(m_nodes_connects_size_n == nbasins && m_nodes_connects_ptr_n == nbasins && m_nodes_adjacency_n <= m_nodes_adjacency_cap)
/* NOTHING is required of the contents or lengths of m_reorder_stack, m_pass_stack, m_parent_basins (C09: scratch state of earlier calls) */
__CPROVER_requires(m_reorder_stack_n <= m_reorder_stack_cap && m_pass_stack_n <= m_pass_stack_cap && m_parent_basins_n <= m_parent_basins_cap)
""") + r"""
/* ghost: nothing has been popped yet; the ghost edge is a tree edge whose end points are its child and that child's parent, or no tree edge */
__CPROVER_requires(!OGV_P && !OGV_B && (ECHILD(OGE) == SIZE_MAX || LINKS(OGE)) && OGB2 < m_parent_basins_cap)
__CPROVER_assigns(m_parent_basins_n, """ + DFS_ASSIGNS + r""")
/* C15: when the parse ends, the parent edge of every basin whose parent has been popped is oriented away from the root and the basin itself
 * has been popped; the root has been popped (so its children have) */
__CPROVER_ensures(m_reorder_stack_n == 0)
__CPROVER_ensures((HASP(OGB) && (OGV_P || TPAR(OGB) == m_root)) ==> (OGV_P && OGV_B && ORIENTED(TPED(OGB))))
/* the end points of every tree edge stay what they were; link and pass are swapped together; weight, length and the edges outside the tree are untouched */
__CPROVER_ensures(ECHILD(OGE) == SIZE_MAX || LINKS(OGE))
__CPROVER_ensures(""" + REL_OLD + r""")
""",
    loops={0: r"""
__CPROVER_assigns(""" + DFS_ASSIGNS + r""")
""" + "".join("__CPROVER_loop_invariant(%s)\n" % (c % dict(rel=REL_GH)) for c in DFS_STATE)},
)

H_DFS = H_OR.replace("    struct fsl_rs *m_reorder_stack;", "    struct fsl_rs *m_reorder_stack; const struct or_tnode *TG; const size_t *ECH;\n"
                     "    OGV_P = nondet_bool(); OGV_B = nondet_bool(); OGS_B = nondet_size_t();")
NOPO = ["--pointer-overflow-check"]
G_POP = Group(
    name="orient.pop", units=[orient_visit_all, orient_pop], extra_c=[MODEL_H, OR_H],
    harness=H_DFS % dict(fn="orient_pop", call="orient_pop(%s%s)" % (OR_ARGS, TG_ARGS), pre=""),
    entry="h_orient_pop", enforce="orient_pop", replace=["orient_visit"], loop_contracts=True, backend="cadical", timeout=1800, min_obligations=30,
    no_checks=NOPO,
    clause="orient_edges, one iteration of the depth-first `while` (pop one basin, visit its row of the adjacency table; the inner `for` is closed by a "
           "loop contract over the visit's contract): the stack-element invariant, `end points of a tree edge = child and its parent`, the swap-together / "
           "untouched relation of an arbitrary edge to its value at entry, and the progress invariant of an arbitrary basin are preserved")
_POP_WHAT = {
    "stack": "the stack-element invariant (a stacked (basin, parent) names a basin and its parent in the forest whose tree edge is already stored as (parent, basin); "
             "the start entry is (root, root)) holds for an arbitrary slot afterwards; the stack shrinks by at most the popped entry",
    "edge": "an arbitrary edge keeps `end points of a tree edge = child and its parent` and is, relative to its value at entry, untouched or has link and pass swapped "
            "together, weight / length untouched, non-tree edges untouched",
    "progress": "the progress invariant of an arbitrary basin (once its parent has been popped its parent edge is stored as (parent, basin) and the basin itself has been "
                "popped or is stacked; the root sits at slot 0 until it is popped) is preserved",
}
G_POP_LEMMAS = [Group(
    name="orient.pop.%s" % l, units=[orient_visit_all, make_pop(l)], extra_c=[MODEL_H, OR_H],
    harness=H_DFS % dict(fn="orient_pop", call="orient_pop(%s%s)" % (OR_ARGS, TG_ARGS), pre=""),
    entry="h_orient_pop", enforce="orient_pop", replace=["orient_visit"], loop_contracts=True, backend="cadical", timeout=1500, min_obligations=30, no_checks=NOPO,
    clause="orient_edges, one iteration of the depth-first `while` (pop one basin, visit its row of the adjacency table; the inner `for` is closed by a loop contract "
           "over the visit's contract), lemma `%s`: %s" % (l, _POP_WHAT[l])) for l in POP_LEMMAS]
G_DFS = Group(
    name="orient.dfs", units=[orient_pop, orient_dfs], extra_c=[MODEL_H, OR_H],
    harness=H_DFS % dict(fn="orient_dfs", call="orient_dfs(%s%s)" % (OR_ARGS, TG_ARGS), pre=""),
    entry="h_orient_dfs", enforce="orient_dfs", replace=["orient_pop", "fsl_vsz_resize_o"], loop_contracts=True, backend="cadical", timeout=1800, min_obligations=30,
    no_checks=NOPO,
    clause="orient_edges from `m_reorder_stack.reserve` to the end, on ARBITRARY pre-state of the stack and of the m_keep_order scratch vectors: when the "
           "parse ends (empty stack) every basin whose parent was popped has been popped itself and its parent edge is stored as (parent, basin), the root "
           "was popped; edges keep their end points, link and pass are swapped together, weights / lengths / non-tree edges are untouched")

# --------------------------------------------------------------------------- (a) CSR construction: counts, prefix pointers, adjacency fill
# ghosts: OGB / OGB2 arbitrary basins, OGI an arbitrary slot of the adjacency table, OGT an arbitrary slot of m_tree, OW the slot at which the
# edge of tree slot OGT was stored in the row of OGB (ghost witness, written by ghost code), and the harness-owned read-only table
#   CUM[t] = number of end points equal to OGB among the edges of tree slots [0, t)      (t = 0 .. m_tree_n)
# whose defining recursion is instantiated where a tree slot is read.
CSR_PARAMS = ", const size_t *ECH, const size_t *CUM"
CSR_ARGS = ", ECH, CUM"
CSR_PRE = r"""
#ifndef FSL_ORIENT_CSR
#define FSL_ORIENT_CSR
size_t OW;     /* ghost witness slot */
size_t CUMN;   /* length of the ghost table CUM (>= m_tree_n + 1) */
#define ECHILD_(e) (ECH[(e)])
#define CS(b) (m_nodes_connects_size[(b)])
#define CP(b) (m_nodes_connects_ptr[(b)])
#define ADJ(i) (m_nodes_adjacency[(i)])
#define TR(t) (m_tree[(t)])
#define INC(e) ((size_t) (L0(e) == OGB) + (size_t) (L1(e) == OGB))   /* how many end points of edge e are the ghost basin */
#define DEGB (CUM[m_tree_n])                                          /* degree of the ghost basin in the tree */
/* input well-formedness of a tree entry: an edge index whose end points are two DIFFERENT basins (producer compute_tree_*: an edge enters
 * the tree iff its end points are in different classes; with equal end points the fill loop would leave a slot of the row unwritten);
 * ECH marks the tree edges */
#define TREE_WF(e) ((e) < m_edges_n && L0(e) < nbasins && L1(e) < nbasins && L0(e) != L1(e) && ECHILD_(e) != SIZE_MAX)
/* definition of CUM at slot t, and its consequence `CUM is non-decreasing` */
#define CUM_DEF(t) (CUM[(t) + 1] == CUM[(t)] + INC(TR(t)) && CUM[(t) + 1] <= DEGB)
#define ROW_END(b) ((b) + 1 < nbasins ? CP((b) + 1) : m_nodes_adjacency_n)
/* facts about the row of basin b that the count and prefix loops establish for every basin (proved for the ghost basin, instantiated at the
 * end points of the edge read): the row is not full while an incident edge is still to be stored; rows end inside the table */
#define ROW_ROOM(b) (CP(b) + CS(b) < ROW_END(b) && ROW_END(b) <= m_nodes_adjacency_n)
/* rows of different basins do not overlap (proved for the ghost pair OGB < OGB2 by the prefix loop) */
#define ROW_DISJ(a, b) (((a) >= (b) || ROW_END(a) <= CP(b)) && ((b) >= (a) || ROW_END(b) <= CP(a)))
/* the filled part of the row of the ghost basin */
#define IN_ROW(i) (CP(OGB) <= (i) && (i) < CP(OGB) + CS(OGB))
#define INCIDENT(e) (L0(e) == OGB || L1(e) == OGB)
#endif
"""
CSR_OBJS = r"""
__CPROVER_requires(1 <= nbasins && nbasins <= FSL_BASIN_NMAX && OGB < nbasins && OGB2 < nbasins && OGI < m_nodes_adjacency_cap && OGT < m_tree_cap)
__CPROVER_requires(1 <= m_edges_n && m_edges_n <= FSL_BASIN_NMAX && __CPROVER_is_fresh(m_edges, m_edges_n * sizeof(struct fsl_edge)))
__CPROVER_requires(nbasins <= m_nodes_connects_cap && m_nodes_connects_cap <= FSL_BASIN_NMAX)
__CPROVER_requires(__CPROVER_is_fresh(m_nodes_connects_size, m_nodes_connects_cap * sizeof(size_t)))
"""
CSR_OBJS2 = r"""
__CPROVER_requires(__CPROVER_is_fresh(m_nodes_connects_ptr, m_nodes_connects_cap * sizeof(size_t)))
__CPROVER_requires(1 <= m_nodes_adjacency_cap && m_nodes_adjacency_cap <= FSL_BASIN_NMAX && __CPROVER_is_fresh(m_nodes_adjacency, m_nodes_adjacency_cap * sizeof(size_t)))
"""
CSR_OBJS3 = r"""
__CPROVER_requires(1 <= m_tree_cap && m_tree_cap <= FSL_BASIN_NMAX && m_tree_n <= m_tree_cap && __CPROVER_is_fresh(m_tree, m_tree_cap * sizeof(size_t)))
__CPROVER_requires(m_tree_n + 1 <= CUMN && CUMN <= FSL_BASIN_NMAX + 1 && __CPROVER_is_fresh(CUM, CUMN * sizeof(size_t)) && __CPROVER_is_fresh(ECH, m_edges_n * sizeof(size_t)))
/* ghost capacity of the adjacency table: two slots per tree edge (model artefact: the real vector reallocates) */
__CPROVER_requires(m_tree_n <= m_nodes_adjacency_cap && 2 * m_tree_n <= m_nodes_adjacency_cap)
"""
FIRST_TREE_LOOP = r"\A.*?for \(size_type l_id : m_tree\)\s*\{"
LAST_TREE_LOOP = r"\A.*for \(size_type l_id : m_tree\)\s*\{"
orient_count = Unit(
    name="orient_count", file=BG_H, anchor=OR_ANCHOR, inner=FIRST_TREE_LOOP,
    sig="void orient_count(%s%s, size_t l_id)" % (OR_PARAMS, CSR_PARAMS), pre=OR_PRE + CSR_PRE, rules=OR_VOCAB, body_prefix=OR_LOCALS,
    contract=CSR_OBJS + r"""
__CPROVER_requires(m_nodes_connects_size_n == nbasins && l_id < m_edges_n && L0(l_id) < nbasins && L1(l_id) < nbasins)
__CPROVER_assigns(m_nodes_connects_size[L0(l_id)], m_nodes_connects_size[L1(l_id)])
/* one more incident edge for each end point, nothing else */
__CPROVER_ensures(CS(OGB) == OLD(CS(OGB)) + INC(l_id))
""")
orient_fill = Unit(
    name="orient_fill", file=BG_H, anchor=OR_ANCHOR, inner=LAST_TREE_LOOP,
    sig="void orient_fill(%s%s, size_t l_id)" % (OR_PARAMS, CSR_PARAMS), pre=OR_PRE + CSR_PRE, rules=OR_VOCAB, body_prefix=OR_LOCALS,
    contract=CSR_OBJS + CSR_OBJS2 + r"""
__CPROVER_requires(m_nodes_connects_size_n == nbasins && m_nodes_connects_ptr_n == nbasins && m_nodes_adjacency_n <= m_nodes_adjacency_cap)
__CPROVER_requires(l_id < m_edges_n && L0(l_id) < nbasins && L1(l_id) < nbasins && L0(l_id) != L1(l_id))
/* C08: the next free slot of the row of each end point lies inside the adjacency table */
__CPROVER_requires(CP(L0(l_id)) <= FSL_BASIN_NMAX && CS(L0(l_id)) <= FSL_BASIN_NMAX && CP(L0(l_id)) + CS(L0(l_id)) < m_nodes_adjacency_n)
__CPROVER_requires(CP(L1(l_id)) <= FSL_BASIN_NMAX && CS(L1(l_id)) <= FSL_BASIN_NMAX && CP(L1(l_id)) + CS(L1(l_id)) < m_nodes_adjacency_n)
__CPROVER_assigns(m_nodes_adjacency[CP(L0(l_id)) + CS(L0(l_id))], m_nodes_adjacency[CP(L1(l_id)) + CS(L1(l_id))],
                  m_nodes_connects_size[L0(l_id)], m_nodes_connects_size[L1(l_id)])
/* the edge is appended to the rows of BOTH its end points */
__CPROVER_ensures(ADJ(CP(L0(l_id)) + OLD(CS(L0(l_id)))) == l_id && ADJ(CP(L1(l_id)) + OLD(CS(L1(l_id)))) == l_id)
__CPROVER_ensures(CS(L0(l_id)) == OLD(CS(L0(l_id))) + 1 && CS(L1(l_id)) == OLD(CS(L1(l_id))) + 1)
""")

CSR_P1 = "(!(OGI < m_nodes_adjacency_n && IN_ROW(OGI)) || (ADJ(OGI) < m_edges_n && ECHILD_(ADJ(OGI)) != SIZE_MAX && INCIDENT(ADJ(OGI))))"
CSR_P2 = "(!(OGT < %s && TR(OGT) < m_edges_n && INCIDENT(TR(OGT))) || (OW < m_nodes_adjacency_n && IN_ROW(OW) && ADJ(OW) == TR(OGT)))"
CSR_ROWS = ("(CP(OGB) + DEGB <= m_nodes_adjacency_n && (OGB + 1 < nbasins ? CP(OGB + 1) == CP(OGB) + DEGB : CP(OGB) + DEGB == m_nodes_adjacency_n) "
            "&& (OGB >= OGB2 || CP(OGB) + DEGB <= CP(OGB2)) && m_nodes_adjacency_n <= 2 * m_tree_n && CP(OGB) <= 2 * m_tree_n)")
orient_csr = Unit(
    name="orient_csr", file=BG_H, anchor=OR_ANCHOR, sig="void orient_csr(%s%s)" % (OR_PARAMS, CSR_PARAMS), pre=OR_PRE + CSR_PRE,
    rules=[CUT_KEEP_CSR,
           R(r"\A(.*?)for \(size_type l_id : m_tree\)", r"\1for (size_t t1_ = 0; t1_ < m_tree_n; ++t1_)", 1, flags=_re.S),
           R(r"for \(size_type l_id : m_tree\)", "for (size_t t2_ = 0; t2_ < m_tree_n; ++t2_)", 1),
           # the element read instantiates the input well-formedness of the tree entry and the definition of CUM at the slot
           RB(r"for \(size_t t1_ = 0; t1_ < m_tree_n; \+\+t1_\)",
              "{ const size_t l_id_ = m_tree[FSL_IDX1(t1_, m_tree_n)]; FSL_PRE(TREE_WF(l_id_) && CUM_DEF(t1_)); orient_count(%s%s, l_id_); }" % (OR_ARGS, CSR_ARGS)),
           RB(r"for \(size_t t2_ = 0; t2_ < m_tree_n; \+\+t2_\)",
              "{ const size_t l_id_ = m_tree[FSL_IDX1(t2_, m_tree_n)]; FSL_PRE(TREE_WF(l_id_) && CUM_DEF(t2_));\n"
              "  /* proved for the ghost basin BEFORE the same fact is instantiated at the end points of the edge */\n"
              "  __CPROVER_assert(!INCIDENT(l_id_) || (CP(OGB) + CS(OGB) < ROW_END(OGB) && ROW_END(OGB) <= m_nodes_adjacency_n), \"CSR: the row of the ghost basin is not full while an incident edge is still to be stored\");\n"
              "  FSL_PRE(ROW_ROOM(L0(l_id_)) && ROW_ROOM(L1(l_id_)) && ROW_DISJ(L0(l_id_), OGB) && ROW_DISJ(L1(l_id_), OGB) && CP(L0(l_id_)) <= 2 * m_tree_n && CP(L1(l_id_)) <= 2 * m_tree_n);\n"
              "  /* ghost witness: where the edge of the ghost tree slot goes in the row of the ghost basin */ if (t2_ == OGT && INCIDENT(l_id_)) OW = CP(OGB) + CS(OGB);\n"
              "  orient_fill(%s%s, l_id_); }" % (OR_ARGS, CSR_ARGS)),
           # prefix loop: instance of `prefix sums of the degree counts are bounded by their total 2 * |tree|` (double counting, not mechanised)
           R(r"(for \(size_t i = [^{}]*\)\s*)\{", r"\1{ FSL_PRE(!(1 <= i && i < nbasins) || (m_nodes_connects_ptr[i - 1] + m_nodes_connects_size[i - 1] <= 2 * m_tree_n "
             r"&& m_nodes_connects_size[i] <= 2 * m_tree_n - (m_nodes_connects_ptr[i - 1] + m_nodes_connects_size[i - 1])));", 1),
           ] + OR_VOCAB,
    contract=CSR_OBJS + CSR_OBJS2 + CSR_OBJS3 + r"""
/* NOTHING is required of the contents or lengths of m_nodes_connects_size / _ptr / m_nodes_adjacency (C09: scratch state of earlier calls) */
__CPROVER_requires(m_nodes_connects_size_n <= m_nodes_connects_cap && m_nodes_connects_ptr_n <= m_nodes_connects_cap && m_nodes_adjacency_n <= m_nodes_adjacency_cap)
/* definition of the ghost count table at its first entry; the ghost tree slot holds a tree entry */
__CPROVER_requires(CUM[0] == 0 && (OGT >= m_tree_n || TREE_WF(TR(OGT))))
__CPROVER_assigns(m_nodes_connects_size_n, m_nodes_connects_ptr_n, m_nodes_adjacency_n, OW, __CPROVER_object_whole(m_nodes_connects_size),
                  __CPROVER_object_whole(m_nodes_connects_ptr), __CPROVER_object_whole(m_nodes_adjacency))
__CPROVER_ensures(m_nodes_connects_size_n == nbasins && m_nodes_connects_ptr_n == nbasins && m_nodes_adjacency_n <= m_nodes_adjacency_cap)
/* rows: the row of basin b is [ptr[b], ptr[b] + size[b]), it has as many slots as b has incident tree edges, rows follow one another and end inside the table (C08) */
__CPROVER_ensures(CS(OGB) == DEGB && %(ROWS)s)
/* every slot of the row holds a tree edge incident to the basin */
__CPROVER_ensures(%(P1)s)
/* every tree edge occurs in the row of each of its end points */
__CPROVER_ensures(%(P2)s)
""" % dict(ROWS=CSR_ROWS, P1=CSR_P1, P2=CSR_P2 % "m_tree_n"),
    loops={
        0: r"""
__CPROVER_assigns(t1_, __CPROVER_object_whole(m_nodes_connects_size))
__CPROVER_loop_invariant(t1_ <= m_tree_n && m_nodes_connects_size_n == nbasins && m_nodes_connects_ptr_n == nbasins)
__CPROVER_loop_invariant(CS(OGB) == CUM[t1_] && CUM[t1_] <= 2 * t1_)
__CPROVER_decreases(m_tree_n - t1_)
""",
        1: r"""
__CPROVER_assigns(i, __CPROVER_object_whole(m_nodes_connects_size), __CPROVER_object_whole(m_nodes_connects_ptr))
__CPROVER_loop_invariant(1 <= i && i <= nbasins && CP(0) == 0 && DEGB <= 2 * m_tree_n)
/* counts below i - 1 are reset, the others still hold the degree; pointers up to i - 1 are prefix sums */
__CPROVER_loop_invariant(OGB + 1 < i ? (CS(OGB) == 0 && CP(OGB + 1) == CP(OGB) + DEGB) : CS(OGB) == DEGB)
__CPROVER_loop_invariant(CP(i - 1) + CS(i - 1) <= 2 * m_tree_n && (OGB >= i || CP(OGB) + DEGB <= CP(i - 1) + CS(i - 1)))
__CPROVER_loop_invariant(!(OGB < OGB2 && OGB2 < i) || CP(OGB) + DEGB <= CP(OGB2))
__CPROVER_decreases(nbasins - i)
""",
        2: r"""
__CPROVER_assigns(t2_, OW, __CPROVER_object_whole(m_nodes_connects_size), __CPROVER_object_whole(m_nodes_adjacency))
__CPROVER_loop_invariant(t2_ <= m_tree_n && CS(OGB) == CUM[t2_] && CUM[t2_] <= DEGB)
__CPROVER_loop_invariant(%(P1)s)
__CPROVER_loop_invariant(%(P2)s)
__CPROVER_decreases(m_tree_n - t2_)
""" % dict(P1=CSR_P1, P2=CSR_P2 % "t2_")},
)

H_CSR = H_OR.replace("    struct fsl_rs *m_reorder_stack;", "    struct fsl_rs *m_reorder_stack; const size_t *ECH, *CUM; OW = nondet_size_t(); CUMN = nondet_size_t();")
G_COUNT = Group(
    name="orient.csr.count", units=[orient_count], extra_c=[MODEL_H, OR_H],
    harness=H_CSR % dict(fn="orient_count", call="orient_count(%s%s, nondet_size_t())" % (OR_ARGS, CSR_ARGS), pre=""),
    entry="h_orient_count", enforce="orient_count", backend="cadical", timeout=600, min_obligations=10, no_checks=NOPO,
    clause="orient_edges, count loop, one tree edge: the incident-edge counts of exactly its two end points grow by one (index < basins_count())")
G_FILL = Group(
    name="orient.csr.fill", units=[orient_fill], extra_c=[MODEL_H, OR_H],
    harness=H_CSR % dict(fn="orient_fill", call="orient_fill(%s%s, nondet_size_t())" % (OR_ARGS, CSR_ARGS), pre=""),
    entry="h_orient_fill", enforce="orient_fill", backend="cvc5", timeout=600, min_obligations=10, no_checks=NOPO,
    clause="orient_edges, fill loop, one tree edge: its index is stored at the next free slot of the rows of BOTH end points and both fill counts grow "
           "by one; nothing else is written; the two slots are inside the adjacency table")
G_CSR = Group(
    name="orient.csr.loops", units=[orient_count, orient_fill, orient_csr], extra_c=[MODEL_H, OR_H],
    harness=H_CSR % dict(fn="orient_csr", call="orient_csr(%s%s)" % (OR_ARGS, CSR_ARGS), pre=""),
    entry="h_orient_csr", enforce="orient_csr", replace=["orient_count", "orient_fill", "fsl_vsz_resize_o", "fsl_vsz_fill_o", "fsl_vsz_resize_adj"],
    loop_contracts=True, backend="cadical", timeout=1800, min_obligations=30, no_checks=NOPO,
    clause="orient_edges up to `m_reorder_stack.reserve` (CSR construction) on ARBITRARY pre-state of the three scratch vectors: rows are consecutive, "
           "as long as the basin's degree in the tree and end inside the table; every slot of a row holds a tree edge incident to the basin; every tree "
           "edge occurs in the rows of both its end points")

# --------------------------------------------------------------------------- (a') the CSR phase, SLICED (same text, same clauses as orient_csr)
# The monolithic unit orient_csr (7 is_fresh objects, three loop contracts, five replaced callees) runs out of memory.  The text of the CSR phase is
# therefore cut at three fixed statements into four consecutive slices, each extracted from /repo on every run, each with ONLY the buffers it touches
# and its own contract {S(k-1)} slice k {S(k)}; the state predicates S0..S3 below are the clauses of orient_csr's loop invariants / postcondition,
# verbatim up to the ghost scalar OR_DEG that stands for `CUM[m_tree_n]` (the degree of the ghost basin) where the count table is not in scope.
# Sequencing (what a slice requires is what the previous one ensures, nothing in between assigns it) is checked textually at import.
#   init    [start, first tree loop)                      resize / fill / resize          size, ptr
#   count   [first tree loop, `m_nodes_connects_ptr[0] = 0;`)   count loop                  edges, tree, size, CUM
#   prefix  [`m_nodes_connects_ptr[0] = 0;`, second tree loop)  prefix loop, resize, reset  size, ptr, adjacency
#   fill    [second tree loop, `m_reorder_stack.reserve`)       fill loop (lemmas)          edges, tree, size, ptr, adjacency, CUM (, ECH)
def _blank(m):
    return "\n" * m.group(0).count("\n")   # keep line numbers (#line) valid


_TL = r"for \(size_type l_id : m_tree\)"
_P0 = r"m_nodes_connects_ptr\[0\] = 0;"
CSR_SLICE = {
    "init": [R(_TL + r".*\Z", _blank, 1, flags=_re.S)],
    "count": [R(r"\A.*?(?=%s)" % _TL, _blank, 1, flags=_re.S), R(_P0 + r".*\Z", _blank, 1, flags=_re.S)],
    "prefix": [R(r"\A.*?(?=%s)" % _P0, _blank, 1, flags=_re.S), R(_TL + r".*\Z", _blank, 1, flags=_re.S)],
    "fill": [R(r"\A.*(?=%s)" % _TL, _blank, 1, flags=_re.S), R(r"m_reorder_stack\.reserve\(.*\Z", _blank, 1, flags=_re.S)],
}
CSR_PRE2 = r"""
#ifndef FSL_ORIENT_CSR2
#define FSL_ORIENT_CSR2
size_t OR_DEG;   /* ghost scalar: the degree of the ghost basin OGB in the tree, `OR_DEG == CUM[m_tree_n]` wherever the ghost count table is in scope */
/* TREE_WF without the tree marker (slices that do not speak about ECH assume less) */
#define TREE_WF0(e) ((e) < m_edges_n && L0(e) < nbasins && L1(e) < nbasins && L0(e) != L1(e))
#define CUM_DEF2(t) (CUM[(t) + 1] == CUM[(t)] + INC(TR(t)) && CUM[(t) + 1] <= OR_DEG)
/* ROW_ROOM with the two bounds that exclude wrap-around of the sum: the fact that is PROVED at the ghost basin (when the edge read is incident to it)
 * and then instantiated at the two end points of the edge read */
#define ROW_ROOM2(b) (CP(b) <= 2 * m_tree_n && CS(b) <= 2 * m_tree_n && CP(b) + CS(b) < ROW_END(b) && ROW_END(b) <= m_nodes_adjacency_n)
#endif
"""
def _fresh(bounds, ptr, count, elem):
    """is_fresh in a requires clause OF ITS OWN: inside `bounds && is_fresh(..)` the allocation is conditional, symex then keeps the pointer's initial
    (invalid) target in its value set and every later dereference becomes a two-way case split with a byte-level fallback (measured: 6391 byte_extract
    operators in the fill slice, out of memory)"""
    return ("__CPROVER_requires(%s)\n" % bounds if bounds else "") + "__CPROVER_requires(__CPROVER_is_fresh(%s, %s * sizeof(%s)))\n" % (ptr, count, elem)


_FR_EDGES = _fresh("1 <= m_edges_n && m_edges_n <= FSL_BASIN_NMAX", "m_edges", "m_edges_n", "struct fsl_edge")
_FR_CAP = "__CPROVER_requires(nbasins <= m_nodes_connects_cap && m_nodes_connects_cap <= FSL_BASIN_NMAX)\n"
_FR_SIZE = _fresh("", "m_nodes_connects_size", "m_nodes_connects_cap", "size_t")
_FR_PTR = _fresh("", "m_nodes_connects_ptr", "m_nodes_connects_cap", "size_t")
_FR_ADJ = _fresh("1 <= m_nodes_adjacency_cap && m_nodes_adjacency_cap <= FSL_BASIN_NMAX", "m_nodes_adjacency", "m_nodes_adjacency_cap", "size_t")
_FR_TREE = _fresh("1 <= m_tree_cap && m_tree_cap <= FSL_BASIN_NMAX && m_tree_n <= m_tree_cap", "m_tree", "m_tree_cap", "size_t")
_FR_CUM = _fresh("m_tree_n + 1 <= CUMN && CUMN <= FSL_BASIN_NMAX + 1", "CUM", "CUMN", "size_t")
_FR_ECH = _fresh("", "ECH", "m_edges_n", "size_t")
_RQ_GH = "__CPROVER_requires(1 <= nbasins && nbasins <= FSL_BASIN_NMAX && OGB < nbasins && OGB2 < nbasins && OGI < m_nodes_adjacency_cap && OGT < m_tree_cap)\n"
# model artefact, as in orient_csr: ghost capacity of the adjacency table = two slots per tree edge (the real vector reallocates)
_RQ_ADJCAP = "__CPROVER_requires(m_tree_n <= FSL_BASIN_NMAX && m_tree_n <= m_nodes_adjacency_cap && 2 * m_tree_n <= m_nodes_adjacency_cap && m_nodes_adjacency_cap <= FSL_BASIN_NMAX)\n"
# definition of the ghost count table at its first and last entry
_RQ_CUM = "__CPROVER_requires(CUM[0] == 0 && OR_DEG == CUM[m_tree_n])\n"

S_LEN = "m_nodes_connects_size_n == nbasins && m_nodes_connects_ptr_n == nbasins"
S_ADJN = "m_nodes_adjacency_n <= m_nodes_adjacency_cap"
CSR_ROWS2 = "(OR_DEG <= 2 * m_tree_n && " + CSR_ROWS.replace("DEGB", "OR_DEG")[1:]
CSR_S0 = [S_LEN, "CS(OGB) == 0"]
CSR_S1 = [S_LEN, "CS(OGB) == OR_DEG && OR_DEG <= 2 * m_tree_n"]
CSR_S2 = [S_LEN, S_ADJN, "CS(OGB) == 0", CSR_ROWS2]
CSR_S3 = {"cnt": "CS(OGB) == OR_DEG", "p1": CSR_P1, "p2": CSR_P2 % "m_tree_n"}


def _req(cl):
    return "".join("__CPROVER_requires(%s)\n" % c for c in cl)


def _ens(cl):
    return "".join("__CPROVER_ensures(%s)\n" % c for c in cl)


orient_csr_init = Unit(
    name="orient_csr_init", file=BG_H, anchor=OR_ANCHOR, sig="void orient_csr_init(%s%s)" % (OR_PARAMS, CSR_PARAMS), pre=OR_PRE + CSR_PRE + CSR_PRE2,
    rules=CSR_SLICE["init"] + OR_VOCAB,
    contract=_RQ_GH + _FR_CAP + _FR_SIZE + _FR_PTR + r"""
/* NOTHING is required of the contents or lengths of m_nodes_connects_size / _ptr (C09: scratch state of earlier calls) */
__CPROVER_requires(m_nodes_connects_size_n <= m_nodes_connects_cap && m_nodes_connects_ptr_n <= m_nodes_connects_cap)
__CPROVER_assigns(m_nodes_connects_size_n, m_nodes_connects_ptr_n, __CPROVER_object_whole(m_nodes_connects_size), __CPROVER_object_whole(m_nodes_connects_ptr))
""" + _ens(CSR_S0))

orient_csr_count = Unit(
    name="orient_csr_count", file=BG_H, anchor=OR_ANCHOR, sig="void orient_csr_count(%s%s)" % (OR_PARAMS, CSR_PARAMS), pre=OR_PRE + CSR_PRE + CSR_PRE2,
    rules=CSR_SLICE["count"] + [
        R(_TL, "for (size_t t1_ = 0; t1_ < m_tree_n; ++t1_)", 1),
        # the element read instantiates the input well-formedness of the tree entry and the definition of CUM at the slot
        RB(r"for \(size_t t1_ = 0; t1_ < m_tree_n; \+\+t1_\)",
           "{ const size_t l_id_ = m_tree[FSL_IDX1(t1_, m_tree_n)]; FSL_PRE(TREE_WF0(l_id_) && CUM_DEF2(t1_)); orient_count(%s%s, l_id_); }" % (OR_ARGS, CSR_ARGS))] + OR_VOCAB,
    contract=_RQ_GH + _FR_EDGES + _FR_CAP + _FR_SIZE + _FR_TREE + _FR_CUM + _RQ_CUM + _req(CSR_S0) + r"""
__CPROVER_assigns(__CPROVER_object_whole(m_nodes_connects_size))
""" + _ens(CSR_S1),
    loops={0: r"""
__CPROVER_assigns(t1_, __CPROVER_object_whole(m_nodes_connects_size))
__CPROVER_loop_invariant(t1_ <= m_tree_n && CS(OGB) == CUM[t1_] && CUM[t1_] <= 2 * t1_)
__CPROVER_decreases(m_tree_n - t1_)
"""})

orient_csr_prefix = Unit(
    name="orient_csr_prefix", file=BG_H, anchor=OR_ANCHOR, sig="void orient_csr_prefix(%s%s)" % (OR_PARAMS, CSR_PARAMS), pre=OR_PRE + CSR_PRE + CSR_PRE2,
    rules=CSR_SLICE["prefix"] + [
        # instance at basin 0 of the postcondition of the count slice (degree of a basin <= 2 * |tree|, proved there at the arbitrary ghost basin)
        R(r"(?=" + _P0 + ")", "FSL_PRE(m_nodes_connects_size[0] <= 2 * m_tree_n); ", 1),
        # prefix loop: instance of `prefix sums of the degree counts are bounded by their total 2 * |tree|` (double counting, not mechanised)
        R(r"(for \(size_t i = [^{}]*\)\s*)\{", r"\1{ FSL_PRE(!(1 <= i && i < nbasins) || (m_nodes_connects_ptr[i - 1] + m_nodes_connects_size[i - 1] <= 2 * m_tree_n "
          r"&& m_nodes_connects_size[i] <= 2 * m_tree_n - (m_nodes_connects_ptr[i - 1] + m_nodes_connects_size[i - 1])));", 1)] + OR_VOCAB,
    contract=_RQ_GH + _FR_CAP + _FR_SIZE + _FR_PTR + _FR_ADJ + _RQ_ADJCAP + r"""
/* NOTHING is required of the contents or length of m_nodes_adjacency (C09) */
__CPROVER_requires(m_nodes_adjacency_n <= m_nodes_adjacency_cap)
""" + _req(CSR_S1) + r"""
__CPROVER_assigns(m_nodes_adjacency_n, __CPROVER_object_whole(m_nodes_connects_size), __CPROVER_object_whole(m_nodes_connects_ptr), __CPROVER_object_whole(m_nodes_adjacency))
""" + _ens(CSR_S2),
    loops={0: r"""
__CPROVER_assigns(i, __CPROVER_object_whole(m_nodes_connects_size), __CPROVER_object_whole(m_nodes_connects_ptr))
__CPROVER_loop_invariant(1 <= i && i <= nbasins && CP(0) == 0 && OR_DEG <= 2 * m_tree_n)
/* counts below i - 1 are reset, the others still hold the degree; pointers up to i - 1 are prefix sums */
__CPROVER_loop_invariant(OGB + 1 < i ? (CS(OGB) == 0 && CP(OGB + 1) == CP(OGB) + OR_DEG) : CS(OGB) == OR_DEG)
__CPROVER_loop_invariant(CP(i - 1) + CS(i - 1) <= 2 * m_tree_n && (OGB >= i || (CP(OGB) <= 2 * m_tree_n && CP(OGB) + OR_DEG <= CP(i - 1) + CS(i - 1))))
__CPROVER_loop_invariant(!(OGB < OGB2 && OGB2 < i) || CP(OGB) + OR_DEG <= CP(OGB2))
__CPROVER_decreases(nbasins - i)
"""})

# lemma -> clauses of the fill loop's invariant / of the final state that it carries (`cnt` is needed by both others: IN_ROW speaks about CS(OGB))
CSR_FILL_LEMMAS = {"cnt": ["cnt"], "p1": ["cnt", "p1"], "p2": ["cnt", "p2"]}
_FILL_INV = {"cnt": "t2_ <= m_tree_n && CS(OGB) == CUM[t2_] && CUM[t2_] <= OR_DEG", "p1": CSR_P1, "p2": CSR_P2 % "t2_"}


def make_csr_fill(lemma):
    parts = CSR_FILL_LEMMAS[lemma]
    ech = "p1" in parts
    wf = "TREE_WF" if ech else "TREE_WF0"
    return Unit(
        name="orient_csr_fill", file=BG_H, anchor=OR_ANCHOR, sig="void orient_csr_fill(%s%s)" % (OR_PARAMS, CSR_PARAMS), pre=OR_PRE + CSR_PRE + CSR_PRE2,
        rules=CSR_SLICE["fill"] + [
            R(_TL, "for (size_t t2_ = 0; t2_ < m_tree_n; ++t2_)", 1),
            RB(r"for \(size_t t2_ = 0; t2_ < m_tree_n; \+\+t2_\)",
               "{ const size_t l_id_ = m_tree[FSL_IDX1(t2_, m_tree_n)]; FSL_PRE(%s(l_id_) && CUM_DEF2(t2_));\n"
               "  /* proved at the ghost basin BEFORE the same fact is instantiated at the end points of the edge */\n"
               "  __CPROVER_assert(!INCIDENT(l_id_) || ROW_ROOM2(OGB), \"CSR: the row of the ghost basin is not full as long as an incident edge is still to be stored\");\n"
               "  FSL_PRE(ROW_ROOM2(L0(l_id_)) && ROW_ROOM2(L1(l_id_)) && ROW_DISJ(L0(l_id_), OGB) && ROW_DISJ(L1(l_id_), OGB));\n"
               "  /* ghost witness: where the edge of the ghost tree slot goes in the row of the ghost basin */ if (t2_ == OGT && INCIDENT(l_id_)) OW = CP(OGB) + CS(OGB);\n"
               "  orient_fill(%s%s, l_id_); }" % (wf, OR_ARGS, CSR_ARGS))] + OR_VOCAB,
        contract=_RQ_GH + _FR_EDGES + _FR_CAP + _FR_SIZE + _FR_PTR + _FR_ADJ + _FR_TREE + _FR_CUM + (_FR_ECH if ech else "") + _RQ_ADJCAP + _RQ_CUM + r"""
/* the ghost tree slot holds a tree entry (input well-formedness, instance at the ghost slot) */
__CPROVER_requires(OGT >= m_tree_n || """ + wf + r"""(TR(OGT)))
""" + _req(CSR_S2) + r"""
__CPROVER_assigns(OW, __CPROVER_object_whole(m_nodes_connects_size), __CPROVER_object_whole(m_nodes_adjacency))
""" + _ens([S_LEN, S_ADJN, CSR_ROWS2] + [CSR_S3[p] for p in parts]),
        loops={0: r"""
__CPROVER_assigns(t2_, OW, __CPROVER_object_whole(m_nodes_connects_size), __CPROVER_object_whole(m_nodes_adjacency))
""" + "".join("__CPROVER_loop_invariant(%s)\n" % _FILL_INV[p] for p in parts) + r"""
__CPROVER_decreases(m_tree_n - t2_)
"""})


def _check_csr_sequencing():
    """{S(k-1)} slice k {S(k)}: every state clause a slice requires is ensured verbatim by the previous slice, whose text ends where this one's begins"""
    chain = [("init", [], CSR_S0), ("count", CSR_S0, CSR_S1), ("prefix", CSR_S1, CSR_S2), ("fill", CSR_S2, None)]
    have = []
    for name, pre, post in chain:
        for c in pre:
            if c not in have:
                raise AssertionError("orient CSR slices: %s requires %r which the previous slice does not ensure" % (name, c))
        have = post or []
    # consecutive: the cut that ends slice k is the cut that starts slice k + 1
    assert CSR_SLICE["init"][-1].pat == _TL + r".*\Z" and CSR_SLICE["count"][0].pat == r"\A.*?(?=%s)" % _TL
    assert CSR_SLICE["count"][-1].pat == _P0 + r".*\Z" and CSR_SLICE["prefix"][0].pat == r"\A.*?(?=%s)" % _P0
    assert CSR_SLICE["prefix"][-1].pat == _TL + r".*\Z" and CSR_SLICE["fill"][0].pat == r"\A.*(?=%s)" % _TL


_check_csr_sequencing()

_CSR_VSZ = ["fsl_vsz_resize_o", "fsl_vsz_fill_o", "fsl_vsz_resize_adj"]
G_CSR_INIT = Group(
    name="orient.csr.init", units=[orient_csr_init], extra_c=[MODEL_H, OR_H],
    harness=H_CSR % dict(fn="orient_csr_init", call="orient_csr_init(%s%s)" % (OR_ARGS, CSR_ARGS), pre=""),
    entry="h_orient_csr_init", enforce="orient_csr_init", replace=["fsl_vsz_resize_o", "fsl_vsz_fill_o"], backend="cadical", timeout=600, min_obligations=5, no_checks=NOPO,
    clause="orient_edges, CSR phase, slice `init` (up to the count loop) on ARBITRARY pre-state of m_nodes_connects_size / _ptr: both have basins_count() entries, "
           "every count is 0")
G_CSR_COUNT = Group(
    name="orient.csr.count.loop", units=[orient_count, orient_csr_count], extra_c=[MODEL_H, OR_H],
    harness=H_CSR % dict(fn="orient_csr_count", call="orient_csr_count(%s%s)" % (OR_ARGS, CSR_ARGS), pre=""),
    entry="h_orient_csr_count", enforce="orient_csr_count", replace=["orient_count"], loop_contracts=True, backend="cadical", timeout=900, min_obligations=20, no_checks=NOPO,
    clause="orient_edges, CSR phase, slice `count` (the count loop, any number of tree edges): afterwards the count of an arbitrary basin is its degree in the tree "
           "(ghost count table defined by its recurrence), at most 2 * |tree|")
G_CSR_PREFIX = Group(
    name="orient.csr.prefix.loop", units=[orient_csr_prefix], extra_c=[MODEL_H, OR_H],
    harness=H_CSR % dict(fn="orient_csr_prefix", call="orient_csr_prefix(%s%s)" % (OR_ARGS, CSR_ARGS), pre=""),
    entry="h_orient_csr_prefix", enforce="orient_csr_prefix", replace=["fsl_vsz_resize_adj"], loop_contracts=True, backend="cadical", timeout=900, min_obligations=20, no_checks=NOPO,
    clause="orient_edges, CSR phase, slice `prefix` (prefix loop, resize of the adjacency table, reset of the last count; any number of basins) on ARBITRARY "
           "pre-state of m_nodes_adjacency: rows are consecutive, as long as the basin's degree, rows of different basins do not overlap, the table ends with "
           "the last row and has at most 2 * |tree| slots; every count is reset to 0")
G_CSR_FILL = [Group(
    name="orient.csr.fill.loop.%s" % l, units=[orient_fill, make_csr_fill(l)], extra_c=[MODEL_H, OR_H],
    harness=H_CSR % dict(fn="orient_csr_fill", call="orient_csr_fill(%s%s)" % (OR_ARGS, CSR_ARGS), pre=""),
    entry="h_orient_csr_fill", enforce="orient_csr_fill", replace=["orient_fill"], loop_contracts=True, backend="cadical", timeout=900, min_obligations=20, no_checks=NOPO,
    clause="orient_edges, CSR phase, slice `fill` (the fill loop, any number of tree edges), lemma `%s`: %s" % (l, w))
    for l, w in [("cnt", "the fill count of an arbitrary basin ends up equal to its degree; its row is never full as long as an incident edge is still to be stored"),
                 ("p1", "every filled slot of the row of an arbitrary basin holds a tree edge incident to that basin"),
                 ("p2", "an arbitrary tree edge incident to an arbitrary basin occurs in the filled part of that basin's row")]]
G_CSR_SLICES = [G_CSR_INIT, G_CSR_COUNT, G_CSR_PREFIX] + G_CSR_FILL

# --------------------------------------------------------------------------- BOUNDED: the whole function on all trees with <= NB_B basins
import os as _os
TREE_LOOPS = [R(r"for \(size_type l_id : m_tree\)\s*\{", "for (size_t t_ = 0; t_ < m_tree_n; ++t_)\n{ size_t l_id = m_tree[FSL_IDX1(t_, m_tree_n)];", 2)]
orient_edges_b = Unit(
    name="orient_edges_b", file=BG_H, anchor=OR_ANCHOR, sig="void orient_edges_b(%s)" % OR_PARAMS, pre=OR_PRE, rules=TREE_LOOPS + OR_VOCAB)

H_OR_B_T = r"""
size_t nondet_size_t(void); _Bool nondet_bool(void); double nondet_double(void);
#define NB %(NB)d
#define NE %(NE)d
void h_orient_bounded(void)
{
    size_t nbasins = nondet_size_t();
    __CPROVER_assume(1 <= nbasins && nbasins <= NB);
    struct fsl_edge edges[NE], old[NE];
    size_t tree[NB], child[NB], par[NB], dep[NB];
    m_edges_n = nondet_size_t(); m_tree_n = nondet_size_t(); m_root = nondet_size_t();
    __CPROVER_assume(m_edges_n <= NE && m_tree_n <= m_edges_n && m_tree_n + 1 <= nbasins && m_root < nbasins);
    /* ALL rooted forests on <= NB basins, in every storage order and with every initial direction of every edge: tree slot t holds a distinct
     * edge index; that edge joins a distinct non-root basin child[t] and its parent par[child[t]], which lies strictly nearer the root of
     * its component (ghost depth); the basin m_root has no parent (any node of a tree can be taken as its root) */
    _Bool haspar[NB]; for (int b = 0; b < NB; ++b) { haspar[b] = 0; par[b] = nondet_size_t(); dep[b] = nondet_size_t(); }
    for (int t = 0; t < NB; ++t)
    {
        tree[t] = nondet_size_t(); child[t] = nondet_size_t();
        if ((size_t) t < m_tree_n)
        {
            size_t e = tree[t], c = child[t];
            __CPROVER_assume(e < m_edges_n && c < nbasins && c != m_root && !haspar[c]);
            for (int t2 = 0; t2 < t; ++t2) __CPROVER_assume(tree[t2] != e);
            haspar[c] = 1;
            __CPROVER_assume(par[c] < nbasins && dep[par[c]] < dep[c]);
            __CPROVER_assume((edges[e].link[0] == c && edges[e].link[1] == par[c]) || (edges[e].link[0] == par[c] && edges[e].link[1] == c));
        }
    }
    for (int e = 0; e < NE; ++e) old[e] = edges[e];
    /* the basins connected to the root through tree edges */
    _Bool inroot[NB]; for (int b = 0; b < NB; ++b) inroot[b] = ((size_t) b == m_root);
    for (int it = 0; it < NB; ++it) for (int b = 0; b < NB; ++b) if ((size_t) b < nbasins && haspar[b] && inroot[par[b]]) inroot[b] = 1;
    /* scratch members: arbitrary pre-state (contents and lengths), buffers at the size this call needs */
    size_t csize[NB], cptr[NB], adj[2 * NB], pstack[2 * NB], pbasins[NB]; struct fsl_rs stack[2 * NB]; _Bool m_keep_order = nondet_bool();
    m_nodes_connects_cap = NB; m_nodes_connects_size_n = nondet_size_t(); m_nodes_connects_ptr_n = nondet_size_t();
    m_nodes_adjacency_cap = 2 * NB; m_nodes_adjacency_n = nondet_size_t(); m_reorder_stack_cap = 2 * NB; m_reorder_stack_n = nondet_size_t();
    m_pass_stack_cap = 2 * NB; m_pass_stack_n = nondet_size_t(); m_parent_basins_cap = NB; m_parent_basins_n = nondet_size_t();
    __CPROVER_assume(m_nodes_connects_size_n <= NB && m_nodes_connects_ptr_n <= NB && m_nodes_adjacency_n <= 2 * NB && m_reorder_stack_n <= 2 * NB
                     && m_pass_stack_n <= 2 * NB && m_parent_basins_n <= NB);
    orient_edges_b(nbasins, edges, tree, csize, cptr, adj, stack, m_keep_order, pstack, pbasins);
    for (int t = 0; t < NB; ++t) if ((size_t) t < m_tree_n && inroot[child[t]])
    {
        /* C15, from the statement: after orientation every tree edge points from the basin nearer the root to the farther one */
        __CPROVER_assert(edges[tree[t]].link[0] == par[child[t]] && edges[tree[t]].link[1] == child[t], "C15 every tree edge connected to the root points from the basin nearer the root to the farther one");
    }
    for (int e = 0; e < NE; ++e) if ((size_t) e < m_edges_n)
    {
        __CPROVER_assert((edges[e].link[0] == old[e].link[0] && edges[e].link[1] == old[e].link[1] && edges[e].pass[0] == old[e].pass[0] && edges[e].pass[1] == old[e].pass[1])
                      || (edges[e].link[0] == old[e].link[1] && edges[e].link[1] == old[e].link[0] && edges[e].pass[0] == old[e].pass[1] && edges[e].pass[1] == old[e].pass[0]),
                         "C15 orientation swaps link and pass of an edge together or not at all");
        __CPROVER_assert(SAME_D(edges[e].pass_elevation, old[e].pass_elevation) && SAME_D(edges[e].pass_length, old[e].pass_length), "C15 orientation keeps weight and length of every edge");
        _Bool intree = 0; for (int t = 0; t < NB; ++t) if ((size_t) t < m_tree_n && tree[t] == (size_t) e) intree = 1;
        __CPROVER_assert(intree || (edges[e].link[0] == old[e].link[0] && edges[e].pass[0] == old[e].pass[0]), "C15 edges outside the tree are untouched");
    }
    __CPROVER_assert(m_reorder_stack_n == 0, "the depth-first parse ends with an empty stack");
    __CPROVER_assert(0, "canary: postcondition point reachable");
}
"""


def or_bounded(NB_B, NE_B, tier, timeout):
  return Group(
    name="orient.bounded.b%d" % NB_B, units=[orient_edges_b], extra_c=[MODEL_H, OR_H], harness=H_OR_B_T % dict(NB=NB_B, NE=NE_B), entry="h_orient_bounded",
    defines=["OR_CONCRETE_VEC"], backend="sat", timeout=timeout, min_obligations=20, tier=tier,
    # loops of the function: count / prefix / fill over <= NB-1 tree edges resp. NB basins, at most NB pops, at most NB-1 incident edges per basin
    unwindset={("orient_edges_b", 0): NB_B, ("orient_edges_b", 1): NB_B, ("orient_edges_b", 2): NB_B, ("orient_edges_b", 3): NB_B + 1, ("orient_edges_b", 4): NB_B},
    unwind=NB_B + 2,   # harness loops and the executable vector models
    bounded="all rooted forests with <= %d basins, <= %d stored edges, every storage order and initial direction, arbitrary scratch pre-state "
            "(complete unwinding: every loop to its maximal trip count for these sizes, unwinding assertions on)" % (NB_B, NE_B),
    clause="orient_edges, whole extracted function: after orientation every tree edge connected to the root is stored as (basin nearer the root, "
           "farther basin); link and pass are swapped together; weights, lengths and edges outside the tree are untouched; every index stays inside "
           "its vector (CSR tables sized by this call)")


NB_B = 3   # bound of the quick-tier group (stated in PROPS)
G_OR_BOUNDED = or_bounded(3, 3, "quick", 900)
G_OR_BOUNDED4 = or_bounded(4, 4, "thorough", 3000)

# =========================================================================== update_routes_sinks_carve (C01)
from spec.basin import SB_VOCAB

CV_ANCHOR = r"::\s*update_routes_sinks_carve\("
# ghost tables (harness-owned, read-only; plain size_t arrays -- arrays of records cost the back ends far more):
#   indexed by grid node x:
#     NGB[x]  graph_impl.basins()(x), the basin label of x (a real table of the flow graph; the function never reads it, the spec does)
#     NGR[x]  rank: number of receiver steps (receivers as they are when update_routes_sinks_carve is entered) from x to the pit of its basin
#     NGP[x]  for a node on the old receiver chain of the tree edge flowing into its basin: its position on that chain
#   indexed by chain position:
#     NGC[.]  the old receiver chains of all tree edges with a pass, one after the other: the chain of an edge is
#             NGC[off .. off + k] = inflow pass node, its receiver, ..., the pit
# cv_off, cv_k: the segment of NGC that belongs to the edge (ghost parameters added to the C signature of the step)
CV_PARAMS = ("size_t gsize, size_t nbasins, size_t *m_receivers, double *m_receivers_distance, const size_t *pits, "
             "const struct fsl_edge *m_edges, const size_t *m_tree, const size_t *NGB, const size_t *NGR, const size_t *NGP, const size_t *NGC")
CV_ARGS = "gsize, nbasins, m_receivers, m_receivers_distance, pits, m_edges, m_tree, NGB, NGR, NGP, NGC"
CV_GPARAMS = ", size_t cv_off, size_t cv_k"


def cv_pre():
    c = _sink_constants()
    return (r"""
#ifndef FSL_CARVE_PRED
#define FSL_CARVE_PRED
size_t SG;            /* ghost node */
size_t GJ;            /* ghost position on the chain of the edge */
size_t SGT, SE;       /* ghost slot of the tree and the edge index stored there */
size_t NGN;           /* length of the ghost chain table NGC (>= gsize + 2) */
#define SAME_D(x, y) ((x) == (y) || (isnan(x) && isnan(y)))
#define OLD(x) __CPROVER_old(x)
#define REC(x) m_receivers[(x)]
#define DIST(x) m_receivers_distance[(x)]
#define E_OUT(e) (m_edges[(e)].pass[CV_OUTFLOW])
#define E_IN(e) (m_edges[(e)].pass[CV_INFLOW])
#define E_BIN(e) (m_edges[(e)].link[CV_INFLOW])
#define E_BOUT(e) (m_edges[(e)].link[CV_OUTFLOW])
#define E_PIT(e) (pits[E_BIN(e)])
#define E_PL(e) (m_edges[(e)].pass_length)
#define NB(x) (NGB[(x)])
#define RANK(x) (NGR[(x)])
#define POS(x) (NGP[(x)])
#define CHN(j) (NGC[cv_off + (j)])  /* the node at position j of the old receiver chain of the edge */
#define CK cv_k
/* input well-formedness of an oriented tree edge with a pass (producers: connect_basins, orient_edges, compute_basins): the pass nodes are
 * grid nodes, the inflow basin has a pit; the chain segment of the edge lies inside the ghost table */
#define E_WF(e) (E_BIN(e) < nbasins && E_IN(e) < gsize && E_OUT(e) < gsize && E_PIT(e) < gsize && CK < gsize && cv_off < gsize && cv_off + CK < gsize)
/* ... the two basins differ, each pass node lies in the basin of its side, the pit is the outlet of the inflow basin */
#define E_WFB(e) (E_BOUT(e) < nbasins && E_BIN(e) != E_BOUT(e) && NB(E_IN(e)) == E_BIN(e) && NB(E_OUT(e)) == E_BOUT(e) && NB(E_PIT(e)) == E_BIN(e))
/* definition of the chain at position j: a grid node that knows its position; position 0 is the inflow pass node, position k the pit
 * --  THE PIT IS REACHED BY FOLLOWING RECEIVERS FROM THE INFLOW PASS NODE (basin contract) */
#define CV_CWF(e, j) ((j) > CK || (CHN(j) < gsize && POS(CHN(j)) == (j) && ((j) != 0 || CHN(j) == E_IN(e)) && ((j) != CK || CHN(j) == E_PIT(e))))
/* ... consecutive chain nodes are linked by the receivers as they are when the function is entered (the pit is its own receiver) */
#define CV_ORIG(e, j) ((j) > CK || REC(CHN(j)) == CHN((j) < CK ? (j) + 1 : (j)))
/* ... and chain nodes lie in the inflow basin, rank (receiver steps to the pit) k - j */
#define CV_CWFB(e, j) ((j) > CK || (NB(CHN(j)) == E_BIN(e) && RANK(CHN(j)) + (j) == CK))
/* x lies on the chain of the edge: it is the chain node at the position it names */
#define ONCH(x) (POS(x) <= CK && CHN(POS(x)) == (x))
/* C01 inside the re-routed basin: a potential that strictly decreases along the NEW receivers until the inflow pass node (which drains
 * out of the basin): chain nodes count the steps back up the reversed chain, the others first walk down to the chain */
#define PHI(x) (ONCH(x) ? POS(x) : CK + 1 + RANK(x))
/* position of the walk */
#define CJ POS(current_node)
/* receivers(x, 0) read inside the `while` (x is the chain node after current_node): input instances of the chain definition at the next two
 * positions, and the induction-hypothesis instance "a chain node further down than current_node has not been written yet" (DESIGN 3.9) */
#define CV_REC_RD(x) ( \
    { \
        const size_t cv_x_ = (x); \
        const size_t cv_v_ = receivers(cv_x_, 0); \
        FSL_PRE(CV_CWF(edge_idx, CJ + 1) && CV_CWF(edge_idx, CJ + 2)); \
        FSL_PRE(!(ONCH(cv_x_) && POS(cv_x_) > CJ) || cv_v_ == CHN(POS(cv_x_) < CK ? POS(cv_x_) + 1 : CK)); \
        cv_v_; \
    })
#endif
""").replace("CV_OUTFLOW", str(c["outflow"])).replace("CV_INFLOW", str(c["inflow"]))


def cv_shape(basin):
    return r"""
__CPROVER_requires(0 < gsize && gsize <= FSL_BASIN_NMAX && 0 < nbasins && nbasins <= gsize && gsize + 2 <= NGN && NGN <= FSL_BASIN_NMAX + 2)
__CPROVER_requires(0 < m_edges_n && m_edges_n <= FSL_BASIN_NMAX && 0 < m_tree_cap && m_tree_n <= m_tree_cap && m_tree_cap <= FSL_BASIN_NMAX)
__CPROVER_requires(__CPROVER_is_fresh(m_receivers, gsize * sizeof(size_t)) && __CPROVER_is_fresh(m_receivers_distance, gsize * sizeof(double)))
__CPROVER_requires(__CPROVER_is_fresh(pits, nbasins * sizeof(size_t)) && __CPROVER_is_fresh(m_edges, m_edges_n * sizeof(struct fsl_edge)))
__CPROVER_requires(__CPROVER_is_fresh(NGP, gsize * sizeof(size_t)) && __CPROVER_is_fresh(NGC, NGN * sizeof(size_t)))
""" + (r"""__CPROVER_requires(__CPROVER_is_fresh(NGB, gsize * sizeof(size_t)) && __CPROVER_is_fresh(NGR, gsize * sizeof(size_t)))
""" if basin else "")


# what the property demands of one re-routed basin, for the ghost chain position GJ (nodes A = chain[GJ], B = chain[GJ + 1]) and the ghost
# node SG, split into lemmas (the union is the contract used by the caller).  `a`/`b` name the two chain nodes, `or`/`od`/`oda` the pre-state
# values of REC(SG), DIST(SG), DIST(A) in the context (OLD(..) in a function contract, entry snapshots in a loop invariant)
CV_POST = {
    # receivers: the inflow pass node is re-routed to the outflow pass node; the old receiver chain below it is reversed (chain[j + 1] now
    # flows to chain[j]); no other receiver is written
    "rec": r"""(REC(E_IN(%(e)s)) == E_OUT(%(e)s)
 && (GJ < CK ==> REC(%(b)s) == %(a)s)
 && (!ONCH(SG) ==> REC(SG) == %(or)s))""",
    # distances: pass_length at the inflow pass node; chain[j + 1] gets the OLD distance of chain[j]; nothing else is written
    "dist": r"""(SAME_D(DIST(E_IN(%(e)s)), E_PL(%(e)s))
 && (GJ < CK ==> SAME_D(DIST(%(b)s), %(oda)s))
 && (!ONCH(SG) ==> SAME_D(DIST(SG), %(od)s)))""",
    # C01: inside the basin every node but the inflow pass node keeps a receiver in the basin with a strictly smaller potential (no cycle,
    # the inflow pass node is reached in finitely many steps), and the inflow pass node drains into ANOTHER basin
    "drain": r"""(((NB(SG) == E_BIN(%(e)s) && SG != E_IN(%(e)s)) ==> (REC(SG) < gsize && NB(REC(SG)) == E_BIN(%(e)s) && PHI(REC(SG)) < PHI(SG)))
 && REC(E_IN(%(e)s)) < gsize && NB(REC(E_IN(%(e)s))) != E_BIN(%(e)s))""",
}
# instances, at the ghosts, of the chain definition and of "the basin has not been re-routed yet" ...
CV_GHOST_REQ = r"""(
    CV_CWF(%(e)s, 0) && CV_CWF(%(e)s, 1) && CV_CWF(%(e)s, CK) && CV_CWF(%(e)s, GJ) && CV_CWF(%(e)s, GJ + 1)
 && CV_ORIG(%(e)s, 0) && CV_ORIG(%(e)s, GJ) && CV_ORIG(%(e)s, GJ + 1)
)"""
# ... and, for the `drain` lemma, of the basin contract: chain nodes lie in the inflow basin at rank k - position; a node of the basin other
# than the pit has its receiver in the basin, one step nearer the pit; the ghost position is the one of the ghost node when that is a chain node
CV_GHOST_REQ_B = r"""(
    E_WFB(%(e)s) && CV_CWFB(%(e)s, 0) && CV_CWFB(%(e)s, CK) && CV_CWFB(%(e)s, GJ) && CV_CWFB(%(e)s, GJ + 1)
 && RANK(SG) < gsize && (POS(SG) > CK || (CV_CWF(%(e)s, POS(SG)) && CV_CWFB(%(e)s, POS(SG))))
 && ((ONCH(SG) && SG != E_IN(%(e)s)) ==> GJ + 1 == POS(SG))
 && ((NB(SG) == E_BIN(%(e)s) && SG != E_PIT(%(e)s)) ==> (REC(SG) < gsize && NB(REC(SG)) == E_BIN(%(e)s) && RANK(REC(SG)) + 1 == RANK(SG)
      && (POS(REC(SG)) > CK || CV_CWF(%(e)s, POS(REC(SG))))))
)"""
_GJK = "GJ < CK"
CV_INV = {
    # the walk is at chain position CJ, next_node is the chain node after it (the pit's own receiver is the pit)
    "walk": ["current_node < gsize && next_node < gsize && CJ <= CK && CHN(CJ) == current_node "
             "&& next_node == CHN(CJ < CK ? CJ + 1 : CJ) && pit_inflow == E_PIT(edge_idx)"],
    "rec": [  # chain nodes further down than the walk are not written yet; those above are reversed; nodes off the chain are never written
        "(%s && GJ + 1 > CJ) ==> REC(gh_b) == gh_rb" % _GJK,
        "REC(E_IN(edge_idx)) == E_OUT(edge_idx)",
        "(%s && GJ + 1 <= CJ) ==> REC(gh_b) == gh_a" % _GJK,
        "!ONCH(SG) ==> REC(SG) == gh_r"],
    "dist": [
        "(%s && GJ > CJ) ==> SAME_D(DIST(gh_a), gh_da)" % _GJK,
        "(%s && GJ + 1 > CJ) ==> SAME_D(DIST(gh_b), gh_db)" % _GJK,
        # previous_dist carries the OLD distance of current_node
        "(%s && GJ == CJ) ==> SAME_D(previous_dist, gh_da)" % _GJK,
        "SAME_D(DIST(E_IN(edge_idx)), E_PL(edge_idx))",
        "(%s && GJ + 1 <= CJ) ==> SAME_D(DIST(gh_b), gh_da)" % _GJK,
        "!ONCH(SG) ==> SAME_D(DIST(SG), gh_d)"],
}
CV_LEMMAS = {"rec": (["rec"], ["rec"]), "dist": (["dist"], ["dist"]), "drain": (["rec"], ["drain"])}   # lemma -> (invariant parts, ensures parts)


def make_carve_step(lemma=None):
    invs, ens = (["rec", "dist"], ["rec", "dist", "drain"]) if lemma is None else CV_LEMMAS[lemma]
    basin = "drain" in ens
    post = " && ".join(CV_POST[k] % dict(e="edge_idx", a="CHN(GJ)", b="CHN(GJ + 1)", oda="OLD(DIST(CHN(GJ)))",
                                         od="OLD(DIST(SG))", **{"or": "OLD(REC(SG))"}) for k in ens)
    inv = "".join("__CPROVER_loop_invariant(%s)\n" % c for part in ["walk"] + invs for c in CV_INV[part])
    greq = CV_GHOST_REQ % dict(e="edge_idx") + (" && " + CV_GHOST_REQ_B % dict(e="edge_idx") if basin else "")
    return Unit(
        name="carve_step", file=SINK_H, anchor=CV_ANCHOR, inner=r"for \(size_type edge_idx : basin_graph\.tree\(\)\)\s*\{",
        sig="void carve_step(%s, size_t edge_idx%s)" % (CV_PARAMS, CV_GPARAMS), pre=cv_pre(), defs=_sink_defs(),
        rules=[V(r"auto& edge = (basin_graph\.edges\(\)\[edge_idx\]);", r"const struct fsl_edge edge = \1;"),
               V(r"\bauto (\w+) = receivers\((\w+), 0\);", r"size_t \1 = CV_REC_RD(\2);"),
               V(r"\bstd::swap\(", "OR_SWAP(")] + SB_VOCAB,
        body_prefix="    /* ghost: the two chain nodes at the ghost position and entry values at the ghosts (a loop invariant cannot use __CPROVER_old) */\n"
                    "    const size_t gh_a = CHN(GJ), gh_b = CHN(GJ + 1);\n"
                    "    const size_t gh_r = REC(SG), gh_rb = REC(gh_b); const double gh_d = DIST(SG), gh_da = DIST(gh_a), gh_db = DIST(gh_b);\n",
        contract=cv_shape(basin) + r"""
__CPROVER_requires(edge_idx < m_edges_n && SG < gsize)
/* ghost chain position: inside the ghost table; the two table entries there name grid nodes (a choice of the ghost, no statement about the code) */
__CPROVER_requires(GJ < gsize && cv_off < gsize && cv_off + GJ + 1 < NGN && CHN(GJ) < gsize && CHN(GJ + 1) < gsize)
/* the edge is either an outer-basin link without a pass (skipped) or a well-formed oriented pass */
__CPROVER_requires(E_OUT(edge_idx) == SIZE_MAX || (E_WF(edge_idx) && %(GREQ)s))
__CPROVER_assigns(__CPROVER_object_whole(m_receivers), __CPROVER_object_whole(m_receivers_distance))
/* skip outer basins: untouched */
__CPROVER_ensures(E_OUT(edge_idx) == SIZE_MAX ==> (REC(SG) == OLD(REC(SG)) && SAME_D(DIST(SG), OLD(DIST(SG)))))
__CPROVER_ensures(E_OUT(edge_idx) != SIZE_MAX ==> (%(POST)s))
""" % dict(GREQ=greq, POST=post),
        loops={0: r"""
__CPROVER_assigns(current_node, next_node, previous_dist, __CPROVER_object_whole(m_receivers), __CPROVER_object_whole(m_receivers_distance))
""" + inv + r"""/* termination: the pit is reached by following receivers (it sits at the last position of the chain) */
__CPROVER_decreases(CK - CJ)
"""})


carve_step = make_carve_step()

H_CV = r"""
size_t nondet_size_t(void); _Bool nondet_bool(void); double nondet_double(void);
void h_%(fn)s(void)
{
    size_t gsize = nondet_size_t(), nbasins = nondet_size_t();
    size_t *m_receivers; double *m_receivers_distance; const size_t *pits, *m_tree, *NGB, *NGR, *NGP, *NGC; const struct fsl_edge *m_edges;
    m_edges_n = nondet_size_t(); m_tree_n = nondet_size_t(); m_tree_cap = nondet_size_t(); NGN = nondet_size_t();
    SG = nondet_size_t(); GJ = nondet_size_t(); SGT = nondet_size_t(); SE = nondet_size_t();
    %(call)s;
    __CPROVER_assert(0, "canary: postcondition point reachable");
}
"""

_CV_WHAT = {
    "rec": "the inflow pass node is re-routed to the outflow pass node, the old receiver chain from it down to the pit is reversed (chain[j+1] now "
           "flows to chain[j]), no other receiver is written",
    "dist": "the inflow pass node gets distance pass_length, chain[j+1] gets the OLD distance of chain[j], no other distance is written",
    "drain": "inside the basin a potential strictly decreases along the NEW receivers up to the inflow pass node, which drains into another basin "
             "(no cycle inside the basin, the basin is left after finitely many steps)",
}
# --pointer-overflow-check is off for the carve groups (measured on the walk alone: 217 s without, 382 s with it); the index obligations
# (xtensor/vector index in range, --bounds-check, --pointer-check) stay on and every size is <= 2^40, so no pointer sum can wrap
G_CV_STEP = [Group(
    name="orient.carve.step.%s" % l, units=[make_carve_step(l)], extra_c=[MODEL_H, OR_H],
    harness=H_CV % dict(fn="carve_step", call="carve_step(%s, nondet_size_t(), nondet_size_t(), nondet_size_t())" % CV_ARGS),
    entry="h_carve_step", enforce="carve_step", loop_contracts=True, backend="cadical", timeout=1800, min_obligations=30,
    no_checks=["--pointer-overflow-check"],
    clause="update_routes_sinks_carve, one tree edge (an outer-basin link is skipped untouched; the walk down the old receiver chain terminates: "
           "the pit sits at the last chain position), lemma `%s`: %s" % (l, _CV_WHAT[l])) for l in CV_LEMMAS]

# NOT registered, nothing is claimed from them:
#   orient.csr.loops     the monolithic CSR unit (out of memory); superseded by the slices orient.csr.{init, count.loop, prefix.loop, fill.loop.*}
#   orient.pop.<lemma>   lemma split of the pop (all three discharge: stack 329 s / edge 193 s / progress 233 s, cadical); the registered group is the
#                        monolithic orient.pop (433 s, thorough tier), which proves exactly the contract the while loop uses
EXPERIMENTAL = [G_CSR] + G_POP_LEMMAS

# measured (cadical unless stated, shared machine): csr.init 2 s, csr.count.loop 14 s, csr.prefix.loop 14 s, csr.fill.loop.cnt 39 s / .p1 76 s / .p2 64 s,
# visit.len 60 s (cvc5), dfs 164 s, pop 433 s
G_POP.tier = "thorough"
_OR_LOOPS = G_CSR_SLICES + [G_VISIT_LEN, G_POP, G_DFS]
# orient.bounded.b4 (<= 4 basins) needs a larger unwinding bound for the vector models than its group sets (a failed unwinding assertion of the MODEL after
# 50 min, measured) and would take hours with it: not registered
_OR_GROUPS = [G_COUNT, G_FILL, G_VISIT] + _OR_LOOPS + [G_OR_BOUNDED] + (EXPERIMENTAL if _os.environ.get("OR_EXPERIMENTAL") else [])
# C08 borrows the step-level and CSR groups (every index of the CSR tables); the depth-first loop groups are long and add no new index obligations
GROUPS = {"C15": _OR_GROUPS, "C01": G_CV_STEP,
          "C08": [G_COUNT, G_FILL, G_VISIT] + [g for g in _OR_LOOPS if g.name.startswith("orient.csr.")] + G_CV_STEP,
          # C09: the CSR phase and the depth-first parse hold on ARBITRARY pre-state of the scratch vectors (nothing survives a call)
          "C09": [g for g in _OR_LOOPS if g.name in ("orient.csr.init", "orient.dfs")]}
PROPS = {
    "C15": dict(
        level="other",
        explanation="orient_edges (orientation clause of C15).  Decided for all inputs (unbounded, any number of basins / tree edges, ARBITRARY pre-state of every scratch "
                    "vector): (1) one incident edge of the popped basin (outlined body of the inner `for` of the depth-first parse) -- the edge towards the parent stays "
                    "(parent, basin), every other incident edge ends up (basin, other end) with link and pass swapped together, weight and length untouched, exactly one "
                    "stack entry pushed, every other edge and older stack entry untouched; (2) the two CSR loop bodies (degree count of exactly the two end points; edge id "
                    "stored in the rows of BOTH end points, indices inside the table); (3) the CSR phase as a whole, cut at three fixed statements into four consecutive "
                    "slices (reset / count loop / prefix loop + resize / fill loop), every loop under a loop contract over its body's contract: the row of an arbitrary "
                    "basin is as long as its degree in the tree, rows are consecutive, do not overlap and end inside the table, every filled slot holds a tree edge "
                    "incident to the basin, every tree edge occurs in the rows of both its end points; (4) one iteration of the depth-first `while` (pop + scan of the row, "
                    "inner `for` under a loop contract over the visit's contract, ghost rooted forest): stack-element invariant, `end points of a tree edge = child and "
                    "its parent`, swap-together / untouched relation of an arbitrary edge, progress invariant of an arbitrary basin are preserved; (5) the text from "
                    "`m_reorder_stack.reserve` to the end, `while` under a loop contract over (4): when the parse ends the stack is empty, every basin whose parent is "
                    "the root or has been popped has been popped itself and its parent edge is stored as (parent, basin); every edge keeps its end points, link and pass "
                    "are swapped together, weights, lengths and non-tree edges are untouched.  `After orientation every tree edge points from the basin nearer the root "
                    "to the farther one` for the whole function in one piece is additionally a BOUNDED check (all rooted forests with <= %d basins, every storage order "
                    "and initial direction, arbitrary scratch pre-state), never counted as proof." % NB_B,
        assumptions=[
            "orient_edges, visit step: the slot read holds a tree edge incident to the popped basin joining two DIFFERENT basins < basins_count() (postcondition of the CSR "
            "phase + input well-formedness of the tree, producers compute_tree_*; instance at the slot read)",
            "orient_edges: m_root < basins_count() (an unmasked base-level node exists; otherwise m_root = size_type(-1) indexes out of bounds: outside the documented domain, "
            "recorded as F10 in DESIGN 10.2)",
            "std::vector model (buffer, length, ghost capacity): `length < capacity` at push_back is a model artefact (the real vector reallocates); ghost capacity of the "
            "adjacency table = two slots per tree edge",
            "orient_edges, CSR slices: a tree entry read is an edge index whose end points are two different basins < basins_count() (input well-formedness, producers "
            "compute_tree_*); ghost count table CUM (number of end points equal to the ghost basin among the first t tree entries) defined by its recurrence, instantiated at "
            "the tree slot read, with its consequence CUM[t + 1] <= CUM[|tree|]",
            "orient_edges, prefix loop: `prefix sums of the degree counts are bounded by their total 2 * |tree|` (double counting) -- ASSUMED arithmetic lemma, instantiated "
            "at the loop index; instance at basin 0 of the count slice's postcondition `degree <= 2 * |tree|` (proved there at the arbitrary ghost basin)",
            "orient_edges, fill loop: induction-hypothesis instances (DESIGN 3.9) at the two end points of the edge read of facts proved at the ghost basin / ghost pair: the "
            "row is not full as long as an incident edge is still to be stored (asserted at the ghost basin immediately before), rows of different basins do not overlap",
            "orient_edges, depth-first parse: ghost rooted forest (harness-owned read-only tables: parent, depth, parent edge and its slot in the parent's row, child end of an "
            "edge), definitions instantiated at the ghost basin / ghost edge / the edge read.  THAT THE TREE EDGES FORM A FOREST (no cycle: an edge enters the tree iff its end "
            "points are in different union-find classes) is the producers' property, composition not mechanised",
            "orient_edges, pop: CSR postcondition in the forest vocabulary at the slot read (the slot lies in the row of the popped basin and holds a tree edge joining it to its "
            "parent or to one of its children) and at the ghost basin (its parent edge sits at slot wsp in the row of its parent); induction-hypothesis instances `end points "
            "of a tree edge = child and its parent` at the edge read and of the stack-element invariant at the popped slot (both proved at the arbitrary ghost edge / slot)",
            "--pointer-overflow-check is off for the loop-level groups (every size <= 2^40, index obligations stay on)",
        ],
        unmechanised=[
            "sequencing of the CSR slices and of CSR phase -> depth-first parse: each slice requires verbatim what the previous one ensures and the cuts are consecutive "
            "(checked textually at import, spec/orient.py _check_csr_sequencing), not by cbmc; the translation of the CSR postcondition (every slot of a row holds an incident "
            "tree edge; every tree edge occurs in both rows, witness slot) into the forest vocabulary used by the pop (CSR_SLOT / CSR_PEDGE) is by hand",
            "from (5) to `every tree edge connected to the root points away from it`: induction over the ghost depth (the root is popped; a basin whose parent has been popped "
            "is popped and its parent edge is oriented) -- one line, not mechanised",
            "the contract of the pop (4) is used by (5) as stated; (4) is proved in the thorough tier (433 s)",
        ],
        undecided=[
            "orient_edges: termination of the depth-first `while` (no measure is proved; (5) is a partial-correctness statement `when the parse ends`)",
            "orient_edges: contents of the m_keep_order bookkeeping (m_parent_basins, m_pass_stack): only lengths / index safety are decided",
            "orient_edges as ONE piece for unbounded trees (the composition above is by hand); bounded: all forests on <= %d basins" % NB_B,
        ],
    ),
    "C01": dict(
        level="other",
        explanation="update_routes_sinks_carve, one tree edge (outlined loop body, inner `while` under a loop contract with a ghost chain and termination measure): an "
                    "outer-basin link is skipped untouched; otherwise the inflow pass node is re-routed to the outflow pass node with distance pass_length, the old receiver "
                    "chain from it down to the pit is reversed (chain[j+1] now flows to chain[j] with the OLD distance of chain[j]), nothing else is written, and inside the "
                    "re-routed basin a potential strictly decreases along the NEW receivers up to the inflow pass node, which drains into ANOTHER basin (no cycle inside the "
                    "basin, the basin is left after finitely many steps).",
        assumptions=[
            "update_routes_sinks_carve: ghost chain tables (harness-owned, read-only): the old receiver chain of the edge from the inflow pass node to the pit of its basin, "
            "positions and ranks; THE PIT IS REACHED BY FOLLOWING RECEIVERS FROM THE INFLOW PASS NODE (basin contract: the pass node lies in the basin whose outlet is the pit; "
            "producers compute_basins C19 / connect_basins) -- instantiated on read at the chain positions the walk touches",
            "update_routes_sinks_carve: an oriented tree edge with a pass is well-formed (two different basins, pass nodes are grid nodes in the basin of their side, the pit "
            "is the outlet of the inflow basin); IH instance `a chain node further down than the walk has not been written yet` at the receiver read (DESIGN 3.9)",
            "--pointer-overflow-check is off for the carve groups (every size <= 2^40, index obligations stay on)",
        ],
        undecided=[
            "update_routes_sinks_carve: the loop over the tree as a whole (different tree edges re-route different basins; needs the orientation contract of orient_edges)",
            "that the re-routed forest as a whole is acyclic and rooted at base levels (reachability over basins; needs the tree orientation for all basins)",
        ],
    ),
    "C08": dict(
        level="other",
        explanation="orient_edges loop bodies, the sliced CSR phase, the pop and the depth-first loop (every loop under a loop contract, any number of basins / tree "
                    "edges, arbitrary scratch pre-state), and the carve step: every vector / table index in range under the stated instances.",
        undecided=["update_routes_sinks_carve as a whole function (only its loop body is decided)",
                   "orient_edges: indices are decided per slice / per unit under the instances listed for C15; the composition of the units is textual"],
    ),
}
PROPS["C09"] = dict(
    level="other",
    explanation="orient_edges scratch state: the CSR phase (orient.csr.init: resize + fill of the count / pointer tables) and the depth-first parse (orient.dfs: the stack is "
                "cleared and re-seeded, m_parent_basins / m_pass_stack resized or cleared) are proved on ARBITRARY contents and lengths of m_nodes_connects_size / _ptr / "
                "m_nodes_adjacency / m_reorder_stack / m_pass_stack / m_parent_basins, so nothing an earlier call left behind can reach a later result.",
)
