"""Public wrappers of flow_graph (flow/impl/flow_graph_inl.hpp) that only sequence calls into the implementation:
basins() (274-284).  Typestate abstraction: the labels returned must be the ones computed in THIS call from the current routes
(C19 "repeated calls after route updates", C16 snapshot graphs whose tables are overwritten by every update of the parent)."""
from fv.extract import Unit, R, V
from fv.runner import Group

INL_H = "include/fastscapelib/flow/impl/flow_graph_inl.hpp"

MODEL = r"""
int BASINS_FRESH;   /* ghost: the implementation's label array has been recomputed from the current routes in this call */
int RESULT_FROM_FRESH;
static void ts_compute_basins(void) { BASINS_FRESH = 1; }
static void ts_read_basins(void) { RESULT_FROM_FRESH = BASINS_FRESH; }
"""

basins_wrapper = Unit(
    name="graph_basins", file=INL_H,
    anchor=r"auto flow_graph<G, S, Tag>::basins\(\) -> data_array_size_type",
    sig="void graph_basins(_Bool m_writeable, _Bool impl_outlets_empty)",
    pre=MODEL,
    rules=[
        R(r"data_array_size_type basins = data_array_size_type::from_shape\(m_grid\.shape\(\)\);", "/* result array allocated (glue) */", 1),
        R(r"auto basins_flat = xt::flatten\(basins\);", "/* flat view of the result (glue) */", 1),
        V(r"m_impl_ptr->compute_basins\(\);", "ts_compute_basins();"),
        V(r"basins_flat = m_impl_ptr->basins\(\);", "ts_read_basins();"),
        V(r"m_impl_ptr->outlets\(\)\.empty\(\)", "impl_outlets_empty"),
        V(r"return basins;", "return;"),
    ],
)

H = r"""
_Bool nondet_bool(void);
void h_graph_basins(void)
{
    /* the routes may have been updated since the last call (or overwritten by the parent graph for a snapshot): nothing computed
     * earlier is known to be current */
    BASINS_FRESH = 0; RESULT_FROM_FRESH = 0;
    graph_basins(nondet_bool(), nondet_bool());
    __CPROVER_assert(RESULT_FROM_FRESH, "C19 basins() returns labels delineated in this call from the current routes (read-only snapshot graphs included)");
    __CPROVER_assert(0, "canary: postcondition point reachable");
}
"""

_G = [Group(name="wrappers.basins", units=[basins_wrapper], harness=H, entry="h_graph_basins", timeout=60, min_obligations=1,
            replay="replay/routing.cpp",
            clause="flow_graph::basins(): compute_basins() runs in every call before the labels are copied out (typestate abstraction), for "
                   "writeable and read-only (snapshot) graphs alike")]
GROUPS = {"C19": _G, "C16": _G}
PROPS = {}
