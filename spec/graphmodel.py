"""Shared pieces of the flow-graph model: the one-line predicates of
flow_graph_impl (extracted), the neighbour-lookup contract (assumed from C07) and
text generators for finite conjunctions/disjunctions over neighbour slots."""
from fv.extract import Unit, R

IMPL_H = "include/fastscapelib/flow/flow_graph_impl.hpp"

NMAX_NODES = "((size_t) 1 << 40)"


def conj(fmt, n, sep=" && "):
    return "(" + sep.join("(" + fmt.replace("%k", str(k)) + ")" for k in range(n)) + ")"


def disj(fmt, n):
    return conj(fmt, n, " || ")


# flow_graph_impl::is_masked  (flow_graph_impl.hpp:248-251)
is_masked = Unit(
    name="is_masked", file=IMPL_H,
    anchor=r"inline bool is_masked\(const size_type& idx\) const",
    sig="static inline _Bool is_masked(const _Bool *m_mask, _Bool m_mask_initialized, size_t gsize, size_t idx)",
    rules=[R(r"m_mask\.flat\(idx\)", "m_mask[FSL_IDX1(idx, gsize)]", 1)],
)

# flow_graph_impl::is_base_level  (flow_graph_impl.hpp:231-234); the unordered_set is
# modelled by its characteristic function `base_level[]` (count(idx) in {0,1}).
is_base_level = Unit(
    name="is_base_level", file=IMPL_H,
    anchor=r"inline bool is_base_level\(const size_type& idx\) const",
    sig="static inline _Bool is_base_level(const _Bool *base_level, size_t gsize, size_t idx)",
    rules=[R(r"bool\(m_base_levels\.count\(idx\)\)", "(base_level[FSL_IDX1(idx, gsize)] != 0)", 1)],
)

# vocabulary of the objects in scope of an operator implementation (graph implementation, grid):
# pure token translations, any count (see fv.extract.V)
from fv.extract import V
GRAPH_VOCAB = [
    V(r"graph_impl\.is_masked\(", "is_masked(m_mask, m_mask_initialized, gsize, "),
    V(r"graph_impl\.is_base_level\(", "is_base_level(base_level, gsize, "),
    V(r"grid\.nodes_status\(([^()]*)\)", r"nodes_status[FSL_IDX1(\1, gsize)]"),
    V(r"grid\.nodes_status\(\)\.flat\(([^()]*)\)", r"nodes_status[FSL_IDX1(\1, gsize)]"),
    V(r"node_status::(\w+)", r"NS_\1"),
    V(r"grid\.size\(\)", "gsize"),
    V(r"graph_impl\.size\(\)", "gsize"),
]
NS_DEFS = "#define NS_core 0\n#define NS_fixed_value 1\n#define NS_fixed_gradient 2\n#define NS_looped 3\n"


def ghost_decls(nbmax):
    return r"""
/* ---- ghost state (DESIGN 3.1/3.4): an arbitrary node G, its neighbour list GN as the
 * grid reports it, and the quotient table GQ (slope of slot k as the code computes it) */
#ifndef FSL_NBMAX
#define FSL_NBMAX %d
#endif
size_t GSIZE;
size_t G;
size_t GN_cnt;
struct neighbor GN[FSL_NBMAX];
double GE_G; double GE[FSL_NBMAX];
double GQ[FSL_NBMAX];
""" % nbmax


def neighbors_contract(nbmax, with_status=False):
    """grid.neighbors(i, buf) -- assumed contract (postconditions of C07): count <= max,
    indices in range, distances positive and finite; deterministic: node G always
    gets the list GN."""
    per = conj("%k < __CPROVER_return_value ==> (nb[%k].idx < GSIZE && nb[%k].distance > 0 && nb[%k].distance < INFINITY)", nbmax)
    same = conj("nb[%k].idx == GN[%k].idx && nb[%k].distance == GN[%k].distance", nbmax)
    return r"""
size_t grid_neighbors(size_t i, struct neighbor *nb)
__CPROVER_requires(i < GSIZE)
__CPROVER_requires(__CPROVER_is_fresh(nb, FSL_NBMAX * sizeof(struct neighbor)))
__CPROVER_assigns(__CPROVER_object_whole(nb))
__CPROVER_ensures(__CPROVER_return_value <= FSL_NBMAX)
__CPROVER_ensures(%s)
__CPROVER_ensures(i == G ==> (__CPROVER_return_value == GN_cnt && %s))
;
""" % (per, same)


def neighbors_indices_contract(nbmax):
    per = conj("%k < __CPROVER_return_value ==> nb[%k] < GSIZE", nbmax)
    same = conj("nb[%k] == GN[%k].idx", nbmax)
    return r"""
size_t grid_neighbors_indices(size_t i, size_t *nb)
__CPROVER_requires(i < GSIZE)
__CPROVER_requires(__CPROVER_is_fresh(nb, FSL_NBMAX * sizeof(size_t)))
__CPROVER_assigns(__CPROVER_object_whole(nb))
__CPROVER_ensures(__CPROVER_return_value <= FSL_NBMAX)
__CPROVER_ensures(%s)
__CPROVER_ensures(i == G ==> (__CPROVER_return_value == GN_cnt && %s))
;
""" % (per, same)


def slope_abstraction(nbmax):
    """The slope expression (e_i - e_n) / d as a deterministic function of its three operands
    (DESIGN 3.4): slot k's value is GQ[k].  Keyed on the operands themselves (array reads), so no
    arithmetic circuit has to be proved equivalent to another one."""
    tab = conj("(ei == GE_G && en == GE[%k] && d == GN[%k].distance) ==> __CPROVER_return_value == GQ[%k]", nbmax)
    return r"""
double fsl_slope_abs(double ei, double en, double d)
__CPROVER_assigns()
__CPROVER_ensures(%s)
/* sign fact of the real computation (bit-precise lemma group div.slope_sign): a strict drop over a positive
 * finite distance gives a non-negative, non-NaN quotient */
__CPROVER_ensures((ei > en && d > 0 && d < INFINITY) ==> __CPROVER_return_value >= 0)
;
#define FSL_SLOPE(ei, en, d) fsl_slope_abs((ei), (en), (d))
""" % tab


def gq_consistent(nbmax):
    """ghost table is a function: equal operands, equal value; and respects the sign fact"""
    parts = []
    for j in range(nbmax):
        for k in range(j + 1, nbmax):
            parts.append("((GE[%d] == GE[%d] && GN[%d].distance == GN[%d].distance) ==> GQ[%d] == GQ[%d])" % (j, k, j, k, j, k))
    for k in range(nbmax):
        parts.append("(GE_G > GE[%d] ==> GQ[%d] >= 0)" % (k, k))
    return "(" + " && ".join(parts) + ")"
