"""Hillslope diffusion, alternating-direction-implicit eroder (eroders/diffusion_adi.hpp).  Properties C14 (partial) and C08.

  adi_tridiag        diffusion_adi_eroder::solve_tridiagonal            Thomas algorithm, unbounded loop contracts
  adi_vec_cell       solve_adi_row, body of the inner `for c` loop       right-hand side of one interior cell (explicit half step)
  adi_row            solve_adi_row with that body replaced by a call     assembly of the tridiagonal system of one row + fixed-value borders
  adi_factor_cell    set_factors, body of the inner `for c` loop         face-averaged diffusivity factors of one interior cell
  adi_set_factors    set_factors with that body replaced by a call       scalar / array factor tables, axis <-> spacing pairing
  adi_erode          erode                                               the two half steps: argument roles, transposition, result = input - final

What C14 states is an equality *up to rounding* with a direct solve of the two linear systems.  No bit-precise postcondition says
that (DESIGN 5), and the Thomas recurrence is nonlinear floating point over an unbounded loop.  What contracts CAN decide, for
all shapes and all values, is decided here:

  (a) fixed-value borders, bit-precisely: a tridiagonal system whose first/last equations are `1 * x = v` returns exactly v there
      (whenever the neighbouring result is finite), border rows are copied, hence zero erosion on the four borders;
  (b) which linear systems are assembled: lower / diagonal / upper / right-hand side of every interior cell are the Peaceman-Rachford
      half step with face-averaged diffusivity, built from the right cells, factor planes, axis spacings and time step;
  (c) the calling structure of the two half steps (implicit along columns first, then the transposed problem), the sizes of the
      system arrays, and erosion = input - final elevation.

The specification expressions of (b) are written from the scheme in the association the library documents (e.g. the west-face
coefficient is `0.25 / dx^2 * (k(r, c-1) + k(r, c))`).  A re-association that is equal in real arithmetic would change the last
bit only and keep the property ("within rounding"); such groups are therefore `deciding="replay"`: a failed obligation is
reported as a VIOLATION only when the native oracle (replay/adi.cpp: dense direct solve of the two systems in long double)
reproduces a deviation beyond rounding on the real code, otherwise as "proof detached" (exit 2).  Memory-safety obligations and
the clauses of (a) and (c) are deciding outright.

Reads of 2-D / 3-D tables in the outlined cell bodies go through a *relative window* accessor: `elevation(rr, cc)` is
`E_WIN[(rr) - r + 1][(cc) - c + 1]` with the obligation that the offset stays inside the 3x3 stencil and inside the table.  Code and
specification then denote the same cbmc expressions over the same symbols, so no floating-point circuit is built twice."""
from fv.extract import Unit, R, V, RB
from fv.runner import Group

ADI_H = "include/fastscapelib/eroders/diffusion_adi.hpp"
NONDET = "size_t nondet_size_t(void); _Bool nondet_bool(void); double nondet_double(void); int nondet_int(void);\n"
CANARY = '    __CPROVER_assert(0, "canary: postcondition point reachable");\n'
NMAX = "((size_t) 1 << 30)"        # axis length bound: static_cast<int>(n) in solve_tridiagonal needs n <= INT_MAX

COMMON = r"""
#ifndef ADI_COMMON
#define ADI_COMMON
#define SAME_D(x, y) ((x) == (y) || (isnan(x) && isnan(y)))  /* "unchanged" for a double cell */
#define FIN(x) (!isnan(x) && !isinf(x))
#endif
"""

# ====================================================================================================
# solve_tridiagonal
# ====================================================================================================
TRI_DEFS = r"""
#define m_vec(i) m_vec_[FSL_IDX1((size_t) (i), n)]
#define m_lower(i) m_lower_[FSL_IDX1((size_t) (i), n)]
#define m_diag(i) m_diag_[FSL_IDX1((size_t) (i), n)]
#define m_upper(i) m_upper_[FSL_IDX1((size_t) (i), n)]
#define result(i) result_[FSL_IDX1((size_t) (i), n)]
#define gam(i) gam_[FSL_IDX1((size_t) (i), n)]
"""
TRI_PARAMS = "size_t n, const double *m_vec_, const double *m_lower_, const double *m_diag_, const double *m_upper_, double *result_, double *gam_"
TRI_ARGS = "n, m_vec_, m_lower_, m_diag_, m_upper_, result_, gam_"

TRI_RULES = [
    R(r"size_type n = m_vec\.size\(\);", "", 1),
    # the two work arrays: uninitialised storage of the same length (xt::empty_like) -> fresh parameters
    R(r"auto result = xt::empty_like\(m_vec\);", "", 1),
    R(r"auto gam = xt::empty_like\(m_vec\);", "", 1),
    V(r"\bauto bet\b", "double bet"),
    V(r"throw std::runtime_error\(\s*\"[^\"]*\"\s*\);", "{ FSL_THROW(1); return; }"),
    R(r"return result;", "return;", 1),
]

FIRST_ROW = "(n >= 2 && m_diag_[0] == 1 && m_upper_[0] == 0)"
LAST_ROW = "(n >= 2 && m_diag_[n - 1] == 1 && m_lower_[n - 1] == 0)"

TRI_CONTRACT = r"""
__CPROVER_requires(1 <= n && n <= %(NMAX)s)
__CPROVER_requires(__CPROVER_is_fresh(m_vec_, n * sizeof(double)) && __CPROVER_is_fresh(m_lower_, n * sizeof(double)))
__CPROVER_requires(__CPROVER_is_fresh(m_diag_, n * sizeof(double)) && __CPROVER_is_fresh(m_upper_, n * sizeof(double)))
__CPROVER_requires(__CPROVER_is_fresh(result_, n * sizeof(double)) && __CPROVER_is_fresh(gam_, n * sizeof(double)))
__CPROVER_requires(fsl_thrown == 0)
__CPROVER_assigns(__CPROVER_object_whole(result_), __CPROVER_object_whole(gam_), fsl_thrown)
/* C14 fixed-value borders: an equation `1 * x = v` at either end of the system is solved exactly (bit-precise IEEE) */
__CPROVER_ensures((!fsl_thrown && %(FIRST)s && FIN(result_[1])) ==> SAME_D(result_[0], m_vec_[0]))
__CPROVER_ensures((!fsl_thrown && %(LAST)s && FIN(result_[n - 1])) ==> result_[n - 1] == m_vec_[n - 1])
/* a zero pivot in the first equation is reported, never divided by */
__CPROVER_ensures(m_diag_[0] == 0 ==> fsl_thrown)
""" % dict(NMAX=NMAX, FIRST=FIRST_ROW, LAST=LAST_ROW)

TRI_LOOPS = {
    0: r"""
__CPROVER_assigns(i, bet, __CPROVER_object_whole(result_), __CPROVER_object_whole(gam_), fsl_thrown)
__CPROVER_loop_invariant(1 <= i && i <= n)
__CPROVER_loop_invariant(fsl_thrown == 0)
__CPROVER_loop_invariant(i == 1 ==> SAME_D(bet, m_diag_[0]))
__CPROVER_loop_invariant(m_diag_[0] == 1 ==> SAME_D(result_[0], m_vec_[0]))
__CPROVER_loop_invariant((i >= 2 && %(FIRST)s) ==> gam_[1] == 0)
__CPROVER_loop_invariant((i == n && %(LAST)s && FIN(result_[n - 1])) ==> result_[n - 1] == m_vec_[n - 1])
__CPROVER_decreases(n - i)
""" % dict(FIRST=FIRST_ROW, LAST=LAST_ROW),
    1: r"""
__CPROVER_assigns(i, __CPROVER_object_whole(result_))
__CPROVER_loop_invariant(-1 <= i && i <= (int) n - 2)
__CPROVER_loop_invariant(SAME_D(result_[n - 1], __CPROVER_loop_entry(result_[n - 1])))
__CPROVER_loop_invariant((i >= 0 && m_diag_[0] == 1) ==> SAME_D(result_[0], m_vec_[0]))
__CPROVER_loop_invariant((i == -1 && %(FIRST)s && FIN(result_[1])) ==> SAME_D(result_[0], m_vec_[0]))
__CPROVER_decreases(i + 1)
""" % dict(FIRST=FIRST_ROW),
}

adi_tridiag = Unit(
    name="adi_tridiag", file=ADI_H,
    anchor=r"auto diffusion_adi_eroder<G, S>::solve_tridiagonal\(\) -> xt::xtensor<data_type, 1>",
    sig="void adi_tridiag(%s)" % TRI_PARAMS, pre=COMMON, defs=TRI_DEFS, rules=TRI_RULES,
    contract=TRI_CONTRACT, loops=TRI_LOOPS)

H_TRI = NONDET + r"""
void h_adi_tridiag(void)
{
    size_t n = nondet_size_t();
    const double *m_vec_, *m_lower_, *m_diag_, *m_upper_; double *result_, *gam_;
    adi_tridiag(%s);
%s}
""" % (TRI_ARGS, CANARY)

G_TRI = Group(
    name="adi.tridiag", units=[adi_tridiag], harness=H_TRI, entry="h_adi_tridiag", enforce="adi_tridiag",
    loop_contracts=True, backend="sat", timeout=900, min_obligations=60,
    clause="solve_tridiagonal (Thomas algorithm), any length 1 .. 2^30, any coefficients: every index in range, no division by a zero first "
           "pivot; a first / last equation of the form 1 * x = v is solved exactly (bit-precise) whenever the adjacent result is finite -- the "
           "fixed-value border rows of the ADI systems")

GROUPS = {"C14": [G_TRI], "C08": [G_TRI]}
PROPS = {}

# ====================================================================================================
# relative-window accessors shared by the cell units and the row unit
# ====================================================================================================
# Tracked ("ghost") cells of the 2-D / 3-D tables, owned by the harness: the 3x3 stencil window around one interior cell
# (GR, GC) of the elevation and diffusivity tables and of every factor plane.  Everything else is arbitrary.
WIN = COMMON + r"""
#ifndef ADI_WIN
#define ADI_WIN
size_t GR, GC;                 /* ghost interior cell */
double ADI_DT;                 /* the time-step argument `dt` (never assigned): a global, because cbmc only shares the floating-point circuits
                                * of code and specification when both are built over the SAME symbols -- a by-value parameter is a fresh
                                * symbol in every frame (measured: 0.4 s with the global, no answer in 600 s with the parameter) */
double E_WIN[3][3];            /* elevation(GR-1..GR+1, GC-1..GC+1) */
double K_WIN[3][3];            /* k(GR-1..GR+1, GC-1..GC+1) */
double FR_WIN[3][3][3];        /* factors_row(plane, GR-1..GR+1, GC-1..GC+1) */
double FC_WIN[3][3][3];        /* factors_col(plane, ...) */
/* offset of index x in the stencil around x0: obligations "inside the table" (what xtensor itself never checks) and "inside the stencil" */
static inline size_t adi_rel(size_t x, size_t x0, size_t len)
{
    __CPROVER_assert(x < len, "xtensor index in range (per dimension)");
    __CPROVER_assert(x + 1 >= x0 && x <= x0 + 1, "read stays inside the 3x3 stencil of the cell being assembled");
    return x - x0 + 1;
}
/* constant stencil offset k of the index expression x (x is `var - 1`, `var` or `var + 1` textually): only the in-table obligation remains */
static inline size_t adi_at(size_t k, size_t x, size_t len)
{
    __CPROVER_assert(x < len, "xtensor index in range (per dimension)");
    return k;
}
static inline size_t adi_plane(size_t p)
{
    __CPROVER_assert(p < 3, "xtensor index in range (factor plane)");
    return p;
}
#endif
"""

ROW_ANCHOR = r"auto diffusion_adi_eroder<G, S>::solve_adi_row\(E&& elevation,"
CELL_HEAD = r"for \(size_type c = 1; c < ncols - 1; \+\+c\)"
CELL_INNER = CELL_HEAD + r"\s*\{"

def _rel(txt, var, length):
    """stencil offset of an index expression relative to the loop variable: `var - 1` -> 0, `var` -> 1, `var + 1` -> 2 (constants, so that code
    and specification denote the same cbmc expression); anything else keeps a symbolic offset with the stencil obligation"""
    t = txt.replace(" ", "")
    k = {var + "-1": "0", var: "1", var + "+1": "2"}.get(t)
    if k is None:
        return "adi_rel(%s, %s, %s)" % (txt.strip(), var, length)
    return "adi_at(%s, %s, %s)" % (k, txt.strip(), length)


def _win_access(m):
    name, args = m.group(1), [a for a in m.group(2).split(",")]
    tab = {"elevation": "E_WIN", "k": "K_WIN", "factors_row": "FR_WIN", "factors_col": "FC_WIN"}[name]
    if len(args) == 2:
        return "%s[%s][%s]" % (tab, _rel(args[0], "r", "nrows"), _rel(args[1], "c", "ncols"))
    if len(args) == 3:
        return "%s[adi_plane(%s)][%s][%s]" % (tab, args[0].strip(), _rel(args[1], "r", "nrows"), _rel(args[2], "c", "ncols"))
    return m.group(0)


# reads of the 2-D / 3-D tables inside an outlined cell body -> the relative window (mechanical: index text relative to the loop variables)
WIN_READS = V(r"\b(elevation|factors_row|factors_col|k)\(([^()]*)\)", _win_access)

CELL_DEFS = r"""
#define m_vec(i) m_vec_[FSL_IDX1((i), ncols)]
#define dt ADI_DT
"""
# right-hand side of the first (row-explicit) half step at an interior cell, from the scheme:
#   (1 - 2 F_row(1) dt) u(r, c) + F_row(0) dt u(r-1, c) + F_row(2) dt u(r+1, c)       F_row(1) = (north face + south face) / 2 * 0.5 / dy^2
SPEC_VEC = ("((1 - 2 * FR_WIN[1][1][1] * ADI_DT) * E_WIN[1][1] + FR_WIN[0][1][1] * E_WIN[0][1] * ADI_DT + FR_WIN[2][1][1] * E_WIN[2][1] * ADI_DT)")

adi_vec_cell = Unit(
    name="adi_vec_cell", file=ADI_H, anchor=ROW_ANCHOR, inner=CELL_INNER,
    sig="void adi_vec_cell(size_t r, size_t c, size_t nrows, size_t ncols, double *m_vec_)",
    pre=WIN + "size_t GV;   /* ghost index of the system arrays (frame) */\n", defs=CELL_DEFS, rules=[WIN_READS],
    contract=r"""
__CPROVER_requires(3 <= nrows && nrows <= %(NMAX)s && 3 <= ncols && ncols <= %(NMAX)s)
__CPROVER_requires(1 <= r && r <= nrows - 2 && 1 <= c && c <= ncols - 2)
__CPROVER_requires(__CPROVER_is_fresh(m_vec_, ncols * sizeof(double)))
__CPROVER_requires(GV < ncols)
__CPROVER_assigns(__CPROVER_object_whole(m_vec_))
/* C14 (b): explicit part of the half step at the cell the windows describe */
__CPROVER_ensures((r == GR && c == GC) ==> SAME_D(m_vec_[c], %(SPEC)s))
/* frame: only the cell's own entry */
__CPROVER_ensures(GV != c ==> SAME_D(m_vec_[GV], __CPROVER_old(m_vec_[GV])))
""" % dict(NMAX=NMAX, SPEC=SPEC_VEC))

H_CELL = NONDET + r"""
void h_adi_vec_cell(void)
{
    size_t r = nondet_size_t(), c = nondet_size_t(), nrows = nondet_size_t(), ncols = nondet_size_t();
    double *m_vec_;
    GR = nondet_size_t(); GC = nondet_size_t(); GV = nondet_size_t();
    adi_vec_cell(r, c, nrows, ncols, m_vec_);
%s}
""" % CANARY

G_CELL = Group(
    name="adi.row.vec_cell", units=[adi_vec_cell], harness=H_CELL, entry="h_adi_vec_cell", enforce="adi_vec_cell",
    backend="sat", timeout=600, min_obligations=20, deciding="replay", replay="replay/adi.cpp", nondet_static=True,
    clause="solve_adi_row, one interior cell: the right-hand side is the explicit half step (1 - 2 F(1) dt) u(r,c) + F(0) dt u(r-1,c) + "
           "F(2) dt u(r+1,c) built from the cell's own column of the elevation and of the explicit-direction factor planes; every read "
           "inside the table; only the cell's own entry of the system vector is written")
GROUPS["C14"].append(G_CELL)
GROUPS["C08"].append(G_CELL)

# ====================================================================================================
# solve_adi_row: assembly of one row's system + fixed-value borders
# ====================================================================================================
# Tracked cells at row level (all harness-owned ghosts, never assigned by the code):
#   windows around (GR, GC) as above;  E_ROW0 / E_ROWL = elevation(GR, 0) / elevation(GR, ncols-1) (they ARE window cells when GC is
#   next to the border);  E_O = elevation(OR, OC) for an arbitrary cell (OR, OC);
#   OUT_O, OUT_G0, OUT_G1, OUT_GL = elevation_out at (OR, OC), (GR, 0), (GR, 1), (GR, ncols-1).
ROW_PRE = WIN + r"""
size_t OR_, OC_;
double E_ROW0, E_ROWL, E_O;
double OUT_O, OUT_G0, OUT_G1, OUT_GL;
#define E_AT_ROW0 (GC == 1 ? E_WIN[1][0] : E_ROW0)
#define E_AT_ROWL (GC + 2 == ADI_NCOLS ? E_WIN[1][2] : E_ROWL)
size_t ADI_NCOLS;
double nondet_double(void);
/* read of elevation(rr, cc) outside the outlined cell body: the tracked border cells of row GR, anything else arbitrary */
static inline double adi_E(size_t rr, size_t cc, size_t nrows, size_t ncols)
{
    __CPROVER_assert(rr < nrows, "xtensor index in range (dim 0)");
    __CPROVER_assert(cc < ncols, "xtensor index in range (dim 1)");
    if (rr == GR && cc == 0) return E_AT_ROW0;
    if (rr == GR && cc + 1 == ncols) return E_AT_ROWL;
    return nondet_double();
}
/* read of a factor plane outside the tracked cell: arbitrary (in-table obligations only) */
static inline double adi_F(size_t p, size_t rr, size_t cc, size_t nrows, size_t ncols)
{
    __CPROVER_assert(p < 3, "xtensor index in range (factor plane)");
    __CPROVER_assert(rr < nrows, "xtensor index in range (dim 1)");
    __CPROVER_assert(cc < ncols, "xtensor index in range (dim 2)");
    return nondet_double();
}
/* `xt::xtensor<double, 2> elevation_out = elevation;` -- whole-array copy (assumed xtensor semantics), observed at the tracked cells */
void adi_copy2(size_t nrows, size_t ncols)
__CPROVER_assigns(OUT_O, OUT_G0, OUT_G1, OUT_GL)
__CPROVER_ensures(SAME_D(OUT_O, E_O) && SAME_D(OUT_G0, E_AT_ROW0) && SAME_D(OUT_GL, E_AT_ROWL))
;
/* the system of row GR at column GC and at both ends, as the scheme demands (C14 (b)); association as documented by the library */
#define SPEC_LOWER (-1 * FC_WIN[0][1][1] * ADI_DT)
#define SPEC_DIAG (1 + 2 * FC_WIN[1][1][1] * ADI_DT)
#define SPEC_UPPER (-1 * FC_WIN[2][1][1] * ADI_DT)
#define SPEC_VEC %(SPEC_VEC)s
#define FIXED_ENDS (m_lower_[0] == 0 && m_diag_[0] == 1 && m_upper_[0] == 0 && m_lower_[ncols - 1] == 0 && m_diag_[ncols - 1] == 1 && m_upper_[ncols - 1] == 0)
/* `elevation_out_r = solve_tridiagonal();` -- solve the assembled system and assign the result to row r of elevation_out.
 * Its PRECONDITION is the assembly claim of the property; group adi.row.solve_glue proves the postcondition from solve_tridiagonal's contract. */
void adi_solve_into_row(size_t r, size_t nrows, size_t ncols, const double *m_vec_, const double *m_lower_, const double *m_diag_, const double *m_upper_)
__CPROVER_requires(3 <= ncols && ncols <= %(NMAX)s && ncols == ADI_NCOLS && fsl_thrown == 0 && 1 <= GC && GC <= ncols - 2)
__CPROVER_requires(FIXED_ENDS)
__CPROVER_requires(r == GR ==> (SAME_D(m_vec_[0], E_AT_ROW0) && SAME_D(m_vec_[ncols - 1], E_AT_ROWL)))
__CPROVER_requires(r == GR ==> SAME_D(m_lower_[GC], SPEC_LOWER))
__CPROVER_requires(r == GR ==> SAME_D(m_diag_[GC], SPEC_DIAG))
__CPROVER_requires(r == GR ==> SAME_D(m_upper_[GC], SPEC_UPPER))
__CPROVER_requires(r == GR ==> SAME_D(m_vec_[GC], SPEC_VEC))
__CPROVER_assigns(OUT_G0, OUT_G1, OUT_GL, fsl_thrown)
__CPROVER_ensures(r != GR ==> (SAME_D(OUT_G0, __CPROVER_old(OUT_G0)) && SAME_D(OUT_G1, __CPROVER_old(OUT_G1)) && SAME_D(OUT_GL, __CPROVER_old(OUT_GL))))
__CPROVER_ensures((r == GR && !fsl_thrown && FIN(OUT_G1)) ==> SAME_D(OUT_G0, m_vec_[0]))
__CPROVER_ensures((r == GR && !fsl_thrown && FIN(OUT_GL)) ==> OUT_GL == m_vec_[ncols - 1])
#ifndef ADI_GLUE_BODY
;
#else
{
    /* model of the glue: the returned tensor (xt::empty_like work arrays inside solve_tridiagonal) assigned to the row view */
    double *result_ = malloc(ncols * sizeof(double)), *gam_ = malloc(ncols * sizeof(double));
    __CPROVER_assume(result_ != 0 && gam_ != 0);
    adi_tridiag(ncols, m_vec_, m_lower_, m_diag_, m_upper_, result_, gam_);
    if (fsl_thrown) return;
    if (r == GR) { OUT_G0 = result_[0]; OUT_G1 = result_[1]; OUT_GL = result_[ncols - 1]; }
}
#endif
""" % dict(SPEC_VEC=SPEC_VEC, NMAX=NMAX)

ROW_DEFS = r"""
#define dt ADI_DT
#define elevation(rr, cc) adi_E((rr), (cc), nrows, ncols)
#define factors_col(p, rr, cc) adi_F((p), (rr), (cc), nrows, ncols)
#define factors_row(p, rr, cc) adi_F((p), (rr), (cc), nrows, ncols)
#define factors_col_G(p, rr, cc) FC_WIN[adi_plane(p)][1][1]
#define factors_row_G(p, rr, cc) FR_WIN[adi_plane(p)][1][1]
#define m_vec(i) m_vec_[FSL_IDX1((i), ncols)]
#define m_lower(i) m_lower_[FSL_IDX1((i), ncols)]
#define m_diag(i) m_diag_[FSL_IDX1((i), ncols)]
#define m_upper(i) m_upper_[FSL_IDX1((i), ncols)]
"""


def _row_expr(m):
    """`m_x = <expr with xt::view(F, p, r, xt::all())>;` -- an xtensor 1-D expression assignment: element cx of the left side gets the expression
    with the row view replaced by its element (p, r, cx).  The statement is emitted twice under a case split on "is this the tracked cell":
    same semantics as one statement reading through a multiplexer, but the tracked branch denotes the window symbol itself."""
    lhs, pre, tab, plane, post = m.groups()
    stmt = "%s(cx) = %s%%s(%s, r, cx)%s;" % (lhs, pre, plane, post)
    return ("for (size_t cx = 0; cx < ncols; ++cx) { if (r == GR && cx == GC) { %s } else { %s } }" % (stmt % (tab + "_G"), stmt % tab))


ROW_RULES = [
    R(r"xt::xtensor<double, 2> elevation_out = elevation;", "adi_copy2(nrows, ncols);", 1),
    V(r"\b(m_lower|m_diag|m_upper|m_vec) = ([^;]*?)xt::view\((factors_col|factors_row), (\w+), r, xt::all\(\)\)([^;]*);", _row_expr),
    RB(CELL_HEAD, "{ adi_vec_cell(r, c, nrows, ncols, m_vec_); }"),
    V(r"\bauto ilast\b", "size_t ilast"),
    R(r"auto elevation_out_r = xt::view\(elevation_out, r, xt::all\(\)\);\s*elevation_out_r = solve_tridiagonal\(\);",
      "adi_solve_into_row(r, nrows, ncols, m_vec_, m_lower_, m_diag_, m_upper_); if (fsl_thrown) return;", 1),
    R(r"return elevation_out;", "return;", 1),
]

ROW_PARAMS = "size_t nrows, size_t ncols, double *m_vec_, double *m_lower_, double *m_diag_, double *m_upper_"
ROW_ARGS = "nrows, ncols, m_vec_, m_lower_, m_diag_, m_upper_"

_EXPR_INV = r"""
__CPROVER_assigns(cx, __CPROVER_object_whole(%(arr)s))
__CPROVER_loop_invariant(cx <= ncols)
__CPROVER_loop_invariant((r == GR && cx > GC) ==> SAME_D(%(arr)s[GC], %(spec)s))
__CPROVER_decreases(ncols - cx)
"""

ROW_LOOPS = {
    0: r"""
__CPROVER_assigns(r, __CPROVER_object_whole(m_vec_), __CPROVER_object_whole(m_lower_), __CPROVER_object_whole(m_diag_), __CPROVER_object_whole(m_upper_),
                  OUT_G0, OUT_G1, OUT_GL, fsl_thrown)
__CPROVER_loop_invariant(1 <= r && r <= nrows - 1)
__CPROVER_loop_invariant(fsl_thrown == 0)
__CPROVER_loop_invariant(r <= GR ==> (SAME_D(OUT_G0, E_AT_ROW0) && SAME_D(OUT_GL, E_AT_ROWL)))
__CPROVER_loop_invariant((r > GR && FIN(OUT_G1)) ==> SAME_D(OUT_G0, E_AT_ROW0))
__CPROVER_loop_invariant((r > GR && FIN(OUT_GL)) ==> OUT_GL == E_AT_ROWL)
__CPROVER_decreases(nrows - r)
""",
    1: _EXPR_INV % dict(arr="m_lower_", spec="SPEC_LOWER"),
    2: _EXPR_INV % dict(arr="m_diag_", spec="SPEC_DIAG"),
    3: _EXPR_INV % dict(arr="m_upper_", spec="SPEC_UPPER"),
    4: r"""
__CPROVER_assigns(c, __CPROVER_object_whole(m_vec_))
__CPROVER_loop_invariant(1 <= c && c <= ncols - 1)
__CPROVER_loop_invariant((r == GR && c > GC) ==> SAME_D(m_vec_[GC], SPEC_VEC))
__CPROVER_decreases(ncols - c)
""",
}

ROW_CONTRACT = r"""
__CPROVER_requires(3 <= nrows && nrows <= %(NMAX)s && 3 <= ncols && ncols <= %(NMAX)s && ncols == ADI_NCOLS)
__CPROVER_requires(1 <= GR && GR <= nrows - 2 && 1 <= GC && GC <= ncols - 2 && OR_ < nrows && OC_ < ncols && GV == GC)
__CPROVER_requires(__CPROVER_is_fresh(m_vec_, ncols * sizeof(double)) && __CPROVER_is_fresh(m_lower_, ncols * sizeof(double)))
__CPROVER_requires(__CPROVER_is_fresh(m_diag_, ncols * sizeof(double)) && __CPROVER_is_fresh(m_upper_, ncols * sizeof(double)))
__CPROVER_requires(fsl_thrown == 0)
__CPROVER_assigns(__CPROVER_object_whole(m_vec_), __CPROVER_object_whole(m_lower_), __CPROVER_object_whole(m_diag_), __CPROVER_object_whole(m_upper_),
                  OUT_O, OUT_G0, OUT_G1, OUT_GL, fsl_thrown)
/* C14 (a): the first and the last row are copies of the input (bitwise; a NaN stays a NaN) */
__CPROVER_ensures((OR_ == 0 || OR_ == nrows - 1) ==> SAME_D(OUT_O, E_O))
/* C14 (a): the first and the last column of every interior row keep the input value whenever the adjacent result is finite */
__CPROVER_ensures((!fsl_thrown && FIN(OUT_G1)) ==> SAME_D(OUT_G0, E_AT_ROW0))
__CPROVER_ensures((!fsl_thrown && FIN(OUT_GL)) ==> OUT_GL == E_AT_ROWL)
/* C14 (b): the assembly clauses are the PRECONDITIONS of adi_solve_into_row, checked at its call */
""" % dict(NMAX=NMAX)

adi_row = Unit(
    name="adi_row", file=ADI_H, anchor=ROW_ANCHOR, sig="void adi_row(%s)" % ROW_PARAMS,
    pre=ROW_PRE, defs=ROW_DEFS, rules=ROW_RULES, contract=ROW_CONTRACT, loops=ROW_LOOPS)

# the cell unit's contract is what the row proof uses: declaration only (its body is proved by adi.row.vec_cell)
H_ROW = NONDET + r"""
void h_adi_row(void)
{
    size_t nrows = nondet_size_t(), ncols = nondet_size_t();
    double *m_vec_, *m_lower_, *m_diag_, *m_upper_;
    GR = nondet_size_t(); GC = nondet_size_t(); GV = nondet_size_t(); OR_ = nondet_size_t(); OC_ = nondet_size_t(); ADI_NCOLS = ncols;
    adi_row(%s);
%s    if (0) { adi_copy2(0, 0); adi_solve_into_row(0, 0, 0, 0, 0, 0, 0); adi_vec_cell(0, 0, 0, 0, 0); }
}
""" % (ROW_ARGS, CANARY)

G_ROW = Group(
    name="adi.row.assembly", units=[adi_vec_cell, adi_row], harness=H_ROW, entry="h_adi_row", enforce="adi_row",
    replace=["adi_vec_cell", "adi_copy2", "adi_solve_into_row"], loop_contracts=True, nondet_static=True,
    backend="cadical", timeout=1500, min_obligations=100, deciding="replay", replay="replay/adi.cpp",
    clause="solve_adi_row, any shape >= 3x3, any values: for every interior row the system handed to the tridiagonal solver has, at every "
           "interior column, lower = -F_impl(0) dt, diagonal = 1 + 2 F_impl(1) dt, upper = -F_impl(2) dt and the explicit right-hand side of "
           "the cell; both end equations are 1 * x = input value (fixed-value borders); first / last row are copies of the input; the border "
           "columns of the result equal the input whenever the adjacent result is finite; every table access in range")

H_GLUE = NONDET + r"""
void h_adi_glue(void)
{
    size_t r = nondet_size_t(), nrows = nondet_size_t(), ncols = nondet_size_t();
    const double *m_vec_, *m_lower_, *m_diag_, *m_upper_;
    GR = nondet_size_t(); GC = nondet_size_t(); ADI_NCOLS = ncols;
    __CPROVER_assume(3 <= ncols && ncols <= %s);
    m_vec_ = malloc(ncols * sizeof(double)); m_lower_ = malloc(ncols * sizeof(double)); m_diag_ = malloc(ncols * sizeof(double)); m_upper_ = malloc(ncols * sizeof(double));
    __CPROVER_assume(m_vec_ != 0 && m_lower_ != 0 && m_diag_ != 0 && m_upper_ != 0);
    adi_solve_into_row(r, nrows, ncols, m_vec_, m_lower_, m_diag_, m_upper_);
%s}
""" % (NMAX, CANARY)

adi_tridiag_decl = Unit(name="adi_tridiag", file=ADI_H, anchor=adi_tridiag.anchor, sig=adi_tridiag.sig, pre=COMMON, defs=TRI_DEFS,
                        rules=TRI_RULES, contract=TRI_CONTRACT, loops=TRI_LOOPS)
adi_row_pre_only = Unit(name="adi_row_unused", file=ADI_H, anchor=ROW_ANCHOR, sig="void adi_row_unused(%s)" % ROW_PARAMS,
                        pre=ROW_PRE, defs=ROW_DEFS, rules=ROW_RULES)

G_GLUE = Group(
    name="adi.row.solve_glue", units=[adi_tridiag_decl, adi_row_pre_only], harness=H_GLUE, entry="h_adi_glue", enforce="adi_solve_into_row",
    replace=["adi_tridiag"], defines=["ADI_GLUE_BODY"], nondet_static=True, backend="sat", timeout=600, min_obligations=10,
    clause="glue between solve_adi_row and solve_tridiagonal (`row view = solve_tridiagonal()`, modelled): from solve_tridiagonal's contract, a "
           "system with fixed-value end equations returns the input values in the border columns of the row whenever the adjacent result is finite")

for _g in (G_ROW, G_GLUE):
    GROUPS["C14"].append(_g)
GROUPS["C08"].append(G_ROW)

# ====================================================================================================
# set_factors: face-averaged diffusivity factors
# ====================================================================================================
SF_ANCHOR = r"void diffusion_adi_eroder<G, S>::set_factors\(\)"
FCELL_HEAD = r"for \(size_type c = 1; c < m_ncols - 1; \+\+c\)"

SF_PRE = WIN + r"""
#ifndef ADI_SF
#define ADI_SF
double ADI_SPACING[2];         /* m_grid.spacing(): [0] = spacing along the rows axis (dy), [1] = along the columns axis (dx) */
double ADI_K;                  /* m_k_coef_scalar */
double ADI_FR, ADI_FC;         /* the locals fr, fc of set_factors (globals so that code and specification share their circuits) */
double FROW_OUT[3], FCOL_OUT[3]; /* m_factors_row(., GR, GC), m_factors_col(., GR, GC) */
double ADI_SINK;               /* every other cell of the factor tables */
size_t CELL_CALLS;             /* ghost: how often the interior-cell body ran for (GR, GC) */
double F_SNAP[6];              /* ghost: the six factors of (GR, GC) as the interior-cell body left them */
struct adi_shape3 { size_t d[3]; };
/* write access to a factor table: the tracked cell or the sink; obligation: inside the table */
static inline double *adi_fout(double *tracked, size_t p, size_t rr, size_t cc, size_t nrows, size_t ncols)
{
    __CPROVER_assert(p < 3, "xtensor index in range (factor plane)");
    __CPROVER_assert(rr < nrows, "xtensor index in range (dim 1)");
    __CPROVER_assert(cc < ncols, "xtensor index in range (dim 2)");
    return (rr == GR && cc == GC) ? &tracked[p] : &ADI_SINK;
}
#define SPEC_FR (0.25 / (ADI_SPACING[0] * ADI_SPACING[0]))
#define SPEC_FC (0.25 / (ADI_SPACING[1] * ADI_SPACING[1]))
/* face-averaged diffusivity (k_face = mean of the two adjacent nodes) times 0.5 / spacing^2, in the association the library documents */
#define FSPEC_ALL (SAME_D(FROW_OUT[0], ADI_FR * (K_WIN[0][1] + K_WIN[1][1])) \
                && SAME_D(FROW_OUT[1], ADI_FR / 2 * (K_WIN[0][1] + 2 * K_WIN[1][1] + K_WIN[2][1])) \
                && SAME_D(FROW_OUT[2], ADI_FR * (K_WIN[1][1] + K_WIN[2][1])) \
                && SAME_D(FCOL_OUT[0], ADI_FC * (K_WIN[1][0] + K_WIN[1][1])) \
                && SAME_D(FCOL_OUT[1], ADI_FC / 2 * (K_WIN[1][0] + 2 * K_WIN[1][1] + K_WIN[1][2])) \
                && SAME_D(FCOL_OUT[2], ADI_FC * (K_WIN[1][1] + K_WIN[1][2])))
#define FOUT_IS_SNAP (SAME_D(FROW_OUT[0], F_SNAP[0]) && SAME_D(FROW_OUT[1], F_SNAP[1]) && SAME_D(FROW_OUT[2], F_SNAP[2]) \
                   && SAME_D(FCOL_OUT[0], F_SNAP[3]) && SAME_D(FCOL_OUT[1], F_SNAP[4]) && SAME_D(FCOL_OUT[2], F_SNAP[5]))
#define SNAP_SAME (SAME_D(F_SNAP[0], __CPROVER_old(F_SNAP[0])) && SAME_D(F_SNAP[1], __CPROVER_old(F_SNAP[1])) && SAME_D(F_SNAP[2], __CPROVER_old(F_SNAP[2])) \
                && SAME_D(F_SNAP[3], __CPROVER_old(F_SNAP[3])) && SAME_D(F_SNAP[4], __CPROVER_old(F_SNAP[4])) && SAME_D(F_SNAP[5], __CPROVER_old(F_SNAP[5])))
#define FOUT_SAME (SAME_D(FROW_OUT[0], __CPROVER_old(FROW_OUT[0])) && SAME_D(FROW_OUT[1], __CPROVER_old(FROW_OUT[1])) && SAME_D(FROW_OUT[2], __CPROVER_old(FROW_OUT[2])) \
                && SAME_D(FCOL_OUT[0], __CPROVER_old(FCOL_OUT[0])) && SAME_D(FCOL_OUT[1], __CPROVER_old(FCOL_OUT[1])) && SAME_D(FCOL_OUT[2], __CPROVER_old(FCOL_OUT[2])))
#endif
"""

FCELL_DEFS = r"""
#define fr ADI_FR
#define fc ADI_FC
"""
SF_VOCAB = [
    V(r"\bm_nrows\b", "nrows"), V(r"\bm_ncols\b", "ncols"),
    V(r"\bm_factors_row\(([^,()]+),([^,()]+),([^,()]+)\)", r"(*adi_fout(FROW_OUT, \1, \2, \3, nrows, ncols))"),
    V(r"\bm_factors_col\(([^,()]+),([^,()]+),([^,()]+)\)", r"(*adi_fout(FCOL_OUT, \1, \2, \3, nrows, ncols))"),
]

adi_factor_cell = Unit(
    name="adi_factor_cell", file=ADI_H, anchor=SF_ANCHOR, inner=FCELL_HEAD + r"\s*\{",
    sig="void adi_factor_cell(size_t r, size_t c, size_t nrows, size_t ncols)",
    pre=SF_PRE, defs=FCELL_DEFS, rules=SF_VOCAB + [WIN_READS],
    body_suffix="    FSL_GHOST(if (r == GR && c == GC) { CELL_CALLS = CELL_CALLS + 1; F_SNAP[0] = FROW_OUT[0]; F_SNAP[1] = FROW_OUT[1]; F_SNAP[2] = FROW_OUT[2]; "
                "F_SNAP[3] = FCOL_OUT[0]; F_SNAP[4] = FCOL_OUT[1]; F_SNAP[5] = FCOL_OUT[2]; })\n",
    contract=r"""
__CPROVER_requires(3 <= nrows && nrows <= %(NMAX)s && 3 <= ncols && ncols <= %(NMAX)s)
__CPROVER_requires(1 <= r && r <= nrows - 2 && 1 <= c && c <= ncols - 2 && CELL_CALLS <= 1)
/* call-site obligation (C14 (b)): the factors are 0.25 / spacing^2 of the matching axis */
__CPROVER_requires(SAME_D(ADI_FR, SPEC_FR) && SAME_D(ADI_FC, SPEC_FC))
__CPROVER_assigns(FROW_OUT, FCOL_OUT, ADI_SINK, CELL_CALLS, F_SNAP)
__CPROVER_ensures((r == GR && c == GC) ==> FSPEC_ALL)
__CPROVER_ensures((r == GR && c == GC) ==> FOUT_IS_SNAP)
__CPROVER_ensures(!(r == GR && c == GC) ==> (FOUT_SAME && SNAP_SAME))
__CPROVER_ensures(CELL_CALLS == __CPROVER_old(CELL_CALLS) + ((r == GR && c == GC) ? 1 : 0))
""" % dict(NMAX=NMAX))

H_FCELL = NONDET + r"""
void h_adi_factor_cell(void)
{
    size_t r = nondet_size_t(), c = nondet_size_t(), nrows = nondet_size_t(), ncols = nondet_size_t();
    GR = nondet_size_t(); GC = nondet_size_t();
    adi_factor_cell(r, c, nrows, ncols);
%s}
""" % CANARY

G_FCELL = Group(
    name="adi.factors.cell", units=[adi_factor_cell], harness=H_FCELL, entry="h_adi_factor_cell", enforce="adi_factor_cell",
    backend="cadical", timeout=600, min_obligations=20, deciding="replay", replay="replay/adi.cpp", nondet_static=True,
    clause="set_factors, one interior cell of a spatially variable diffusivity: the six factors are the face averages (k(node) + k(neighbour)) of "
           "the north / south faces (row factors) and west / east faces (column factors) times 0.25 / spacing^2, the centre factor is half the "
           "sum of both faces; every read inside the table, only the cell's own entries written")

SF_RULES = [
    R(r"auto spacing = m_grid\.spacing\(\);", "", 1),
    # never-reassigned locals initialised from the spacing: textual aliases (so that the specification can name the same symbols)
    V(r"data_type (dx|dy) = spacing\[(\d)\];", r"\n#define \1 ADI_SPACING[\2]\n"),
    R(r"std::array<size_type, 3> factors_shape\(\{ \{([^{}]*)\} \}\);", r"struct adi_shape3 factors_shape = { {\1} };", 1),
    R(r"data_type fr, fc;", "", 1),
    V(r"\bm_k_coef_scalar\b", "ADI_K"),
    V(r"m_factors_(row|col) = xt::ones<data_type>\(factors_shape\) \* (\w+);", r"adi_fill3(F\1_OUT, factors_shape, \2, nrows, ncols);"),
    V(r"m_factors_(row|col) = xt::empty<data_type>\(factors_shape\);", r"adi_empty3(F\1_OUT, factors_shape, nrows, ncols);"),
    R(r"const auto& k = m_k_coef_array;", "", 1),
    RB(FCELL_HEAD, "{ adi_factor_cell(r, c, nrows, ncols); }"),
] + SF_VOCAB

SF_DEFS = FCELL_DEFS + r"""
#define Frow_OUT FROW_OUT
#define Fcol_OUT FCOL_OUT
"""
SF_MODELS = r"""
/* `table = xt::ones<T>(shape) * v` : a table of the given shape, every cell 1.0 * v == v (exact in IEEE-754); observed at the tracked cell */
void adi_fill3(double *tracked, struct adi_shape3 shape, double v, size_t nrows, size_t ncols)
__CPROVER_requires(shape.d[0] == 3 && shape.d[1] == nrows && shape.d[2] == ncols)
__CPROVER_requires(tracked == FROW_OUT || tracked == FCOL_OUT)
__CPROVER_assigns(__CPROVER_object_whole(tracked))
__CPROVER_ensures(SAME_D(tracked[0], v) && SAME_D(tracked[1], v) && SAME_D(tracked[2], v))
;
/* `table = xt::empty<T>(shape)` : uninitialised table of the given shape */
void adi_empty3(double *tracked, struct adi_shape3 shape, size_t nrows, size_t ncols)
__CPROVER_requires(shape.d[0] == 3 && shape.d[1] == nrows && shape.d[2] == ncols)
__CPROVER_requires(tracked == FROW_OUT || tracked == FCOL_OUT)
__CPROVER_assigns(__CPROVER_object_whole(tracked))
;
"""

adi_set_factors = Unit(
    name="adi_set_factors", file=ADI_H, anchor=SF_ANCHOR,
    sig="void adi_set_factors(size_t nrows, size_t ncols, _Bool m_k_coef_is_scalar)",
    pre=SF_PRE + SF_MODELS, defs=SF_DEFS, rules=SF_RULES, post="#undef dx\n#undef dy\n",
    contract=r"""
__CPROVER_requires(3 <= nrows && nrows <= %(NMAX)s && 3 <= ncols && ncols <= %(NMAX)s)
__CPROVER_requires(1 <= GR && GR <= nrows - 2 && 1 <= GC && GC <= ncols - 2 && CELL_CALLS == 0)
__CPROVER_assigns(ADI_FR, ADI_FC, FROW_OUT, FCOL_OUT, ADI_SINK, CELL_CALLS, F_SNAP)
/* uniform diffusivity: every factor is k * 0.5 / spacing^2 of the matching axis (rows <-> spacing[0], columns <-> spacing[1]) */
__CPROVER_ensures(m_k_coef_is_scalar ==> (SAME_D(FROW_OUT[0], ADI_K * 0.5 / (ADI_SPACING[0] * ADI_SPACING[0])) && SAME_D(FROW_OUT[1], FROW_OUT[0]) && SAME_D(FROW_OUT[2], FROW_OUT[0])))
__CPROVER_ensures(m_k_coef_is_scalar ==> (SAME_D(FCOL_OUT[0], ADI_K * 0.5 / (ADI_SPACING[1] * ADI_SPACING[1])) && SAME_D(FCOL_OUT[1], FCOL_OUT[0]) && SAME_D(FCOL_OUT[2], FCOL_OUT[0])))
/* variable diffusivity: every interior cell is assembled exactly once, by the cell body, with the factors of the matching axis */
/* (the values the cell body leaves are group adi.factors.cell's postcondition; here: it ran once, with the right factors, and its result is what the tables hold at exit) */
__CPROVER_ensures(!m_k_coef_is_scalar ==> (CELL_CALLS == 1 && FOUT_IS_SNAP && SAME_D(ADI_FR, SPEC_FR) && SAME_D(ADI_FC, SPEC_FC)))
""" % dict(NMAX=NMAX),
    loops={
        0: r"""
__CPROVER_assigns(r, FROW_OUT, FCOL_OUT, ADI_SINK, CELL_CALLS, F_SNAP)
__CPROVER_loop_invariant(1 <= r && r <= nrows - 1)
__CPROVER_loop_invariant(CELL_CALLS == (r > GR ? 1 : 0))
__CPROVER_loop_invariant(r > GR ==> FOUT_IS_SNAP)
__CPROVER_decreases(nrows - r)
""",
        1: r"""
__CPROVER_assigns(c, FROW_OUT, FCOL_OUT, ADI_SINK, CELL_CALLS, F_SNAP)
__CPROVER_loop_invariant(1 <= c && c <= ncols - 1)
__CPROVER_loop_invariant(CELL_CALLS == ((r > GR || (r == GR && c > GC)) ? 1 : 0))
__CPROVER_loop_invariant((r > GR || (r == GR && c > GC)) ==> FOUT_IS_SNAP)
__CPROVER_decreases(ncols - c)
"""})

H_SF = NONDET + r"""
void h_adi_set_factors(void)
{
    size_t nrows = nondet_size_t(), ncols = nondet_size_t(); _Bool sc = nondet_bool();
    GR = nondet_size_t(); GC = nondet_size_t(); CELL_CALLS = 0;
    adi_set_factors(nrows, ncols, sc);
%s    if (0) { struct adi_shape3 s3; adi_fill3(FROW_OUT, s3, 0, 0, 0); adi_empty3(FROW_OUT, s3, 0, 0); adi_factor_cell(0, 0, 0, 0); }
}
""" % CANARY

G_SF = Group(
    name="adi.factors.tables", units=[adi_factor_cell, adi_set_factors], harness=H_SF, entry="h_adi_set_factors", enforce="adi_set_factors",
    replace=["adi_factor_cell", "adi_fill3", "adi_empty3"], loop_contracts=True, nondet_static=True,
    backend="cadical", timeout=900, min_obligations=60, deciding="replay", replay="replay/adi.cpp",
    clause="set_factors, any shape >= 3x3: with a scalar diffusivity both tables are uniform, k * 0.5 / spacing^2 with the rows table using the "
           "row spacing and the columns table the column spacing; with an array every interior cell is assembled exactly once by the cell body, "
           "called with 0.25 / spacing^2 of the matching axes; tables have shape (3, nrows, ncols)")

for _g in (G_FCELL, G_SF):
    GROUPS["C14"].append(_g)
    GROUPS["C08"].append(_g)

# ====================================================================================================
# erode: the two half steps (roles of the arguments, transposition, sizes of the system arrays, result)
# ====================================================================================================
# Arrays are symbolic descriptors (identity + "is a transposed view"); solve_adi_row is the function group adi.row.assembly proves.
# Deciding outright: these clauses are structural, no floating-point association is involved.
ERODE_PRE = r"""
struct adi_arr { int id; int t; };            /* t: 0 plain, 1 transposed (2-D) / axes (0, 2, 1) (3-D), 9 any other permutation */
struct adi_perm { size_t d[3]; };
#define ADI_ID_ELEV 1
#define ADI_ID_FROW 2
#define ADI_ID_FCOL 3
#define ADI_ID_HALF 10                        /* result of the first half step */
#define ADI_ID_FULL 11                        /* result of the second half step */
size_t ADI_NR, ADI_NC;                        /* m_nrows, m_ncols */
size_t ADI_SYS_N;                             /* current length of the tridiagonal system arrays */
int ADI_CALLS;
struct adi_arr ADI_EROSION_A, ADI_EROSION_B;  /* m_erosion = A - B */
double ADI_DT_ARG;
static inline struct adi_arr adi_T(struct adi_arr x) { struct adi_arr y = { x.id, x.t ? 0 : 1 }; return y; }
static inline struct adi_arr adi_T3(struct adi_arr x, struct adi_perm p)
{
    struct adi_arr y = { x.id, (p.d[0] == 0 && p.d[1] == 2 && p.d[2] == 1) ? (x.t ? 0 : 1) : 9 };
    return y;
}
static inline void adi_resize(size_t n) { ADI_SYS_N = n; }
#define ADI_IS(x, i, tt) ((x).id == (i) && (x).t == (tt))
/* solve_adi_row(elevation, factors_row, factors_col, nrows, ncols, dt): what each half step must be given (C14: implicit along the
 * columns axis first -- every row of the grid is one tridiagonal system --, then the transposed problem with the factor tables swapped) */
static inline struct adi_arr adi_call(struct adi_arr e, struct adi_arr fr, struct adi_arr fc, size_t nrows, size_t ncols, double dt)
{
    struct adi_arr res = { 0, 0 };
    ADI_CALLS = ADI_CALLS + 1;
    __CPROVER_assert(ADI_CALLS <= 2, "C14 exactly two half steps");
    __CPROVER_assert(dt == ADI_DT_ARG || (dt != dt && ADI_DT_ARG != ADI_DT_ARG), "C14 both half steps use the caller's time step");
    __CPROVER_assert(ADI_SYS_N == ncols, "C14 the system arrays are resized to the length of the implicit axis before each half step");
    if (ADI_CALLS == 1)
    {
        __CPROVER_assert(ADI_IS(e, ADI_ID_ELEV, 0), "C14 first half step works on the input elevation");
        __CPROVER_assert(ADI_IS(fr, ADI_ID_FROW, 0) && ADI_IS(fc, ADI_ID_FCOL, 0), "C14 first half step: explicit = row factors, implicit = column factors");
        __CPROVER_assert(nrows == ADI_NR && ncols == ADI_NC, "C14 first half step: one system per grid row, of the length of a row");
        res.id = ADI_ID_HALF;
    }
    else
    {
        __CPROVER_assert(ADI_IS(e, ADI_ID_HALF, 1), "C14 second half step works on the transposed result of the first");
        __CPROVER_assert(ADI_IS(fr, ADI_ID_FCOL, 1) && ADI_IS(fc, ADI_ID_FROW, 1), "C14 second half step: factor tables swapped and transposed (axes 0, 2, 1)");
        __CPROVER_assert(nrows == ADI_NC && ncols == ADI_NR, "C14 second half step: one system per grid column, of the length of a column");
        res.id = ADI_ID_FULL;
    }
    return res;
}
"""
ERODE_DEFS = r"""
#define elevation ((struct adi_arr) { ADI_ID_ELEV, 0 })
#define m_factors_row ((struct adi_arr) { ADI_ID_FROW, 0 })
#define m_factors_col ((struct adi_arr) { ADI_ID_FCOL, 0 })
#define m_nrows ADI_NR
#define m_ncols ADI_NC
"""
adi_erode = Unit(
    name="adi_erode", file=ADI_H,
    anchor=r"auto diffusion_adi_eroder<G, S>::erode\(const data_array_type& elevation, double dt\)\s*-> const data_array_type&",
    sig="void adi_erode(double dt)", pre=ERODE_PRE, defs=ERODE_DEFS,
    rules=[
        V(r"resize_tridiagonal\(([^()]*)\);", r"adi_resize(\1);"),
        V(r"auto (\w+)\s*=\s*solve_adi_row\(", r"struct adi_arr \1 = adi_call("),
        V(r"auto (\w+)\s*=\s*std::array<std::size_t, 3>\{([^{}]*)\};", r"struct adi_perm \1 = { {\2} };"),
        V(r"xt::transpose\(([^(),]+),([^(),]+)\)", r"adi_T3(\1,\2)"),
        V(r"xt::transpose\(([^(),]+)\)", r"adi_T(\1)"),
        R(r"auto erosion_v = xt::view\(m_erosion, xt::all\(\), xt::all\(\)\);", "", 1),
        V(r"erosion_v = ([^;-]+) - ([^;]+);", r"ADI_EROSION_A = \1; ADI_EROSION_B = \2;"),
        R(r"return m_erosion;", "return;", 1),
    ])

H_ERODE = NONDET + r"""
void h_adi_erode(void)
{
    double dt = nondet_double();
    ADI_NR = nondet_size_t(); ADI_NC = nondet_size_t(); ADI_SYS_N = nondet_size_t(); ADI_CALLS = 0; ADI_DT_ARG = dt;
    ADI_EROSION_A.id = 0; ADI_EROSION_B.id = 0;
    adi_erode(dt);
    __CPROVER_assert(ADI_CALLS == 2, "C14 exactly two half steps");
    __CPROVER_assert(ADI_IS(ADI_EROSION_A, ADI_ID_ELEV, 0) && ADI_IS(ADI_EROSION_B, ADI_ID_FULL, 1), "C14 erosion = input elevation - (second half step result, transposed back)");
%s}
""" % CANARY

G_ERODE = Group(
    name="adi.erode.halfsteps", units=[adi_erode], harness=H_ERODE, entry="h_adi_erode", backend="sat", timeout=120, min_obligations=10,
    clause="erode: exactly two half steps; the first is given the input elevation, the row factors as explicit and the column factors as implicit "
           "tables and (nrows, ncols); the second the transposed intermediate result, the swapped and transposed factor tables and (ncols, nrows); "
           "the system arrays are resized to the implicit axis length before each; the returned erosion is input minus the final elevation "
           "transposed back (xt::transpose semantics assumed)")
GROUPS["C14"].append(G_ERODE)

PROPS = {
    "C14": dict(
        level="other",
        explanation="PARTIAL claim.  C14 is an equality up to rounding with a direct solve of the two ADI line systems; no bit-precise postcondition "
                    "states that and the Thomas recurrence is nonlinear floating point over an unbounded loop.  Decided by contracts, for every "
                    "shape >= 3x3 and every value: (a) zero erosion on the four borders -- border rows are copies, a fixed-value end equation of a "
                    "tridiagonal system is solved exactly (bit-precise IEEE) whenever the adjacent result is finite; (b) WHICH systems are solved: "
                    "lower / diagonal / upper / right-hand side of every interior cell are the Peaceman-Rachford half step with face-averaged "
                    "diffusivity (right cells, factor planes, axis spacings, time step), for scalar and array diffusivity; (c) the structure of the "
                    "two half steps (roles of the arguments, transposition, system sizes, erosion = input - final).  Clauses of (b) are written in "
                    "the association the library documents and are replay-decided: a failed obligation is a VIOLATION only when the native oracle "
                    "(replay/adi.cpp, dense direct solve in long double on the real eroder) reproduces a deviation beyond rounding, otherwise exit 2.",
        undecided=["that solve_tridiagonal returns the solution of the assembled system within rounding (Thomas algorithm: nonlinear floating point, "
                   "unbounded loop) -- only its end equations and its index safety are decided",
                   "scalar vs uniform-array agreement and linearity of the map elevation -> erosion: hold only up to rounding; not stated bit-precisely "
                   "(the native oracle checks them within 1e-9 when a replay runs, which is not a proof)",
                   "finiteness of the intermediate results (the border clause is conditional on the adjacent result being finite)"],
        unmechanised=["composition of (a): first half step keeps border rows (copy) and border columns (end equations); the second, transposed, half "
                      "step keeps them again; hence final == input on the four borders and erosion = x - x = 0 for finite x",
                      "composition of (b)+(c): the assembled systems are those of the Peaceman-Rachford scheme; that Thomas' algorithm solves a "
                      "diagonally dominant tridiagonal system is textbook and not mechanised"],
        assumptions=["xtensor semantics (assumed, modelled): `t = a * view(F, p, r, all) * b` assigns element-wise; `xt::transpose` is the index "
                     "permutation; whole-array copy; `xt::ones(shape) * v` is a table of v; `view = tensor` assigns the row",
                     "reads of 2-D / 3-D tables are modelled as functions of the index tuple (ghost cells for the 3x3 stencil of one arbitrary interior "
                     "cell, arbitrary values elsewhere); the flat-index arithmetic of xtensor is not modelled, per-dimension index obligations are",
                     "by-value parameters dt, fr, fc and the never-reassigned locals dx, dy are modelled as globals / textual aliases of their "
                     "initialisers (needed so that cbmc shares the floating-point circuits of code and specification)",
                     "axis length <= 2^30 (static_cast<int>(n) in solve_tridiagonal)"],
    ),
}
