"""basin_graph<FG>::compute_tree_boruvka (flow/basin_graph.hpp:460-702) and its helpers check_capacity / increase_perf_boruvka.
Properties C15 (Boruvka tree), C08 (memory safety of the set-up phase and of the main-loop steps); notes for C09 (the degree lists are
not cleared at entry) in C09_NOTES / C09_RELEVANT_GROUPS (not registered).

1. SET-UP PHASE (everything before `while (m_low_degrees.size())`), UNBOUNDED.  The text of the function is cut at fixed
   statements into six consecutive slices P0..P5; every slice is extracted from /repo on each run and is proved against its own
   contract {S(k-1)} Pk {S(k)} (sequencing rule: the state clauses one slice requires are clauses an earlier slice ensures and no slice in
   between assigns an object they mention; checked textually at import by _check_sequencing).  Each loop body is outlined as its own unit;
   loops are closed by loop contracts over ghost indices (ghost basin GBV, ghost edge GE, ghost list slot GSL, ghost list slots GLS..).
   Counting statements ("size = number of incident edges", "begin = prefix sum") are stated against harness-owned ghost witness
   tables defined by their recurrences (DESIGN 3.5).
       P0  resets of m_adjacency / m_edge_bucket, copy of the edge end points into m_link_basins      (lines 463-482)
       P1  first pass on edges: degrees                                                                 (485-489)
       P2  adjacency pointers = prefix sums, sizes reset, m_adjacency_list resized                      (492-500)
       P3  next pointers                                                                                (502-503)
       P4  second pass on edges: every edge id into the rows of both end points                         (506-517)
       P5  degree lists, perf counter, tree reset                                                       (519-534)
2. LOCAL STEP LEMMAS OF THE MAIN LOOP, UNBOUNDED, each its own group (boruvka.main.*): scan step, selection + append, rename step,
   collapse, re-queueing after the clean-up.  They assume the row invariant at the slot read; the main loop as a whole is NOT proved.
3. BOUNDED end-to-end groups (boruvka.bounded.*): the whole extracted function against an oracle written from the property and against the
   extracted compute_tree_kruskal, on ALL basin graphs within the stated bound; never counted as proof.
Native driver: replay/boruvka.cpp (real headers; random graphs incl. degree > 16, reused objects; BORUVKA_MODE=extreme|stale|dense witnesses).
"""
import os
import re

from fv import extract as ex
from fv.extract import Unit, R, V, RB, ALIAS
from fv.runner import Group
from spec import basin as B

BG_H = B.BG_H
MODEL_H = B.MODEL_H
BV_MODEL_H = "models/boruvka_model.h"
ANCHOR = r"void basin_graph<FG>::compute_tree_boruvka\(\)"

IDX1 = r"((?:[^\[\]]|\[[^\[\]]*\])+)"                       # index expression with one level of nested brackets
IDX2 = r"((?:[^\[\]]|\[(?:[^\[\]]|\[[^\[\]]*\])*\])+)"      # ... two levels


def _max_low_degree():
    """in-class initialiser of m_max_low_degree, read from the class on every run"""
    src = ex.strip_comments(open(os.path.join(ex.REPO, BG_H)).read())
    m = re.findall(r"size_type m_max_low_degree = (\d+);", src)
    if len(m) != 1:
        raise ex.ExtractionError("boruvka: in-class initialiser of m_max_low_degree not found")
    return int(m[0])


# --------------------------------------------------------------------------- vocabulary of the basin_graph object (Boruvka members)
def _vec(name):
    return [
        V(r"\b%s\.reserve\(([^;]*)\);" % name, r"FSL_RESERVE(\1);"),
        V(r"\b%s\.clear\(\)" % name, "%s_n = 0" % name),
        V(r"\b%s\.size\(\)" % name, "%s_n" % name),
        V(r"\b%s\.push_back\(([^()]+)\)" % name, r"FSL_VSZ_PUSH(%s, %s_n, %s_cap, \1)" % (name, name, name)),
    ]


BV_VOCAB = [
    ALIAS(r"m_link_basins\[\w+\]"),
    V(r"\bconst auto nbasins\b", "const size_t nbasins"),
    V(r"basins_count\(\)", "nbasins_"),
    # helpers (extracted as units bv_check_capacity / bv_increase_perf)
    V(r"\bcheck_capacity\((\w+)\)", r"bv_check_capacity(\1_n, \1_cap)"),
    V(r"\bincrease_perf_boruvka\(\)", "bv_increase_perf()"),
    # resize with a fill value / plain resize
    V(r"\bm_adjacency\.resize\(([^,()]+),\s*\{([^{}]*)\}\)", r"fsl_bv_adj_resize(m_adjacency, &m_adjacency_n, m_adjacency_cap, \1, (struct fsl_connect){\2})"),
    V(r"\bm_edge_bucket\.resize\(([^,()]+),\s*([^,()]+)\)", r"fsl_bv_sz_resize(m_edge_bucket, &m_edge_bucket_n, m_edge_bucket_cap, \1, \2)"),
    V(r"\b(m_link_basins|m_adjacency_list|m_large_degrees)\.resize\(([^;]+)\);", r"FSL_BV_RESIZE(\1_n, \1_cap, \2);"),
    V(r"\bm_adjacency\.back\(\)", "m_adjacency[FSL_IDX1(m_adjacency_n - 1, m_adjacency_n)]"),
] + _vec("m_adjacency") + _vec("m_adjacency_list") + _vec("m_link_basins") + _vec("m_low_degrees") + _vec("m_large_degrees") \
  + _vec("m_edge_bucket") + _vec("m_edge_in_bucket") + _vec("m_tree") + [
    V(r"m_edges\.size\(\)", "m_edges_n"),
    # element access: every index carries its range obligation (std::vector::operator[] never checks)
    V(r"\bm_adjacency_list\[" + IDX2 + r"\]", r"m_adjacency_list[FSL_IDX1(\1, m_adjacency_list_n)]"),
    V(r"\bm_adjacency\[" + IDX1 + r"\]", r"m_adjacency[FSL_IDX1(\1, m_adjacency_n)]"),
    V(r"\bm_link_basins\[(\w+)\]", r"m_link_basins[FSL_IDX1(\1, m_link_basins_n)]"),
    V(r"\bm_edges\[(\w+)\]", r"m_edges[FSL_IDX1(\1, m_edges_n)]"),
    V(r"\bm_edge_bucket\[(\w+)\]", r"m_edge_bucket[FSL_IDX1(\1, m_edge_bucket_n)]"),
    V(r"\bm_large_degrees\[(\w+)\+\+\]", r"m_large_degrees[FSL_IDX1(\1++, m_large_degrees_n)]"),
    V(r"\bm_large_degrees\[(\w+)\]", r"m_large_degrees[FSL_IDX1(\1, m_large_degrees_n)]"),
    V(r"\bm_low_degrees\[(\w+)\]", r"m_low_degrees[FSL_IDX1(\1, m_low_degrees_n)]"),
]
CONTINUE = V(r"\bcontinue;", "return; /* `continue` of the outlined loop body */")

# helpers ------------------------------------------------------------------------------------------------------------------
bv_check_capacity = Unit(
    name="bv_check_capacity", file=BG_H, anchor=r"inline void check_capacity\(std::vector<T> vec\) const",
    sig="static inline void bv_check_capacity(size_t vec_n, size_t vec_cap)",
    rules=[V(r"\(\(void\) \(vec\)\);", "/* unused-parameter marker */"), V(r"vec\.size\(\)", "vec_n"), V(r"vec\.capacity\(\)", "vec_cap")],
)
bv_increase_perf = Unit(
    name="bv_increase_perf", file=BG_H, anchor=r"inline void increase_perf_boruvka\(\)",
    sig="static inline void bv_increase_perf(void)",
)
HELPERS = [bv_check_capacity, bv_increase_perf]


# --------------------------------------------------------------------------- slicing of the set-up phase
def _blank(m):
    return "\n" * m.group(0).count("\n")   # keep line numbers (#line) valid


MARK = [
    None,
    r"for \(size_t lid = 0; lid < m_edges\.size\(\); \+\+lid\)\s*\{\s*\+\+m_adjacency",   # first pass on edges
    r"m_adjacency\[0\]\.begin = 0;",                                                        # adjacency pointers
    r"for \(size_t adj_data_i = 0;",                                                        # next pointers
    r"for \(size_t lid = 0; lid < m_edges\.size\(\); \+\+lid\)\s*\{\s*auto& basins",       # second pass on edges
    r"for \(size_t nid = 0; nid < nbasins; \+\+nid\)",                                      # degree lists
    r"while \(m_low_degrees\.size\(\)\)",                                                   # main loop
]


def slice_rules(k):
    """structural rules that keep slice k of the body: from marker k (or the start) up to marker k+1"""
    rs = []
    if MARK[k]:
        rs.append(R(r"\A.*?(?=%s)" % MARK[k], _blank, 1, re.S))
    rs.append(R(r"%s.*\Z" % MARK[k + 1], _blank, 1, re.S))
    return rs


LOCALS = "    const size_t nbasins = nbasins_; /* local of the enclosing function (line 463: basins_count()) */\n"
NMAX = "FSL_BASIN_NMAX"

# --------------------------------------------------------------------------- ghost witness tables and state predicates
PRE_DEFS = r"""
#ifndef BV_DEFS
#define BV_DEFS
/* ghost witness tables (harness-owned, read-only; every clause below is the DEFINITION of the table, instantiated where read):
 *   CNTG[k]      number of end points equal to the ghost basin GBV among the first k edges:  CNTG[0] = 0, CNTG[k+1] = CNTG[k] + INC(k)
 *   GBI[b].deg   number of edge end points equal to b (degree, an edge counts once per end point); GBI[GBV].deg = CNTG[#edges]
 *   GBI[b].ps    prefix sum of the degrees: ps[0] = 0, ps[b+1] = ps[b] + deg[b]
 *   GEI[e].rank[j]  number of end points equal to link[j] of e among the edges before e  (position of e in the row of that basin)
 *   GEI[e].slot[j]  = ps[link[j] of e] + rank[j]   (slot of m_adjacency_list that receives e for its j-th end point) */
struct bv_gbasin { size_t deg; size_t ps; };
struct bv_gedge { size_t rank[2]; size_t slot[2]; };
size_t CNTG_n; /* length of CNTG = #edges + 1 */
size_t GLSb, GLS2b; /* second ghost slots of m_low_degrees / m_large_degrees */
#define LB(e, j) (m_link_basins[(e)][(j)])
#define L0(e) (m_edges[(e)].link[0])
#define L1(e) (m_edges[(e)].link[1])
#define INC(k) (((LB(k, 0) == GBV) ? 1 : 0) + ((LB(k, 1) == GBV) ? 1 : 0))
#define DEG(b) (GBI[(b)].deg)
#define PS(b) (GBI[(b)].ps)
#define BV_TOT (PS(nbasins_ - 1) + DEG(nbasins_ - 1))
#define ADJ(b) (m_adjacency[(b)])
#define LST(s) (m_adjacency_list[(s)])
#endif
"""

# state predicates between the slices, as lists of clauses over the ghost indices (GBV < nbasins_, GE < m_edges_n, GSL)
S_LBN = "m_link_basins_n == m_edges_n"
S_LB = "GE < m_edges_n ==> (LB(GE, 0) == L0(GE) && LB(GE, 1) == L1(GE))"
S_BUCKET = "m_edge_bucket_n == nbasins_ && m_edge_bucket[GBV] == SIZE_MAX"
S0 = ["m_adjacency_n == nbasins_ && ADJ(GBV).begin == 0 && ADJ(GBV).size == 0", S_BUCKET, S_LBN, S_LB]
S1 = ["m_adjacency_n == nbasins_ && ADJ(GBV).begin == 0 && ADJ(GBV).size == DEG(GBV)"]
S2 = ["m_adjacency_n == nbasins_ && ADJ(GBV).begin == PS(GBV) && ADJ(GBV).size == 0", "m_adjacency_list_n == BV_TOT"]
S3 = ["m_adjacency_list_n == BV_TOT && (GSL < m_adjacency_list_n ==> LST(GSL).next == GSL + 1)"]
S4 = ["m_adjacency_n == nbasins_ && ADJ(GBV).begin == PS(GBV) && ADJ(GBV).size == DEG(GBV)",
      "m_adjacency_list_n == BV_TOT && (GSL < m_adjacency_list_n ==> LST(GSL).next == GSL + 1)",
      "GE < m_edges_n ==> (LST(GEI[GE].slot[0]).link_id == GE && LST(GEI[GE].slot[1]).link_id == GE)"]


def req(cl):
    return "".join("__CPROVER_requires(%s)\n" % c for c in cl)


def ens(cl):
    return "".join("__CPROVER_ensures(%s)\n" % c for c in cl)


def conj(cl):
    return "(" + " && ".join("(%s)" % c for c in cl) + ")"


# shapes (one is_fresh per buffer a slice touches; ghost capacities as in models/basin.h)
def fresh(ptr, cap, elem, lo="1"):
    return "__CPROVER_requires(%s <= %s && %s <= %s && __CPROVER_is_fresh(%s, %s * sizeof(%s)))\n" % (lo, cap, cap, NMAX, ptr, cap, elem)


SH_EDGES = fresh("m_edges", "m_edges_cap", "struct fsl_edge") + "__CPROVER_requires(m_edges_n <= m_edges_cap)\n"
SH_LB = fresh("m_link_basins", "m_link_basins_cap", "size_t[2]")
SH_ADJ = fresh("m_adjacency", "m_adjacency_cap", "struct fsl_connect")
SH_LST = fresh("m_adjacency_list", "m_adjacency_list_cap", "struct fsl_edgeparse")
SH_BUCKET = fresh("m_edge_bucket", "m_edge_bucket_cap", "size_t")
SH_GBI = "__CPROVER_requires(__CPROVER_is_fresh(GBI, nbasins_ * sizeof(struct bv_gbasin)))\n"
SH_GEI = "__CPROVER_requires(1 <= m_edges_cap && m_edges_cap <= %s && m_edges_n <= m_edges_cap && __CPROVER_is_fresh(GEI, m_edges_cap * sizeof(struct bv_gedge)))\n" % NMAX
SH_CNTG = "__CPROVER_requires(m_edges_n <= %s && CNTG_n == m_edges_n + 1 && __CPROVER_is_fresh(CNTG, CNTG_n * sizeof(size_t)))\n" % NMAX
SH_NB = "__CPROVER_requires(1 <= nbasins_ && nbasins_ <= %s && GBV < nbasins_)\n" % NMAX

GLOBALS = ["m_edges_n", "m_edges_cap", "m_tree_n", "m_tree_cap", "m_adjacency_n", "m_adjacency_cap", "m_adjacency_list_n", "m_adjacency_list_cap",
           "m_link_basins_n", "m_link_basins_cap", "m_low_degrees_n", "m_low_degrees_cap", "m_large_degrees_n", "m_large_degrees_cap",
           "m_edge_bucket_n", "m_edge_bucket_cap", "m_edge_in_bucket_n", "m_edge_in_bucket_cap", "m_perf_boruvka", "m_max_low_degree",
           "GBV", "GE", "GSL", "GLS", "GLS2", "GLSb", "GLS2b", "GB_LIST", "GB_SLOT", "CNTG_n"]
DECLS = {
    "m_edges": "struct fsl_edge *m_edges", "m_tree": "size_t *m_tree", "m_adjacency": "struct fsl_connect *m_adjacency",
    "m_adjacency_list": "struct fsl_edgeparse *m_adjacency_list", "m_link_basins": "size_t (*m_link_basins)[2]",
    "m_low_degrees": "size_t *m_low_degrees", "m_large_degrees": "size_t *m_large_degrees", "m_edge_bucket": "size_t *m_edge_bucket",
    "m_edge_in_bucket": "size_t *m_edge_in_bucket", "CNTG": "size_t *CNTG", "GBI": "struct bv_gbasin *GBI", "GEI": "struct bv_gedge *GEI",
}


def params(names, const=()):
    out = []
    for n in names:
        d = DECLS[n]
        if n in const:
            d = "const " + d
        out.append(d)
    return ", ".join(out)


def harness(fn, ptrs, call, keep=""):
    """arbitrary pre-state: every length / capacity / ghost index is nondeterministic, every buffer is whatever is_fresh allocates"""
    return r"""
size_t nondet_size_t(void); _Bool nondet_bool(void); double nondet_double(void);
void h_%(fn)s(void)
{
    size_t nbasins_ = nondet_size_t();
%(decl)s
%(glob)s
    %(call)s;
    __CPROVER_assert(0, "canary: postcondition point reachable");
%(keep)s}
""" % dict(fn=fn, decl="".join("    %s;\n" % DECLS[p] for p in ptrs), glob="".join("    %s = nondet_size_t();\n" % g for g in GLOBALS), call=call,
           keep=("    { _Bool never_ = nondet_bool(); __CPROVER_assume(!never_); if (never_) { %s } } /* keep-alive of replaced callees, unreachable */\n" % keep) if keep else "")


def args(names):
    return ", ".join(names)


# =========================================================================== P0: resets + copy of the link basins
P0_PTRS = ["m_edges", "m_adjacency", "m_edge_bucket", "m_link_basins"]
bv_copy_step = Unit(
    name="bv_copy_step", file=BG_H, anchor=ANCHOR, inner=r"for \(size_t i = 0; i < m_link_basins\.size\(\); \+\+i\)\s*\{",
    sig="void bv_copy_step(%s, size_t i)" % params(["m_edges", "m_link_basins"], const=["m_edges"]),
    pre=PRE_DEFS, rules=BV_VOCAB,
    contract=SH_EDGES + SH_LB + r"""
__CPROVER_requires(m_link_basins_n <= m_link_basins_cap && m_link_basins_n == m_edges_n && i < m_link_basins_n && GE < m_link_basins_cap)
__CPROVER_assigns(__CPROVER_object_whole(m_link_basins))
/* the working copy of edge i holds its two end points; other entries are untouched */
__CPROVER_ensures(LB(i, 0) == L0(i) && LB(i, 1) == L1(i))
__CPROVER_ensures(i != GE ==> (LB(GE, 0) == __CPROVER_old(LB(GE, 0)) && LB(GE, 1) == __CPROVER_old(LB(GE, 1))))
""")

bv_p0 = Unit(
    name="bv_p0", file=BG_H, anchor=ANCHOR,
    sig="void bv_p0(size_t nbasins_, %s)" % params(P0_PTRS, const=["m_edges"]),
    rules=slice_rules(0) + [RB(r"for \(size_t i = 0; i < m_link_basins\.size\(\); \+\+i\)", "{ bv_copy_step(m_edges, m_link_basins, i); }")] + BV_VOCAB,
    contract=SH_NB + SH_EDGES + SH_LB + SH_ADJ + SH_BUCKET + r"""
/* ghost capacities large enough for this call (reallocation is not modelled) */
__CPROVER_requires(nbasins_ <= m_adjacency_cap && nbasins_ <= m_edge_bucket_cap && m_edges_n <= m_link_basins_cap && GE < m_link_basins_cap)
__CPROVER_requires(m_adjacency_n <= m_adjacency_cap && m_edge_bucket_n <= m_edge_bucket_cap && m_link_basins_n <= m_link_basins_cap)
/* NOTHING else is required of m_adjacency / m_edge_bucket / m_link_basins (C09: arbitrary contents and lengths from earlier calls) */
__CPROVER_assigns(m_adjacency_n, m_edge_bucket_n, m_link_basins_n, __CPROVER_object_whole(m_adjacency), __CPROVER_object_whole(m_edge_bucket),
                  __CPROVER_object_whole(m_link_basins))
""" + ens(S0),
    loops={0: r"""
__CPROVER_assigns(i, __CPROVER_object_whole(m_link_basins))
__CPROVER_loop_invariant(i <= m_link_basins_n && m_link_basins_n == m_edges_n)
__CPROVER_loop_invariant((GE < i && GE < m_edges_n) ==> (LB(GE, 0) == L0(GE) && LB(GE, 1) == L1(GE)))
__CPROVER_decreases(m_link_basins_n - i)
"""})

G_COPY_STEP = Group(
    name="boruvka.setup.copy.step", units=[bv_copy_step], extra_c=[MODEL_H, BV_MODEL_H],
    harness=harness("bv_copy_step", ["m_edges", "m_link_basins"], "bv_copy_step(m_edges, m_link_basins, nondet_size_t())"),
    entry="h_bv_copy_step", enforce="bv_copy_step", backend="sat", timeout=300, min_obligations=10,
    clause="compute_tree_boruvka, body of the loop that copies the edge end points into m_link_basins: entry i receives link[0], link[1] of edge i, "
           "other entries untouched, indices in range")
G_P0 = Group(
    name="boruvka.setup.p0.resets", units=[bv_copy_step, bv_p0], extra_c=[MODEL_H, BV_MODEL_H],
    harness=harness("bv_p0", P0_PTRS, "bv_p0(nbasins_, %s)" % args(P0_PTRS),
                    keep="bv_copy_step(m_edges, m_link_basins, 0); struct fsl_connect z_; fsl_bv_adj_resize(m_adjacency, &m_adjacency_n, 0, 0, z_); fsl_bv_sz_resize(m_edge_bucket, &m_edge_bucket_n, 0, 0, 0);"),
    entry="h_bv_p0", enforce="bv_p0", replace=["bv_copy_step", "fsl_bv_adj_resize", "fsl_bv_sz_resize"], loop_contracts=True,
    backend="sat", timeout=600, min_obligations=10,
    clause="compute_tree_boruvka, slice P0 (lines up to the first pass on edges) on ARBITRARY pre-state of m_adjacency / m_edge_bucket / m_link_basins "
           "(per-call reset, C09): afterwards m_adjacency has basins_count() entries {0, 0}, m_edge_bucket has basins_count() entries -1, "
           "m_link_basins is a copy of the edge end points")

# =========================================================================== P1: first pass on edges (degrees)
# definition of the ghost tables, instantiated at the indices read (DESIGN 3.2 / 3.5)
DEF_CNTG0 = "CNTG[0] == 0"
DEF_DEG_G = "DEG(GBV) == CNTG[m_edges_n]"           # the degree table agrees with the count at the ghost basin
LB_WF = "LB(%s, 0) < nbasins_ && LB(%s, 1) < nbasins_ && LB(%s, 0) != LB(%s, 1)"   # end points are two different basin ids

P1_PTRS = ["m_adjacency", "m_link_basins", "CNTG", "GBI"]
P1_CONST = ["m_link_basins", "CNTG", "GBI"]
bv_count_step = Unit(
    name="bv_count_step", file=BG_H, anchor=ANCHOR,
    inner=r"for \(size_t lid = 0; lid < m_edges\.size\(\); \+\+lid\)\s*\{(?=\s*\+\+m_adjacency)",
    sig="void bv_count_step(size_t nbasins_, %s, size_t lid)" % params(["m_adjacency", "m_link_basins"], const=["m_link_basins"]),
    pre=PRE_DEFS, rules=BV_VOCAB,
    contract=SH_NB + SH_ADJ + SH_LB + r"""
__CPROVER_requires(m_adjacency_n == nbasins_ && nbasins_ <= m_adjacency_cap && m_link_basins_n <= m_link_basins_cap && lid < m_link_basins_n)
/* input well-formedness of the edge read: its end points are basin ids */
__CPROVER_requires(LB(lid, 0) < nbasins_ && LB(lid, 1) < nbasins_)
__CPROVER_assigns(__CPROVER_object_whole(m_adjacency))
/* the size of an arbitrary basin grows by the number of end points of edge lid that are this basin; begin pointers untouched */
__CPROVER_ensures(ADJ(GBV).size == __CPROVER_old(ADJ(GBV).size) + INC(lid) && ADJ(GBV).begin == __CPROVER_old(ADJ(GBV).begin))
""")

bv_p1 = Unit(
    name="bv_p1", file=BG_H, anchor=ANCHOR,
    sig="void bv_p1(size_t nbasins_, %s)" % params(P1_PTRS, const=P1_CONST),
    rules=slice_rules(1) + [RB(r"for \(size_t lid = 0; lid < m_edges\.size\(\); \+\+lid\)",
                               "{ FSL_PRE(%s); FSL_PRE(CNTG[lid + 1] == CNTG[lid] + INC(lid)); bv_count_step(nbasins_, m_adjacency, m_link_basins, lid); }"
                               % (LB_WF % ("lid", "lid", "lid", "lid")))] + BV_VOCAB,
    contract=SH_NB + SH_ADJ + SH_LB + SH_CNTG + SH_GBI + r"""
__CPROVER_requires(nbasins_ <= m_adjacency_cap && m_link_basins_n <= m_link_basins_cap)
""" + req([S0[0], S_LBN, DEF_CNTG0, DEF_DEG_G]) + r"""
__CPROVER_assigns(__CPROVER_object_whole(m_adjacency))
""" + ens(S1),
    loops={0: r"""
__CPROVER_assigns(lid, __CPROVER_object_whole(m_adjacency))
__CPROVER_loop_invariant(lid <= m_edges_n && m_adjacency_n == nbasins_ && ADJ(GBV).begin == 0 && ADJ(GBV).size == CNTG[lid])
__CPROVER_decreases(m_edges_n - lid)
"""})

G_COUNT_STEP = Group(
    name="boruvka.setup.count.step", units=[bv_count_step], extra_c=[MODEL_H, BV_MODEL_H],
    harness=harness("bv_count_step", ["m_adjacency", "m_link_basins"], "bv_count_step(nbasins_, m_adjacency, m_link_basins, nondet_size_t())"),
    entry="h_bv_count_step", enforce="bv_count_step", backend="sat", timeout=300, min_obligations=10,
    clause="compute_tree_boruvka, body of the first pass on edges: the size of an arbitrary basin grows by the number of end points of the edge that "
           "are this basin (0, 1 or 2), begin pointers untouched, indices in range")
G_P1 = Group(
    name="boruvka.setup.p1.degrees", units=[bv_count_step, bv_p1], extra_c=[MODEL_H, BV_MODEL_H],
    harness=harness("bv_p1", P1_PTRS, "bv_p1(nbasins_, %s)" % args(P1_PTRS), keep="bv_count_step(nbasins_, m_adjacency, m_link_basins, 0);"),
    entry="h_bv_p1", enforce="bv_p1", replace=["bv_count_step"], loop_contracts=True, backend="sat", timeout=600, min_obligations=10,
    clause="compute_tree_boruvka, slice P1 (first pass on edges), any number of edges: afterwards the size of an arbitrary basin equals the number "
           "of edge end points equal to it (ghost count table CNTG defined by its recurrence)")

# =========================================================================== P2: adjacency pointers (prefix sums)
DEF_PS0 = "PS(0) == 0"
P2_PTRS = ["m_adjacency", "GBI"]
bv_prefix_step = Unit(
    name="bv_prefix_step", file=BG_H, anchor=ANCHOR, inner=r"for \(size_t nid = 1; nid < nbasins; \+\+nid\)\s*\{",
    sig="void bv_prefix_step(size_t nbasins_, %s, size_t nid)" % params(P2_PTRS, const=["GBI"]),
    pre=PRE_DEFS, rules=BV_VOCAB, body_prefix=LOCALS,
    contract=SH_NB + SH_ADJ + SH_GBI + r"""
__CPROVER_requires(m_adjacency_n == nbasins_ && nbasins_ <= m_adjacency_cap && 1 <= nid && nid < nbasins_)
/* the previous basin's row start and degree (loop invariant / instance of the degree invariant) and the definition of the prefix sum */
__CPROVER_requires(ADJ(nid - 1).begin == PS(nid - 1) && ADJ(nid - 1).size == DEG(nid - 1) && PS(nid) == PS(nid - 1) + DEG(nid - 1))
__CPROVER_assigns(__CPROVER_object_whole(m_adjacency))
__CPROVER_ensures(ADJ(nid).begin == PS(nid) && ADJ(nid - 1).size == 0)
__CPROVER_ensures(GBV != nid ==> ADJ(GBV).begin == __CPROVER_old(ADJ(GBV).begin))
__CPROVER_ensures(GBV != nid - 1 ==> ADJ(GBV).size == __CPROVER_old(ADJ(GBV).size))
""")

IH_DEG = "ADJ(%s).size == DEG(%s)"   # instance of the invariant `sizes not yet zeroed equal the degree` (proved at the ghost basin)
bv_p2 = Unit(
    name="bv_p2", file=BG_H, anchor=ANCHOR,
    sig="void bv_p2(size_t nbasins_, %s)" % params(P2_PTRS, const=["GBI"]), body_prefix=LOCALS,
    rules=slice_rules(2) + [
        RB(r"for \(size_t nid = 1; nid < nbasins; \+\+nid\)",
           "{ FSL_PRE(%s); FSL_PRE(PS(nid) == PS(nid - 1) + DEG(nid - 1)); bv_prefix_step(nbasins_, m_adjacency, GBI, nid); }" % (IH_DEG % ("nid - 1", "nid - 1"))),
        R(r"(?=m_adjacency_list\.resize\()", "FSL_PRE(%s); " % (IH_DEG % ("nbasins_ - 1", "nbasins_ - 1")), 1)] + BV_VOCAB,
    contract=SH_NB + SH_ADJ + SH_GBI + r"""
__CPROVER_requires(nbasins_ <= m_adjacency_cap && m_adjacency_list_n <= m_adjacency_list_cap)
/* ghost capacity of m_adjacency_list large enough for this call; total bounded so that the sums do not wrap */
__CPROVER_requires(BV_TOT <= m_adjacency_list_cap)
""" + req([S1[0], DEF_PS0]) + r"""
__CPROVER_assigns(m_adjacency_list_n, __CPROVER_object_whole(m_adjacency))
""" + ens(S2),
    loops={0: r"""
__CPROVER_assigns(nid, __CPROVER_object_whole(m_adjacency))
__CPROVER_loop_invariant(1 <= nid && nid <= nbasins_ && m_adjacency_n == nbasins_)
__CPROVER_loop_invariant(ADJ(nid - 1).begin == PS(nid - 1))
__CPROVER_loop_invariant(GBV < nid ==> ADJ(GBV).begin == PS(GBV))
__CPROVER_loop_invariant(GBV + 1 < nid ? ADJ(GBV).size == 0 : ADJ(GBV).size == DEG(GBV))
__CPROVER_decreases(nbasins_ - nid)
"""})

G_PREFIX_STEP = Group(
    name="boruvka.setup.prefix.step", units=[bv_prefix_step], extra_c=[MODEL_H, BV_MODEL_H],
    harness=harness("bv_prefix_step", P2_PTRS, "bv_prefix_step(nbasins_, m_adjacency, GBI, nondet_size_t())"),
    entry="h_bv_prefix_step", enforce="bv_prefix_step", backend="sat", timeout=300, min_obligations=10,
    clause="compute_tree_boruvka, body of the adjacency-pointer loop: begin[nid] = begin[nid-1] + size[nid-1] (= next prefix sum), size[nid-1] reset "
           "to 0, every other cell untouched, indices in range")
G_P2 = Group(
    name="boruvka.setup.p2.begin", units=[bv_prefix_step, bv_p2], extra_c=[MODEL_H, BV_MODEL_H],
    harness=harness("bv_p2", P2_PTRS, "bv_p2(nbasins_, %s)" % args(P2_PTRS), keep="bv_prefix_step(nbasins_, m_adjacency, GBI, 0);"),
    entry="h_bv_p2", enforce="bv_p2", replace=["bv_prefix_step"], loop_contracts=True, backend="sat", timeout=600, min_obligations=10,
    clause="compute_tree_boruvka, slice P2 (adjacency pointers), any number of basins: begin of an arbitrary basin = prefix sum of the degrees of the "
           "basins before it, all sizes reset to 0, m_adjacency_list resized to the sum of all degrees; m_adjacency.back() in range (needs basins_count() >= 1)")

# =========================================================================== P3: next pointers
bv_p3 = Unit(
    name="bv_p3", file=BG_H, anchor=ANCHOR,
    sig="void bv_p3(%s)" % params(["m_adjacency_list"]), pre=PRE_DEFS,
    rules=slice_rules(3) + BV_VOCAB,
    contract=SH_LST + r"""
__CPROVER_requires(m_adjacency_list_n <= m_adjacency_list_cap && GSL < m_adjacency_list_cap)
__CPROVER_assigns(__CPROVER_object_whole(m_adjacency_list))
__CPROVER_ensures(m_adjacency_list_n == __CPROVER_old(m_adjacency_list_n))
__CPROVER_ensures(GSL < m_adjacency_list_n ==> LST(GSL).next == GSL + 1)
""",
    loops={0: r"""
__CPROVER_assigns(adj_data_i, __CPROVER_object_whole(m_adjacency_list))
__CPROVER_loop_invariant(adj_data_i <= m_adjacency_list_n)
__CPROVER_loop_invariant(GSL < adj_data_i ==> LST(GSL).next == GSL + 1)
__CPROVER_decreases(m_adjacency_list_n - adj_data_i)
"""})
G_P3 = Group(
    name="boruvka.setup.p3.next", units=[bv_p3], extra_c=[MODEL_H, BV_MODEL_H],
    harness=harness("bv_p3", ["m_adjacency_list"], "bv_p3(m_adjacency_list)"),
    entry="h_bv_p3", enforce="bv_p3", loop_contracts=True, backend="sat", timeout=600, min_obligations=10,
    clause="compute_tree_boruvka, slice P3 (next pointers), any list length: every slot of m_adjacency_list points to the following slot; indices in range")

# =========================================================================== P4: second pass on edges (fill the rows)
def SLOT(e, j):
    return "GEI[%s].slot[%d]" % (e, j)


# definition of the per-edge ghost table at edge e (slot = row start of the end point + rank of the edge in that row; inside the list)
def GEI_DEF(e):
    return " && ".join("%s == PS(LB(%s, %d)) + GEI[%s].rank[%d] && %s < m_adjacency_list_n" % (SLOT(e, j), e, j, e, j, SLOT(e, j)) for j in (0, 1))


# IH instance (DESIGN 3.9) of the loop invariant `begin == PS, size == number of end points among the edges already placed` at the two end points
def IH_ROW(e):
    return " && ".join("ADJ(LB(%s, %d)).begin == PS(LB(%s, %d)) && ADJ(LB(%s, %d)).size == GEI[%s].rank[%d]" % (e, j, e, j, e, j, e, j) for j in (0, 1))


# the slots of two different edges are different (rows of different basins are disjoint, ranks inside a row are distinct): ghost-table lemma
def SLOTS_DISTINCT(a, b):
    return " && ".join("%s != %s" % (SLOT(a, i), SLOT(b, j)) for i in (0, 1) for j in (0, 1))


GEI_GE_RANGE = "GE < m_edges_cap && %s < m_adjacency_list_cap && %s < m_adjacency_list_cap" % (SLOT("GE", 0), SLOT("GE", 1))
P4_PTRS = ["m_adjacency", "m_adjacency_list", "m_link_basins", "GBI", "GEI", "CNTG"]
P4S_PTRS = ["m_adjacency", "m_adjacency_list", "m_link_basins", "GBI", "GEI"]
P4_CONST = ["m_link_basins", "GBI", "GEI", "CNTG"]
SH_P4 = SH_NB + SH_ADJ + SH_LST + SH_LB + SH_GBI + SH_GEI + r"""
__CPROVER_requires(m_adjacency_n == nbasins_ && nbasins_ <= m_adjacency_cap && m_adjacency_list_n <= m_adjacency_list_cap
                   && m_link_basins_n == m_edges_n && m_link_basins_n <= m_link_basins_cap && GSL < m_adjacency_list_cap)
__CPROVER_requires(""" + GEI_GE_RANGE + ")\n"

bv_fill_step = Unit(
    name="bv_fill_step", file=BG_H, anchor=ANCHOR,
    inner=r"for \(size_t lid = 0; lid < m_edges\.size\(\); \+\+lid\)\s*\{(?=\s*auto& basins)",
    sig="void bv_fill_step(size_t nbasins_, %s, size_t lid)" % params(P4S_PTRS, const=P4_CONST),
    pre=PRE_DEFS, rules=BV_VOCAB,
    contract=SH_P4 + r"""
__CPROVER_requires(lid < m_edges_n)
__CPROVER_requires(""" + LB_WF % ("lid", "lid", "lid", "lid") + r""")
__CPROVER_requires(""" + IH_ROW("lid") + r""")
__CPROVER_requires(""" + GEI_DEF("lid") + r""")
__CPROVER_requires((GE < m_edges_n && GE != lid) ==> (""" + SLOTS_DISTINCT("GE", "lid") + r"""))
__CPROVER_assigns(__CPROVER_object_whole(m_adjacency), __CPROVER_object_whole(m_adjacency_list))
/* the edge id lands in the slot of each of its two end points; slots of other edges and all next pointers are untouched */
__CPROVER_ensures(LST(""" + SLOT("lid", 0) + r""").link_id == lid && LST(""" + SLOT("lid", 1) + r""").link_id == lid)
__CPROVER_ensures((GE < m_edges_n && GE != lid) ==> (LST(""" + SLOT("GE", 0) + r""").link_id == __CPROVER_old(LST(""" + SLOT("GE", 0) + r""").link_id)
                   && LST(""" + SLOT("GE", 1) + r""").link_id == __CPROVER_old(LST(""" + SLOT("GE", 1) + r""").link_id)))
__CPROVER_ensures(LST(GSL).next == __CPROVER_old(LST(GSL).next) && m_adjacency_list_n == __CPROVER_old(m_adjacency_list_n))
/* sizes count the end points placed so far */
__CPROVER_ensures(ADJ(GBV).size == __CPROVER_old(ADJ(GBV).size) + INC(lid) && ADJ(GBV).begin == __CPROVER_old(ADJ(GBV).begin))
""")

P4_CALL = ("{ FSL_PRE(%s); FSL_PRE(CNTG[lid + 1] == CNTG[lid] + INC(lid)); FSL_PRE(%s); FSL_PRE(%s); FSL_PRE((GE < m_edges_n && GE != lid) ==> (%s)); "
           "bv_fill_step(nbasins_, %s, lid); }" % (LB_WF % ("lid", "lid", "lid", "lid"), IH_ROW("lid"), GEI_DEF("lid"), SLOTS_DISTINCT("GE", "lid"), args(P4S_PTRS)))
bv_p4 = Unit(
    name="bv_p4", file=BG_H, anchor=ANCHOR,
    sig="void bv_p4(size_t nbasins_, %s)" % params(P4_PTRS, const=P4_CONST),
    rules=slice_rules(4) + [RB(r"for \(size_t lid = 0; lid < m_edges\.size\(\); \+\+lid\)", P4_CALL)] + BV_VOCAB,
    contract=SH_P4 + SH_CNTG + req([S2[0], S2[1], S3[0], DEF_CNTG0, DEF_DEG_G]) + r"""
__CPROVER_assigns(__CPROVER_object_whole(m_adjacency), __CPROVER_object_whole(m_adjacency_list))
""" + ens(S4),
    loops={0: r"""
__CPROVER_assigns(lid, __CPROVER_object_whole(m_adjacency), __CPROVER_object_whole(m_adjacency_list))
__CPROVER_loop_invariant(lid <= m_edges_n && m_adjacency_n == nbasins_ && m_adjacency_list_n == BV_TOT && ADJ(GBV).begin == PS(GBV) && ADJ(GBV).size == CNTG[lid])
__CPROVER_loop_invariant(GSL < m_adjacency_list_n ==> LST(GSL).next == GSL + 1)
__CPROVER_loop_invariant((GE < lid && GE < m_edges_n) ==> (LST(%s).link_id == GE && LST(%s).link_id == GE))
__CPROVER_decreases(m_edges_n - lid)
""" % (SLOT("GE", 0), SLOT("GE", 1))})

G_FILL_STEP = Group(
    name="boruvka.setup.fill.step", units=[bv_fill_step], extra_c=[MODEL_H, BV_MODEL_H],
    harness=harness("bv_fill_step", P4S_PTRS, "bv_fill_step(nbasins_, %s, nondet_size_t())" % args(P4S_PTRS)),
    entry="h_bv_fill_step", enforce="bv_fill_step", backend="cvc5", timeout=600, min_obligations=10,
    clause="compute_tree_boruvka, body of the second pass on edges: the edge id is written into the row of each of its two end points at offset "
           "`size` (the slots named by the ghost rank table), both sizes grow by one, slots of other edges and all next pointers untouched, all "
           "indices in range")
G_P4 = Group(
    name="boruvka.setup.p4.rows", units=[bv_fill_step, bv_p4], extra_c=[MODEL_H, BV_MODEL_H],
    harness=harness("bv_p4", P4_PTRS, "bv_p4(nbasins_, %s)" % args(P4_PTRS), keep="bv_fill_step(nbasins_, %s, 0);" % args(P4S_PTRS)),
    entry="h_bv_p4", enforce="bv_p4", replace=["bv_fill_step"], loop_contracts=True, backend="cvc5", timeout=900, min_obligations=10,
    clause="compute_tree_boruvka, slice P4 (second pass on edges), any number of edges: afterwards the id of an arbitrary edge sits in the rows of both of "
           "its end points, the size of an arbitrary basin equals its degree again, begin pointers and next pointers are unchanged")

# =========================================================================== P5: degree lists, perf counter, tree reset
P5_PTRS = ["m_adjacency", "m_low_degrees", "m_large_degrees"]
SH_LOW = fresh("m_low_degrees", "m_low_degrees_cap", "size_t")
SH_LARGE = fresh("m_large_degrees", "m_large_degrees_cap", "size_t")
SH_P5 = SH_NB + SH_ADJ + SH_LOW + SH_LARGE + r"""
__CPROVER_requires(m_adjacency_n == nbasins_ && nbasins_ <= m_adjacency_cap)
__CPROVER_requires(GLS < m_low_degrees_cap && GLSb < m_low_degrees_cap && GLS2 < m_large_degrees_cap && GLS2b < m_large_degrees_cap)
"""
LOWDEG = "(ADJ(%s).size <= m_max_low_degree)"
bv_push_step = Unit(
    name="bv_push_step", file=BG_H, anchor=ANCHOR, inner=r"for \(size_t nid = 0; nid < nbasins; \+\+nid\)\s*\{",
    sig="void bv_push_step(size_t nbasins_, %s, size_t nid)" % params(P5_PTRS, const=["m_adjacency"]),
    pre=PRE_DEFS, rules=BV_VOCAB,
    body_prefix="    const size_t gh_low0 = m_low_degrees_n, gh_large0 = m_large_degrees_n; /* ghost */\n",
    body_suffix="    /* ghost witness: where the ghost basin was pushed */\n"
                "    if (nid == GBV) { if (m_low_degrees_n != gh_low0) { GB_LIST = 0; GB_SLOT = gh_low0; } else { GB_LIST = 1; GB_SLOT = gh_large0; } }\n",
    contract=SH_P5 + r"""
__CPROVER_requires(nid < nbasins_ && m_low_degrees_n < m_low_degrees_cap && m_large_degrees_n < m_large_degrees_cap)
__CPROVER_assigns(m_low_degrees_n, m_large_degrees_n, __CPROVER_object_whole(m_low_degrees), __CPROVER_object_whole(m_large_degrees), GB_LIST, GB_SLOT)
/* the basin is appended to exactly one list: m_low_degrees iff its size does not exceed m_max_low_degree */
__CPROVER_ensures(""" + LOWDEG % "nid" + r""" ? (m_low_degrees_n == __CPROVER_old(m_low_degrees_n) + 1 && m_low_degrees[__CPROVER_old(m_low_degrees_n)] == nid && m_large_degrees_n == __CPROVER_old(m_large_degrees_n))
                  : (m_large_degrees_n == __CPROVER_old(m_large_degrees_n) + 1 && m_large_degrees[__CPROVER_old(m_large_degrees_n)] == nid && m_low_degrees_n == __CPROVER_old(m_low_degrees_n)))
/* earlier entries of both lists are untouched */
__CPROVER_ensures((GLS < __CPROVER_old(m_low_degrees_n) ==> m_low_degrees[GLS] == __CPROVER_old(m_low_degrees[GLS])) && (GLSb < __CPROVER_old(m_low_degrees_n) ==> m_low_degrees[GLSb] == __CPROVER_old(m_low_degrees[GLSb])))
__CPROVER_ensures((GLS2 < __CPROVER_old(m_large_degrees_n) ==> m_large_degrees[GLS2] == __CPROVER_old(m_large_degrees[GLS2])) && (GLS2b < __CPROVER_old(m_large_degrees_n) ==> m_large_degrees[GLS2b] == __CPROVER_old(m_large_degrees[GLS2b])))
/* ghost witness for the ghost basin */
__CPROVER_ensures(nid == GBV ? (""" + LOWDEG % "GBV" + r""" ? (GB_LIST == 0 && GB_SLOT == __CPROVER_old(m_low_degrees_n)) : (GB_LIST == 1 && GB_SLOT == __CPROVER_old(m_large_degrees_n)))
                  : (GB_LIST == __CPROVER_old(GB_LIST) && GB_SLOT == __CPROVER_old(GB_SLOT)))
/* ... and the entry at the witness slot is untouched by later pushes */
#define SAFE_LOW(s) m_low_degrees[(s) < m_low_degrees_cap ? (s) : 0]
#define SAFE_LARGE(s) m_large_degrees[(s) < m_large_degrees_cap ? (s) : 0]
__CPROVER_ensures((nid != GBV && GB_SLOT < __CPROVER_old(m_low_degrees_n)) ==> SAFE_LOW(GB_SLOT) == __CPROVER_old(SAFE_LOW(GB_SLOT)))
__CPROVER_ensures((nid != GBV && GB_SLOT < __CPROVER_old(m_large_degrees_n)) ==> SAFE_LARGE(GB_SLOT) == __CPROVER_old(SAFE_LARGE(GB_SLOT)))
""")

# what the set-up guarantees about the two degree lists (old = value at entry of the slice = value at entry of the FUNCTION: no earlier slice touches them)
def p5_lists(old, upto):
    o_low, o_large = old % "m_low_degrees_n", old % "m_large_degrees_n"
    return [
        "m_low_degrees_n >= %s && m_large_degrees_n >= %s && (m_low_degrees_n - %s) + (m_large_degrees_n - %s) == %s" % (o_low, o_large, o_low, o_large, upto),
        # appended entries are basins, in increasing order (hence pairwise different), each in the list its size selects
        "(%s <= GLS && GLS < m_low_degrees_n) ==> (m_low_degrees[GLS] < %s && %s)" % (o_low, upto, LOWDEG % "m_low_degrees[GLS]"),
        "(%s <= GLS && GLS < GLSb && GLSb < m_low_degrees_n) ==> m_low_degrees[GLS] < m_low_degrees[GLSb]" % o_low,
        "(%s <= GLS2 && GLS2 < m_large_degrees_n) ==> (m_large_degrees[GLS2] < %s && !%s)" % (o_large, upto, LOWDEG % "m_large_degrees[GLS2]"),
        "(%s <= GLS2 && GLS2 < GLS2b && GLS2b < m_large_degrees_n) ==> m_large_degrees[GLS2] < m_large_degrees[GLS2b]" % o_large,
        # every basin is in one of the lists (ghost basin, ghost witness slot)
        "GBV < %s ==> (%s ? (GB_LIST == 0 && %s <= GB_SLOT && GB_SLOT < m_low_degrees_n && m_low_degrees[GB_SLOT] == GBV)"
        " : (GB_LIST == 1 && %s <= GB_SLOT && GB_SLOT < m_large_degrees_n && m_large_degrees[GB_SLOT] == GBV))" % (upto, LOWDEG % "GBV", o_low, o_large),
    ]


OLD = "__CPROVER_old(%s)"
ENTRY = "__CPROVER_loop_entry(%s)"
# C09: entries present at entry are NOT removed by the set-up phase
P5_STALE = ["(GLS < __CPROVER_old(m_low_degrees_n) ==> m_low_degrees[GLS] == __CPROVER_old(m_low_degrees[GLS])) && "
            "(GLS2 < __CPROVER_old(m_large_degrees_n) ==> m_large_degrees[GLS2] == __CPROVER_old(m_large_degrees[GLS2]))"]
S5 = ["m_perf_boruvka == 0 && m_tree_n == 0"] + p5_lists(OLD, "nbasins_") + P5_STALE

bv_p5 = Unit(
    name="bv_p5", file=BG_H, anchor=ANCHOR,
    sig="void bv_p5(size_t nbasins_, %s)" % params(P5_PTRS, const=["m_adjacency"]), body_prefix=LOCALS,
    rules=slice_rules(5) + [RB(r"for \(size_t nid = 0; nid < nbasins; \+\+nid\)", "{ bv_push_step(nbasins_, %s, nid); }" % args(P5_PTRS))] + BV_VOCAB,
    contract=SH_P5 + r"""
/* NOTHING is required of the CONTENTS or LENGTHS of m_low_degrees / m_large_degrees beyond room in the ghost capacity (they are not cleared) */
__CPROVER_requires(m_low_degrees_n <= m_low_degrees_cap && nbasins_ <= m_low_degrees_cap - m_low_degrees_n)
__CPROVER_requires(m_large_degrees_n <= m_large_degrees_cap && nbasins_ <= m_large_degrees_cap - m_large_degrees_n)
__CPROVER_assigns(m_low_degrees_n, m_large_degrees_n, __CPROVER_object_whole(m_low_degrees), __CPROVER_object_whole(m_large_degrees), GB_LIST, GB_SLOT,
                  m_perf_boruvka, m_tree_n)
""" + ens(S5),
    loops={0: r"""
__CPROVER_assigns(nid, m_low_degrees_n, m_large_degrees_n, __CPROVER_object_whole(m_low_degrees), __CPROVER_object_whole(m_large_degrees), GB_LIST, GB_SLOT)
__CPROVER_loop_invariant(nid <= nbasins_ && m_low_degrees_n <= m_low_degrees_cap && m_large_degrees_n <= m_large_degrees_cap)
""" + "".join("__CPROVER_loop_invariant(%s)\n" % c for c in p5_lists(ENTRY, "nid")) + r"""
__CPROVER_loop_invariant((GLS < __CPROVER_loop_entry(m_low_degrees_n) ==> m_low_degrees[GLS] == __CPROVER_loop_entry(m_low_degrees[GLS])) && (GLS2 < __CPROVER_loop_entry(m_large_degrees_n) ==> m_large_degrees[GLS2] == __CPROVER_loop_entry(m_large_degrees[GLS2])))
__CPROVER_decreases(nbasins_ - nid)
"""})

G_PUSH_STEP = Group(
    name="boruvka.setup.push.step", units=HELPERS + [bv_push_step], extra_c=[MODEL_H, BV_MODEL_H],
    harness=harness("bv_push_step", P5_PTRS, "bv_push_step(nbasins_, %s, nondet_size_t())" % args(P5_PTRS)),
    entry="h_bv_push_step", enforce="bv_push_step", backend="sat", timeout=600, min_obligations=10,
    clause="compute_tree_boruvka, body of the degree-list loop: the basin is appended to exactly one of m_low_degrees (size <= m_max_low_degree) / "
           "m_large_degrees, earlier entries untouched; check_capacity's assert kept as an obligation")
G_P5 = Group(
    name="boruvka.setup.p5.lists", units=HELPERS + [bv_push_step, bv_p5], extra_c=[MODEL_H, BV_MODEL_H],
    harness=harness("bv_p5", P5_PTRS, "bv_p5(nbasins_, %s)" % args(P5_PTRS), keep="bv_push_step(nbasins_, %s, 0);" % args(P5_PTRS)),
    entry="h_bv_p5", enforce="bv_p5", replace=["bv_push_step"], loop_contracts=True, backend="sat", timeout=900, min_obligations=10,
    clause="compute_tree_boruvka, slice P5 (degree lists, perf counter, tree reset) on ARBITRARY pre-state of m_low_degrees / m_large_degrees: exactly "
           "basins_count() entries are appended, in increasing basin order, each basin to the list its size selects, every basin to one of them; "
           "entries present at entry SURVIVE (the function never clears the two lists: C09 rests on `both lists empty at entry`); m_perf_boruvka = 0, m_tree empty")

# --------------------------------------------------------------------------- sequencing check of the slices (import-time, textual)
# {S(k-1)} Pk {S(k)}: every state clause a slice REQUIRES must be a clause some earlier slice ENSURES (or a ghost-table definition), and no
# slice in between may assign a buffer / length that the clause mentions.
_MENTIONS = {"ADJ(": "m_adjacency", "m_adjacency_n": "m_adjacency_n", "LST(": "m_adjacency_list", "m_adjacency_list_n": "m_adjacency_list_n",
             "LB(": "m_link_basins", "m_link_basins_n": "m_link_basins_n", "INC(": "m_link_basins", "m_edge_bucket": "m_edge_bucket"}
_SLICES = [
    dict(name="P0", pre=[], post=S0, assigns=["m_adjacency", "m_adjacency_n", "m_edge_bucket", "m_edge_bucket_n", "m_link_basins", "m_link_basins_n"]),
    dict(name="P1", pre=[S0[0], S_LBN], post=S1, assigns=["m_adjacency"]),
    dict(name="P2", pre=[S1[0]], post=S2, assigns=["m_adjacency", "m_adjacency_list_n"]),
    dict(name="P3", pre=[], post=[S3[0].split(" && ", 1)[1]], assigns=["m_adjacency_list"]),
    dict(name="P4", pre=[S2[0], S2[1], S3[0], S_LBN], post=S4, assigns=["m_adjacency", "m_adjacency_list"]),
    dict(name="P5", pre=[], post=S5, assigns=["m_low_degrees", "m_low_degrees_n", "m_large_degrees", "m_large_degrees_n", "m_perf_boruvka", "m_tree_n"]),
]


def _objects(clause):
    return {obj for key, obj in _MENTIONS.items() if key in clause}


def _check_sequencing():
    known = {}   # clause -> set of objects it mentions
    for sl in _SLICES:
        for c in sl["pre"]:
            parts = [c] if c in known else c.split(" && ")   # S3[0] is the conjunction of a carried clause and P3's own postcondition
            for part in parts:
                part = part.strip()
                if not any(part == k or part in k for k in known):
                    raise AssertionError("boruvka slices: %s requires %r which no earlier slice ensures" % (sl["name"], part))
        # clauses that mention an assigned object are invalidated ...
        for k in list(known):
            if known[k] & set(sl["assigns"]):
                del known[k]
        # ... and the slice's own postcondition is established
        for c in sl["post"]:
            known[c] = _objects(c)
    return sorted(known)


SETUP_FINAL_STATE = _check_sequencing()

SETUP_GROUPS = [G_COPY_STEP, G_P0, G_COUNT_STEP, G_P1, G_PREFIX_STEP, G_P2, G_P3, G_FILL_STEP, G_P4, G_PUSH_STEP, G_P5]

# =========================================================================== BOUNDED end-to-end: extracted Boruvka vs extracted Kruskal
# The whole function (no slicing, no outlining) and the Kruskal family of spec/basin.py re-extracted with a plain (ghost-free) vocabulary:
# the ghost-instantiating accessors of spec/basin.py (uf_prd assumes the union-find invariant at the element read) are for modular proofs and
# must not be used in an end-to-end run, where the invariant has to hold by execution, not by assumption.
RANGE_FOR = [
    R(r"for \(size_type nid : m_low_degrees\)\s*\{",
      "for (size_t it_low_ = 0; it_low_ < m_low_degrees_n; ++it_low_)\n{ const size_t nid = m_low_degrees[FSL_IDX1(it_low_, m_low_degrees_n)];", 1),
    R(r"for \(size_type node_A_id : m_large_degrees\)\s*\{",
      "for (size_t it_large_ = 0; it_large_ < m_large_degrees_n; ++it_large_)\n{ const size_t node_A_id = m_large_degrees[FSL_IDX1(it_large_, m_large_degrees_n)];", 1),
    R(r"for \(size_type node_B_id : m_edge_in_bucket\)\s*\{",
      "for (size_t it_bucket_ = 0; it_bucket_ < m_edge_in_bucket_n; ++it_bucket_)\n{ const size_t node_B_id = m_edge_in_bucket[FSL_IDX1(it_bucket_, m_edge_in_bucket_n)];", 1),
]
# width of size_type in the bounded groups: the element / index type of every container (a dependent type in the library).  All values that occur
# within the bound are far below the type's maximum, which is the sentinel `init_idx`; BK_IDX_T = size_t gives the library's own instantiation.
NARROW = [V(r"\bstd::size_t\b", "bk_idx_t"), V(r"\bsize_type\b", "bk_idx_t"), V(r"\bsize_t\b", "bk_idx_t"),
          V(r"struct fsl_connect\b", "struct bk_connect"), V(r"\bfsl_bv_adj_resize\(", "bk_adj_resize("), V(r"\bfsl_bv_sz_resize\(", "bk_sz_resize(")]
BK_TYPES = r"""
#ifndef BK_TYPES
#define BK_TYPES
#ifndef BK_IDX_T
#define BK_IDX_T size_t
#endif
typedef BK_IDX_T bk_idx_t;
typedef size_t bk_word_t; /* element type of edge::link in the (read-only) edge table */
struct bk_connect { bk_idx_t begin; bk_idx_t size; };
struct bk_edgeparse { bk_idx_t link_id; bk_idx_t next; };
/* vector::resize(n, val) (same model as fsl_bv_adj_resize / fsl_bv_sz_resize, on the instantiated element type) */
static void bk_adj_resize(struct bk_connect *d, size_t *len, size_t cap, size_t n, struct bk_connect val)
{
    __CPROVER_assert(n <= cap, "vector model: resize within ghost capacity");
    for (size_t i_ = *len; i_ < n; ++i_) d[i_] = val;
    *len = n;
}
static void bk_sz_resize(bk_idx_t *d, size_t *len, size_t cap, size_t n, bk_idx_t val)
{
    __CPROVER_assert(n <= cap, "vector model: resize within ghost capacity");
    for (size_t i_ = *len; i_ < n; ++i_) d[i_] = val;
    *len = n;
}
#endif
"""
BK_DECLS = dict(DECLS, m_tree="bk_idx_t *m_tree", m_adjacency="struct bk_connect *m_adjacency", m_adjacency_list="struct bk_edgeparse *m_adjacency_list",
                m_link_basins="bk_idx_t (*m_link_basins)[2]", m_low_degrees="bk_idx_t *m_low_degrees", m_large_degrees="bk_idx_t *m_large_degrees",
                m_edge_bucket="bk_idx_t *m_edge_bucket", m_edge_in_bucket="bk_idx_t *m_edge_in_bucket")
ALL_PTRS = ["m_edges", "m_tree", "m_adjacency", "m_adjacency_list", "m_link_basins", "m_low_degrees", "m_large_degrees", "m_edge_bucket", "m_edge_in_bucket"]
boruvka_full = Unit(
    name="boruvka", file=BG_H, anchor=ANCHOR,
    sig="void boruvka(size_t nbasins_, %s)" % ", ".join(("const " if n == "m_edges" else "") + BK_DECLS[n] for n in ALL_PTRS),
    pre=PRE_DEFS + BK_TYPES, rules=BV_VOCAB + RANGE_FOR + NARROW)

UFP = "bk_idx_t *uf_parent, bk_idx_t *uf_rank"
UFA = "uf_parent, uf_rank"
UF_PLAIN = [
    V(r"\bT\b", "size_t"),
    V(r"\b(parent|rank)\.resize\(([^,()]+),\s*([^,()]+)\)", r"fsl_bv_sz_resize(uf_\1, &UF_LEN_\1, uf_cap, \2, \3)"),
    V(r"\b(parent|rank)\.resize\(([^,()]+)\)", r"fsl_bv_sz_resize(uf_\1, &UF_LEN_\1, uf_cap, \2, 0)"),
    V(r"std::iota\((\w+)\.begin\(\),\s*\1\.end\(\),\s*([^,()]+)\)", r"bk_iota(uf_\1, UF_LEN_\1, \2)"),
    V(r"\b(parent|rank)\.clear\(\)", r"UF_LEN_\1 = 0"),
    V(r"\b(parent|rank)\.size\(\)", r"UF_LEN_\1"),
    V(r"(?<![\w.>])size\(\)", "UF_LEN_parent"),
    V(r"(?<![\w.>])resize\(", "bk_uf_resize(%s, " % UFA),
    V(r"(?<![\w.>])find\((\w+)\)", r"bk_uf_find(%s, \1)" % UFA),
    V(r"\bparent\[(\w+)\]", r"uf_parent[FSL_IDX1(\1, uf_pn)]"),
    V(r"\brank\[(\w+)\]", r"uf_rank[FSL_IDX1(\1, uf_rn)]"),
] + NARROW
BK_PRE = BK_TYPES + r"""
#ifndef BK_MODELS
#define BK_MODELS
/* std::iota(v.begin(), v.end(), v0) */
static void bk_iota(bk_idx_t *d, size_t len, size_t v0) { for (size_t i_ = 0; i_ < len; ++i_) d[i_] = v0 + i_; }
_Bool kruskal_cmp(const struct fsl_edge *m_edges, size_t i0, size_t i1);
size_t nondet_size_t(void);
/* std::sort(first, last, comp) -- TRUSTED: the result is SOME permutation of the input in which no later element compares less than an
 * earlier one (std::sort is not stable: every such permutation is a possible result, and all of them are explored) */
static void bk_sort_edges(bk_idx_t *idx, size_t n, const struct fsl_edge *m_edges)
{
    bk_idx_t out_[BK_NE]; _Bool used_[BK_NE];
    __CPROVER_assert(n <= BK_NE, "sort model capacity");
    for (size_t k_ = 0; k_ < BK_NE; ++k_) used_[k_] = 0;
    for (size_t k_ = 0; k_ < n; ++k_)
    {
        size_t pick_ = nondet_size_t();
        __CPROVER_assume(pick_ < n && !used_[pick_]);
        used_[pick_] = 1;
        out_[k_] = idx[pick_];
        if (k_ > 0) __CPROVER_assume(!kruskal_cmp(m_edges, out_[k_], out_[k_ - 1]));
    }
    for (size_t k_ = 0; k_ < n; ++k_) idx[k_] = out_[k_];
}
#endif
"""
bk_uf_find = Unit(name="bk_uf_find", file=B.UF_H, anchor=B.uf_find.anchor, sig="bk_idx_t bk_uf_find(%s, bk_idx_t x)" % UFP, rules=UF_PLAIN, pre=BK_PRE)
bk_uf_merge = Unit(name="bk_uf_merge", file=B.UF_H, anchor=B.uf_merge.anchor, sig="void bk_uf_merge(%s, bk_idx_t x, bk_idx_t y)" % UFP, rules=UF_PLAIN)
bk_uf_resize = Unit(name="bk_uf_resize", file=B.UF_H, anchor=B.uf_resize.anchor, sig="void bk_uf_resize(%s, size_t _size)" % UFP, rules=UF_PLAIN)
bk_uf_clear = Unit(name="bk_uf_clear", file=B.UF_H, anchor=B.uf_clear.anchor, sig="void bk_uf_clear(%s)" % UFP, rules=UF_PLAIN)
bk_kruskal = Unit(
    name="bk_kruskal", file=BG_H, anchor=B.kruskal.anchor,
    sig="void bk_kruskal(size_t nbasins_, struct fsl_edge *m_edges, bk_idx_t *m_edges_indices, bk_idx_t *m_tree, %s)" % UFP,
    rules=[
        R(r"std::sort\(m_edges_indices\.begin\(\),\s*m_edges_indices\.end\(\),\s*\[&m_edges = m_edges\][^{]*\{[^}]*\}\)",
          "bk_sort_edges(m_edges_indices, m_edges_indices_n, m_edges)", 1),
        R(r"for \(size_type edge_idx : m_edges_indices\)\s*\{",
          "for (size_t it_e_ = 0; it_e_ < m_edges_indices_n; ++it_e_)\n{ const size_t edge_idx = m_edges_indices[FSL_IDX1(it_e_, m_edges_indices_n)];", 1),
        V(r"size_type\s*\*\s*link = ", "const bk_word_t *link = "),
        V(r"basins_count\(\)", "nbasins_"),
        V(r"m_edges\.size\(\)", "m_edges_n"),
        V(r"m_edges_indices\.size\(\)", "m_edges_indices_n"),
        V(r"m_edges_indices\.resize\(([^()]+)\)", r"fsl_bv_sz_resize(m_edges_indices, &m_edges_indices_n, m_edges_indices_cap, \1, 0)"),
        V(r"std::iota\(m_edges_indices\.begin\(\),\s*m_edges_indices\.end\(\),\s*([^,()]+)\)", r"bk_iota(m_edges_indices, m_edges_indices_n, \1)"),
        V(r"m_basins_uf\.find\(([^()]+)\)", r"bk_uf_find(%s, \1)" % UFA),
        V(r"m_basins_uf\.merge\(", "bk_uf_merge(%s, " % UFA),
        V(r"m_basins_uf\.resize\(", "bk_uf_resize(%s, " % UFA),
        V(r"m_basins_uf\.clear\(\)", "bk_uf_clear(%s)" % UFA),
        V(r"\bm_edges\[(\w+)\]", r"m_edges[FSL_IDX1(\1, m_edges_n)]"),
    ] + _vec("m_tree") + NARROW)

H_BOUNDED = r"""
size_t nondet_size_t(void); _Bool nondet_bool(void); double nondet_double(void);
#define INF_ INFINITY
void h_bv_bounded(void)
{
    /* ---- ALL basin graphs within the bound: 1..BK_NB basins, 0..BK_NE edges, end points two different basins, at most one edge per
     * unordered basin pair (what connect_basins produces), pass elevations any non-NaN doubles (ties, -DBL_MAX root links, infinities) */
#ifdef BK_EXACT
    /* one (number of basins, number of edges) class per group: constants, so that every edge loop unwinds exactly */
    size_t nbasins_ = BK_NB;
    struct fsl_edge m_edges[BK_NE];
    m_edges_n = BK_NE; m_edges_cap = BK_NE;
#else
    size_t nbasins_ = nondet_size_t();
    __CPROVER_assume(1 <= nbasins_ && nbasins_ <= BK_NB);
    struct fsl_edge m_edges[BK_NE];
    m_edges_n = nondet_size_t(); m_edges_cap = BK_NE;
    __CPROVER_assume(m_edges_n <= BK_NE);
#endif
    for (int e = 0; e < BK_NE; ++e)
        if ((size_t) e < m_edges_n)
        {
            __CPROVER_assume(m_edges[e].link[0] < nbasins_ && m_edges[e].link[1] < nbasins_ && m_edges[e].link[0] != m_edges[e].link[1]);
            __CPROVER_assume(!isnan(m_edges[e].pass_elevation));
#ifdef BK_WEIGHT_BELOW_MAX
            /* companion domain of the candidate finding `an edge of pass elevation DBL_MAX or +inf is never selected` (group boruvka.bounded.extreme_weights) */
            __CPROVER_assume(m_edges[e].pass_elevation < DBL_MAX);
#endif
#ifdef BK_SMALL_INT_WEIGHTS
            __CPROVER_assume(m_edges[e].pass_elevation == 0. || m_edges[e].pass_elevation == 1. || m_edges[e].pass_elevation == 2.);
#endif
            for (int f = 0; f < e; ++f)
                __CPROVER_assume(!((m_edges[e].link[0] == m_edges[f].link[0] && m_edges[e].link[1] == m_edges[f].link[1])
                                   || (m_edges[e].link[0] == m_edges[f].link[1] && m_edges[e].link[1] == m_edges[f].link[0])));
        }
    /* ---- the basin_graph object: scratch members hold ARBITRARY stale contents and lengths (C09) ... */
    struct bk_connect m_adjacency[BK_NB]; struct bk_edgeparse m_adjacency_list[2 * BK_NE]; bk_idx_t m_link_basins[BK_NE][2];
    bk_idx_t m_low_degrees[BK_NB], m_large_degrees[BK_NB], m_edge_bucket[BK_NB], m_edge_in_bucket[BK_NB], m_tree[BK_NB];
    m_adjacency_cap = BK_NB; m_adjacency_list_cap = 2 * BK_NE; m_link_basins_cap = BK_NE; m_low_degrees_cap = BK_NB; m_large_degrees_cap = BK_NB;
    m_edge_bucket_cap = BK_NB; m_edge_in_bucket_cap = BK_NB; m_tree_cap = BK_NB;
    m_adjacency_n = nondet_size_t(); m_adjacency_list_n = nondet_size_t(); m_link_basins_n = nondet_size_t(); m_edge_bucket_n = nondet_size_t();
    m_edge_in_bucket_n = nondet_size_t(); m_tree_n = nondet_size_t(); m_perf_boruvka = nondet_size_t();
    __CPROVER_assume(m_adjacency_n <= BK_NB && m_adjacency_list_n <= 2 * BK_NE && m_link_basins_n <= BK_NE && m_edge_bucket_n <= BK_NB
                     && m_edge_in_bucket_n <= BK_NB && m_tree_n <= BK_NB);
    /* ... except the two degree lists, which the function never clears: REPRESENTATION INVARIANT `both empty between calls`
     * (established by the constructor; its re-establishment is asserted below) */
    m_low_degrees_n = 0; m_large_degrees_n = 0;
    m_max_low_degree = BK_MAX_LOW_DEGREE;

    boruvka(nbasins_, m_edges, m_tree, m_adjacency, m_adjacency_list, m_link_basins, m_low_degrees, m_large_degrees, m_edge_bucket, m_edge_in_bucket);

    __CPROVER_assert(m_low_degrees_n == 0 && m_large_degrees_n == 0, "C09 both degree lists are empty again when compute_tree_boruvka returns");
    size_t bt[BK_NB], bt_n = m_tree_n;
    __CPROVER_assert(bt_n < BK_NB || bt_n < nbasins_, "C15 Boruvka tree has fewer edges than basins");
    for (int k = 0; k < BK_NB; ++k) bt[k] = ((size_t) k < bt_n) ? m_tree[k] : 0;

    /* ---- oracle from the property statement.  Components of the edge set (labels: lab[x] == x exactly for one basin per component) */
    size_t lab[BK_NB]; size_t comps = 0;
    for (int i = 0; i < BK_NB; ++i) lab[i] = i;
    for (int e = 0; e < BK_NE; ++e)
        if ((size_t) e < m_edges_n)
        {
            size_t la = lab[m_edges[e].link[0]], lb = lab[m_edges[e].link[1]];
            for (int i = 0; i < BK_NB; ++i) if (lab[i] == lb) lab[i] = la;
        }
    for (int i = 0; i < BK_NB; ++i) if ((size_t) i < nbasins_ && lab[i] == (size_t) i) comps = comps + 1;
    /* the tree: edge indices, acyclic (every tree edge joins two different classes of the tree built so far), spanning */
    size_t tl[BK_NB]; double bott[BK_NB][BK_NB]; _Bool in_tree[BK_NE];
    for (int i = 0; i < BK_NB; ++i) { tl[i] = i; for (int j = 0; j < BK_NB; ++j) bott[i][j] = (i == j) ? -INF_ : INF_; }
    for (int e = 0; e < BK_NE; ++e) in_tree[e] = 0;
    for (int k = 0; k < BK_NB; ++k)
        if ((size_t) k < bt_n)
        {
            __CPROVER_assert(bt[k] < m_edges_n, "C15 Boruvka tree entries are edge indices");
            if (bt[k] < m_edges_n)
            {
                size_t a = m_edges[bt[k]].link[0], b = m_edges[bt[k]].link[1];
                __CPROVER_assert(tl[a] != tl[b], "C15 Boruvka tree is acyclic (no edge joins two basins that are already connected in the tree)");
                size_t la = tl[a], lb = tl[b];
                for (int i = 0; i < BK_NB; ++i) if (tl[i] == lb) tl[i] = la;
                in_tree[bt[k]] = 1;
                bott[a][b] = m_edges[bt[k]].pass_elevation; bott[b][a] = m_edges[bt[k]].pass_elevation;
            }
        }
    __CPROVER_assert(bt_n + comps == nbasins_, "C15 Boruvka tree has (#basins - #components) edges: one fewer than basins when the edge set is connected");
    for (int i = 0; i < BK_NB; ++i) for (int j = 0; j < BK_NB; ++j) if ((size_t) i < nbasins_ && (size_t) j < nbasins_)
        __CPROVER_assert((lab[i] == lab[j]) == (tl[i] == tl[j]), "C15 Boruvka tree spans: two basins are connected in the tree iff they are connected in the edge set");
    /* minimum weight, cycle property: a spanning forest is of minimum weight iff no non-tree edge is lighter than the heaviest edge of the tree
     * path between its end points.  bott[u][v] = heaviest edge on the tree path u..v (minimax closure over the tree edges) */
    for (int m = 0; m < BK_NB; ++m) for (int i = 0; i < BK_NB; ++i) for (int j = 0; j < BK_NB; ++j)
    {
        double via = (bott[i][m] < bott[m][j]) ? bott[m][j] : bott[i][m];
        if (via < bott[i][j]) bott[i][j] = via;
    }
    for (int e = 0; e < BK_NE; ++e)
        if ((size_t) e < m_edges_n && !in_tree[e])
            __CPROVER_assert(!(m_edges[e].pass_elevation < bott[m_edges[e].link[0]][m_edges[e].link[1]]),
                             "C15 Boruvka tree has minimum total pass elevation (cycle property: no edge outside the tree is lighter than the heaviest tree edge between its end points)");

#ifndef BK_NO_KRUSKAL
    /* ---- Kruskal (extracted) on the same edges, same object */
    bk_idx_t m_edges_indices[BK_NE], uf_parent[BK_NB], uf_rank[BK_NB];
    m_edges_indices_cap = BK_NE; uf_cap = BK_NB;
    m_edges_indices_n = nondet_size_t(); uf_pn = nondet_size_t();
    __CPROVER_assume(m_edges_indices_n <= BK_NE && uf_pn <= BK_NB);
    uf_rn = uf_pn;
    bk_kruskal(nbasins_, m_edges, m_edges_indices, m_tree, uf_parent, uf_rank);
    __CPROVER_assert(m_tree_n == bt_n, "C15 Kruskal's and Boruvka's trees have the same number of edges");
    /* equal weight: compared as MULTISETS of pass elevations (sorted sequences equal), which implies equal sums in any summation order */
    double wb[BK_NB], wk[BK_NB];
    for (int k = 0; k < BK_NB; ++k)
    {
        wb[k] = ((size_t) k < bt_n && bt[k] < m_edges_n) ? m_edges[bt[k]].pass_elevation : INF_;
        wk[k] = ((size_t) k < m_tree_n && (size_t) k < BK_NB && m_tree[k] < m_edges_n) ? m_edges[m_tree[k]].pass_elevation : INF_;
    }
    for (int r = 0; r < BK_NB; ++r) for (int k = 0; k + 1 < BK_NB; ++k)
    {
        if (wb[k + 1] < wb[k]) { double t = wb[k]; wb[k] = wb[k + 1]; wb[k + 1] = t; }
        if (wk[k + 1] < wk[k]) { double t = wk[k]; wk[k] = wk[k + 1]; wk[k + 1] = t; }
    }
    for (int k = 0; k < BK_NB; ++k)
        __CPROVER_assert(wb[k] == wk[k], "C15 Kruskal's and Boruvka's trees have equal weight (equal multisets of pass elevations)");
#endif
    __CPROVER_assert(0, "canary: postcondition point reachable");
}
"""


def bounded_group(nb, ne, maxlow, tier, name, timeout, rounds, large_iters, note="", below_max=True, idx_t="uint8_t", exact=False):
    rows = 2 * ne   # a row never holds more than all 2*|edges| end points
    uw = {
        ("boruvka", 0): ne + 1, ("boruvka", 1): ne + 1, ("boruvka", 2): nb, ("boruvka", 3): rows + 1, ("boruvka", 4): ne + 1, ("boruvka", 5): nb + 1,
        ("boruvka", 6): rounds + 1, ("boruvka", 7): nb + 1, ("boruvka", 8): rows + 1, ("boruvka", 9): rows + 1,
        ("boruvka", 10): large_iters + 1, ("boruvka", 11): (rows if large_iters else 0) + 1, ("boruvka", 12): (nb if large_iters else 0) + 1,
    }
    return Group(
        name=name, units=HELPERS + [boruvka_full, B.kruskal_cmp, bk_uf_find, bk_uf_merge, bk_uf_resize, bk_uf_clear, bk_kruskal],
        extra_c=[MODEL_H, BV_MODEL_H], harness=H_BOUNDED, entry="h_bv_bounded",
        defines=["BK_NB=%d" % nb, "BK_NE=%d" % ne, "BK_MAX_LOW_DEGREE=%d" % maxlow] + (["BK_WEIGHT_BELOW_MAX"] if below_max else [])
                + ["BK_IDX_T=" + idx_t] + (["BK_EXACT"] if exact else []), unwindset=uw, unwind=max(nb, ne) + 2,
        backend="cadical", timeout=timeout, mem_gb=16, min_obligations=20, tier=tier, replay="replay/boruvka.cpp",
        # concrete stack arrays: --bounds-check / --pointer-check and the explicit index obligations stay on; the pointer-overflow and conversion
        # instrumentation only inflates the formula here
        no_checks=["--pointer-overflow-check", "--conversion-check"],
        bounded=("size_type instantiated as %s%s; " % (idx_t, "" if idx_t == "size_t" else " (every value within the bound is < 255 = the sentinel init_idx)")) +
                "all basin graphs with %s %d basins and %s %d edges (end points two different basins, at most one edge per basin pair, pass elevations %s incl. ties); complete unwinding: edge loops %d, adjacency rows %d, main-loop rounds %d, large-degree clean-up iterations %d%s"
                % ("exactly" if exact else "<=", nb, "exactly" if exact else "<=", ne, "any non-NaN double < DBL_MAX" if below_max else "any non-NaN double (DBL_MAX and infinities included)", ne, rows, rounds, large_iters, note),
        clause="compute_tree_boruvka end to end (stale scratch contents, both degree lists empty at entry) against the property: tree entries are edge "
               "indices, the tree is acyclic, spans exactly the components of the edge set with #basins - #components edges, has minimum total pass "
               "elevation (cycle property), and has the same multiset of pass elevations as the tree of the extracted compute_tree_kruskal (any result of "
               "std::sort); both degree lists are empty again at exit; all indices in range")


MAXLOW = _max_low_degree()
_DEAD = ("; m_max_low_degree = %d (in-class value): NO basin can reach the large-degree path within the bound (it needs >= %d incident edge end points), "
         "the deferral / bucket clean-up code is dead here" % (MAXLOW, MAXLOW + 1))
# measured while this module was built (shared machine, cadical): (3 basins, 2 edges) size_t 294 s; (3, 3) uint8_t 660 s; (3, 3) size_t > 900 s (timeout);
# the bound asked for (4 basins, 5 edges) is out of reach with symbolic end points -- see the final report / PROPS["C15"]["undecided"]
G_BOUNDED_QUICK = bounded_group(3, 2, MAXLOW, "quick", "boruvka.bounded.b3e2", 1200, 1, 0, _DEAD)
G_BOUNDED = bounded_group(3, 3, MAXLOW, "thorough", "boruvka.bounded.b3e3", 3000, 1, 0, _DEAD)
G_BOUNDED_W64 = bounded_group(3, 2, MAXLOW, "thorough", "boruvka.bounded.b3e2.size_t", 1800, 1, 0, _DEAD, idx_t="size_t")
G_EXTREME = bounded_group(2, 1, MAXLOW, "quick", "boruvka.bounded.extreme_weights", 600, 1, 0,
                          "; regression group of finding F13 (fixed in /repo, 8136f75): an edge with pass elevation DBL_MAX / +inf was never selected by Boruvka",
                          below_max=False, idx_t="size_t")
# the deferral / bucket clean-up path under a HYPOTHETICAL threshold: the member m_max_low_degree (never written by the library, in-class value 16) set to 2, so
# that rows grown by a collapse exceed it within the bound.  Every graph on <= 3 basins keeps a basin with <= 2 distinct neighbours, so the precondition
# `some live basin has low degree` of the algorithm holds.  Measured 1486 s (25133 obligations).
G_BOUNDED_MAXLOW2 = bounded_group(3, 3, 2, "thorough", "boruvka.bounded.b3e3.maxlow2", 5400, 3, 3,
                                  "; m_max_low_degree = 2 instead of its in-class value %d (hypothetical configuration): exercises the large-degree deferral, the bucket "
                                  "clean-up with duplicate / self-loop removal and the re-queueing, which are dead code under the real threshold within any feasible bound" % MAXLOW)
BOUNDED_GROUPS = [G_BOUNDED_QUICK, G_BOUNDED, G_BOUNDED_W64, G_BOUNDED_MAXLOW2, G_EXTREME]

# =========================================================================== local step lemmas of the main loop (UNBOUNDED, each its own group)
def _init_idx_check():
    """`init_idx` is a local of the enclosing function; the outlined bodies get it as a constant after checking its definition in the source"""
    src = ex.strip_comments(open(os.path.join(ex.REPO, BG_H)).read())
    if len(re.findall(r"size_type init_idx = static_cast<size_type>\(-1\);", src)) < 1:
        raise ex.ExtractionError("boruvka: definition of init_idx not found / changed")
    return "    const size_t init_idx = SIZE_MAX; /* local of the enclosing function (line 466: static_cast<size_type>(-1), checked at extraction) */\n"


ML_PRE = PRE_DEFS + r"""
#ifndef BV_ML_DEFS
#define BV_ML_DEFS
/* locals of the body of `for (size_type nid : m_low_degrees)` that live across the iterations of its inner loops (shared with the outlined
 * inner loop bodies as globals) */
size_t found_edge, node_B_id, adjacency_data_ptr;
double found_edge_weight;
#define W(e) (m_edges[(e)].pass_elevation)
/* the current selection: nothing selected yet, or an edge of the graph whose two end points are the node being processed and a DIFFERENT
 * node that is still alive (size > 0), together with its weight */
#define SEL(nid) (found_edge == SIZE_MAX || (found_edge < m_edges_n && node_B_id < nbasins_ && node_B_id != (nid) && ADJ(node_B_id).size > 0 \
    && ((LB(found_edge, 0) == (nid) && LB(found_edge, 1) == node_B_id) || (LB(found_edge, 0) == node_B_id && LB(found_edge, 1) == (nid))) \
    && (found_edge_weight == W(found_edge) || (isnan(found_edge_weight) && isnan(W(found_edge))))))
/* representation invariant of the adjacency rows DURING the main loop, instance at the slot about to be read: the slot is inside the list, holds an
 * edge id, the edge's current end points are basin ids and one of them is the owner of the row */
#define ROW_SLOT_OK(nid) (adjacency_data_ptr < m_adjacency_list_n && LST(adjacency_data_ptr).link_id < m_edges_n \
    && LB(LST(adjacency_data_ptr).link_id, 0) < nbasins_ && LB(LST(adjacency_data_ptr).link_id, 1) < nbasins_ \
    && (LB(LST(adjacency_data_ptr).link_id, 0) == (nid) || LB(LST(adjacency_data_ptr).link_id, 1) == (nid)))
#define OPP(e, nid) (LB(e, 0) == (nid) ? LB(e, 1) : LB(e, 0))
#endif
"""
ML_PTRS = ["m_edges", "m_adjacency", "m_adjacency_list", "m_link_basins"]
SH_ML = SH_NB + SH_EDGES + SH_ADJ + SH_LST + SH_LB + r"""
__CPROVER_requires(m_adjacency_n == nbasins_ && nbasins_ <= m_adjacency_cap && m_adjacency_list_n <= m_adjacency_list_cap
                   && m_link_basins_n == m_edges_n && m_link_basins_n <= m_link_basins_cap && nid < nbasins_)
"""
SCAN_INNER = r"for \(size_t step = 0; step < m_adjacency\[nid\]\.size; \+\+step\)\s*\{(?=\s*increase_perf_boruvka\(\);\s*size_type parsed_edge_id)"
RENAME_INNER = r"for \(size_t step = 0; step < m_adjacency\[nid\]\.size; \+\+step\)\s*\{(?=\s*increase_perf_boruvka\(\);\s*size_type edge_AC_id)"

bv_scan_step = Unit(
    name="bv_scan_step", file=BG_H, anchor=ANCHOR, inner=SCAN_INNER,
    sig="void bv_scan_step(size_t nbasins_, %s, size_t nid)" % params(ML_PTRS, const=ML_PTRS),
    pre=ML_PRE, rules=BV_VOCAB, body_prefix=_init_idx_check(),
    contract=SH_ML + r"""
__CPROVER_requires(ROW_SLOT_OK(nid))
__CPROVER_requires(SEL(nid))
__CPROVER_assigns(found_edge, node_B_id, found_edge_weight, adjacency_data_ptr, m_perf_boruvka)
/* C15 step lemma: whatever is selected is an edge between the processed node and a different, still existing node */
__CPROVER_ensures(SEL(nid))
/* once an edge is selected the selected weight never increases, and it is not above the weight of the edge just parsed when that edge is valid
 * (leads to a different live node) */
__CPROVER_ensures(__CPROVER_old(found_edge) != SIZE_MAX ==> !(__CPROVER_old(found_edge_weight) < found_edge_weight))
/* a valid edge is always selected when nothing was selected before, whatever its weight (finite maximum and +inf included) */
__CPROVER_ensures((__CPROVER_old(found_edge) == SIZE_MAX && OPP(__CPROVER_old(LST(adjacency_data_ptr).link_id), nid) != nid
                   && ADJ(OPP(__CPROVER_old(LST(adjacency_data_ptr).link_id), nid)).size > 0) ==> found_edge == __CPROVER_old(LST(adjacency_data_ptr).link_id))
__CPROVER_ensures((OPP(__CPROVER_old(LST(adjacency_data_ptr).link_id), nid) != nid && ADJ(OPP(__CPROVER_old(LST(adjacency_data_ptr).link_id), nid)).size > 0)
                  ==> !(W(__CPROVER_old(LST(adjacency_data_ptr).link_id)) < found_edge_weight))
/* the scan moves along the next pointers */
__CPROVER_ensures(adjacency_data_ptr == __CPROVER_old(LST(adjacency_data_ptr).next))
""")

bv_rename_step = Unit(
    name="bv_rename_step", file=BG_H, anchor=ANCHOR, inner=RENAME_INNER,
    sig="void bv_rename_step(size_t nbasins_, %s, size_t nid, size_t step)" % params(ML_PTRS, const=["m_edges", "m_adjacency", "m_adjacency_list"]),
    pre=ML_PRE, rules=BV_VOCAB,
    contract=SH_ML + r"""
__CPROVER_requires(ROW_SLOT_OK(nid) && step < ADJ(nid).size && GE < m_link_basins_cap)
__CPROVER_assigns(__CPROVER_object_whole(m_link_basins), adjacency_data_ptr, m_perf_boruvka)
/* exactly one end point of the edge read is renamed to node_B_id: the first one if it was the processed node, the second one otherwise */
__CPROVER_ensures(__CPROVER_old(LB(LST(adjacency_data_ptr).link_id, 0)) == nid
    ? (LB(__CPROVER_old(LST(adjacency_data_ptr).link_id), 0) == node_B_id && LB(__CPROVER_old(LST(adjacency_data_ptr).link_id), 1) == __CPROVER_old(LB(LST(adjacency_data_ptr).link_id, 1)))
    : (LB(__CPROVER_old(LST(adjacency_data_ptr).link_id), 1) == node_B_id && LB(__CPROVER_old(LST(adjacency_data_ptr).link_id), 0) == __CPROVER_old(LB(LST(adjacency_data_ptr).link_id, 0))))
/* every other edge keeps its end points */
__CPROVER_ensures(GE != __CPROVER_old(LST(adjacency_data_ptr).link_id) ==> (LB(GE, 0) == __CPROVER_old(LB(GE, 0)) && LB(GE, 1) == __CPROVER_old(LB(GE, 1))))
/* the pointer stays on the last slot of the row (it is used afterwards to append the row of B) */
__CPROVER_ensures(adjacency_data_ptr == (step != ADJ(nid).size - 1 ? __CPROVER_old(LST(adjacency_data_ptr).next) : __CPROVER_old(adjacency_data_ptr)))
""")

SEL_PTRS = ["m_edges", "m_tree", "m_adjacency", "m_adjacency_list", "m_link_basins", "m_large_degrees"]
SEL_CONST = ["m_edges", "m_adjacency", "m_adjacency_list", "m_link_basins"]
bv_select = Unit(
    name="bv_select", file=BG_H, anchor=ANCHOR, inner=r"for \(size_type nid : m_low_degrees\)\s*\{",
    sig="void bv_select(size_t nbasins_, %s, size_t nid)" % params(SEL_PTRS, const=SEL_CONST),
    pre=ML_PRE, body_prefix=_init_idx_check(),
    rules=[
        # keep the first part of the body: large-degree deferral, scan for the lightest valid edge, append to the tree
        R(r"(?<=m_tree\.push_back\(found_edge\);).*\Z", _blank, 1, re.S),
        RB(SCAN_INNER[:SCAN_INNER.index(r"\s*\{(?=")], "{ FSL_PRE(ROW_SLOT_OK(nid)); bv_scan_step(nbasins_, %s, nid); }" % args(ML_PTRS)),
        V(r"size_type (found_edge|node_B_id) = init_idx;", r"\1 = init_idx;"),
        V(r"data_type found_edge_weight = ", "found_edge_weight = "),
        V(r"size_type adjacency_data_ptr = ", "adjacency_data_ptr = "),
        CONTINUE] + BV_VOCAB,
    contract=SH_ML + fresh("m_tree", "m_tree_cap", "size_t") + SH_LARGE + r"""
__CPROVER_requires(m_tree_n < m_tree_cap && m_large_degrees_n < m_large_degrees_cap && GLS < m_tree_cap)
__CPROVER_assigns(found_edge, node_B_id, found_edge_weight, adjacency_data_ptr, m_perf_boruvka, m_tree_n, __CPROVER_object_whole(m_tree),
                  m_large_degrees_n, __CPROVER_object_whole(m_large_degrees))
/* C15 step lemma: at most one edge is appended to m_tree, earlier entries are untouched ... */
__CPROVER_ensures(m_tree_n == __CPROVER_old(m_tree_n) || m_tree_n == __CPROVER_old(m_tree_n) + 1)
__CPROVER_ensures(GLS < __CPROVER_old(m_tree_n) ==> m_tree[GLS] == __CPROVER_old(m_tree[GLS]))
/* ... and an edge is appended ONLY when its two end points are different current super-nodes: the processed node, which is alive and of low
 * degree, and another node that is alive */
__CPROVER_ensures(m_tree_n == __CPROVER_old(m_tree_n) + 1 ==> (m_tree[m_tree_n - 1] == found_edge && found_edge < m_edges_n
    && ((LB(found_edge, 0) == nid && LB(found_edge, 1) == node_B_id) || (LB(found_edge, 0) == node_B_id && LB(found_edge, 1) == nid))
    && node_B_id != nid && node_B_id < nbasins_ && ADJ(node_B_id).size > 0 && ADJ(nid).size > 0 && ADJ(nid).size <= m_max_low_degree))
/* a node whose size exceeds m_max_low_degree is deferred to m_large_degrees and nothing is appended */
__CPROVER_ensures(ADJ(nid).size > m_max_low_degree ==> (m_tree_n == __CPROVER_old(m_tree_n) && m_large_degrees_n == __CPROVER_old(m_large_degrees_n) + 1
    && m_large_degrees[m_large_degrees_n - 1] == nid))
""",
    loops={0: r"""
__CPROVER_assigns(step, found_edge, node_B_id, found_edge_weight, adjacency_data_ptr, m_perf_boruvka)
__CPROVER_loop_invariant(step <= ADJ(nid).size && SEL(nid) && (step > 0 || found_edge == SIZE_MAX))
__CPROVER_decreases(ADJ(nid).size - step)
"""})

G_SCAN_STEP = Group(
    name="boruvka.main.scan.step", units=HELPERS + [bv_scan_step], extra_c=[MODEL_H, BV_MODEL_H],
    harness=harness("bv_scan_step", ML_PTRS, "found_edge = nondet_size_t(); node_B_id = nondet_size_t(); adjacency_data_ptr = nondet_size_t(); found_edge_weight = nondet_double(); "
                    "bv_scan_step(nbasins_, %s, nondet_size_t())" % args(ML_PTRS)),
    entry="h_bv_scan_step", enforce="bv_scan_step", backend="cvc5", timeout=900, min_obligations=10,
    clause="compute_tree_boruvka main loop, one step of the scan for the lightest edge leaving a low-degree node: the selection stays `an edge between the "
           "processed node and a different live node, with its weight`, the selected weight never increases and is not above a valid edge just parsed; "
           "indices in range under the row invariant instance")
G_RENAME_STEP = Group(
    name="boruvka.main.rename.step", units=HELPERS + [bv_rename_step], extra_c=[MODEL_H, BV_MODEL_H],
    harness=harness("bv_rename_step", ML_PTRS, "found_edge = nondet_size_t(); node_B_id = nondet_size_t(); adjacency_data_ptr = nondet_size_t(); found_edge_weight = nondet_double(); "
                    "bv_rename_step(nbasins_, %s, nondet_size_t(), nondet_size_t())" % args(ML_PTRS)),
    entry="h_bv_rename_step", enforce="bv_rename_step", backend="cvc5", timeout=900, min_obligations=10,
    clause="compute_tree_boruvka main loop, one step of the collapse (rename A to B in the row of A): exactly one end point of the edge read becomes B, every "
           "other edge keeps its end points, the row pointer stops on the last slot; indices in range under the row invariant instance")
G_SELECT = Group(
    name="boruvka.main.select", units=HELPERS + [bv_scan_step, bv_select], extra_c=[MODEL_H, BV_MODEL_H],
    harness=harness("bv_select", SEL_PTRS, "found_edge = nondet_size_t(); node_B_id = nondet_size_t(); adjacency_data_ptr = nondet_size_t(); found_edge_weight = nondet_double(); "
                    "bv_select(nbasins_, %s, nondet_size_t())" % args(SEL_PTRS), keep="bv_scan_step(nbasins_, %s, 0);" % args(ML_PTRS)),
    entry="h_bv_select", enforce="bv_select", replace=["bv_scan_step"], loop_contracts=True, backend="cvc5", timeout=1500, min_obligations=10,
    clause="compute_tree_boruvka main loop, first part of the body for one low-degree node (deferral to m_large_degrees, scan closed by a loop contract, "
           "append): an edge is appended to m_tree ONLY when its two end points are the processed node and a different node, both alive (size > 0); at most "
           "one edge per node; earlier tree entries untouched; a node with size > m_max_low_degree is deferred, not processed")
MAIN_GROUPS = [G_SCAN_STEP, G_RENAME_STEP, G_SELECT]

# ---- collapse of A into B (last statements of the low-degree body) and re-queueing of a cleaned large-degree node
bv_collapse = Unit(
    name="bv_collapse", file=BG_H, anchor=ANCHOR, inner=r"for \(size_type nid : m_low_degrees\)\s*\{",
    sig="void bv_collapse(size_t nbasins_, %s, size_t nid)" % params(["m_adjacency", "m_adjacency_list"]),
    pre=ML_PRE,
    rules=[R(r"\A.*(?=m_adjacency_list\[adjacency_data_ptr\]\.next = m_adjacency\[node_B_id\]\.begin;)", _blank, 1, re.S)] + BV_VOCAB,
    contract=SH_NB + SH_ADJ + SH_LST + r"""
__CPROVER_requires(m_adjacency_n == nbasins_ && nbasins_ <= m_adjacency_cap && m_adjacency_list_n <= m_adjacency_list_cap && nid < nbasins_)
/* what the selection established: B is another node; the row pointer stands on the last slot of the row of A (row invariant instance) */
__CPROVER_requires(node_B_id < nbasins_ && node_B_id != nid && adjacency_data_ptr < m_adjacency_list_n && GSL < m_adjacency_list_cap)
__CPROVER_assigns(__CPROVER_object_whole(m_adjacency), __CPROVER_object_whole(m_adjacency_list))
/* the row of B is appended to the row of A, the merged row becomes the row of B, A disappears (size 0): no end point is lost */
__CPROVER_ensures(LST(adjacency_data_ptr).next == __CPROVER_old(ADJ(node_B_id).begin) && ADJ(node_B_id).begin == __CPROVER_old(ADJ(nid).begin))
__CPROVER_ensures(ADJ(node_B_id).size == __CPROVER_old(ADJ(node_B_id).size) + __CPROVER_old(ADJ(nid).size) && ADJ(nid).size == 0)
/* frame: other basins, other next pointers and all edge ids are untouched */
__CPROVER_ensures((GBV != nid && GBV != node_B_id) ==> (ADJ(GBV).begin == __CPROVER_old(ADJ(GBV).begin) && ADJ(GBV).size == __CPROVER_old(ADJ(GBV).size)))
__CPROVER_ensures(LST(GSL).link_id == __CPROVER_old(LST(GSL).link_id) && (GSL != adjacency_data_ptr ==> LST(GSL).next == __CPROVER_old(LST(GSL).next)))
""")
G_COLLAPSE = Group(
    name="boruvka.main.collapse", units=[bv_collapse], extra_c=[MODEL_H, BV_MODEL_H],
    harness=harness("bv_collapse", ["m_adjacency", "m_adjacency_list"], "found_edge = nondet_size_t(); node_B_id = nondet_size_t(); adjacency_data_ptr = nondet_size_t(); "
                    "bv_collapse(nbasins_, m_adjacency, m_adjacency_list, nondet_size_t())"),
    entry="h_bv_collapse", enforce="bv_collapse", backend="cvc5", timeout=600, min_obligations=10,
    clause="compute_tree_boruvka main loop, collapse of node A into B: the row of B is chained behind the last slot of A, B takes over the row start of A, "
           "size(B) += size(A), size(A) = 0; every other basin, next pointer and edge id untouched")

RQ_PRE = ML_PRE + "#ifndef BV_RQ\n#define BV_RQ\nsize_t cur_large_degree; /* local of the enclosing while body, shared with the outlined loop body */\n#endif\n"
RQ_PTRS = ["m_adjacency", "m_low_degrees", "m_large_degrees"]
bv_requeue = Unit(
    name="bv_requeue", file=BG_H, anchor=ANCHOR, inner=r"for \(size_type node_A_id : m_large_degrees\)\s*\{",
    sig="void bv_requeue(size_t nbasins_, %s, size_t node_A_id)" % params(RQ_PTRS, const=["m_adjacency"]),
    pre=RQ_PRE,
    rules=[R(r"\A.*(?=if \(m_adjacency\[node_A_id\]\.size <= m_max_low_degree\))", _blank, 1, re.S)] + BV_VOCAB,
    contract=SH_P5 + r"""
__CPROVER_requires(node_A_id < nbasins_ && m_low_degrees_n < m_low_degrees_cap && m_large_degrees_n <= m_large_degrees_cap)
/* position in the list being compacted: the write index never overtakes the read index */
__CPROVER_requires(cur_large_degree < m_large_degrees_n)
__CPROVER_assigns(m_low_degrees_n, __CPROVER_object_whole(m_low_degrees), __CPROVER_object_whole(m_large_degrees), cur_large_degree)
/* C09 / C15 step lemma: after its clean-up a node stays in m_large_degrees exactly when its size still exceeds m_max_low_degree, goes back to
 * m_low_degrees exactly when 0 < size <= m_max_low_degree, and is dropped from both lists when it has no edge left */
__CPROVER_ensures(ADJ(node_A_id).size > m_max_low_degree
    ? (cur_large_degree == __CPROVER_old(cur_large_degree) + 1 && m_large_degrees[__CPROVER_old(cur_large_degree)] == node_A_id && m_low_degrees_n == __CPROVER_old(m_low_degrees_n))
    : (cur_large_degree == __CPROVER_old(cur_large_degree) && m_low_degrees_n == __CPROVER_old(m_low_degrees_n) + (ADJ(node_A_id).size > 0 ? 1 : 0)
       && (ADJ(node_A_id).size > 0 ==> m_low_degrees[m_low_degrees_n - 1] == node_A_id)))
__CPROVER_ensures(m_large_degrees_n == __CPROVER_old(m_large_degrees_n))
__CPROVER_ensures((GLS < __CPROVER_old(m_low_degrees_n) ==> m_low_degrees[GLS] == __CPROVER_old(m_low_degrees[GLS]))
                  && ((GLS2 != __CPROVER_old(cur_large_degree) || !(ADJ(node_A_id).size > m_max_low_degree)) ==> m_large_degrees[GLS2] == __CPROVER_old(m_large_degrees[GLS2])))
""")
G_REQUEUE = Group(
    name="boruvka.main.requeue", units=HELPERS + [bv_requeue], extra_c=[MODEL_H, BV_MODEL_H],
    harness=harness("bv_requeue", RQ_PTRS, "cur_large_degree = nondet_size_t(); bv_requeue(nbasins_, %s, nondet_size_t())" % args(RQ_PTRS)),
    entry="h_bv_requeue", enforce="bv_requeue", backend="cvc5", timeout=600, min_obligations=10,
    clause="compute_tree_boruvka main loop, end of the clean-up of one large-degree node: it is kept in (the compacted) m_large_degrees iff its size still "
           "exceeds m_max_low_degree, re-queued in m_low_degrees iff 0 < size <= m_max_low_degree, dropped otherwise; hence m_large_degrees is empty at exit "
           "exactly when no cleaned node keeps a size above the threshold")
MAIN_GROUPS += [G_COLLAPSE, G_REQUEUE]

# ---- clean-up of a large-degree node: one step of the scan that keeps, per neighbour B, ONE edge A-B in m_edge_bucket[B]
# The path needs a node with > m_max_low_degree incident end points and is dead code in every bounded group under the real threshold; this
# unbounded step lemma states what the minimum-spanning-tree property needs of it: of the parallel edges between two super-nodes only a
# LIGHTEST one may survive (a heavier survivor can enter the tree in place of the lightest: the tree is then not of minimum weight).
BUCKET_INNER = r"for \(size_t step = 0; step < m_adjacency\[node_A_id\]\.size; \+\+step\)\s*\{(?=\s*increase_perf_boruvka\(\);\s*size_type edge_AB_id)"
BK_PTRS = ["m_edges", "m_adjacency", "m_adjacency_list", "m_link_basins", "m_edge_bucket", "m_edge_in_bucket"]
BK_CONST = ["m_edges", "m_adjacency", "m_adjacency_list", "m_link_basins"]
bv_bucket_step = Unit(
    name="bv_bucket_step", file=BG_H, anchor=ANCHOR, inner=BUCKET_INNER,
    sig="void bv_bucket_step(size_t nbasins_, %s, size_t node_A_id)" % params(BK_PTRS, const=BK_CONST),
    pre=ML_PRE + r"""
#ifndef BV_BK_DEFS
#define BV_BK_DEFS
#define BK_E (__CPROVER_old(LST(adjacency_data_ptr).link_id))          /* the edge parsed in this step */
#define BK_B (OPP(BK_E, node_A_id))                                     /* its other end point */
#define BK_VALID (BK_B != node_A_id && __CPROVER_old(ADJ(OPP(LST(adjacency_data_ptr).link_id, node_A_id)).size) > 0)
#define BK_OLD (__CPROVER_old(m_edge_bucket[OPP(LST(adjacency_data_ptr).link_id, node_A_id)]))
#endif
""", rules=BV_VOCAB, body_prefix=_init_idx_check(),
    contract=SH_ML.replace("&& nid < nbasins_", "&& node_A_id < nbasins_") + SH_BUCKET + fresh("m_edge_in_bucket", "m_edge_in_bucket_cap", "size_t") + r"""
__CPROVER_requires(ROW_SLOT_OK(node_A_id) && m_edge_bucket_n == nbasins_ && nbasins_ <= m_edge_bucket_cap && m_edge_in_bucket_n < m_edge_in_bucket_cap && GBV < nbasins_)
/* IH instance (DESIGN 3.9) of `a bucket entry is the sentinel or an edge id` at the bucket of the neighbour read */
__CPROVER_requires(m_edge_bucket[OPP(LST(adjacency_data_ptr).link_id, node_A_id)] == SIZE_MAX || m_edge_bucket[OPP(LST(adjacency_data_ptr).link_id, node_A_id)] < m_edges_n)
__CPROVER_assigns(adjacency_data_ptr, m_perf_boruvka, __CPROVER_object_whole(m_edge_bucket), m_edge_in_bucket[m_edge_in_bucket_n], m_edge_in_bucket_n)
/* C15 (minimum weight), from the statement: after parsing a valid edge A-B the edge kept for B is one of {previously kept, parsed}, and NEITHER of
 * the two is lighter than it */
__CPROVER_ensures(BK_VALID ==> (m_edge_bucket[BK_B] == BK_E || (BK_OLD != SIZE_MAX && m_edge_bucket[BK_B] == BK_OLD)))
__CPROVER_ensures(BK_VALID ==> !(W(BK_E) < W(m_edge_bucket[BK_B])))
__CPROVER_ensures((BK_VALID && BK_OLD != SIZE_MAX) ==> !(W(BK_OLD) < W(m_edge_bucket[BK_B])))
/* a neighbour seen for the first time is recorded exactly once in m_edge_in_bucket; otherwise the list is untouched */
__CPROVER_ensures((BK_VALID && BK_OLD == SIZE_MAX) ==> (m_edge_in_bucket_n == __CPROVER_old(m_edge_in_bucket_n) + 1 && m_edge_in_bucket[m_edge_in_bucket_n - 1] == BK_B))
__CPROVER_ensures(!(BK_VALID && BK_OLD == SIZE_MAX) ==> m_edge_in_bucket_n == __CPROVER_old(m_edge_in_bucket_n))
/* an invalid edge (self loop, dead neighbour) changes no bucket; the bucket of any other basin is untouched (frame, ghost basin) */
__CPROVER_ensures((!BK_VALID || GBV != BK_B) ==> m_edge_bucket[GBV] == __CPROVER_old(m_edge_bucket[GBV]))
/* the scan moves along the next pointers */
__CPROVER_ensures(adjacency_data_ptr == __CPROVER_old(LST(adjacency_data_ptr).next))
""")
G_BUCKET_STEP = Group(
    name="boruvka.main.bucket.step", units=HELPERS + [bv_bucket_step], extra_c=[MODEL_H, BV_MODEL_H],
    harness=harness("bv_bucket_step", BK_PTRS, "adjacency_data_ptr = nondet_size_t(); bv_bucket_step(nbasins_, %s, nondet_size_t())" % args(BK_PTRS)),
    entry="h_bv_bucket_step", enforce="bv_bucket_step", backend="cvc5", timeout=900, min_obligations=10, replay="replay/boruvka.cpp",
    clause="compute_tree_boruvka main loop, clean-up of a large-degree node, one parsed edge A-B: the edge kept for neighbour B is the previously kept or the "
           "parsed one and neither of them is lighter (only a LIGHTEST parallel edge survives); a first-seen neighbour is recorded once; other buckets and "
           "invalid edges (self loops, dead neighbours) change nothing; indices in range under the row invariant instance.  This path needs more than "
           "m_max_low_degree incident edges and is beyond every bounded group")
MAIN_GROUPS += [G_BUCKET_STEP]

# ==== REGISTRY ====
GROUPS = {"C15": SETUP_GROUPS + MAIN_GROUPS + BOUNDED_GROUPS,
          # memory safety: every index of the set-up phase is in range for ALL inputs (unbounded slices); the main-loop lemmas are index-safe under the
          # stated row-invariant instances
          "C08": SETUP_GROUPS + MAIN_GROUPS,
          # history independence: the resets of the set-up phase hold on ARBITRARY pre-state of every scratch member; the degree lists are not cleared (see PROPS)
          "C09": [G_P0, G_P5, G_REQUEUE, G_BOUNDED_QUICK]}

_BV_ASSUMPTIONS = [
    "compute_tree_boruvka set-up phase: the function text is cut at six fixed statements into consecutive slices P0..P5, each extracted from /repo on every run and "
    "proved against its own contract; the sequencing rule (postcondition of a slice = precondition of the next, untouched objects keep their clauses) is checked "
    "textually at import (spec/boruvka.py _check_sequencing), not by cbmc; `nbasins` (line 463) is given to the slices as the constant basins_count()",
    "precondition of compute_tree_boruvka: basins_count() >= 1 (m_adjacency[0] / m_adjacency.back() are out of range otherwise -- obligation of slice P2) and every "
    "edge joins two DIFFERENT basin ids < basins_count() (producer connect_basins; a self-loop edge would make the second pass write one slot twice)",
    "ghost witness tables of the set-up phase (harness-owned, read-only): CNTG[k] = number of end points equal to the ghost basin among the first k edges "
    "(recurrence instantiated where read), GBI[b].deg / .ps = degree and prefix sum of the degrees (ps[0] = 0, ps[b+1] = ps[b] + deg[b] instantiated where read; "
    "deg agrees with CNTG at the ghost basin), GEI[e].rank[j] / .slot[j] = rank of edge e in the row of its j-th end point and slot = ps + rank inside the list",
    "ghost-table lemma, instantiated at the pair (ghost edge, current edge) in slice P4: slots of different edges are different (rows of different basins are disjoint, "
    "ranks within a row are distinct) -- a counting fact about the witness tables, not mechanised",
    "IH / forall-postcondition instances (DESIGN 3.9) in the set-up slices: P1/P4 read m_link_basins[lid] = end points of edge lid, two different basin ids (S0 proved at "
    "an arbitrary ghost edge + input well-formedness); P2 reads size[nid-1] = deg[nid-1] (invariant `sizes not yet reset equal the degree`, proved at the ghost basin); "
    "P4 reads begin[b] = ps[b], size[b] = rank of the current edge in the row of b at its two end points (invariant proved at the ghost basin)",
    "std::vector model as in models/basin.h: (buffer, length, ghost capacity); growth within the ghost capacity is a stated precondition (the real vector reallocates); "
    "resize(n) without value leaves NEW elements arbitrary (over-approximation); m_adjacency.resize(n, {0,0}) / m_edge_bucket.resize(n, -1) are model functions with a body "
    "(bounded group) and a ghost-index contract (unbounded groups); reserve() has no effect; std::vector<std::array<size_t,2>> is a size_t[..][2] buffer",
    "main-loop step lemmas (boruvka.main.*): the representation invariant of the adjacency rows DURING the main loop (the slot read is inside the list, holds an edge id whose "
    "current end points are basin ids, one of them the owner of the row) is ASSUMED at the slot read; that the main loop maintains it is NOT proved (it is exercised only by the "
    "bounded groups and the native driver); locals of the loop bodies that live across inner-loop iterations (found_edge, node_B_id, found_edge_weight, adjacency_data_ptr, "
    "cur_large_degree) are shared with the outlined bodies as globals; init_idx is given as SIZE_MAX after checking its definition in the source",
    "bounded groups: std::sort modelled as ANY permutation sorted by the extracted comparator (all tie orders explored); union_find and compute_tree_kruskal re-extracted from the "
    "anchors of spec/basin.py with a ghost-free vocabulary (an end-to-end run must not assume the union-find invariant at reads); m_max_low_degree read from its in-class initialiser",
    "bounded groups: REPRESENTATION INVARIANT `m_low_degrees and m_large_degrees are empty between calls` is assumed at entry (the function never clears them) and asserted at exit; "
    "every other scratch member has arbitrary stale contents and length",
]

PROPS = {
    "C15": dict(
        level="other",
        explanation="compute_tree_boruvka: the set-up phase (adjacency sizes = degrees, begin = prefix sums, every edge id in the rows of both end points, next pointers chain the "
                    "list, every basin in exactly one degree list) is decided for all inputs by sliced contracts; local step lemmas of the main loop (selection, append only between "
                    "two different live super-nodes, collapse, re-queueing) are decided under an assumed row invariant; spanning / acyclic / minimum weight / equal weight with "
                    "Kruskal are BOUNDED checks of the extracted function (stated bounds), never counted as proof.",
        assumptions=_BV_ASSUMPTIONS,
        unmechanised=[
            "handshake lemma: the sum of all degrees (= m_adjacency_list.size() after slice P2) equals 2 * m_edges.size(); with begin[b+1] = begin[b] + deg[b] this is `rows do not "
            "overlap and end at 2*|edges|`",
            "every basin is in EXACTLY one degree list: exactly basins_count() entries are appended, in increasing basin order (hence pairwise different), each to the list its size "
            "selects, and an arbitrary basin has a witness slot (all proved) -- the pigeonhole step is not mechanised",
            "Boruvka's correctness argument (cut property on the contracted graph: the lightest edge leaving a super-node belongs to a minimum spanning tree) on top of the step "
            "lemmas; the main-loop invariant that ties m_link_basins / adjacency rows to the contracted graph is not mechanised",
        ],
        undecided=[
            "compute_tree_boruvka main loop as a whole (unbounded): that the row invariant is maintained, termination, |tree| = basins - components, minimum weight",
            "the large-degree path (`size > m_max_low_degree` = 16: deferral, bucket clean-up, duplicate-edge removal with the min-id tie-break) needs a basin with >= 17 incident edge "
            "end points: OUTSIDE every bound CBMC can unwind here; it is dead code in all bounded groups run with the in-class threshold; only the bucket step (a lightest parallel edge survives: boruvka.main.bucket.step) and the re-queue decision at its end are "
            "under contract (boruvka.main.requeue); the native driver replay/boruvka.cpp exercises it (about a third of its random graphs) but that is testing, not proof",
            "NOTED, NOT CLAIMED (native only, replay/boruvka.cpp BORUVKA_MODE=stale / dense; outside the documented domain of planar basin graphs): when every basin of a component keeps more than m_max_low_degree distinct live neighbours "
            "(e.g. complete graph on 18 basins) m_low_degrees is empty, the main loop stops, the tree is incomplete and m_large_degrees keeps stale entries that the next call uses as "
            "basin ids; not reachable from planar / raster basin graphs (they always have a basin of degree <= 16), reachable with a non-planar triangle list",
        ],
    ),
    "C08": dict(
        level="other",
        explanation="compute_tree_boruvka: all container indices of the set-up phase are in range for every input with basins_count() >= 1 and well-formed edges (unbounded); "
                    "main-loop indices only under the assumed row invariant and in the bounded groups.",
        assumptions=["compute_tree_boruvka: see C15 assumptions (vector model, ghost capacities, instances)"],
        undecided=["compute_tree_boruvka main loop indices for all inputs (row invariant not proved)",
                   "basins_count() == 0: m_adjacency[0].begin = 0 and m_adjacency.back() are out of range, m_tree.reserve(nbasins - 1) asks for SIZE_MAX elements -- outside the stated precondition"],
    ),
}
C09_NOTES = {
    "C09": dict(
        level="other",
        explanation="compute_tree_boruvka: slice P0/P5 contracts are proved on arbitrary pre-state of every scratch member; m_low_degrees / m_large_degrees are NOT cleared (entries "
                    "present at entry survive the set-up, proved), so history independence rests on `both empty at exit`: m_low_degrees is empty at exit by the loop condition, "
                    "m_large_degrees only when no cleaned node keeps more than m_max_low_degree neighbours (boruvka.main.requeue; bounded: re-established on all graphs within the bound).",
        undecided=["m_large_degrees empty at exit for ALL inputs: false for dense graphs (see C15 candidate finding), holds for graphs in which every contraction has a basin of degree <= 16"],
    ),
}
C09_RELEVANT_GROUPS = [G_P0, G_P5, G_REQUEUE, G_BOUNDED_QUICK, G_BOUNDED]
PROPS["C09"] = C09_NOTES["C09"]
