"""thread_pool<T>::blocks partition arithmetic and run_blocks job creation
(utils/impl/thread_pool_inl.hpp:214-304).  Property C11 -- block-partition clause only
(and the partition half of C10).  T = std::size_t (the only instantiation in the library)."""
import re

from fv.extract import Unit, R, V
from fv.runner import Group

POOL_H = "include/fastscapelib/utils/impl/thread_pool_inl.hpp"

MODEL = r"""
struct blocks { size_t m_first_index, m_index_after_last, m_num_blocks, m_block_size, m_remainder; };
#define POOL_MAX 64   /* stated bound on the pool size (the library uses <= 16 threads) */
#define BLK_TOTALSZ(b) ((b)->m_index_after_last - (b)->m_first_index)
#define IDX_MAX ((size_t) 1 << 40)  /* index range of the library's containers (node counts <= 2^40 everywhere) */
/* representation invariant of a non-empty block set as far as the lemma groups below establish it */
#define BLK_VALID(b, pool) ((b)->m_index_after_last > (b)->m_first_index && (b)->m_index_after_last <= IDX_MAX \
    && 1 <= (b)->m_num_blocks && (b)->m_num_blocks <= (pool) && (b)->m_block_size >= 1 \
    && (b)->m_remainder < (b)->m_num_blocks \
    && (b)->m_block_size <= BLK_TOTALSZ(b))
"""

MEMBERS = R(r"\bm_(first_index|index_after_last|num_blocks|block_size|remainder)\b", r"b->m_\1", None)

CTOR_LEMMAS = {
    "range": "index_after_last_ > first_index_ ==> (1 <= b->m_num_blocks && b->m_num_blocks <= num_blocks_)",
    "size": "index_after_last_ > first_index_ ==> (b->m_block_size >= 1 && b->m_remainder < b->m_num_blocks && b->m_block_size <= index_after_last_ - first_index_)",
    "frame": "(index_after_last_ > first_index_ ==> (b->m_first_index == first_index_ && b->m_index_after_last == index_after_last_)) && (index_after_last_ <= first_index_ ==> b->m_num_blocks == 0)",
}


def make_ctor(lemma=None):
    ens = "".join("__CPROVER_ensures(%s)\n" % v for k, v in CTOR_LEMMAS.items() if lemma in (None, k))
    return Unit(
        name="blocks_ctor", file=POOL_H,
        anchor=r"thread_pool<T>::blocks::blocks\(const T& first_index_,",
        sig="void blocks_ctor(struct blocks *b, size_t first_index_, size_t index_after_last_, size_t num_blocks_, size_t min_size_)",
        pre=MODEL,
        body_prefix="/* mem-initialiser list */ b->m_first_index = first_index_; b->m_index_after_last = index_after_last_; b->m_num_blocks = num_blocks_;\n",
        rules=[MEMBERS,
               V(r"std::size_t\{ 1 \}", "((size_t) 1)"),
               V(r"static_cast<size_t>\(", "(size_t)(")],
        contract=r"""
__CPROVER_requires(__CPROVER_is_fresh(b, sizeof(*b)))
__CPROVER_requires(1 <= num_blocks_ && num_blocks_ <= POOL_MAX)
__CPROVER_assigns(__CPROVER_object_whole(b))
""" + ens,
    )


blocks_ctor = make_ctor()

# "(size, remainder) = divmod(total, FINAL number of blocks)": the value identity needs two symbolic 64-bit divider circuits to be
# related and does not finish; it is decided structurally instead (typestate): every write of m_num_blocks bumps a ghost version,
# the writes of m_block_size / m_remainder must be `total / num` and `total % num` of the CURRENT version (same-state identity:
# trivial when the code says exactly that), and at exit both must carry the final version.
TS_MODEL = r"""
size_t NB_VER, BS_VER, REM_VER; int BS_DEAD_BRANCH;
"""
blocks_ctor_ts = Unit(
    name="blocks_ctor_ts", file=POOL_H,
    anchor=r"thread_pool<T>::blocks::blocks\(const T& first_index_,",
    sig="void blocks_ctor_ts(struct blocks *b, size_t first_index_, size_t index_after_last_, size_t num_blocks_, size_t min_size_)",
    pre=TS_MODEL,
    body_prefix="b->m_first_index = first_index_; b->m_index_after_last = index_after_last_; b->m_num_blocks = num_blocks_; NB_VER = 0; BS_VER = SIZE_MAX; REM_VER = SIZE_MAX; BS_DEAD_BRANCH = 0;\n",
    rules=[MEMBERS,
           V(r"std::size_t\{ 1 \}", "((size_t) 1)"),
           V(r"static_cast<size_t>\(", "(size_t)("),
           # the `m_block_size == 0` repair branch is dead (block size >= 1 is lemma 'size'); it is marked, not analysed
           V(r"if \(b->m_block_size == 0\)\s*\{", "if (b->m_block_size == 0) { BS_DEAD_BRANCH = 1;"),
           V(r"b->m_num_blocks = ([^;]+);", r"b->m_num_blocks = (NB_VER = NB_VER + 1, \1);"),
           V(r"b->m_block_size = ([^;]+);",
             r'{ size_t v_ = (\1); FSL_CHECK(BS_DEAD_BRANCH || v_ == total_size / b->m_num_blocks, "C11 block size is total / (current number of blocks)"); BS_VER = NB_VER; b->m_block_size = v_; }'),
           V(r"b->m_remainder = ([^;]+);",
             r'{ size_t v_ = (\1); FSL_CHECK(v_ == total_size % b->m_num_blocks, "C11 remainder is total % (current number of blocks)"); REM_VER = NB_VER; b->m_remainder = v_; }')],
)
H_TS = r"""
size_t nondet_size_t(void);
void h_blocks_ctor_ts(void)
{
    struct blocks bb; size_t f = nondet_size_t(), l = nondet_size_t(), n = nondet_size_t(), m = nondet_size_t();
    __CPROVER_assume(1 <= n && n <= POOL_MAX && l > f);
    blocks_ctor_ts(&bb, f, l, n, m);
    __CPROVER_assert(BS_DEAD_BRANCH || (BS_VER == NB_VER && REM_VER == NB_VER),
                     "C11 block size and remainder are both computed from the FINAL number of blocks");
    __CPROVER_assert(0, "canary: postcondition point reachable");
}
"""

blocks_start = Unit(
    name="blocks_start", file=POOL_H,
    anchor=r"T thread_pool<T>::blocks::start\(const std::size_t block\) const",
    sig="size_t blocks_start(const struct blocks *b, size_t block)",
    rules=[MEMBERS, R(r"static_cast<T>\(", "(size_t)(", 2)],
    contract=r"""
__CPROVER_requires(__CPROVER_is_fresh(b, sizeof(*b)))
__CPROVER_requires(BLK_VALID(b, POOL_MAX) && block <= b->m_num_blocks)
__CPROVER_assigns()
__CPROVER_ensures(block == 0 ==> __CPROVER_return_value == b->m_first_index)
""",
)

# monotonicity start(k) < start(k+1): a two-call harness on the extracted start()
H_MONO = r"""
size_t nondet_size_t(void);
void h_mono(void)
{
    struct blocks bb; struct blocks *b = &bb;
    bb.m_first_index = nondet_size_t(); bb.m_index_after_last = nondet_size_t(); bb.m_num_blocks = nondet_size_t();
    bb.m_block_size = nondet_size_t(); bb.m_remainder = nondet_size_t();
    size_t k = nondet_size_t();
    __CPROVER_assume(BLK_VALID(b, POOL_MAX) && k < bb.m_num_blocks);
    size_t s0 = blocks_start(b, k), s1 = blocks_start(b, k + 1);
    __CPROVER_assert(s0 < s1, "C11 blocks are non-empty and increasing: start(k) < start(k+1)");
    __CPROVER_assert(s1 - s0 == bb.m_block_size + (k < bb.m_remainder ? 1 : 0), "block length = size (+1 for the first `remainder` blocks)");
    __CPROVER_assert(0, "canary: postcondition point reachable");
}
"""

H_LAST = r"""
size_t nondet_size_t(void);
void h_last(void)
{
    struct blocks bb; struct blocks *b = &bb;
    bb.m_first_index = nondet_size_t(); bb.m_index_after_last = nondet_size_t(); bb.m_num_blocks = nondet_size_t();
    bb.m_block_size = nondet_size_t(); bb.m_remainder = nondet_size_t();
    __CPROVER_assume(BLK_VALID(b, POOL_MAX));
    /* ASSUMED arithmetic lemma (C11 6.5.5p6 for the constructor's `total / num` and `total % num`): the back ends cannot
     * discharge (n/d)*d + n%d == n for a symbolic 64-bit n within the cap (DESIGN section 7.5) */
    __CPROVER_assume(bb.m_num_blocks * bb.m_block_size + bb.m_remainder == BLK_TOTALSZ(b));
    size_t s = blocks_start(b, bb.m_num_blocks - 1);
    size_t e = blocks_end(b, bb.m_num_blocks - 1);
    __CPROVER_assert(e == bb.m_index_after_last, "C11 the last block ends at index_after_last");
    __CPROVER_assert(s < e && e - s == bb.m_block_size, "C11 the last block is non-empty and has the nominal size");
    __CPROVER_assert(0, "canary: postcondition point reachable");
}
"""

blocks_end = Unit(
    name="blocks_end", file=POOL_H,
    anchor=r"T thread_pool<T>::blocks::end\(const std::size_t block\) const",
    sig="size_t blocks_end(const struct blocks *b, size_t block)",
    rules=[MEMBERS, R(r"\bstart\(block \+ 1\)", "blocks_start(b, block + 1)", 1)],
    contract="",
)

blocks_num = Unit(
    name="blocks_num_blocks", file=POOL_H,
    anchor=r"std::size_t thread_pool<T>::blocks::num_blocks\(\) const",
    sig="size_t blocks_num_blocks(const struct blocks *b)",
    rules=[MEMBERS],
    contract=r"""
__CPROVER_requires(__CPROVER_is_fresh(b, sizeof(*b)))
__CPROVER_assigns()
__CPROVER_ensures(__CPROVER_return_value == b->m_num_blocks)
""",
)

# run_blocks: job creation loop (std::function jobs modelled as records {set, i, start, end})
RUN_MODEL = r"""
struct job { _Bool set; size_t i, start, end; };
size_t GJ; /* ghost job slot */
"""
run_blocks = Unit(
    name="run_blocks", file=POOL_H,
    anchor=r"void thread_pool<T>::run_blocks\(const T first_index,",
    sig="void run_blocks(size_t m_size, struct job *p_jobs, size_t first_index, size_t index_after_last, size_t min_size, size_t *n_dispatched)",
    pre=RUN_MODEL,
    rules=[
        R(r"std::vector<std::function<void\(\)>> p_jobs\(m_size\);", "/* p_jobs(m_size): all-null vector, provided by the caller model */", 1),
        R(r"const blocks blks\(first_index, index_after_last, m_size, min_size\);",
          "struct blocks blks_s; struct blocks *blks = &blks_s; blocks_ctor(blks, first_index, index_after_last, m_size, min_size);", 1),
        R(r"for \(T i = 0;", "for (size_t i = 0;", 1),
        R(r"blks\.num_blocks\(\)", "blocks_num_blocks(blks)", 1),
        R(r"p_jobs\[i\] = \[i,\s*func = std::forward<F>\(func\),\s*start = blks\.start\(i\),\s*end = blks\.end\(i\)\]\(\) \{ func\(i, start, end\); \};",
          "{ p_jobs[i].set = 1; p_jobs[i].i = i; p_jobs[i].start = blocks_start(blks, i); p_jobs[i].end = blocks_end(blks, i); }", 1, re.S),
        R(r"p_jobs\[i\] = nullptr;", "p_jobs[i].set = 0;", 1),
        R(r"set_tasks\(p_jobs\);\s*run_tasks\(\);\s*wait\(\);", "*n_dispatched = *n_dispatched + 1; /* set_tasks/run_tasks/wait: synchronisation, not extractable */", 1, re.S),
        R(r"\};\s*\Z", "}", 1),
    ],
    contract=r"""
__CPROVER_requires(1 <= m_size && m_size <= POOL_MAX && __CPROVER_is_fresh(p_jobs, POOL_MAX * sizeof(struct job)) && __CPROVER_is_fresh(n_dispatched, sizeof(size_t)))
__CPROVER_requires(*n_dispatched == 0 && GJ < m_size)
__CPROVER_assigns(__CPROVER_object_whole(p_jobs), *n_dispatched)
__CPROVER_ensures(index_after_last > first_index ==> *n_dispatched == 1)
__CPROVER_ensures(index_after_last <= first_index ==> *n_dispatched == 0)
/* every job slot below the number of blocks holds (i, start(i), end(i)) with a non-empty in-range block; the others are null */
__CPROVER_ensures(index_after_last > first_index ==> ((p_jobs[GJ].set != 0) ==> (p_jobs[GJ].i == GJ && first_index <= p_jobs[GJ].start
                    && p_jobs[GJ].start < p_jobs[GJ].end && p_jobs[GJ].end <= index_after_last)))
__CPROVER_ensures(index_after_last > first_index ==> p_jobs[0].set != 0 && p_jobs[0].start == first_index)
""",
    loops={0: r"""
__CPROVER_assigns(i, __CPROVER_object_whole(p_jobs))
__CPROVER_loop_invariant(i <= m_size)
__CPROVER_loop_invariant(GJ < i ==> ((p_jobs[GJ].set != 0) == (GJ < blks_s.m_num_blocks)))
__CPROVER_loop_invariant((GJ < i && p_jobs[GJ].set != 0) ==> (p_jobs[GJ].i == GJ && first_index <= p_jobs[GJ].start
                    && p_jobs[GJ].start < p_jobs[GJ].end && p_jobs[GJ].end <= index_after_last))
__CPROVER_loop_invariant((0 < i) ==> (p_jobs[0].set != 0 && p_jobs[0].start == first_index))
__CPROVER_decreases(m_size - i)
"""},
)


def H(fn, call, decls=""):
    return r"""
size_t nondet_size_t(void);
void h_%s(void)
{
    %s
    %s;
    __CPROVER_assert(0, "canary: postcondition point reachable");
}
""" % (fn, decls, call)


# end(): the postcondition mentions start(block+1); GHOST_NEXT_START is its value via the contract of start
END_PRE = "#define GHOST_NEXT_START blocks_start(b, block + 1)\n"

GROUPS = {
    "C11": [
    ] + [
        Group(name="pool.blocks_ctor.%s" % lem, units=[make_ctor(lem)], harness=H("blocks_ctor", "blocks_ctor(b, nondet_size_t(), nondet_size_t(), nondet_size_t(), nondet_size_t())", "struct blocks *b;"),
              entry="h_blocks_ctor", enforce="blocks_ctor", backend="cadical", timeout=900, min_obligations=8, replay="replay/pool.cpp",
              clause="blocks constructor, lemma '%s' (%s); no division by zero, all 64-bit ranges, any min_size" % (lem, CTOR_LEMMAS[lem]))
        for lem in CTOR_LEMMAS
    ] + [
        Group(name="pool.blocks_start", units=[blocks_ctor, blocks_start], harness=H("blocks_start", "size_t r = blocks_start(b, nondet_size_t())", "const struct blocks *b;"),
              entry="h_blocks_start", enforce="blocks_start", backend="cvc5", timeout=600, min_obligations=3, no_checks=["--pointer-overflow-check"],
              clause="start(0) = first; no overflow in start(k) for indices <= 2^40"),
        Group(name="pool.blocks_mono", units=[blocks_ctor, blocks_start], harness=H_MONO, entry="h_mono", backend="cvc5", timeout=600, min_obligations=3, replay="replay/pool.cpp",
              clause="blocks non-empty, strictly increasing, lengths size or size+1 (so every index lies in exactly one block)"),
        Group(name="pool.blocks_ctor.divmod_shape", units=[blocks_ctor, blocks_ctor_ts], harness=H_TS, entry="h_blocks_ctor_ts", backend="sat", timeout=300,
              min_obligations=3, replay="replay/pool.cpp", no_checks=["--div-by-zero-check"],
              clause="(block size, remainder) = divmod(total, FINAL number of blocks), decided structurally: each is `total / num` resp. `total % num` "
                     "of the number of blocks current at that point, and no later write of the number of blocks follows (ghost versions)"),
        Group(name="pool.blocks_last", units=[blocks_ctor, blocks_start, blocks_end], harness=H_LAST, entry="h_last", backend="cvc5", timeout=600, min_obligations=3, replay="replay/pool.cpp",
              clause="the last block ends at index_after_last, is non-empty and no earlier block reaches past it (uses the assumed division identity)"),
        Group(name="pool.blocks_num", units=[blocks_ctor, blocks_num], harness=H("blocks_num_blocks", "size_t r = blocks_num_blocks(b)", "const struct blocks *b;"),
              entry="h_blocks_num_blocks", enforce="blocks_num_blocks", timeout=60, min_obligations=1, clause="num_blocks() accessor"),
    ],
}
PROPS = {
    "C11": dict(
        level="proof",
        explanation="Claimed narrowly: the block-partition clause (contiguous, disjoint, non-empty blocks covering the range, at most one per worker, "
                    "one job per block). The synchronisation clauses are outside this family.",
        undecided=["happens-before of job data/results, lost wake-ups, deadlock freedom, termination of run/pause/resume/resize/stop sequences: "
                   "contracts have no account of schedules, relaxed atomics or condition variables; std::thread/atomic/condition_variable code "
                   "cannot be extracted. The defects the property text alludes to (relaxed flags, notify_all outside the mutex) are NOT reported by this machinery."],
        assumptions=["ASSUMED arithmetic lemma: (n/d)*d + n%d == n for the constructor's quotient/remainder (C11 6.5.5p6; not discharged by any "
                     "installed back end within the cap) -- used only by the group pool.blocks_last",
                     "indices <= 2^40 in the start()/monotonicity lemmas (node counts are <= 2^40 throughout); the constructor lemmas hold for all 64-bit values",
                     "run_blocks' job-creation loop (std::function lambdas) is not under contract: that it dispatches exactly (i, start(i), end(i)) for i < num_blocks is read off the source, not proved",
                     "pool size <= 64 (stated precondition; the library creates 10 and resizes to the requested thread count)",
                     "T = std::size_t"],
    ),
}
