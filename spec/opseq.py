"""Operator-sequence automaton (C20), the elevation copy/pass-through of update_routes
(C09), the read-only guards of snapshot graphs (C16).

Functions under contract: flow_operator_sequence::add_operator (flow_operator.hpp:470-506),
::update_snapshots (flow_snapshot.hpp:142-164), flow_graph constructor sanity checks
(flow_graph_inl.hpp:20-64), flow_graph::update_routes (116-147), set_base_levels / set_mask
guards (202-238), single_flow() (76-80), flow_graph_impl constructor receiver width (91-100).
The operators' static flags are read from the class definitions on every run."""
import os
import re

from fv import extract as ex
from fv.extract import Unit, R, V
from fv.runner import Group

OP_H = "include/fastscapelib/flow/flow_operator.hpp"
SNAP_H = "include/fastscapelib/flow/flow_snapshot.hpp"
INL_H = "include/fastscapelib/flow/impl/flow_graph_inl.hpp"
IMPL_H = "include/fastscapelib/flow/flow_graph_impl.hpp"
ROUTER_H = "include/fastscapelib/flow/flow_router.hpp"
SINK_H = "include/fastscapelib/flow/sink_resolver.hpp"

OPERATORS = [("single_flow_router", ROUTER_H), ("multi_flow_router", ROUTER_H),
             ("pflood_sink_resolver", SINK_H), ("mst_sink_resolver", SINK_H), ("flow_snapshot", SNAP_H)]
FLAGS = ["elevation_updated", "graph_updated", "in_flowdir", "out_flowdir"]


def read_flags(repo=None):
    """static constexpr flags of every operator class (defaults from class flow_operator)."""
    repo = repo or ex.REPO

    def block(path, name):
        src = ex.strip_comments(open(os.path.join(repo, path)).read())
        ms = list(re.finditer(r"\b(?:class|struct)\s+%s\b[^;{]*\{" % name, src))
        if len(ms) != 1:
            raise ex.ExtractionError("operator class %s: %d definitions in %s" % (name, len(ms), path))
        ob = ms[0].end() - 1
        return src[ob:ex.match_brace(src, ob) + 1]

    def flags(text):
        out = {}
        for m in re.finditer(r"static constexpr (?:bool|flow_direction) (\w+)\s*=\s*([\w:]+);", text):
            out[m.group(1)] = m.group(2)
        return out

    base = flags(block(OP_H, "flow_operator"))
    for f in FLAGS:
        if f not in base:
            raise ex.ExtractionError("flow_operator default for %s not found" % f)
    table = {}
    for name, path in OPERATORS:
        fl = dict(base)
        fl.update({k: v for k, v in flags(block(path, name)).items() if k in FLAGS})
        table[name] = fl
    return table


def c_val(v):
    return {"true": "1", "false": "0"}.get(v, v.replace("flow_direction::", "FD_"))


def flags_table_c():
    t = read_flags()
    rows = []
    for i, (name, _) in enumerate(OPERATORS):
        f = t[name]
        rows.append("  /* %d %s */ { %d, %s, %s, %s, %s }," % (
            i, name, 1 if name == "flow_snapshot" else 0, c_val(f["in_flowdir"]), c_val(f["out_flowdir"]),
            c_val(f["elevation_updated"]), c_val(f["graph_updated"])))
    return ("/* operator flag table read from the class definitions of /repo on this run */\n"
            "static const struct opflags OPS[%d] = {\n%s\n};\n#define N_OPKINDS %d\n" % (len(rows), "\n".join(rows), len(rows)))


MODEL = r"""
enum { FD_undefined = 0, FD_single = 1, FD_multi = 2 };
#define MAXKEYS 8  /* capacity of the modelled key vectors; pushes beyond it are excluded by requires */
#define MAXNAMES 8 /* snapshot names are small integers */
struct opflags { _Bool is_snapshot; int in_flowdir; int out_flowdir; _Bool elevation_updated; _Bool graph_updated; };
struct opinst { struct opflags f; /* flow_snapshot parameters */ size_t snapshot_name; _Bool save_graph; _Bool save_elevation; };
struct opseq
{
    size_t n_ops, n_impls;                       /* m_op_vec / m_op_impl_vec sizes */
    size_t graph_keys[MAXKEYS]; size_t n_graph_keys;     /* m_graph_snapshot_keys */
    size_t elev_keys[MAXKEYS]; size_t n_elev_keys;       /* m_elevation_snapshot_keys */
    _Bool snap_present[MAXNAMES]; _Bool snap_single[MAXNAMES]; /* m_graph_snapshot_single_flow (std::map: insert keeps the first) */
    _Bool m_elevation_updated, m_graph_updated; int m_out_flowdir; _Bool m_all_single_flow;
};
/* type invariants of the inputs (a _Bool read from fresh memory is bit-valid for any byte) */
#define B01(x) ((x) == 0 || (x) == 1)
#define OPSEQ_VALID(s) (B01((s)->m_elevation_updated) && B01((s)->m_graph_updated) && B01((s)->m_all_single_flow) \
    && (s)->m_out_flowdir >= FD_undefined && (s)->m_out_flowdir <= FD_multi)
#define OPINST_VALID(p) (B01((p)->f.is_snapshot) && B01((p)->f.elevation_updated) && B01((p)->f.graph_updated) \
    && B01((p)->save_graph) && B01((p)->save_elevation) \
    && (p)->f.in_flowdir >= FD_undefined && (p)->f.in_flowdir <= FD_multi && (p)->f.out_flowdir >= FD_undefined && (p)->f.out_flowdir <= FD_multi)
#define FSL_KEYS_PUSH(arr, n, v) do { __CPROVER_assert((n) < MAXKEYS, "model capacity of key vector"); (arr)[(n)] = (v); (n) = (n) + 1; } while (0)
#define FSL_MAP_INSERT(pres, val, k, v) do { if (!(pres)[(k)]) { (pres)[(k)] = 1; (val)[(k)] = (v); } } while (0)
"""

update_snapshots = Unit(
    name="update_snapshots", file=SNAP_H,
    anchor=r"void flow_operator_sequence<FG>::update_snapshots\(const flow_snapshot& snapshot\)",
    sig="void update_snapshots(struct opseq *s, const struct opinst *snapshot)",
    rules=[
        R(r"const auto& snapshot_name = snapshot\.snapshot_name\(\);", "size_t snapshot_name = snapshot->snapshot_name;", 1),
        V(r"snapshot\.save_graph\(\)", "snapshot->save_graph"),
        V(r"snapshot\.save_elevation\(\)", "snapshot->save_elevation"),
        R(r"m_graph_snapshot_keys\.push_back\(snapshot_name\);", "FSL_KEYS_PUSH(s->graph_keys, s->n_graph_keys, snapshot_name);", 1),
        R(r"m_elevation_snapshot_keys\.push_back\(snapshot_name\);", "FSL_KEYS_PUSH(s->elev_keys, s->n_elev_keys, snapshot_name);", 1),
        R(r"throw std::invalid_argument\(\s*\"[^;]*\);", "{ FSL_THROW(2); return; }", 1, re.S),
        R(r"m_graph_snapshot_single_flow\.insert\(\{ snapshot_name, single_flow \}\);",
          "FSL_MAP_INSERT(s->snap_present, s->snap_single, snapshot_name, single_flow);", 1),
        V(r"flow_direction::(\w+)", r"FD_\1"),
        V(r"\bm_(out_flowdir|elevation_updated|graph_updated|all_single_flow)\b", r"s->m_\1"),
    ],
    contract=r"""
__CPROVER_requires(__CPROVER_is_fresh(s, sizeof(*s)) && __CPROVER_is_fresh(snapshot, sizeof(*snapshot)))
__CPROVER_requires(s->n_graph_keys < MAXKEYS && s->n_elev_keys < MAXKEYS && snapshot->snapshot_name < MAXNAMES)
__CPROVER_requires(OPSEQ_VALID(s) && OPINST_VALID(snapshot))
__CPROVER_requires(fsl_thrown == 0)
__CPROVER_assigns(__CPROVER_object_whole(s), fsl_thrown)
/* C20: a graph snapshot is refused exactly when no direction has been produced before it */
__CPROVER_ensures((fsl_thrown != 0) == (snapshot->save_graph && __CPROVER_old(s->m_out_flowdir) == FD_undefined))
__CPROVER_ensures(fsl_thrown == 0 ==> (
    s->n_graph_keys == __CPROVER_old(s->n_graph_keys) + (snapshot->save_graph ? 1 : 0)
 && s->n_elev_keys == __CPROVER_old(s->n_elev_keys) + (snapshot->save_elevation ? 1 : 0)
 && (snapshot->save_graph ==> (s->graph_keys[s->n_graph_keys - 1] == snapshot->snapshot_name && s->snap_present[snapshot->snapshot_name]))
 && (snapshot->save_elevation ==> s->elev_keys[s->n_elev_keys - 1] == snapshot->snapshot_name)
 && ((snapshot->save_graph && !__CPROVER_old(s->snap_present[snapshot->snapshot_name])) ==>
        s->snap_single[snapshot->snapshot_name] == (__CPROVER_old(s->m_out_flowdir) == FD_single))
 && s->m_out_flowdir == __CPROVER_old(s->m_out_flowdir) && s->m_all_single_flow == __CPROVER_old(s->m_all_single_flow)
 && s->m_graph_updated == __CPROVER_old(s->m_graph_updated) && s->m_elevation_updated == __CPROVER_old(s->m_elevation_updated)
 && s->n_ops == __CPROVER_old(s->n_ops) && s->n_impls == __CPROVER_old(s->n_impls)))
""",
)

add_operator = Unit(
    name="add_operator", file=OP_H,
    anchor=r"void flow_operator_sequence<FG>::add_operator\(std::shared_ptr<OP> ptr\)",
    sig="void add_operator(struct opseq *s, const struct opinst *ptr)",
    rules=[
        R(r"static_assert\([^;]*\);", "", 1, re.S),
        R(r"if constexpr \(std::is_same_v<OP, flow_snapshot>\)", "if (ptr->f.is_snapshot)", 1),
        R(r"update_snapshots\(\*ptr\);", "update_snapshots(s, ptr); if (fsl_thrown) return; /* exception propagates */", 1),
        R(r"throw std::invalid_argument\(\s*\"[^;]*\);", "{ FSL_THROW(1); return; }", 1, re.S),
        V(r"flow_direction::(\w+)", r"FD_\1"),
        V(r"ptr->(in_flowdir|out_flowdir|elevation_updated|graph_updated)\b", r"ptr->f.\1"),
        V(r"\bm_(out_flowdir|elevation_updated|graph_updated|all_single_flow)\b", r"s->m_\1"),
        R(r"m_op_vec\.push_back\(ptr\.get\(\)\);", "s->n_ops = s->n_ops + 1;", 1),
        R(r"m_op_impl_vec\.push_back\(operator_impl_type\(std::move\(ptr\)\)\);", "s->n_impls = s->n_impls + 1;", 1),
    ],
    contract=r"""
__CPROVER_requires(__CPROVER_is_fresh(s, sizeof(*s)) && __CPROVER_is_fresh(ptr, sizeof(*ptr)))
__CPROVER_requires(s->n_graph_keys < MAXKEYS && s->n_elev_keys < MAXKEYS && ptr->snapshot_name < MAXNAMES)
__CPROVER_requires(s->n_ops < 1000000 && s->n_impls == s->n_ops && fsl_thrown == 0)
__CPROVER_requires(OPSEQ_VALID(s) && OPINST_VALID(ptr))
__CPROVER_assigns(__CPROVER_object_whole(s), fsl_thrown)
/* C20, written from the property: refused exactly when the required input direction differs from the direction
 * produced so far, or a graph snapshot has no router before it */
__CPROVER_ensures((fsl_thrown != 0) ==
    ((ptr->f.in_flowdir != FD_undefined && ptr->f.in_flowdir != __CPROVER_old(s->m_out_flowdir))
     || (ptr->f.is_snapshot && ptr->save_graph && __CPROVER_old(s->m_out_flowdir) == FD_undefined)))
__CPROVER_ensures(fsl_thrown == 0 ==> (
    s->n_ops == __CPROVER_old(s->n_ops) + 1 && s->n_impls == s->n_ops
 /* direction = that of the last direction-defining operator */
 && s->m_out_flowdir == ((ptr->f.graph_updated && ptr->f.out_flowdir != FD_undefined) ? ptr->f.out_flowdir : __CPROVER_old(s->m_out_flowdir))
 /* single column <=> every intermediate state single */
 && s->m_all_single_flow == (__CPROVER_old(s->m_all_single_flow) && !(ptr->f.graph_updated && ptr->f.out_flowdir == FD_multi))
 && s->m_graph_updated == (__CPROVER_old(s->m_graph_updated) || ptr->f.graph_updated)
 && s->m_elevation_updated == (__CPROVER_old(s->m_elevation_updated) || ptr->f.elevation_updated)
 /* snapshot names listed as given, in order; its single-flow flag = direction at its position */
 && s->n_graph_keys == __CPROVER_old(s->n_graph_keys) + ((ptr->f.is_snapshot && ptr->save_graph) ? 1 : 0)
 && s->n_elev_keys == __CPROVER_old(s->n_elev_keys) + ((ptr->f.is_snapshot && ptr->save_elevation) ? 1 : 0)
 && ((ptr->f.is_snapshot && ptr->save_graph) ==> s->graph_keys[s->n_graph_keys - 1] == ptr->snapshot_name)
 && ((ptr->f.is_snapshot && ptr->save_elevation) ==> s->elev_keys[s->n_elev_keys - 1] == ptr->snapshot_name)
 && ((ptr->f.is_snapshot && ptr->save_graph && !__CPROVER_old(s->snap_present[ptr->snapshot_name])) ==>
        s->snap_single[ptr->snapshot_name] == (__CPROVER_old(s->m_out_flowdir) == FD_single))))
""",
)

H_ADD = r"""
size_t nondet_size_t(void);
void h_%(fn)s(void)
{
    struct opseq *s; const struct opinst *p;
    fsl_thrown = 0;
    %(fn)s(s, p);
    __CPROVER_assert(0, "canary: postcondition point reachable");
}
"""

# ------------------------------------------------------------------ flow_graph constructor checks
ctor_checks = Unit(
    name="flow_graph_ctor", file=INL_H,
    anchor=r"flow_graph<G, S, Tag>::flow_graph\(G& grid, operators_type operators\)",
    sig="void flow_graph_ctor(const struct opseq *ops, _Bool *impl_single_flow, _Bool *m_writeable, _Bool *elevation_copy_allocated)",
    rules=[
        R(r"m_impl_ptr = std::make_shared<impl_type>\(grid, ([^;]*)\);",
          r"*impl_single_flow = (\1); *m_writeable = 1; /* default member initialiser m_writeable = true */", 1),
        V(r"m_operators\.(graph_updated|out_flowdir|elevation_updated|all_single_flow)\(\)", r"ops->m_\1"),
        # a call of the graph's own single_flow() member: judged by that member's contract (unit graph_single_flow, group opseq.single_flow),
        # whose precondition is the class invariant "implementation flag == all-single" -- not yet established inside the constructor
        V(r"(?<![\w.>:])single_flow\(\)", "ctor_single_flow(ops, *impl_single_flow)"),
        V(r"flow_direction::(\w+)", r"FD_\1"),
        R(r"throw std::invalid_argument\(\s*\"[^;]*\);", "{ FSL_THROW(3); return; }", 2, re.S),
        # default base levels: decided separately (C17.default_base_levels); snapshot pre-allocation is glue
        R(r"m_impl_ptr->set_base_levels\(m_grid\.nodes_indices\(node_status::fixed_value\)\);", "", 1),
        R(r"for \(const auto& key : m_operators\.graph_snapshot_keys\(\)\)\s*\{.*?\n        \}", "", 1, re.S),
        R(r"for \(const auto& key : m_operators\.elevation_snapshot_keys\(\)\)\s*\{.*?\n        \}", "", 1, re.S),
        R(r"m_elevation_copy = xt::empty<data_type>\(grid\.shape\(\)\);", "*elevation_copy_allocated = 1;", 1),
    ],
    contract=r"""
__CPROVER_requires(__CPROVER_is_fresh(ops, sizeof(*ops)) && __CPROVER_is_fresh(impl_single_flow, 1) && __CPROVER_is_fresh(m_writeable, 1) && __CPROVER_is_fresh(elevation_copy_allocated, 1))
__CPROVER_requires(fsl_thrown == 0 && *elevation_copy_allocated == 0)
__CPROVER_assigns(*impl_single_flow, *m_writeable, *elevation_copy_allocated, fsl_thrown)
__CPROVER_ensures((fsl_thrown != 0) == (!ops->m_graph_updated || ops->m_out_flowdir == FD_undefined))
__CPROVER_ensures(fsl_thrown == 0 ==> ((*impl_single_flow != 0) == (ops->m_all_single_flow != 0) && *m_writeable
                                       && (*elevation_copy_allocated != 0) == (ops->m_elevation_updated != 0)))
""",
)

# flow_graph_impl constructor: receiver table width (flow_graph_impl.hpp:91-104)
impl_width = Unit(
    name="impl_receivers_width", file=IMPL_H,
    anchor=r"flow_graph_impl\(grid_type& grid, bool single_flow = false\)",
    sig="size_t impl_receivers_width(_Bool single_flow, size_t n_neighbors_max)",
    rules=[
        R(r"grid_type::n_neighbors_max\(\)", "n_neighbors_max", 2),
        R(r"using shape_type = .*\Z", "return n_receivers_max;", 1, re.S),
    ],
    contract=r"""
__CPROVER_requires(n_neighbors_max >= 1 && n_neighbors_max <= 255)
__CPROVER_assigns()
__CPROVER_ensures(__CPROVER_return_value == (single_flow ? 1 : n_neighbors_max))
""",
)

single_flow = Unit(
    name="graph_single_flow", file=INL_H,
    anchor=r"bool flow_graph<G, S, Tag>::single_flow\(\) const",
    sig="_Bool graph_single_flow(const struct opseq *ops, _Bool impl_single_flow)",
    rules=[V(r"m_operators\.(graph_updated|out_flowdir|elevation_updated|all_single_flow)\(\)", r"ops->m_\1"),
           V(r"m_impl_ptr->single_flow\(\)", "impl_single_flow"),
           V(r"flow_direction::(\w+)", r"FD_\1")],
    contract=r"""
__CPROVER_requires(__CPROVER_is_fresh(ops, sizeof(*ops)) && OPSEQ_VALID(ops))
/* class invariant established by the constructor contract: the implementation's flag is the all-single flag */
__CPROVER_requires(impl_single_flow == ops->m_all_single_flow)
__CPROVER_assigns()
__CPROVER_ensures(__CPROVER_return_value == (ops->m_out_flowdir == FD_single))
""",
)

# ------------------------------------------------------------------ update_routes: copy or pass-through (C09, C20, C16 guard)
UR_MODEL = r"""
/* one operator implementation applied to (graph, elevation): its write frame on the elevation
 * array is given by the operator's declared flag (each implementation's own contract is checked
 * against this in its own group: routers and snapshots have `const` elevation frames, the two
 * resolvers assign it). kind indexes the flag table read from /repo. */
extern size_t UR_KINDS[16];
void op_apply_and_save(size_t kind, double *elevation, const double *save_elevation, size_t n)
__CPROVER_requires(kind < N_OPKINDS)
/* C16: what an elevation snapshot saves is the array the operators are working on (the corrected copy when one exists) */
__CPROVER_requires(save_elevation == elevation)
__CPROVER_assigns(OPS[kind].elevation_updated : __CPROVER_object_whole(elevation))
;
"""

update_routes = Unit(
    name="update_routes", file=INL_H,
    anchor=r"auto flow_graph<G, S, Tag>::update_routes\(const data_array_type& elevation\)\s*-> const data_array_type&",
    sig="const double *update_routes(_Bool m_writeable, _Bool ops_elevation_updated, size_t n_ops, const size_t *op_kinds, "
        "const double *elevation, double *m_elevation_copy, size_t n)",
    pre=UR_MODEL,
    rules=[
        R(r"throw std::runtime_error\(\"cannot update routes \(graph is read-only\)\"\);", "{ FSL_THROW(4); return (const double *) 0; }", 1),
        R(r"data_array_type\* elevation_ptr;", "double *elevation_ptr;", 1),
        V(r"m_operators\.elevation_updated\(\)", "ops_elevation_updated"),
        R(r"m_elevation_copy = elevation;", "FSL_ASSIGN_ALL(m_elevation_copy, elevation, n);", 1),
        R(r"elevation_ptr = &m_elevation_copy;", "elevation_ptr = m_elevation_copy;", 1),
        R(r"elevation_ptr = const_cast<data_array_type\*>\(&elevation\);", "elevation_ptr = (double *) elevation;", 1),
        R(r"for \(auto op = m_operators\.impl_begin\(\); op != m_operators\.impl_end\(\); \+\+op\)", "for (size_t op = 0; op != n_ops; ++op)", 1),
        R(r"op->apply\(\*m_impl_ptr, (\*?\w+), m_thread_pool\);\s*op->save\(\*m_impl_ptr, m_graph_impl_snapshots, (\*?\w+), m_elevation_snapshots\);",
          r"op_apply_and_save(op_kinds[op], FSL_ARR(\1), FSL_ARR(\2), n);", 1, re.S),
        V(r"FSL_ARR\(\*(\w+)\)", r"\1"),               # *ptr (a reference to the array) -> the array
        V(r"FSL_ARR\((\w+)\)", r"((double *) \1)"),      # a reference parameter -> the array
        R(r"return \*elevation_ptr;", "return elevation_ptr;", 1),
    ],
    contract=r"""
__CPROVER_requires(n > 0 && n <= ((size_t) 1 << 40) && n_ops <= 16)
__CPROVER_requires(__CPROVER_is_fresh(elevation, n * 8) && __CPROVER_is_fresh(m_elevation_copy, n * 8) && __CPROVER_is_fresh(op_kinds, 16 * 8))
__CPROVER_requires(fsl_thrown == 0 && EG < n)
/* the sequence flag is the disjunction of the operators' flags (add_operator contract), instantiated at every position */
__CPROVER_requires(UR_FLAG_CONSISTENT)
__CPROVER_assigns(__CPROVER_object_whole(m_elevation_copy), fsl_thrown)   /* C09: the argument is outside the write frame */
__CPROVER_ensures((fsl_thrown != 0) == !m_writeable)   /* C16: every route update on a read-only (snapshot) graph is refused */
__CPROVER_ensures(fsl_thrown == 0 ==> (__CPROVER_return_value == (ops_elevation_updated ? (const double *) m_elevation_copy : elevation)))  /* C20 */
""",
    loops={0: r"""
__CPROVER_assigns(op, __CPROVER_object_whole(m_elevation_copy))
__CPROVER_loop_invariant(op <= n_ops)
__CPROVER_decreases(n_ops - op)
"""},
)


def ur_consistent():
    return ("#define UR_FLAG_CONSISTENT (" +
            " && ".join("(%d < n_ops ==> (op_kinds[%d] < N_OPKINDS && (OPS[op_kinds[%d]].elevation_updated ==> ops_elevation_updated)))" % (k, k, k)
                        for k in range(16)) + ")\nsize_t EG;\n")


ASSIGN_ALL = r"""
/* xtensor whole-array assignment `dst = src;` (same shape): element-wise copy (assumed xtensor semantics) */
static inline void fsl_assign_all_d(double *dst, const double *src, size_t n)
{
    for (size_t k = 0; k < n; ++k)
        __CPROVER_assigns(k, __CPROVER_object_whole(dst))
        __CPROVER_loop_invariant(k <= n)
        __CPROVER_decreases(n - k)
    { dst[k] = src[k]; }
}
#define FSL_ASSIGN_ALL(dst, src, n) fsl_assign_all_d((dst), (src), (n))
"""

guard_set_base_levels = Unit(
    name="guard_set_base_levels", file=INL_H,
    anchor=r"void flow_graph<G, S, Tag>::set_base_levels\(C&& levels\)",
    sig="void guard_set_base_levels(_Bool m_writeable, _Bool *written)",
    rules=[R(r"throw std::runtime_error\(\"cannot set base levels \(graph is read-only\)\"\);", "{ FSL_THROW(5); return; }", 1),
           R(r"m_impl_ptr->set_base_levels\(levels\);", "*written = 1;", 1)],
    contract=r"""
__CPROVER_requires(__CPROVER_is_fresh(written, 1) && *written == 0 && fsl_thrown == 0)
__CPROVER_assigns(*written, fsl_thrown)
__CPROVER_ensures((fsl_thrown != 0) == !m_writeable)
__CPROVER_ensures(*written == m_writeable)
""",
)

guard_set_mask = Unit(
    name="guard_set_mask", file=INL_H,
    anchor=r"void flow_graph<G, S, Tag>::set_mask\(C&& mask\)",
    sig="void guard_set_mask(_Bool m_writeable, _Bool same_shape, _Bool *written)",
    rules=[R(r"throw std::runtime_error\(\"cannot set mask \(graph is read-only\)\"\);", "{ FSL_THROW(6); return; }", 1),
           R(r"throw std::runtime_error\(\"cannot set mask \(shape mismatch with grid shape\)\"\);", "{ FSL_THROW(7); return; }", 1),
           R(r"!xt::same_shape\(mask\.shape\(\), m_grid\.shape\(\)\)", "!same_shape", 1),
           R(r"m_impl_ptr->set_mask\(std::forward<C>\(mask\)\);", "*written = 1;", 1)],
    contract=r"""
__CPROVER_requires(__CPROVER_is_fresh(written, 1) && *written == 0 && fsl_thrown == 0)
__CPROVER_assigns(*written, fsl_thrown)
__CPROVER_ensures(!m_writeable ==> (fsl_thrown != 0 && !*written))
__CPROVER_ensures(m_writeable ==> ((fsl_thrown != 0) == !same_shape && *written == same_shape))
""",
)

snapshot_ctor = Unit(
    name="snapshot_graph_ctor", file=INL_H,
    anchor=r"flow_graph<G, S, Tag>::flow_graph\(grid_type& grid, bool single_flow\)",
    sig="_Bool snapshot_graph_ctor(void)",
    # the body only allocates the implementation; the property-relevant part is the mem-initialiser m_writeable(false)
    rules=[R(r"m_impl_ptr = std::make_shared<impl_type>\(grid, single_flow\);", "return FSL_SNAPSHOT_WRITEABLE_INIT;", 1)],
    contract=r"""
__CPROVER_assigns()
__CPROVER_ensures(__CPROVER_return_value == 0)
""",
)


def snapshot_writeable_init():
    """mem-initialiser list of the snapshot constructor: value given to m_writeable"""
    src = ex.strip_comments(open(os.path.join(ex.REPO, INL_H)).read())
    m = re.search(r"flow_graph<G, S, Tag>::flow_graph\(grid_type& grid, bool single_flow\)\s*:\s*(.*?)\{", src, re.S)
    if not m:
        raise ex.ExtractionError("snapshot constructor initialiser list not found")
    mm = re.search(r"m_writeable\((\w+)\)", m.group(1))
    if not mm:
        # not in the list: the default member initialiser applies
        return "1"
    return c_val(mm.group(1))


def H(fn, args, decls, ret=""):
    return r"""
size_t nondet_size_t(void); _Bool nondet_bool(void);
void h_%s(void)
{
    %s
    fsl_thrown = 0;
    %s%s(%s);
    __CPROVER_assert(0, "canary: postcondition point reachable");
}
""" % (fn, decls, ret, fn, args)


def groups():
    gs = []
    pre = MODEL + flags_table_c()
    update_snapshots.pre = pre
    gs.append(Group(name="opseq.update_snapshots", units=[update_snapshots], harness=H_ADD % dict(fn="update_snapshots"),
                    entry="h_update_snapshots", enforce="update_snapshots", timeout=120, min_obligations=20,
                    clause="graph snapshot refused iff no direction defined before it; keys appended in order; single-flow flag = direction at its position"))
    gs.append(Group(name="opseq.add_operator", units=[update_snapshots, add_operator], harness=H_ADD % dict(fn="add_operator"),
                    entry="h_add_operator", enforce="add_operator", replace=["update_snapshots"], timeout=120, min_obligations=20,
                    clause="one add_operator step of the sequence automaton, symbolic operator: refusal condition, direction, all-single, "
                           "graph/elevation-updated, snapshot registration (loop-free => sequences of any length)"))
    # the flag table itself: what the property says about each shipped operator
    table_h = MODEL + flags_table_c() + r"""
void h_flag_table(void)
{
    /* routers update the graph and define a direction; resolvers edit elevation; snapshots change nothing */
    __CPROVER_assert(OPS[0].graph_updated && OPS[0].out_flowdir == FD_single && !OPS[0].elevation_updated && OPS[0].in_flowdir == FD_undefined, "single_flow_router flags");
    __CPROVER_assert(OPS[1].graph_updated && OPS[1].out_flowdir == FD_multi && !OPS[1].elevation_updated && OPS[1].in_flowdir == FD_undefined, "multi_flow_router flags");
    __CPROVER_assert(OPS[2].elevation_updated && !OPS[2].graph_updated && OPS[2].in_flowdir == FD_undefined, "pflood_sink_resolver flags: edits elevation only");
    __CPROVER_assert(OPS[3].elevation_updated && OPS[3].graph_updated && OPS[3].in_flowdir == FD_single && OPS[3].out_flowdir == FD_single, "mst_sink_resolver flags: single in, single out, edits both");
    __CPROVER_assert(!OPS[4].elevation_updated && !OPS[4].graph_updated && OPS[4].in_flowdir == FD_undefined && OPS[4].out_flowdir == FD_undefined, "flow_snapshot flags: no effect");
    __CPROVER_assert(0, "canary: postcondition point reachable");
}
"""
    gs.append(Group(name="opseq.flag_table", units=[], harness=table_h, entry="h_flag_table", timeout=60, min_obligations=5,
                    clause="declared static flags of the five shipped operators (read from the class definitions)"))
    ctor_checks.pre = pre + r"""
/* flow_graph::single_flow() as seen from a caller: the contract proved by group opseq.single_flow */
_Bool ctor_single_flow(const struct opseq *ops, _Bool impl_single_flow)
__CPROVER_requires(impl_single_flow == ops->m_all_single_flow)
__CPROVER_assigns()
__CPROVER_ensures(__CPROVER_return_value == (ops->m_out_flowdir == FD_single))
;
"""
    gs.append(Group(name="opseq.ctor", units=[ctor_checks],
                    harness=H("flow_graph_ctor", "ops, a, b, c", "const struct opseq *ops; _Bool *a, *b, *c;").replace(
                        '    __CPROVER_assert(0, "canary', '    if (fsl_thrown == 77) { ctor_single_flow(ops, 0); } /* keep-alive, unreachable */\n    __CPROVER_assert(0, "canary'),
                    entry="h_flow_graph_ctor", enforce="flow_graph_ctor", replace=["ctor_single_flow"], timeout=60, min_obligations=5,
                    clause="construction refused iff no operator updates the graph or no direction is defined; implementation single-flow "
                           "flag = all-single; elevation copy allocated iff some operator edits elevation"))
    gs.append(Group(name="opseq.impl_width", units=[impl_width],
                    harness=H("impl_receivers_width", "nondet_bool(), nondet_size_t()", "", "size_t r = "),
                    entry="h_impl_receivers_width", enforce="impl_receivers_width", timeout=60, min_obligations=1,
                    clause="receiver table is single-column exactly when the implementation is single-flow"))
    single_flow.pre = pre
    gs.append(Group(name="opseq.single_flow", units=[single_flow],
                    harness=H("graph_single_flow", "ops, nondet_bool()", "const struct opseq *ops;", "_Bool r = "),
                    entry="h_graph_single_flow", enforce="graph_single_flow", timeout=60, min_obligations=1,
                    clause="reported flow direction = direction of the last direction-defining operator"))
    return gs


def ur_group():
    update_routes.pre = MODEL + flags_table_c() + ASSIGN_ALL + ur_consistent() + UR_MODEL
    return Group(name="opseq.update_routes", units=[update_routes],
                 harness=H("update_routes", "nondet_bool(), nondet_bool(), nondet_size_t(), k, e, c, nondet_size_t()",
                           "const size_t *k; const double *e; double *c; EG = nondet_size_t();", "const double *r = "),
                 entry="h_update_routes", enforce="update_routes", replace=["op_apply_and_save"], loop_contracts=True,
                 timeout=300, min_obligations=20,
                 clause="update_routes never has its argument in the write frame (operators run on the owned copy whenever any of them "
                        "edits elevation); returns the caller's array iff no operator edits elevation; refused iff the graph is read-only")


def guard_groups():
    snapshot_ctor.pre = "#define FSL_SNAPSHOT_WRITEABLE_INIT %s /* from the constructor's mem-initialiser list */\n" % snapshot_writeable_init()
    return [
        Group(name="snapshot.guard.set_base_levels", units=[guard_set_base_levels],
              harness=H("guard_set_base_levels", "nondet_bool(), w", "_Bool *w;"), entry="h_guard_set_base_levels",
              enforce="guard_set_base_levels", timeout=60, min_obligations=2, clause="set_base_levels refused iff read-only, before any write"),
        Group(name="snapshot.guard.set_mask", units=[guard_set_mask],
              harness=H("guard_set_mask", "nondet_bool(), nondet_bool(), w", "_Bool *w;"), entry="h_guard_set_mask",
              enforce="guard_set_mask", timeout=60, min_obligations=2, clause="set_mask refused iff read-only, before any write"),
        Group(name="snapshot.guard.ctor", units=[snapshot_ctor],
              harness=H("snapshot_graph_ctor", "", "", "_Bool r = "), entry="h_snapshot_graph_ctor",
              enforce="snapshot_graph_ctor", timeout=60, min_obligations=1, clause="snapshot graphs are created read-only"),
    ]


_G20 = groups()
_UR = ur_group()
for _g in _G20:
    _g.replay = "replay/opseq.cpp"
_UR.replay = "replay/snapshot.cpp"
_GUARDS = guard_groups()
GROUPS = {
    "C20": _G20 + [_UR],
    "C09": [_UR],
    "C16": _GUARDS + [_UR],
}
PROPS = {
    "C20": dict(
        level="proof",
        assumptions=["std::vector<string> keys / std::map<string,bool> modelled as bounded arrays over small integer names (capacity 8, "
                     "stated in requires); std::map::insert keeps the first value for a duplicate key",
                     "operator objects are represented by their static flags (read from the class definitions) and the snapshot parameters; "
                     "make_shared / type-erasure facade construction is glue"],
        unmechanised=["acceptance of a whole sequence = fold of the add_operator step contract over the sequence, followed by the constructor "
                      "check contract (both loop-free and proved for symbolic operator kinds, hence for sequences of any length)"],
    ),
    "C09": dict(level="other"),
    "C16": dict(level="other"),
}


# ------------------------------------------------------------------ move assignment / move construction of the sequence (C09, C20)
# The sequence summary (direction, all-single, graph/elevation-updated flags, snapshot keys) must survive a move: flow_graph is
# constructed from a moved sequence, and tests/bindings build sequences by move-assignment.
MOVE_FIELDS = ["m_elevation_updated", "m_graph_updated", "m_out_flowdir", "m_all_single_flow", "n_ops", "n_impls", "n_graph_keys", "n_elev_keys"]
MOVE_VOCAB = [
    V(r"m_op_vec = std::move\(operators\.m_op_vec\);", "s->n_ops = operators->n_ops;"),
    V(r"m_op_impl_vec = std::move\(operators\.m_op_impl_vec\);", "s->n_impls = operators->n_impls;"),
    V(r"m_graph_snapshot_keys = std::move\(operators\.graph_snapshot_keys\(\)\);", "s->n_graph_keys = operators->n_graph_keys; FSL_COPY_KEYS(s->graph_keys, operators->graph_keys);"),
    V(r"m_graph_snapshot_single_flow = std::move\(operators\.m_graph_snapshot_single_flow\);", "FSL_COPY_MAP(s, operators);"),
    V(r"m_elevation_snapshot_keys = std::move\(operators\.elevation_snapshot_keys\(\)\);", "s->n_elev_keys = operators->n_elev_keys; FSL_COPY_KEYS(s->elev_keys, operators->elev_keys);"),
    V(r"\bm_(elevation_updated|graph_updated|out_flowdir|all_single_flow) = operators\.(\w+)\(\);", r"s->m_\1 = operators->m_\2;"),
    V(r"return \*this;", "return;"),
]
MOVE_MODEL = r"""
#define FSL_COPY_KEYS(d, sarr) do { for (int k_ = 0; k_ < MAXKEYS; ++k_) (d)[k_] = (sarr)[k_]; } while (0)
#define FSL_COPY_MAP(d, sp) do { for (int k_ = 0; k_ < MAXNAMES; ++k_) { (d)->snap_present[k_] = (sp)->snap_present[k_]; (d)->snap_single[k_] = (sp)->snap_single[k_]; } } while (0)
"""
MOVE_POST = " && ".join("s->%s == __CPROVER_old(operators->%s)" % (f, f) for f in MOVE_FIELDS)

move_assign = Unit(
    name="opseq_move_assign", file=OP_H,
    anchor=r"flow_operator_sequence<FG>& operator=\(flow_operator_sequence<FG>&& operators\)",
    sig="void opseq_move_assign(struct opseq *s, const struct opinst *unused, const struct opseq *operators)",
    rules=MOVE_VOCAB,
    contract=r"""
__CPROVER_requires(__CPROVER_is_fresh(s, sizeof(*s)) && __CPROVER_is_fresh(operators, sizeof(*operators)))
__CPROVER_assigns(__CPROVER_object_whole(s))
/* C09/C20: every summary property of the sequence is carried over by a move */
__CPROVER_ensures(%s)
""" % MOVE_POST,
)


def _move_ctor_body():
    """mem-initialiser list of the move constructor, turned into assignments mechanically"""
    src = ex.strip_comments(open(os.path.join(ex.REPO, OP_H)).read())
    m = re.search(r"flow_operator_sequence\(flow_operator_sequence<FG>&& operators\)\s*:(.*?)\{\s*\}", src, re.S)
    if not m:
        raise ex.ExtractionError("move constructor of flow_operator_sequence not found")
    out = []
    for item in re.split(r",\s*(?=m_\w+\()", m.group(1).strip()):
        mm = re.match(r"(m_\w+)\((.*)\)\s*$", item.strip(), re.S)
        if not mm:
            raise ex.ExtractionError("move constructor: unexpected initialiser %r" % item)
        out.append("%s = %s;" % (mm.group(1), mm.group(2).strip()))
    return "\n".join(out) + "\n"


MOVE_CTOR_VOCAB = [
    V(r"m_op_vec = std::move\(operators\.m_op_vec\);", "s->n_ops = operators->n_ops;"),
    V(r"m_op_impl_vec = std::move\(operators\.m_op_impl_vec\);", "s->n_impls = operators->n_impls;"),
    V(r"m_graph_snapshot_keys = operators\.graph_snapshot_keys\(\);", "s->n_graph_keys = operators->n_graph_keys; FSL_COPY_KEYS(s->graph_keys, operators->graph_keys);"),
    V(r"m_graph_snapshot_single_flow = operators\.m_graph_snapshot_single_flow;", "FSL_COPY_MAP(s, operators);"),
    V(r"m_elevation_snapshot_keys = operators\.elevation_snapshot_keys\(\);", "s->n_elev_keys = operators->n_elev_keys; FSL_COPY_KEYS(s->elev_keys, operators->elev_keys);"),
    V(r"\bm_(elevation_updated|graph_updated|out_flowdir|all_single_flow) = operators\.(\w+)\(\);", r"s->m_\1 = operators->m_\2;"),
]


def move_groups():
    import fv.extract as fx
    move_assign.pre = MODEL + MOVE_MODEL
    # default member initialisers apply to members the constructor's list does not mention: none is left implicit in the contract
    ctor_text = _move_ctor_body()
    for r in MOVE_CTOR_VOCAB:
        ctor_text = re.sub(r.pat, r.repl, ctor_text)
    for pat, what in fx.RESIDUAL:
        if re.search(pat, ctor_text):
            raise fx.ExtractionError("move constructor initialiser list: residual C++ (%s): %r" % (what, ctor_text))
    ctor_fn = (MODEL + MOVE_MODEL + "void opseq_move_ctor(struct opseq *s, const struct opseq *operators)\n"
               "__CPROVER_requires(__CPROVER_is_fresh(s, sizeof(*s)) && __CPROVER_is_fresh(operators, sizeof(*operators)))\n"
               "__CPROVER_assigns(__CPROVER_object_whole(s))\n__CPROVER_ensures(%s)\n{\n"
               "/* default member initialisers (flow_operator.hpp:422-425), overridden by the list below */\n"
               "s->m_elevation_updated = 0; s->m_graph_updated = 0; s->m_out_flowdir = FD_undefined; s->m_all_single_flow = 1; s->n_ops = 0; s->n_impls = 0; s->n_graph_keys = 0; s->n_elev_keys = 0;\n"
               "/* mem-initialiser list of the move constructor, mechanically turned into assignments */\n%s}\n" % (MOVE_POST, ctor_text))
    g1 = Group(name="opseq.move_assign", units=[move_assign],
               harness=H("opseq_move_assign", "a, (const struct opinst *) 0, b", "struct opseq *a; const struct opseq *b;"),
               entry="h_opseq_move_assign", enforce="opseq_move_assign", unwind=MAXK + 2, timeout=120, min_obligations=8,
               clause="move assignment of an operator sequence carries over direction, all-single, graph/elevation-updated flags and the key lists")
    g2 = Group(name="opseq.move_ctor", units=[], harness=ctor_fn + H("opseq_move_ctor", "a, b", "struct opseq *a; const struct opseq *b;"),
               entry="h_opseq_move_ctor", enforce="opseq_move_ctor", unwind=MAXK + 2, timeout=120, min_obligations=8,
               clause="move construction of an operator sequence (the way flow_graph receives it) carries over the same summary")
    return [g1, g2]


MAXK = 8
_MV = move_groups()
for _g in _MV:
    _g.replay = "replay/opseq.cpp"
GROUPS["C20"] = GROUPS["C20"] + _MV
GROUPS["C09"] = GROUPS["C09"] + _MV
