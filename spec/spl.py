"""Stream-power eroder (eroders/spl.hpp).  Properties C12 (erosion sign / no slope reversal / rejection of
n != 1 on multiple-direction graphs) and C13 (classification of the linear case, Newton exit).

Units (all extracted mechanically from /repo on every run):
  spl_set_slope_exp   spl_eroder::set_slope_exp                         spl.hpp:177-188
  spl_set_area_exp    spl_eroder::set_area_exp                          spl.hpp:160-164
  spl_ctor            spl_eroder constructor (mem-initialisers + body)  spl.hpp:103-114
  spl_newton_branch   the `else { ... }` branch of erode (Newton-Raphson on the elevation drop)   spl.hpp:321-352
  spl_recv_step       the body of the SECOND receiver loop of erode (one receiver's contribution to the discrete equation:
                      all the multiplications / pow / the Newton call), outlined                  spl.hpp:292-353
  spl_node_step       the body of `for (inode : nodes_indices_bottomup())` in erode, outlined as a function of the node; its
                      `continue`s (outside nested loops) become `return`; the second receiver loop's body is a call to
                      spl_recv_step                                      spl.hpp:254-367
  spl_erode           erode() with that body replaced by a call to spl_node_step; closed by a loop contract over an
                      arbitrary ghost node                               spl.hpp:240-370

Ghost state: G an arbitrary node; POS the inverse of the bottom-up order (order contract of C06, assumed); captured at G's
own iteration: SPL_NX[k] the post-erosion elevation of G's k-th receiver as the code computes it in the first receiver loop,
SPL_GE[k]/SPL_GER[k] its operands, SPL_H/SPL_U/SPL_ER the operands and the value of the final store erosion = h - u;
SPL_N_* the value last tested against the tolerance in the Newton loop.  The C12 clauses are comparisons between these
computed values (DESIGN 3.4: never two copies of one floating-point circuit); that the captured values are the stated
differences is the separate group spl.step.defs.  std::pow is fsl_pow (assumed contract of models/fsl.h)."""
import os
import re

from fv import extract as ex
from fv.extract import Unit, R, V, RB
from fv.runner import Group
from spec.graphmodel import conj, disj, NMAX_NODES

SPL_H = "include/fastscapelib/eroders/spl.hpp"

COMMON = r"""
#define SAME_D(x, y) ((x) == (y) || (isnan(x) && isnan(y)))
#define FINITE_D(x) (!isnan(x) && !isinf(x))
/* C13 linear_classification, written independently of the code: |n - 1| <= eps  <=>  1 - eps <= n <= 1 + eps
 * (both bounds are doubles; n - 1 is exact for n in [1/2, 2], and |n - 1| >= 2 eps outside the interval) */
#define SPL_LINEAR_SPEC(n) (1.0 - DBL_EPSILON <= (n) && (n) <= 1.0 + DBL_EPSILON)
"""

THROW = V(r"throw std::(?:invalid_argument|runtime_error)\(\s*\"[^;]*\);", "{ FSL_THROW(8); return; }", re.S)
MEMBERS = V(r"\bm_(area_exp|slope_exp|tolerance|linear)\b", r"(*m_\1)")
SINGLE_FLOW = V(r"\b(?:m_flow_graph|flow_graph)\.single_flow\(\)", "graph_single_flow")

# ------------------------------------------------------------------------------------------ setters
SETTER_LEMMAS = {
    "classification": "__CPROVER_ensures((*m_linear != 0) == SPL_LINEAR_SPEC(value))   /* C13 linear_classification */\n"
                      "__CPROVER_ensures(SAME_D(*m_slope_exp, value))\n",
    "rejection": "__CPROVER_ensures((fsl_thrown != 0) == (!SPL_LINEAR_SPEC(value) && !graph_single_flow))   /* C12 reject_nonlinear_multi */\n",
}


def make_set_slope_exp(lemmas=("classification", "rejection")):
    return Unit(
        name="spl_set_slope_exp", file=SPL_H,
        anchor=r"void set_slope_exp\(double value\)",
        # the other scalar members of the eroder are in scope too (vocabulary): a body that reads them still extracts
        sig="void spl_set_slope_exp(double value, double *m_slope_exp, _Bool *m_linear, _Bool graph_single_flow, const double *m_tolerance, const double *m_area_exp)",
        pre=COMMON, rules=[THROW, SINGLE_FLOW, MEMBERS],
        contract=r"""
__CPROVER_requires(__CPROVER_is_fresh(m_slope_exp, 8) && __CPROVER_is_fresh(m_linear, 1) && fsl_thrown == 0)
__CPROVER_requires(__CPROVER_is_fresh(m_tolerance, 8) && __CPROVER_is_fresh(m_area_exp, 8))
__CPROVER_assigns(*m_slope_exp, *m_linear, fsl_thrown)
""" + "".join(SETTER_LEMMAS[l] for l in lemmas),
    )


set_area_exp = Unit(
    name="spl_set_area_exp", file=SPL_H,
    anchor=r"void set_area_exp\(double value\)",
    sig="void spl_set_area_exp(double value, double *m_area_exp)",
    rules=[THROW, MEMBERS],
    contract=r"""
__CPROVER_requires(__CPROVER_is_fresh(m_area_exp, 8))
__CPROVER_assigns(*m_area_exp, fsl_thrown)
__CPROVER_ensures(SAME_D(*m_area_exp, value))
""",
)

# ------------------------------------------------------------------------------------------ constructor
_INIT = r"\w+\s*(?:\((?:[^()]|\((?:[^()]|\([^()]*\))*\))*\)|\{[^{}]*\})"
CTOR_ANCHOR = (r"spl_eroder\(\s*FG& flow_graph, K&& k_coef, double area_exp, double slope_exp, double tolerance = 1e-3\)"
               r"\s*(?::\s*(?P<inits>%s(?:\s*,\s*%s)*))?\s*\{" % (_INIT, _INIT))
CTOR_MEMBERS = ("m_area_exp", "m_slope_exp", "m_tolerance", "m_linear")


def _translate(expr):
    """an initialiser expression -> C (same generic rules as for bodies, same vocabulary)"""
    for r in [SINGLE_FLOW] + ex.GENERIC_RULES:
        expr = re.sub(r.pat, r.repl, expr)
    for pat, what in ex.RESIDUAL:
        if re.search(pat, expr):
            raise ex.ExtractionError("spl constructor initialiser %r: residual C++ (%s)" % (expr, what))
    return expr


def ctor_prefix():
    """default member initialisers of the class and the constructor's mem-initialiser list, for the
    scalar members the contract speaks about, as C assignments executed before the body"""
    try:
        src = ex.strip_comments(open(os.path.join(ex.REPO, SPL_H)).read())
    except OSError:
        return ""
    out = []
    for m in re.finditer(r"^\s*(?:double|bool|data_type)\s+(m_\w+)\s*(?:=\s*([^;{}]+)|\{([^{}]*)\})\s*;", src, re.M):
        if m.group(1) in CTOR_MEMBERS:
            out.append("*%s = (%s); /* default member initialiser */" % (m.group(1), _translate(m.group(2) or m.group(3))))
    mm = re.search(CTOR_ANCHOR, src, re.S)
    if mm and mm.group("inits"):
        for m in re.finditer(r"(\w+)\s*(?:\(((?:[^()]|\((?:[^()]|\([^()]*\))*\))*)\)|\{([^{}]*)\})", mm.group("inits")):
            if m.group(1) in CTOR_MEMBERS:
                e = m.group(2) if m.group(2) is not None else m.group(3)
                out.append("*%s = (%s); /* mem-initialiser */" % (m.group(1), _translate(e)))
    return "\n".join(out) + "\n"


def make_ctor():
    return Unit(
        name="spl_ctor", file=SPL_H, anchor=CTOR_ANCHOR,
        sig="void spl_ctor(double area_exp, double slope_exp, double tolerance, _Bool graph_single_flow, double *m_area_exp, "
            "double *m_slope_exp, double *m_tolerance, _Bool *m_linear, _Bool *k_coef_set, _Bool *erosion_allocated)",
        body_prefix=ctor_prefix(),
        rules=[THROW, SINGLE_FLOW, MEMBERS,
               V(r"\bset_k_coef\(k_coef\);", "*k_coef_set = 1; /* broadcast / flatten of the erodibility: glue */"),
               V(r"\bset_area_exp\(([^();]*)\);", r"spl_set_area_exp(\1, m_area_exp); if (fsl_thrown) return;"),
               V(r"\bset_slope_exp\(([^();]*)\);", r"spl_set_slope_exp(\1, m_slope_exp, m_linear, graph_single_flow, m_tolerance, m_area_exp); if (fsl_thrown) return; /* exception propagates */"),
               V(r"\bm_erosion\.resize\(m_shape\);", "*erosion_allocated = 1;"),
               V(r"\bm_erosion = xt::zeros<\w+>\(m_shape\);", "*erosion_allocated = 1;")],
        contract=r"""
__CPROVER_requires(__CPROVER_is_fresh(m_area_exp, 8) && __CPROVER_is_fresh(m_slope_exp, 8) && __CPROVER_is_fresh(m_tolerance, 8))
__CPROVER_requires(__CPROVER_is_fresh(m_linear, 1) && __CPROVER_is_fresh(k_coef_set, 1) && __CPROVER_is_fresh(erosion_allocated, 1))
__CPROVER_requires(fsl_thrown == 0 && *erosion_allocated == 0)
__CPROVER_assigns(*m_area_exp, *m_slope_exp, *m_tolerance, *m_linear, *k_coef_set, *erosion_allocated, fsl_thrown)
/* C12: construction with n != 1 on a multiple-direction graph is refused -- the rejection is evaluated on the construction path */
__CPROVER_ensures((fsl_thrown != 0) == (!SPL_LINEAR_SPEC(slope_exp) && !graph_single_flow))
/* C13: a constructed eroder is classified, and carries the parameters it was given */
__CPROVER_ensures(fsl_thrown == 0 ==> ((*m_linear != 0) == SPL_LINEAR_SPEC(slope_exp)))
__CPROVER_ensures(fsl_thrown == 0 ==> (SAME_D(*m_slope_exp, slope_exp) && SAME_D(*m_area_exp, area_exp) && SAME_D(*m_tolerance, tolerance)))
__CPROVER_ensures(fsl_thrown == 0 ==> *erosion_allocated != 0)
""",
    )


H_SETTER = r"""
double nondet_double(void); _Bool nondet_bool(void);
void h_spl_set_slope_exp(void)
{
    double *m_slope_exp; _Bool *m_linear; const double *m_tolerance, *m_area_exp;
    fsl_thrown = 0;
    spl_set_slope_exp(nondet_double(), m_slope_exp, m_linear, nondet_bool(), m_tolerance, m_area_exp);
    __CPROVER_assert(0, "canary: postcondition point reachable");
}
"""
H_CTOR = r"""
double nondet_double(void); _Bool nondet_bool(void);
void h_spl_ctor(void)
{
    double *a, *s, *t; _Bool *l, *k, *e;
    fsl_thrown = 0;
    spl_ctor(nondet_double(), nondet_double(), nondet_double(), nondet_bool(), a, s, t, l, k, e);
    __CPROVER_assert(0, "canary: postcondition point reachable");
}
"""

# ------------------------------------------------------------------------------------------ erode: shared pieces
ERODE_ANCHOR = (r"auto spl_eroder<FG, S>::erode\(const data_array_type& elevation,\s*const data_array_type& drainage_area,\s*"
                r"double dt\) -> const data_array_type&")
NODE_LOOP = r"for \(const auto& inode : flow_graph_impl\.nodes_indices_bottomup\(\)\)"


def _continue_to_return(m):
    """`continue;` of the outlined loop body -> `return;`, but only outside nested loops (a `continue` inside an inner
    for/while belongs to that loop and is kept)."""
    body = m.group(0)
    spans = []
    for kind, start, ins in ex.find_loops(body):
        spans.append((start, ex.loop_end(body, (kind, start, ins))))
    out, last = [], 0
    for c in re.finditer(r"\bcontinue;", body):
        if any(a <= c.start() <= b for a, b in spans):
            continue
        out.append(body[last:c.start()] + "return; /* `continue` of the outlined loop body */")
        last = c.end()
    out.append(body[last:])
    return "".join(out)


OUTLINE_CONTINUE = R(r"\A.*\Z", _continue_to_return, 1, re.S)


def outline_loop_block(n, repl):
    """structural rule: the brace block of the n-th loop that is not nested in another loop is replaced by `repl`
    (its header is kept) -- RB for a loop header that occurs more than once"""
    def f(m):
        body = m.group(0)
        loops = [(k, s0, ins, ex.loop_end(body, (k, s0, ins))) for (k, s0, ins) in ex.find_loops(body)]
        top = [l for l in loops if not any(o[1] < l[1] and l[3] <= o[3] for o in loops if o is not l)]
        if len(top) <= n:
            raise ex.ExtractionError("outline_loop_block: only %d top-level loops, need loop %d" % (len(top), n))
        kind, s0, ins, end = top[n]
        ob = body.index("{", ins)
        if body[ins:ob].strip():
            raise ex.ExtractionError("outline_loop_block: loop %d has no brace block" % n)
        cb = ex.match_brace(body, ob)
        return body[:ob] + repl + "\n" * body.count("\n", ob, cb + 1) + body[cb + 1:]
    return R(r"\A.*\Z", f, 1, re.S)

LOCALS = [
    V(r"\breceivers_count\[([^\[\]]+)\]", r"receivers_count(\1)"),
    # `auto` locals of erode: the receiver count is a size_type, every other one a floating-point value
    V(r"\bauto (\w+) = receivers_count", r"size_t \1 = receivers_count"),
    V(r"\bauto (\w+) =", r"double \1 ="),
    V(r"\bm_n_corr\b", "(*m_n_corr)"),
]

GHOSTS = r"""
size_t G;                       /* an arbitrary node (DESIGN 3.1) */
double SPL_H, SPL_U, SPL_ER;    /* node G: operands of the store `erosion = h - u` and the value stored */
#ifdef REC_W
/* node G, receiver slot r: the post-erosion elevation of the receiver as the code computes it in the first receiver loop
 * (SPL_NX[r] = elevation[rec] - erosion[rec]) and its two operands.  The specification speaks about these computed values
 * (DESIGN 3.4: no arithmetic circuit twice); that SPL_NX is the difference of its captured operands is a separate group. */
double SPL_NX[REC_W], SPL_GE[REC_W], SPL_GER[REC_W];
#endif
double SPL_N_FUNC, SPL_N_AT;    /* Newton loop: the residual last tested against the tolerance, and the drop it was computed at */
double SPL_N_DELTA, SPL_N_DELTA0; /* Newton branch: final and initial drop */
"""

ACCESSORS = r"""
/* instantiate-on-read of the graph's well-formedness (C05/C06 producer contracts, assumed): a node has at most REC_W
 * receivers; a receiver slot below the count holds a node index; the node is its own receiver only as its single receiver
 * (outlet / pit).  (That every other receiver comes earlier in the bottom-up order -- the order contract, ghost POS -- is
 * needed for the ghost node in the sweep only and is a precondition of spl_erode.) */
static inline size_t spl_rcount(const size_t *rc, size_t n, size_t i)
{
    size_t v = rc[FSL_IDX1(i, n)];
    FSL_PRE(v <= REC_W);
    return v;
}
static inline size_t spl_rec(const size_t *rec, const size_t *rc, size_t n, size_t i, size_t j)
{
    size_t v = rec[FSL_IDX2(i, j, n, REC_W)];
    FSL_PRE(!(j < rc[i]) || (v < n && (v != i || rc[i] == 1)));
    return v;
}
"""

STEP_DEFS = r"""
#define receivers(i, j) spl_rec(m_receivers, m_receivers_count, gsize, (i), (j))
#define receivers_count(i) spl_rcount(m_receivers_count, gsize, (i))
#define receivers_distance(i, j) m_receivers_distance[FSL_IDX2(i, j, gsize, REC_W)]
#define receivers_weight(i, j) m_receivers_weight[FSL_IDX2(i, j, gsize, REC_W)]
#define m_k_coef(i) m_k_coef_[FSL_IDX1(i, gsize)]
"""

PRED = r"""
#define REC(x, k) m_receivers[(x) * REC_W + (k)]
#define CNT(x) m_receivers_count[(x)]
/* post-erosion elevation of the k-th receiver of the ghost node (captured value, see SPL_NX) */
#define NEXT(x, k) SPL_NX[k]
#define TERMINAL(x) (CNT(x) == 1 && REC(x, 0) == (x))
"""


def NEXT_OK(w):
    return conj("%k < CNT(G) ==> !isnan(NEXT(G, %k))", w)


def LAKE(w):
    """at or below the level of the lowest receiver (post-erosion elevations of this sweep)"""
    return conj("%k < CNT(G) ==> elevation[G] <= NEXT(G, %k)", w)


def FLOOR_U(w):
    """u >= min over receivers of their post-erosion elevation"""
    return disj("%k < CNT(G) && SPL_U >= NEXT(G, %k)", w)


def FLOOR_RET(w):
    """the caller's new elevation of G (elevation - erosion) is not below the lowest post-erosion receiver"""
    return disj("%k < CNT(G) && SPL_H - SPL_ER >= NEXT(G, %k)", w)


def OPERANDS(w):
    """the captured operands are the table cells: elevation and (current) erosion of the k-th receiver"""
    return conj("%k < CNT(G) ==> (SPL_GE[%k] == elevation[REC(G, %k)] && SAME_D(SPL_GER[%k], m_erosion[REC(G, %k)]))", w)


def NEXT_DEF(w):
    return conj("%k < CNT(G) ==> SAME_D(SPL_NX[%k], SPL_GE[%k] - SPL_GER[%k])", w)


GHOST_ASSIGNS = "SPL_H, SPL_U, SPL_ER, __CPROVER_object_whole(SPL_NX), __CPROVER_object_whole(SPL_GE), __CPROVER_object_whole(SPL_GER)"


PARAMS = ("size_t gsize, const size_t *m_receivers, const size_t *m_receivers_count, "
          "const double *m_receivers_distance, const double *m_receivers_weight, const double *elevation, const double *drainage_area, "
          "const double *m_k_coef_, double *m_erosion, size_t *m_n_corr, double dt, double m_area_exp, double m_slope_exp, "
          "double m_tolerance, _Bool m_linear")
ARGS = ("gsize, m_receivers, m_receivers_count, m_receivers_distance, m_receivers_weight, elevation, drainage_area, "
        "m_k_coef_, m_erosion, m_n_corr, dt, m_area_exp, m_slope_exp, m_tolerance, m_linear")

FRESH = r"""
__CPROVER_requires(0 < gsize && gsize <= %s)
__CPROVER_requires(__CPROVER_is_fresh(m_receivers, gsize * REC_BYTES) && __CPROVER_is_fresh(m_receivers_count, gsize * 8))
__CPROVER_requires(__CPROVER_is_fresh(m_receivers_distance, gsize * REC_BYTES) && __CPROVER_is_fresh(m_receivers_weight, gsize * REC_BYTES))
__CPROVER_requires(__CPROVER_is_fresh(elevation, gsize * 8) && __CPROVER_is_fresh(drainage_area, gsize * 8) && __CPROVER_is_fresh(m_k_coef_, gsize * 8))
__CPROVER_requires(__CPROVER_is_fresh(m_erosion, gsize * 8) && __CPROVER_is_fresh(m_n_corr, 8))
""" % NMAX_NODES

# The receiver step is called from the node step with the node step's own (is_fresh) tables.  Its contract asks for what its
# body needs -- readable tables of the stated sizes -- as validity predicates, which are cheap to establish at the call site;
# its own group allocates the tables in the harness.
VALID = r"""
__CPROVER_requires(0 < gsize && gsize <= %s)
__CPROVER_requires(__CPROVER_r_ok(m_receivers, gsize * REC_BYTES) && __CPROVER_r_ok(m_receivers_count, gsize * 8))
__CPROVER_requires(__CPROVER_r_ok(m_receivers_distance, gsize * REC_BYTES) && __CPROVER_r_ok(m_receivers_weight, gsize * REC_BYTES))
__CPROVER_requires(__CPROVER_r_ok(elevation, gsize * 8) && __CPROVER_r_ok(drainage_area, gsize * 8) && __CPROVER_r_ok(m_k_coef_, gsize * 8))
__CPROVER_requires(__CPROVER_r_ok(m_erosion, gsize * 8))
""" % NMAX_NODES

VALID_RW = VALID.replace("__CPROVER_requires(__CPROVER_r_ok(m_erosion, gsize * 8))", "__CPROVER_requires(__CPROVER_rw_ok(m_erosion, gsize * 8) && __CPROVER_rw_ok(m_n_corr, 8))") + r"""
/* the arrays written are not the arrays read (erode() writes its own members) */
__CPROVER_requires(!__CPROVER_same_object(m_erosion, elevation) && !__CPROVER_same_object(m_erosion, m_receivers) && !__CPROVER_same_object(m_erosion, m_receivers_count) && !__CPROVER_same_object(m_erosion, m_n_corr))
__CPROVER_requires(!__CPROVER_same_object(m_n_corr, elevation) && !__CPROVER_same_object(m_n_corr, m_receivers) && !__CPROVER_same_object(m_n_corr, m_receivers_count))
"""

ALLOC = r"""
    __CPROVER_assume(0 < gsize && gsize <= %s);
    /* the tables are allocated here (the receiver step's contract asks for validity, not freshness) */
    const size_t *m_receivers = malloc(gsize * REC_BYTES), *m_receivers_count = malloc(gsize * 8);
    const double *m_receivers_distance = malloc(gsize * REC_BYTES), *m_receivers_weight = malloc(gsize * REC_BYTES);
    const double *elevation = malloc(gsize * 8), *drainage_area = malloc(gsize * 8), *m_k_coef_ = malloc(gsize * 8);
    double *m_erosion = malloc(gsize * 8); size_t *m_n_corr = malloc(8);
    __CPROVER_assume(m_receivers && m_receivers_count && m_receivers_distance && m_receivers_weight && elevation && drainage_area && m_k_coef_ && m_erosion && m_n_corr);
""" % NMAX_NODES


def ghost_requires(w, order=False):
    """instance of the graph's well-formedness at the ghost node (same predicate as the accessors assume on read); with
    order=True also the order contract: a receiver other than the node itself comes earlier in the bottom-up order"""
    earlier = " && POS[REC(G, %k)] < POS[G]" if order else ""
    return r"""
/* the ghost node and the instance of the graph's well-formedness at it; finite elevations at G and its receivers
 * (quantifier of the property: every finite elevation field) */
__CPROVER_requires(G < gsize && CNT(G) <= REC_W && FINITE_D(elevation[G]))
__CPROVER_requires(%s)
""" % conj("%k < CNT(G) ==> (REC(G, %k) < gsize && FINITE_D(elevation[REC(G, %k)]) && ((REC(G, %k) == G && CNT(G) == 1) || (REC(G, %k) != G" + earlier + ")))", w)


NEWTON_GHOST_ASSIGNS = "SPL_N_FUNC, SPL_N_AT, SPL_N_DELTA, SPL_N_DELTA0"

# ------------------------------------------------------------------------------------------ Newton branch
NEWTON_PARAMS = "double factor, double irec_distance, double m_slope_exp, double m_tolerance, double inode_elevation, double irec_elevation_next, double eq_num"
NEWTON_CALL = "{ eq_num = spl_newton_branch(factor, irec_distance, m_slope_exp, m_tolerance, inode_elevation, irec_elevation_next, eq_num); }"

NEWTON_RULES = [
    # ghost capture of the residual the loop tests against the tolerance, at the point where it is computed
    R(r"(auto func = [^;]*;)", r"\1 FSL_GHOST(SPL_N_FUNC = func; SPL_N_AT = delta_k;)", 1),
] + LOCALS

NEWTON_LEMMAS = {
    # C13 newton_exit, from the property: "within the configured Newton tolerance" = |residual| <= tolerance at a
    # normal exit (the loop is also left when the drop reaches 0: erosion limited)
    "exit": dict(
        requires="",
        invariant="__CPROVER_loop_invariant(1 == 1)\n",
        # NaN residual / drop = non-finite operands (extreme K dt products): outside this clause, known finding F12
        # (a NaN tolerance is not a configuration: excluded in the same way)
        ensures="__CPROVER_ensures(isnan(m_tolerance) || isnan(SPL_N_FUNC) || isnan(SPL_N_DELTA) || SPL_N_DELTA <= 0 || (SAME_D(SPL_N_AT, SPL_N_DELTA) && SPL_N_FUNC <= m_tolerance))   /* C13 newton_exit: residual <= tolerance at the returned drop */\n"
                "__CPROVER_ensures(isnan(m_tolerance) || isnan(SPL_N_FUNC) || isnan(SPL_N_DELTA) || SPL_N_DELTA <= 0 || SPL_N_FUNC >= -m_tolerance)   /* C13 newton_exit: residual >= -tolerance (|residual| within the tolerance) */\n"),
    # u = h - (delta_0 - delta), delta_0 = h - h'_r
    "shape": dict(
        requires="",
        invariant="__CPROVER_loop_invariant(1 == 1)\n",
        ensures="__CPROVER_ensures(SAME_D(SPL_N_DELTA0, inode_elevation - irec_elevation_next))\n"
                "__CPROVER_ensures(SAME_D(__CPROVER_return_value, inode_elevation - (SPL_N_DELTA0 - SPL_N_DELTA)))\n"),
    # the drop stays a positive number and only decreases (what termination and `erosion >= 0` rest on)
    "progress": dict(
        requires="__CPROVER_requires(FINITE_D(factor) && factor >= 0 && FINITE_D(irec_distance) && irec_distance > 0 && FINITE_D(m_slope_exp) && m_slope_exp > 0)\n"
                 "__CPROVER_requires(FINITE_D(m_tolerance) && m_tolerance >= 0 && FINITE_D(inode_elevation) && FINITE_D(irec_elevation_next) && inode_elevation > irec_elevation_next)\n",
        invariant="__CPROVER_loop_invariant(delta_k > 0 && delta_k <= delta_0)   /* C13: the drop is a positive number that only decreases */\n",
        ensures="__CPROVER_ensures(SPL_N_DELTA <= SPL_N_DELTA0)\n"),
}


def make_newton(lemma="exit"):
    L = NEWTON_LEMMAS[lemma]
    return Unit(
        name="spl_newton_branch", file=SPL_H, anchor=ERODE_ANCHOR, inner=r"\belse\b",
        sig="double spl_newton_branch(%s)" % NEWTON_PARAMS,
        pre=COMMON + GHOSTS, rules=NEWTON_RULES,
        body_suffix="FSL_GHOST(SPL_N_DELTA = delta_k; SPL_N_DELTA0 = delta_0;)\nreturn eq_num; /* the only value live after the branch */\n",
        contract=L["requires"] + "__CPROVER_assigns(%s)\n" % NEWTON_GHOST_ASSIGNS + L["ensures"],
        loops={0: "__CPROVER_assigns(delta_k, SPL_N_FUNC, SPL_N_AT)\n" + L["invariant"]},
    )


H_NEWTON = r"""
double nondet_double(void);
void h_spl_newton_branch(void)
{
    SPL_N_FUNC = nondet_double(); SPL_N_AT = nondet_double(); SPL_N_DELTA = nondet_double(); SPL_N_DELTA0 = nondet_double();
    double r = spl_newton_branch(nondet_double(), nondet_double(), nondet_double(), nondet_double(), nondet_double(), nondet_double(), nondet_double());
    __CPROVER_assert(0, "canary: postcondition point reachable");
}
"""

# ------------------------------------------------------------------------------------------ receiver step (2nd receiver loop)
RECV_INNER = r"double eq_den = [^;]*;\s*for \(size_type r = 0; r < r_count; \+\+r\)"
RECV_PARAMS = "size_t r, size_t inode, double inode_elevation, double *eq_num_p, double *eq_den_p, "
RECV_CALL = "{ spl_recv_step(r, inode, inode_elevation, &eq_num, &eq_den, %s); }"

RECV_LEMMAS = {
    "frame": "",
    # the discrete equation's numerator and denominator stay finite numbers (what a finite, meaningful erosion rests on)
    "number": "__CPROVER_ensures(FINITE_D(*eq_num_p) && FINITE_D(*eq_den_p))   /* C12: numerator and denominator of the discrete equation are finite numbers */\n",
    # C12 `never returns negative erosion`: the new elevation is a weighted mean of the node's elevation and the receivers' next elevations; a receiver
    # standing ABOVE the node (a lake spill seen from its flank) would pull the node UP, so it must not enter the sums (seeded change C12_3)
    "uphill": "__CPROVER_ensures(elevation[REC(inode, r)] > inode_elevation ==> (SAME_D(*eq_num_p, __CPROVER_old(*eq_num_p)) && SAME_D(*eq_den_p, __CPROVER_old(*eq_den_p))))"
              "   /* C12: a receiver above the node contributes nothing */\n",
}


def make_recv(w, lemma="frame", extra_requires=""):
    return Unit(
        name="spl_recv_step", file=SPL_H, anchor=ERODE_ANCHOR, inner=RECV_INNER,
        sig="void spl_recv_step(%s%s)" % (RECV_PARAMS, PARAMS),
        pre=ACCESSORS + PRED, defs=STEP_DEFS,
        body_prefix="double eq_num = *eq_num_p, eq_den = *eq_den_p; /* locals of the enclosing iteration, passed by reference */\n",
        body_suffix="spl_recv_out: *eq_num_p = eq_num; *eq_den_p = eq_den;\n",
        rules=[V(r"\bcontinue;", "goto spl_recv_out; /* `continue` of the outlined loop body */"),
               RB(r"\belse\b", NEWTON_CALL)] + LOCALS,
        contract=VALID + r"""
__CPROVER_requires(__CPROVER_rw_ok(eq_num_p, 8) && __CPROVER_rw_ok(eq_den_p, 8))
__CPROVER_requires(inode < gsize && r < CNT(inode) && CNT(inode) <= REC_W)
""" + extra_requires + "__CPROVER_assigns(*eq_num_p, *eq_den_p, %s)\n" % NEWTON_GHOST_ASSIGNS + RECV_LEMMAS[lemma],
    )


H_RECV = r"""
#include <stdlib.h>
size_t nondet_size_t(void); _Bool nondet_bool(void); double nondet_double(void);
void h_spl_recv_step(void)
{
    size_t gsize = nondet_size_t();
%s
    double eq_num = nondet_double(), eq_den = nondet_double();
    double dt = nondet_double(), m_area_exp = nondet_double(), m_slope_exp = nondet_double(), m_tolerance = nondet_double();
    _Bool m_linear = nondet_bool();
    SPL_N_FUNC = nondet_double(); SPL_N_AT = nondet_double(); SPL_N_DELTA = nondet_double(); SPL_N_DELTA0 = nondet_double();
    spl_recv_step(nondet_size_t(), nondet_size_t(), nondet_double(), &eq_num, &eq_den, %s);
    __CPROVER_assert(0, "canary: postcondition point reachable");
}
""" % (ALLOC, ARGS)

# ------------------------------------------------------------------------------------------ node step
STEP_RULES = LOCALS + [   # vocabulary first: the call texts inserted below pass m_n_corr as a pointer
    OUTLINE_CONTINUE,
    outline_loop_block(1, RECV_CALL % ARGS),
    # ghost capture at the final store `m_erosion.flat(inode) = h - u;` (must be there: structural)
    # (whatever expression is stored: SPL_H / SPL_U are the node's elevation and the eroder's updated -- clamped -- elevation AT THE STORE, so a stored value
    # that was computed before the clamp no longer satisfies `erosion = h - u`: seeded change C12_4)
    R(r"m_erosion\.flat\(inode\) = ([^;]+);",
      r"{ FSL_GHOST(if (inode == G) { SPL_H = inode_elevation; SPL_U = inode_elevation_updated; }) m_erosion.flat(inode) = \1; FSL_GHOST(if (inode == G) { SPL_ER = m_erosion.flat(inode); }) }", 1),
    # ghost capture in the first receiver loop (the second one is outlined above): the receiver's post-erosion elevation
    R(r"\b(?:data_type|double) (\w+) = (elevation\.flat\((\w+)\)) - (m_erosion\.flat\(\3\));",
      r"double \1 = \2 - \4; FSL_GHOST(if (inode == G && r < REC_W) { SPL_NX[r] = \1; SPL_GE[r] = \2; SPL_GER[r] = \4; })", 1),
]


def step_lemmas(w):
    own = "inode == G"
    open_ = "(%s && !TERMINAL(G) && %s && !%s)" % (own, NEXT_OK(w), LAKE(w))
    unch = " && ".join("SAME_D(%s, __CPROVER_old(%s))" % (g, g) for g in
                       ["SPL_H", "SPL_U", "SPL_ER"] + ["SPL_%s[%d]" % (a, k) for a in ("NX", "GE", "GER") for k in range(w)])
    return {
        "frame": "__CPROVER_ensures(inode != G ==> (%s))   /* the ghost captures belong to G's own iteration */\n" % unch,
        "operands": "__CPROVER_ensures((%s && !TERMINAL(G)) ==> %s)   /* captured operands = elevation / current erosion of the receivers */\n" % (own, OPERANDS(w)),
        # C12 zero_at_terminals_and_lakes: erosion[G] is written only in G's own iteration (assigns clause), and not at all
        # on the outlet/pit path and on the lake path
        "terminal": "__CPROVER_ensures((%s && TERMINAL(G)) ==> SAME_D(m_erosion[G], __CPROVER_old(m_erosion[G])))   /* C12: outlet / pit keeps its erosion */\n" % own,
        "lake": "__CPROVER_ensures((%s && !TERMINAL(G) && %s && %s) ==> SAME_D(m_erosion[G], __CPROVER_old(m_erosion[G])))   /* C12: a node at or below its lowest receiver keeps its erosion */\n"
                % (own, NEXT_OK(w), LAKE(w)),
        # C12 clamp
        "clamp": "__CPROVER_ensures(%s ==> (isnan(SPL_U) || %s))   /* C12 clamp: u >= lowest post-erosion receiver elevation */\n" % (open_, FLOOR_U(w))
                 + "__CPROVER_ensures(%s ==> (SPL_H == elevation[G] && SAME_D(m_erosion[G], SPL_ER)))   /* h is G's elevation, the erosion stored is the captured one */\n" % open_,
        # the captured values are what their names say (one floating-point subtraction each; isolated in its own group)
        "defs": "__CPROVER_ensures((%s && !TERMINAL(G)) ==> %s)   /* SPL_NX[k] = elevation[rec_k] - erosion[rec_k] */\n" % (own, NEXT_DEF(w))
                + "__CPROVER_ensures(%s ==> SAME_D(SPL_ER, SPL_H - SPL_U))   /* erosion = h - u */\n" % open_,
        # C12 returned_value_respects_floor
        "floor": "__CPROVER_ensures((%s && !isnan(SPL_U)) ==> %s)   /* C12 returned_value_respects_floor: elevation - erosion >= lowest post-erosion receiver elevation */\n"
                 % (open_, FLOOR_RET(w)),
    }


def make_step(w, lemmas=("frame", "operands", "terminal", "lake", "clamp"), extra_requires="", mem=None):
    L = step_lemmas(w)
    mem = mem or FRESH
    return Unit(
        name="spl_node_step", file=SPL_H, anchor=ERODE_ANCHOR, inner=NODE_LOOP,
        # `inode` is the element of the range-for over nodes_indices_bottomup(); the caller reads it
        sig="void spl_node_step(const size_t inode, %s)" % PARAMS,
        defs=STEP_DEFS,
        rules=STEP_RULES,
        contract=mem + ghost_requires(w) + r"""
__CPROVER_requires(inode < gsize)   /* order contract instance at the element read: an entry of the order is a node index */
""" + extra_requires + r"""
/* C12: erosion is written only at the node of this iteration */
__CPROVER_assigns(m_erosion[inode], *m_n_corr, %s, %s)
""" % (GHOST_ASSIGNS, NEWTON_GHOST_ASSIGNS) + "".join(L[l] for l in lemmas),
    )


def h_step_alloc(fn, lead, decl=""):
    return r"""
#include <stdlib.h>
size_t nondet_size_t(void); _Bool nondet_bool(void); double nondet_double(void);
void h_%(fn)s(void)
{
    size_t gsize = nondet_size_t();
%(alloc)s
    %(decl)s
    double dt = nondet_double(), m_area_exp = nondet_double(), m_slope_exp = nondet_double(), m_tolerance = nondet_double();
    _Bool m_linear = nondet_bool();
    G = nondet_size_t(); SPL_H = nondet_double(); SPL_U = nondet_double(); SPL_ER = nondet_double();
    SPL_N_FUNC = nondet_double(); SPL_N_AT = nondet_double(); SPL_N_DELTA = nondet_double(); SPL_N_DELTA0 = nondet_double();
    %(fn)s(%(lead)s%(args)s);
    __CPROVER_assert(0, "canary: postcondition point reachable");
}
""" % dict(fn=fn, lead=lead, args=ARGS, decl=decl, alloc=ALLOC)


def h_step(fn, lead, decl=""):
    return r"""
size_t nondet_size_t(void); _Bool nondet_bool(void); double nondet_double(void);
void h_%(fn)s(void)
{
    size_t gsize = nondet_size_t(); %(decl)s
    const size_t *m_receivers, *m_receivers_count; const double *m_receivers_distance, *m_receivers_weight;
    const double *elevation, *drainage_area, *m_k_coef_; double *m_erosion; size_t *m_n_corr;
    double dt = nondet_double(), m_area_exp = nondet_double(), m_slope_exp = nondet_double(), m_tolerance = nondet_double();
    _Bool m_linear = nondet_bool();
    G = nondet_size_t(); SPL_H = nondet_double(); SPL_U = nondet_double(); SPL_ER = nondet_double();
    SPL_N_FUNC = nondet_double(); SPL_N_AT = nondet_double(); SPL_N_DELTA = nondet_double(); SPL_N_DELTA0 = nondet_double();
    %(fn)s(%(lead)s%(args)s);
    __CPROVER_assert(0, "canary: postcondition point reachable");
}
""" % dict(fn=fn, lead=lead, args=ARGS, decl=decl)


# ------------------------------------------------------------------------------------------ erode (outer sweep)
FILL = r"""
/* xtensor `a.fill(v)`: element-wise (assumed semantics), closed by its own loop contract over the ghost node */
static inline void fsl_fill_d(double *dst, double v, size_t n)
{
    for (size_t k = 0; k < n; ++k)
        __CPROVER_assigns(k, __CPROVER_object_whole(dst))
        __CPROVER_loop_invariant(k <= n)
        __CPROVER_loop_invariant(G < k ==> dst[G] == v)
        __CPROVER_decreases(n - k)
    { dst[k] = v; }
}
"""


def PROP(w):
    """C12 at the ghost node after the sweep (and, in the loop invariant, once G has been processed); NEXT(G,k) = SPL_NX[k]
    is the post-erosion elevation of the k-th receiver computed in this sweep, whose operands are the receiver's elevation
    and its erosion in the returned array"""
    return ("((TERMINAL(G) ==> m_erosion[G] == 0)"
            " && (!TERMINAL(G) ==> (%(OPS)s && (%(OK)s ==> ((%(LAKE)s ==> m_erosion[G] == 0)"
            " && (!%(LAKE)s ==> ((isnan(SPL_U) || %(FLOOR)s) && SPL_H == elevation[G] && SAME_D(m_erosion[G], SPL_ER))))))))"
            % dict(OK=NEXT_OK(w), LAKE=LAKE(w), FLOOR=FLOOR_U(w), OPS=OPERANDS(w)))


def make_erode(w):
    return Unit(
        name="spl_erode", file=SPL_H, anchor=ERODE_ANCHOR,
        sig="void spl_erode(const size_t *dfs_indices, const size_t *POS, %s)" % PARAMS,
        pre=FILL,
        rules=[
            # reference aliases of the graph's tables (same names as the accessors): dropped, the names are macros / parameters
            V(r"auto& flow_graph_impl = m_flow_graph\.impl\(\);", ""),
            V(r"const auto& (\w+) = flow_graph_impl\.\1\(\);", ""),
            V(r"\b(\w+)\.fill\(([^();]*)\);", r"fsl_fill_d(\1, \2, gsize);"),
            V(r"\bm_n_corr\b", "(*m_n_corr)"),
            R(NODE_LOOP, "for (size_t pos = 0; pos < gsize; ++pos)", 1),
            RB(r"for \(size_t pos = 0; pos < gsize; \+\+pos\)",
               "{ const size_t inode = dfs_indices[FSL_IDX1(pos, gsize)]; /* element of the range-for */\n"
               "  FSL_PRE(inode < gsize && POS[inode] == pos); /* order contract instance at the element read */\n"
               "  spl_node_step(inode, %s); }" % ARGS),
            R(r"return m_erosion;", "return;", 1),
        ],
        contract=FRESH + "__CPROVER_requires(__CPROVER_is_fresh(dfs_indices, gsize * 8) && __CPROVER_is_fresh(POS, gsize * 8))\n"
                 + ghost_requires(w, order=True) + r"""
/* order contract at the ghost node: G occurs in the order, at position POS[G] */
__CPROVER_requires(POS[G] < gsize && dfs_indices[POS[G]] == G)
__CPROVER_assigns(__CPROVER_object_whole(m_erosion), *m_n_corr, %s, %s)
__CPROVER_ensures(%s)   /* C12 at an arbitrary node after erode(): terminal and lake nodes have zero erosion; every other node's updated elevation is not below its lowest post-erosion receiver */
""" % (GHOST_ASSIGNS, NEWTON_GHOST_ASSIGNS, PROP(w)),
        loops={0: r"""
__CPROVER_assigns(pos, __CPROVER_object_whole(m_erosion), *m_n_corr, %s, %s)
__CPROVER_loop_invariant(pos <= gsize)
__CPROVER_loop_invariant(pos <= POS[G] ==> m_erosion[G] == 0)   /* reset at the start of every call; untouched before G's own iteration */
__CPROVER_loop_invariant(POS[G] < pos ==> %s)
__CPROVER_decreases(gsize - pos)
""" % (GHOST_ASSIGNS, NEWTON_GHOST_ASSIGNS, PROP(w))},
    )


def defines(w):
    return ["REC_W=%d" % w, "REC_BYTES=%d" % (8 * w)]


def _called(unit, names):
    try:
        text = ex.extract(unit)["text"]
    except ex.ExtractionError:
        return list(names)
    body = text[text.index(unit.sig) + len(unit.sig):]
    return [n for n in names if re.search(r"\b%s\(" % n, body)]


def step_group(w, tag, lemmas, clause, extra_requires="", tier="quick", timeout=600):
    newton = make_newton("exit")
    step = make_step(w, lemmas, extra_requires)
    return Group(
        name="spl.step.%s.w%d" % (tag, w), units=[newton, make_recv(w), step], harness=h_step("spl_node_step", "nondet_size_t(), "),
        entry="h_spl_node_step", enforce="spl_node_step", replace=_called(step, ["spl_recv_step"]),
        unwindset={("spl_node_step", 0): w, ("spl_node_step", 1): w}, defines=defines(w),
        backend="cadical", timeout=timeout, min_obligations=40, tier=tier, clause=clause + "; <= %d receivers per node" % w)


def erode_group(w, tier="quick"):
    newton = make_newton("exit")
    step = make_step(w)
    outer = make_erode(w)
    return Group(
        name="spl.erode.loop.w%d" % w, units=[newton, make_recv(w), step, outer],
        harness=h_step("spl_erode", "dfs_indices, POS, ", "const size_t *dfs_indices, *POS;"),
        entry="h_spl_erode", enforce="spl_erode", replace=["spl_node_step"], loop_contracts=True,
        defines=defines(w), backend="cadical", timeout=900, min_obligations=40, tier=tier,
        clause="C12 for the whole sweep (any number of nodes, using only the node-step contract and the order contract): erosion is reset "
               "at the start of every call and written only in a node's own iteration; outlets/pits and lake nodes end with zero "
               "erosion; every other node's updated elevation u is >= the lowest post-erosion elevation among its receivers, with "
               "erosion = h - u; <= %d receivers per node" % w)


def newton_group(lemma, clause):
    return Group(
        name="spl.newton.%s" % lemma, units=[make_newton(lemma)], harness=H_NEWTON,
        entry="h_spl_newton_branch", enforce="spl_newton_branch", replace=["fsl_pow"], loop_contracts=True,
        backend="sat", timeout=600, min_obligations=10, clause=clause)


NUMBER_REQUIRES = r"""
/* the property's quantifier ("every finite elevation and drainage-area field, erodibility >= 0, area exponent, slope exponent
 * > 0, tolerance and time step >= 0 including extreme products"), instantiated at the node and receiver slot of this call */
__CPROVER_requires(FINITE_D(m_k_coef_[inode]) && m_k_coef_[inode] >= 0 && FINITE_D(dt) && dt >= 0 && FINITE_D(drainage_area[inode]) && drainage_area[inode] >= 0)
__CPROVER_requires(FINITE_D(m_area_exp) && m_area_exp > 0 && FINITE_D(m_slope_exp) && m_slope_exp > 0 && FINITE_D(m_tolerance) && m_tolerance >= 0)
__CPROVER_requires(m_receivers_weight[inode * REC_W + r] >= 0 && m_receivers_weight[inode * REC_W + r] <= 1)
__CPROVER_requires(m_receivers_distance[inode * REC_W + r] > 0 && FINITE_D(m_receivers_distance[inode * REC_W + r]))
__CPROVER_requires(REC(inode, r) < gsize && FINITE_D(elevation[REC(inode, r)]) && FINITE_D(m_erosion[REC(inode, r)]) && FINITE_D(inode_elevation))
__CPROVER_requires(FINITE_D(*eq_num_p) && FINITE_D(*eq_den_p) && *eq_den_p >= 1 && m_linear)
"""


def recv_group(w, lemma, clause, extra_requires="", backend="sat"):
    recv = make_recv(w, lemma, extra_requires)
    return Group(
        name="spl.recv.%s.w%d" % (lemma, w), units=[make_newton("exit"), recv], harness=H_RECV,
        entry="h_spl_recv_step", enforce="spl_recv_step", replace=_called(recv, ["spl_newton_branch", "fsl_pow"]),
        defines=defines(w), backend=backend, timeout=600, min_obligations=20, clause=clause)


def c12_groups():
    gs = [
        Group(name="spl.set_slope_exp.rejection", units=[make_set_slope_exp(("rejection",))], harness=H_SETTER,
              entry="h_spl_set_slope_exp", enforce="spl_set_slope_exp", timeout=120, min_obligations=3,
              clause="C12 reject_nonlinear_multi: set_slope_exp throws iff |n - 1| > eps and the graph is not single-direction (bit-precise)"),
        Group(name="spl.ctor", units=[set_area_exp, make_set_slope_exp(()), make_ctor()], harness=H_CTOR,
              entry="h_spl_ctor", enforce="spl_ctor", timeout=120, min_obligations=10,
              clause="constructor path: construction is refused iff |n - 1| > eps on a multiple-direction graph; a constructed eroder is "
                     "classified (m_linear <=> |n - 1| <= eps) and carries the exponents and tolerance it was given"),
    ]
    for w in (1, 2):
        gs.append(step_group(w, "zero_clamp", ("frame", "operands", "terminal", "lake", "clamp"),
                             "C12 at one node: erosion written only at the node's own cell; outlet/pit path and lake path "
                             "(elevation <= min over receivers of elev[r] - erosion[r]) leave it untouched; otherwise the updated "
                             "elevation u satisfies u >= elevation_flooded (stated for u that is a number: see spl.recv.number) and erosion = h - u"))
        gs.append(erode_group(w))
    gs.append(step_group(1, "defs", ("defs",),
                         "the values the C12 clauses speak about are what their names say: SPL_NX[k] = elevation[rec_k] - erosion[rec_k] "
                         "(the receiver's post-erosion elevation, computed by the code in the first receiver loop) and the stored erosion "
                         "= h - u (one floating-point subtraction each, bit-precise)"))
    gs.append(step_group(1, "floor", ("floor",),
                         "C12 returned_value_respects_floor: for the value actually returned (erosion = h - u) the caller's new elevation "
                         "elevation - erosion is not below the lowest post-erosion receiver elevation"))
    for w in (1, 2):
        gs.append(recv_group(w, "uphill", "C12 no negative erosion, structural premise: a receiver whose elevation is above the node's does not enter the "
                                          "numerator / denominator of the node's discrete equation (it could only raise the node); <= %d receivers per node" % w))
        gs.append(recv_group(w, "frame", "one receiver's contribution to the discrete equation (body of the second receiver loop, the "
                                         "arithmetic part of the node step): memory safety and frame -- it only updates the numerator and "
                                         "denominator of the node's equation; <= %d receivers per node" % w))
    return gs


def c13_groups():
    return [
        Group(name="spl.set_slope_exp.classification", units=[make_set_slope_exp(("classification",))], harness=H_SETTER,
              entry="h_spl_set_slope_exp", enforce="spl_set_slope_exp", timeout=120, min_obligations=3,
              clause="C13 linear_classification: m_linear <=> 1 - eps <= n <= 1 + eps, for every double n incl. NaN/inf (bit-precise)"),
        newton_group("exit", "C13 newton_exit: the Newton loop is left with |residual| <= tolerance at the returned drop, or with a "
                             "drop <= 0 (erosion limited); pow abstracted (>= 0 only)"),
        newton_group("progress", "C13: under finite non-negative factor, positive finite distance and exponent, tolerance >= 0 and h > h'_r, "
                                 "the drop stays a positive number and only decreases (what termination rests on); pow abstracted"),
    ]


_C12 = c12_groups()
_C13 = c13_groups()
for _g in _C12 + _C13:
    _g.replay = "replay/spl.cpp"
GROUPS = {"C12": _C12, "C13": _C13 + [g for g in _C12 if g.name == "spl.ctor"]}

PROPS = {
    "C12": dict(
        level="proof",
        assumptions=[
            "order contract (C06 postcondition, assumed): ghost POS is the inverse of nodes_indices_bottomup(); instantiated on read: "
            "dfs_indices[p] < size and POS[dfs_indices[p]] == p at the range-for element read; a receiver slot below receivers_count "
            "holds a node index that is either the node itself as its single receiver (outlet/pit) or comes earlier in the order; "
            "receivers_count <= receiver table width (C05/C06 producer contracts)",
            "masked and base-level nodes are their own single receiver (C04/C05), so the outlet/pit clause covers them",
            "std::pow is fsl_pow with the assumed contract of models/fsl.h (result >= 0 for a non-negative base), nothing else",
            "the Newton branch (`else {...}`) is outlined: its live-in values are passed by value, its only live-out value is eq_num "
            "(factor, delta_0, delta_k are not read after the branch)",
            "loop body outlined as a function of the position in the order; `continue` outside nested loops becomes `return`; locals "
            "are declared inside the body (dead at the loop head)",
            "`auto` locals of erode: the receiver count is a size_type, every other `auto` local a double",
            "xtensor `m_erosion.fill(0)` modelled element-wise (own loop contract)",
            "ghost capture at the ghost node's own iteration: SPL_NX[k] = the receiver's post-erosion elevation computed in the first "
            "receiver loop with its operands SPL_GE[k], SPL_GER[k]; SPL_H, SPL_U, SPL_ER = operands and value of the final store "
            "m_erosion.flat(inode) = h - u.  The clauses compare these computed values; spl.step.defs proves SPL_NX[k] = "
            "elevation[rec_k] - erosion[rec_k] and SPL_ER = h - u, the sweep proves that the operands are the receivers' cells of the "
            "RETURNED erosion array (receivers are final when the node is processed)",
            "the body of the second receiver loop is outlined (spl_recv_step): in the node step it is replaced by its contract "
            "(assigns only the numerator/denominator of the node's equation); its contract asks for valid tables (validity predicates, "
            "established at the call site from the node step's own tables; its own group allocates them in the harness)",
            "finite elevations at the ghost node and its receivers (quantifier of the property)",
        ],
        undecided=[
            "'never negative beyond rounding': the sign of h - u needs a bound on the quotient eq_num/eq_den (several multiplications): no "
            "bit-precise statement; undecided",
        ],
        unmechanised=[
            "from 'u >= lowest post-erosion receiver elevation at every node' to 'no new closed depression': every non-terminal, non-lake "
            "node keeps a receiver that is not higher than it after the step (one line, by definition of a depression)",
            "the definitional equalities of spl.step.defs (proved for the node step) hold at the end of the sweep because the ghosts are "
            "not assigned after G's iteration (frame clause of the node step, proved)",
        ],
    ),
    "C13": dict(
        level="proof",
        assumptions=[
            "std::pow is fsl_pow (assumed: >= 0 for a non-negative base)",
            "the 'residual' of the exit clause is the value the loop compares with the tolerance (captured at the test); that this "
            "expression is the backward-Euler residual delta + K dt (A w)^m / d^n * delta^n - delta_0 is by reading (one line of the body)",
        ],
        undecided=[
            "residual within tolerance in terms of the real pow (transcendental), and 'zero within rounding' for n = 1: no decision "
            "procedure here",
            "termination of the Newton loop (no decreases clause: with pow abstracted no variant exists)",
        ],
        unmechanised=[
            "n = 1 closed form u = (h + sum f_r h'_r) / (1 + sum f_r) is the algebraic rearrangement of the backward-Euler equation: "
            "one line of real algebra; the supporting obligation C13.linear_closed_form (shaped like today's code) is not built",
        ],
    ),
}


# ------------------------------------------------------------------------------------------ C13: shape of the stream-power factor
# The property's equation has (drainage area x partition weight)^m: the FIRST power taken in a receiver's contribution must be of
# the product area * weight with the area exponent.  Decided by recording the operands: the product inside the power and the power
# itself are replaced by contract-only functions whose contracts expose their arguments through ghost variables.
AREAPOW_PRE = r"""
#ifndef SPL_AREAPOW
#define SPL_AREAPOW
size_t POW_N; double POW_X0, POW_P0;     /* ghost: number of pow calls so far, arguments of the first one */
double MUL_A, MUL_B, MUL_R; int MUL_SEEN; /* ghost: operands and value of the area * weight product */
double spl_pow_rec(double x, double p)
__CPROVER_assigns(POW_N, POW_X0, POW_P0)
__CPROVER_ensures(POW_N == __CPROVER_old(POW_N) + 1)
__CPROVER_ensures(__CPROVER_old(POW_N) == 0 ==> (SAME_D(POW_X0, x) && SAME_D(POW_P0, p)))
__CPROVER_ensures(__CPROVER_old(POW_N) != 0 ==> (SAME_D(POW_X0, __CPROVER_old(POW_X0)) && SAME_D(POW_P0, __CPROVER_old(POW_P0))))
__CPROVER_ensures((x >= 0 && !isnan(p)) ==> (__CPROVER_return_value >= 0))
;
double spl_mul_aw(double a, double w)
__CPROVER_assigns(MUL_A, MUL_B, MUL_R, MUL_SEEN)
__CPROVER_ensures(MUL_SEEN == 1 && SAME_D(MUL_A, a) && SAME_D(MUL_B, w) && SAME_D(MUL_R, __CPROVER_return_value))
;
double KDT_A, KDT_B; int KDT_SEEN;       /* ghost: operands of the erodibility * time step product */
double spl_mul_kdt(double k, double t)
__CPROVER_assigns(KDT_A, KDT_B, KDT_SEEN)
__CPROVER_ensures(KDT_SEEN == 1 && SAME_D(KDT_A, k) && SAME_D(KDT_B, t))
__CPROVER_ensures((k >= 0 && t >= 0 && k < INFINITY && t < INFINITY) ==> __CPROVER_return_value >= 0)
;
#define fsl_pow(x, p) spl_pow_rec((x), (p))
#endif
"""


def make_recv_areapow(w):
    u = make_recv(w, "frame")
    u.pre = AREAPOW_PRE + u.pre
    u.rules = [V(r"drainage_area\.flat\((\w+)\) \* irec_weight", r"spl_mul_aw(drainage_area.flat(\1), irec_weight)"),
               V(r"irec_weight \* drainage_area\.flat\((\w+)\)", r"spl_mul_aw(drainage_area.flat(\1), irec_weight)"),
               # the erodibility * time step product of the factor (either operand order)
               V(r"m_k_coef\((\w+)\)\s*\*\s*dt\b", r"spl_mul_kdt(m_k_coef(\1), dt)"),
               V(r"\bdt\s*\*\s*m_k_coef\((\w+)\)", r"spl_mul_kdt(m_k_coef(\1), dt)")] + u.rules
    u.contract = u.contract.replace("__CPROVER_assigns(*eq_num_p, *eq_den_p, ", "__CPROVER_assigns(POW_N, POW_X0, POW_P0, MUL_A, MUL_B, MUL_R, MUL_SEEN, KDT_A, KDT_B, KDT_SEEN, *eq_num_p, *eq_den_p, ") + r"""
__CPROVER_requires(POW_N == 0 && MUL_SEEN == 0 && KDT_SEEN == 0)
/* C13: the erodibility in the factor is the erodibility AT THE NODE being eroded, multiplied by the time step of this call */
__CPROVER_ensures(POW_N > 0 ==> (KDT_SEEN == 1 && SAME_D(KDT_A, m_k_coef_[inode]) && SAME_D(KDT_B, dt)))
/* C13: whenever this receiver contributes (a power was taken), the first power is (drainage area x partition weight)^m */
__CPROVER_ensures(POW_N > 0 ==> (MUL_SEEN == 1 && SAME_D(MUL_A, drainage_area[inode]) && SAME_D(MUL_B, m_receivers_weight[inode * REC_W + r])
                                   && SAME_D(POW_X0, MUL_R) && SAME_D(POW_P0, m_area_exp)))
"""
    return u


def areapow_group(w):
    recv = make_recv_areapow(w)
    h = H_RECV.replace("SPL_N_FUNC = nondet_double();", "POW_N = 0; MUL_SEEN = 0; KDT_SEEN = 0; SPL_N_FUNC = nondet_double();")
    return Group(
        name="spl.recv.areapow.w%d" % w, units=[make_newton("exit"), recv], harness=h,
        entry="h_spl_recv_step", enforce="spl_recv_step", replace=_called(recv, ["spl_newton_branch"]) + ["spl_pow_rec", "spl_mul_aw", "spl_mul_kdt"],
        defines=defines(w), backend="sat", timeout=600, min_obligations=20, replay="replay/spl.cpp",
        clause="C13 shape of the stream-power factor: the first power taken for a receiver is (drainage area * partition weight)^area_exp "
               "and the erodibility entering the factor is the one AT THE NODE, times the time step of the call (operands recorded through contract-only "
               "product / power functions)")


_AP = [areapow_group(1)]
GROUPS["C13"] = GROUPS["C13"] + _AP
