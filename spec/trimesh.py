"""Triangular mesh (grid/trimesh.hpp).  Property C18 -- edge identity clause (orientation-insensitive edge keys):
tri_edge_equal (53-69) and tri_edge_hash (34-44)."""
from fv.extract import Unit, R, V
from fv.runner import Group

TRI_H = "include/fastscapelib/grid/trimesh.hpp"

PAIR = "struct szpair { size_t first, second; };\n"

tri_edge_equal = Unit(
    name="tri_edge_equal", file=TRI_H,
    anchor=r"bool operator\(\)\(const pair_type& p1, const pair_type& p2\) const",
    sig="_Bool tri_edge_equal(struct szpair p1, struct szpair p2)",
    pre=PAIR,
    contract=r"""
__CPROVER_assigns()
/* C18: two keys denote the same edge exactly when they have the same end points, in either order */
__CPROVER_ensures(__CPROVER_return_value == ((p1.first == p2.first && p1.second == p2.second) || (p1.first == p2.second && p1.second == p2.first)))
""",
)

tri_edge_hash = Unit(
    name="tri_edge_hash", file=TRI_H,
    anchor=r"std::size_t operator\(\)\(const std::pair<T, T>& p\) const",
    sig="size_t tri_edge_hash(struct szpair p)",
    rules=[V(r"std::hash<T>\(\)\(", "fsl_hash_sz("), R(r"auto h1 =", "size_t h1 =", 1), R(r"auto h2 =", "size_t h2 =", 1)],
    pre=r"""
/* std::hash<std::size_t>: a deterministic function of its argument (assumed); modelled by a ghost table keyed on the argument */
size_t HK[4]; size_t HV[4];
size_t fsl_hash_sz(size_t x)
__CPROVER_assigns()
__CPROVER_ensures((x == HK[0] ==> __CPROVER_return_value == HV[0]) && (x == HK[1] ==> __CPROVER_return_value == HV[1])
               && (x == HK[2] ==> __CPROVER_return_value == HV[2]) && (x == HK[3] ==> __CPROVER_return_value == HV[3]))
;
""",
)

H_EQ = r"""
size_t nondet_size_t(void);
void h_edge_identity(void)
{
    struct szpair a = { nondet_size_t(), nondet_size_t() }, b = { nondet_size_t(), nondet_size_t() }, c = { nondet_size_t(), nondet_size_t() };
    /* the ghost hash table is a function: equal keys, equal values */
    HK[0] = a.first; HK[1] = a.second; HK[2] = b.first; HK[3] = b.second;
    HV[0] = nondet_size_t(); HV[1] = nondet_size_t(); HV[2] = nondet_size_t(); HV[3] = nondet_size_t();
    for (int i = 0; i < 4; ++i) for (int j = 0; j < 4; ++j) __CPROVER_assume(HK[i] == HK[j] ==> HV[i] == HV[j]);
    _Bool ab = tri_edge_equal(a, b), ba = tri_edge_equal(b, a), bc = tri_edge_equal(b, c), ac = tri_edge_equal(a, c), aa = tri_edge_equal(a, a);
    __CPROVER_assert(aa, "C18 edge equality is reflexive");
    __CPROVER_assert(ab == ba, "C18 edge equality is symmetric");
    __CPROVER_assert((ab && bc) ==> ac, "C18 edge equality is transitive");
    struct szpair ar = { a.second, a.first };
    __CPROVER_assert(tri_edge_equal(a, ar), "C18 an edge equals its reversal");
    __CPROVER_assert(ab ==> (tri_edge_hash(a) == tri_edge_hash(b)), "C18 equal edge keys hash equally (unordered_map requirement)");
    __CPROVER_assert(0, "canary: postcondition point reachable");
}
"""

GROUPS = {
    "C18": [
        Group(name="trimesh.edge_equal", units=[tri_edge_equal], harness=r"""
size_t nondet_size_t(void);
void h_tri_edge_equal(void)
{
    struct szpair a = { nondet_size_t(), nondet_size_t() }, b = { nondet_size_t(), nondet_size_t() };
    _Bool r = tri_edge_equal(a, b);
    __CPROVER_assert(0, "canary: postcondition point reachable");
}
""", entry="h_tri_edge_equal", enforce="tri_edge_equal", timeout=60, min_obligations=1,
              clause="edge keys are equal iff same end points in either order"),
        Group(name="trimesh.edge_identity", units=[tri_edge_equal, tri_edge_hash], harness=H_EQ, entry="h_edge_identity",
              replace=["fsl_hash_sz"], unwind=5, timeout=120, min_obligations=5,
              clause="edge equality is an equivalence identifying exactly {a,b} = {c,d}; equal keys hash equally"),
    ],
}
PROPS = {
    "C18": dict(
        level="other",
        explanation="Only the edge-identity clause is decided (the orientation-insensitive key used to find unique edges and boundary edges). "
                    "Neighbour lists from unique edges, default boundary status and node areas are not under contract in this session.",
        assumptions=["std::hash<size_t> is a deterministic function (ghost table)", "std::unordered_map semantics (unique keys up to the equality, "
                     "insert returns the existing entry) are not modelled: the clauses depending on it are undecided"],
        undecided=["two nodes are neighbours exactly when they share an edge (needs the unordered_map model + the set_neighbors loops)",
                   "default fixed-value status exactly on edges belonging to a single triangle",
                   "node areas sum to the triangles' area (xtensor expression algebra, nonlinear floating point: out of reach)"],
    ),
}
