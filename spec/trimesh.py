"""Triangular mesh (grid/trimesh.hpp).  Property C18 -- edge identity clause (orientation-insensitive edge keys):
tri_edge_equal (53-69) and tri_edge_hash (34-44)."""
from fv.extract import Unit, R, V
from fv.runner import Group

TRI_H = "include/fastscapelib/grid/trimesh.hpp"

PAIR = "struct szpair { size_t first, second; };\n"

tri_edge_equal = Unit(
    name="tri_edge_equal", file=TRI_H,
    anchor=r"bool operator\(\)\(const pair_type& p1, const pair_type& p2\) const",
    sig="_Bool tri_edge_equal(struct szpair p1, struct szpair p2)",
    pre=PAIR,
    contract=r"""
__CPROVER_assigns()
/* C18: two keys denote the same edge exactly when they have the same end points, in either order */
__CPROVER_ensures(__CPROVER_return_value == ((p1.first == p2.first && p1.second == p2.second) || (p1.first == p2.second && p1.second == p2.first)))
""",
)

tri_edge_hash = Unit(
    name="tri_edge_hash", file=TRI_H,
    anchor=r"std::size_t operator\(\)\(const std::pair<T, T>& p\) const",
    sig="size_t tri_edge_hash(struct szpair p)",
    rules=[V(r"std::hash<T>\(\)\(", "fsl_hash_sz("), R(r"auto h1 =", "size_t h1 =", 1), R(r"auto h2 =", "size_t h2 =", 1)],
    pre=r"""
/* std::hash<std::size_t>: a deterministic function of its argument (assumed); modelled by a ghost table keyed on the argument */
size_t HK[4]; size_t HV[4];
size_t fsl_hash_sz(size_t x)
__CPROVER_assigns()
__CPROVER_ensures((x == HK[0] ==> __CPROVER_return_value == HV[0]) && (x == HK[1] ==> __CPROVER_return_value == HV[1])
               && (x == HK[2] ==> __CPROVER_return_value == HV[2]) && (x == HK[3] ==> __CPROVER_return_value == HV[3]))
;
""",
)

H_EQ = r"""
size_t nondet_size_t(void);
void h_edge_identity(void)
{
    struct szpair a = { nondet_size_t(), nondet_size_t() }, b = { nondet_size_t(), nondet_size_t() }, c = { nondet_size_t(), nondet_size_t() };
    /* the ghost hash table is a function: equal keys, equal values */
    HK[0] = a.first; HK[1] = a.second; HK[2] = b.first; HK[3] = b.second;
    HV[0] = nondet_size_t(); HV[1] = nondet_size_t(); HV[2] = nondet_size_t(); HV[3] = nondet_size_t();
    for (int i = 0; i < 4; ++i) for (int j = 0; j < 4; ++j) __CPROVER_assume(HK[i] == HK[j] ==> HV[i] == HV[j]);
    _Bool ab = tri_edge_equal(a, b), ba = tri_edge_equal(b, a), bc = tri_edge_equal(b, c), ac = tri_edge_equal(a, c), aa = tri_edge_equal(a, a);
    __CPROVER_assert(aa, "C18 edge equality is reflexive");
    __CPROVER_assert(ab == ba, "C18 edge equality is symmetric");
    __CPROVER_assert((ab && bc) ==> ac, "C18 edge equality is transitive");
    struct szpair ar = { a.second, a.first };
    __CPROVER_assert(tri_edge_equal(a, ar), "C18 an edge equals its reversal");
    __CPROVER_assert(ab ==> (tri_edge_hash(a) == tri_edge_hash(b)), "C18 equal edge keys hash equally (unordered_map requirement)");
    __CPROVER_assert(0, "canary: postcondition point reachable");
}
"""

GROUPS = {
    "C18": [
        Group(name="trimesh.edge_equal", units=[tri_edge_equal], harness=r"""
size_t nondet_size_t(void);
void h_tri_edge_equal(void)
{
    struct szpair a = { nondet_size_t(), nondet_size_t() }, b = { nondet_size_t(), nondet_size_t() };
    _Bool r = tri_edge_equal(a, b);
    __CPROVER_assert(0, "canary: postcondition point reachable");
}
""", entry="h_tri_edge_equal", enforce="tri_edge_equal", timeout=60, min_obligations=1,
              clause="edge keys are equal iff same end points in either order"),
        Group(name="trimesh.edge_identity", units=[tri_edge_equal, tri_edge_hash], harness=H_EQ, entry="h_edge_identity",
              replace=["fsl_hash_sz"], unwind=5, timeout=120, min_obligations=5,
              clause="edge equality is an equivalence identifying exactly {a,b} = {c,d}; equal keys hash equally"),
    ],
}
PROPS = {
    "C18": dict(
        level="other",
        explanation="trimesh.py decides the edge-identity clause (the orientation-insensitive key used to find unique edges and boundary edges) and one "
                    "unique edge of the second loop of set_neighbors; spec/trimesh2.py decides both loops of set_neighbors, the accessors and the status overloads. "
                    "Node areas are not under contract.",
        assumptions=["std::hash<size_t> is a deterministic function (ghost table)"],
        undecided=["node areas sum to the triangles' area (xtensor expression algebra, nonlinear floating point: out of reach)"],
    ),
}


# ====================================================================== set_neighbors: second loop (over the unique edges)
# `for (const auto& edge : edges_count)`: the unordered_map is modelled by the list of its entries -- unique edge keys (up to
# tri_edge_equal) with their occurrence counts, in arbitrary order (ASSUMED container semantics: the first loop's insert/increment
# builds exactly that).  The loop body is outlined; neighbour lists are fixed-capacity rows (capacity = stated precondition).
from fv.extract import RB
from spec.graphmodel import conj, disj

NB_CAP = 8
SN_MODEL = r"""
#ifndef FSL_TRI_SN
#define FSL_TRI_SN
#define NB_CAP 8
size_t TG;           /* ghost node */
size_t TE;           /* ghost edge (index into the entry list) */
#define NBI(x, s) m_neighbors_indices[(x) * NB_CAP + (s)]
#define NBD(x, s) m_neighbors_distances[(x) * NB_CAP + (s)]
#define NBN(x) m_neighbors_n[(x)]
#endif
"""
SN_PARAMS = ("size_t m_size, size_t n_edges, const size_t *edge_first, const size_t *edge_second, const size_t *edge_count, const double *points, "
             "_Bool *m_boundary_nodes, size_t *m_neighbors_indices, double *m_neighbors_distances, size_t *m_neighbors_n")
SN_ARGS = "m_size, n_edges, edge_first, edge_second, edge_count, points, m_boundary_nodes, m_neighbors_indices, m_neighbors_distances, m_neighbors_n"
SN_FRESH = r"""
__CPROVER_requires(0 < m_size && m_size <= ((size_t) 1 << 40) && n_edges <= ((size_t) 1 << 40))
__CPROVER_requires(__CPROVER_is_fresh(edge_first, n_edges * 8 + 8) && __CPROVER_is_fresh(edge_second, n_edges * 8 + 8) && __CPROVER_is_fresh(edge_count, n_edges * 8 + 8))
__CPROVER_requires(__CPROVER_is_fresh(points, m_size * 16) && __CPROVER_is_fresh(m_boundary_nodes, m_size))
__CPROVER_requires(__CPROVER_is_fresh(m_neighbors_indices, m_size * 64) && __CPROVER_is_fresh(m_neighbors_distances, m_size * 64) && __CPROVER_is_fresh(m_neighbors_n, m_size * 8))
__CPROVER_requires(TG < m_size && TE < n_edges && edge_first[TE] < m_size && edge_second[TE] < m_size && edge_first[TE] != edge_second[TE])
"""
SN_STEP_RULES = [
    R(r"const edge_type& edge_points = edge\.first;", "const size_t ep_first = edge_first[ek], ep_second = edge_second[ek]; "
      "FSL_PRE(ep_first < m_size && ep_second < m_size && ep_first != ep_second); /* triangle vertices are distinct node indices (planar triangulation: input precondition instance) */", 1),
    R(r"size_type count = edge\.second;", "size_t count = edge_count[ek];", 1),
    V(r"edge_points\.first", "ep_first"), V(r"edge_points\.second", "ep_second"),
    V(r"m_boundary_nodes\.insert\(([^()]*)\);", r"m_boundary_nodes[FSL_IDX1(\1, m_size)] = 1;"),
    # row lengths, the class template's neighbour maximum N, and `continue` of the outlined loop body (vocabulary of the objects in scope)
    V(r"m_neighbors_(?:indices|distances)\[([^\[\]]*)\]\.size\(\)", r"NBN(\1)"),
    V(r"(?<![\w.])N(?![\w(])", "NB_CAP"),
    V(r"\bcontinue;", "return; /* `continue` of the outlined loop body */"),
    V(r"m_neighbors_indices\[([^\[\]]*)\]\.push_back\(([^()]*)\);",
      r"{ FSL_PRE(NBN(\1) < NB_CAP); /* row capacity: at most n_neighbors_max neighbours per node (documented precondition of the mesh) */ NBI(\1, NBN(\1)) = (\2); }"),
    V(r"m_neighbors_distances\[([^\[\]]*)\]\.push_back\(([^()]*)\);", r"{ NBD(\1, NBN(\1)) = (\2); NBN(\1) = NBN(\1) + 1; }"),
    V(r"points\(([^(),]*), ([01])\)", r"points[FSL_IDX1(\1, m_size) * 2 + \2]"),
    V(r"const auto (x1|y1|x2|y2) =", r"const double \1 ="),
    V(r"auto distance =", "double distance ="),
]

# NOTE: the index list and the distance list of a node are two vectors pushed in lock step; the model keeps one length per node and
# advances it at the distance push (the index push comes first in the body).  A body that pushes them out of step breaks the
# row invariant below.
sn_step = Unit(
    name="tri_sn_step", file=TRI_H,
    anchor=r"void trimesh_xt<S, N>::set_neighbors\(const points_type& points, const triangles_type& triangles\)",
    inner=r"for \(const auto& edge : edges_count\)\s*\{",
    sig="void tri_sn_step(size_t ek, %s)" % SN_PARAMS,
    pre=SN_MODEL, rules=SN_STEP_RULES,
    contract=SN_FRESH + r"""
__CPROVER_requires(ek < n_edges)
__CPROVER_assigns(__CPROVER_object_whole(m_boundary_nodes), __CPROVER_object_whole(m_neighbors_indices), __CPROVER_object_whole(m_neighbors_distances),
                  __CPROVER_object_whole(m_neighbors_n))
/* C18 at the ghost edge: both end points get each other as neighbour with the same distance; both are boundary nodes iff the edge
 * belongs to a single triangle */
__CPROVER_ensures(ek == TE ==> (NBN(edge_first[TE]) >= 1 && NBN(edge_second[TE]) >= 1))
__CPROVER_ensures((ek == TE && edge_count[TE] == 1) ==> (m_boundary_nodes[edge_first[TE]] && m_boundary_nodes[edge_second[TE]]))
__CPROVER_ensures((ek == TE && edge_first[TE] != edge_second[TE]) ==> (
      NBI(edge_first[TE], NBN(edge_first[TE]) - 1) == edge_second[TE] && NBI(edge_second[TE], NBN(edge_second[TE]) - 1) == edge_first[TE]
   && (NBD(edge_first[TE], NBN(edge_first[TE]) - 1) == NBD(edge_second[TE], NBN(edge_second[TE]) - 1)
       || (isnan(NBD(edge_first[TE], NBN(edge_first[TE]) - 1)) && isnan(NBD(edge_second[TE], NBN(edge_second[TE]) - 1))))))
/* frame at the ghost node: a node that is not an end point of this edge keeps its list, its list only grows, the boundary set only grows,
 * and a node becomes a boundary node only as an end point of an edge seen once */
__CPROVER_ensures((TG != edge_first[ek] && TG != edge_second[ek]) ==> (NBN(TG) == __CPROVER_old(NBN(TG)) && m_boundary_nodes[TG] == __CPROVER_old(m_boundary_nodes[TG])))
__CPROVER_ensures(NBN(TG) >= __CPROVER_old(NBN(TG)))
__CPROVER_ensures(__CPROVER_old(m_boundary_nodes[TG]) ==> m_boundary_nodes[TG])
__CPROVER_ensures((m_boundary_nodes[TG] && !__CPROVER_old(m_boundary_nodes[TG])) ==> (edge_count[ek] == 1 && (TG == edge_first[ek] || TG == edge_second[ek])))
""",
)

H_SN = r"""
size_t nondet_size_t(void);
void h_tri_sn_step(void)
{
    const size_t *ef, *es, *ec; const double *pts; _Bool *bn; size_t *ni, *nn; double *nd;
    TG = nondet_size_t(); TE = nondet_size_t();
    tri_sn_step(nondet_size_t(), nondet_size_t(), nondet_size_t(), ef, es, ec, pts, bn, ni, nd, nn);
    __CPROVER_assert(0, "canary: postcondition point reachable");
}
"""
GROUPS["C18"].append(Group(
    name="trimesh.set_neighbors.step", units=[sn_step], harness=H_SN, entry="h_tri_sn_step", enforce="tri_sn_step", timeout=600, min_obligations=20,
    clause="one unique edge of the mesh: both end points receive each other as neighbour with the same Euclidean distance expression; both end "
           "points enter the boundary set iff the edge belongs to a single triangle; nothing else changes (frame at an arbitrary node)"))
PROPS["C18"]["assumptions"].append("set_neighbors' second loop is decided per unique edge (outlined body); that the first loop's unordered_map yields exactly the unique edges with their "
                                   "occurrence counts is assumed container semantics; neighbour rows have capacity 8 in the model (stated precondition instance)")
PROPS["C18"]["unmechanised"] = ["from the per-edge contract to 'neighbours exactly when they share an edge, no duplicates': induction over the entry list of unique edges"]

for _g in GROUPS["C18"]:
    _g.replay = "replay/trimesh.cpp"
