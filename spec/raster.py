"""Grid neighbourhoods (property C07) on raster and profile grids.

Functions under contract (all extracted from /repo on every run):
  raster_neighbors<queen|rook|bishop>::node_neighbors_offsets, ::build_neighbors_count      grid/raster_grid.hpp
  raster_grid::build_coded_neighbors_offsets, ::build_nodes_codes, ::neighbors_indices_impl,
               ::neighbors_count_impl, ::ravel_idx, ::unravel_idx                             grid/raster_grid.hpp
  profile_grid::build_gcode, ::build_neighbors_count, ::neighbors_indices_impl, ::neighbors_count_impl, ::gcode,
  the static offsets table, detail::add_offset                                               grid/profile_grid.hpp, grid/base.hpp

Geometric specification (from the property statement): the neighbours of node (r, c) are the nodes one step (dr, dc) away under
the connectivity (rook: 4 orthogonal, bishop: 4 diagonal, queen: all 8); a step is admissible iff its target is inside the grid or
every border it crosses is looped; the target is ((r + dr) mod nrows, (c + dc) mod ncols).  Lists are compared as MULTISETS
(no slot order is demanded): equal length, and every admissible step's target occurs as often in the code's list as among the
admissible steps."""
import os
import re

from fv import extract as ex
from fv.extract import Unit, R, V
from fv.runner import Group
from spec import status as st

RG_H = st.RG_H
PG_H = st.PG_H
BASE_H = st.BASE_H

STEPS = {
    "queen": [(-1, -1), (-1, 0), (-1, 1), (0, -1), (0, 1), (1, -1), (1, 0), (1, 1)],
    "rook": [(-1, 0), (0, -1), (0, 1), (1, 0)],
    "bishop": [(-1, -1), (-1, 1), (1, -1), (1, 1)],
}
NBMAX = {"queen": 8, "rook": 4, "bishop": 4}
OFFCAP = 8   # model capacity of one offset list (std::vector<std::array<ptrdiff_t,2>>): pushes beyond it are an obligation

ND = st.ND


def multiset_eq(n, nslots, a_at, spec):
    """C expression: the code's list (length expression n, at most nslots slots, element i = tuple of expressions a_at(i)) equals
    as a multiset the list of the admissible spec entries; spec = [(adm, (e0, e1, ...)), ...]"""
    def eq(x, y):
        return "(" + " && ".join("(%s) == (%s)" % (p, q) for p, q in zip(x, y)) + ")"
    total = " + ".join("((%s) ? 1 : 0)" % adm for adm, _ in spec)
    parts = ["((%s) == (size_t) (%s))" % (n, total)]
    for adm, e in spec:
        cnt_code = " + ".join("((%d < (%s) && %s) ? 1 : 0)" % (i, n, eq(a_at(i), e)) for i in range(nslots))
        cnt_spec = " + ".join("(((%s) && %s) ? 1 : 0)" % (adm2, eq(e2, e)) for adm2, e2 in spec)
        parts.append("((%s) ==> ((%s) == (%s)))" % (adm, cnt_code, cnt_spec))
    return "(" + "\n  && ".join(parts) + ")"


# =========================================================================== model: vector of offset pairs, arrays of 9
MODEL = st.NS + st.RBS_STRUCT.replace("struct rbs", "struct rbs") + r"""
#define OFFCAP %(OFFCAP)d
#define DIM_MAX ((size_t) 1 << 20)
/* std::vector<std::array<ptrdiff_t, 2>>: flat buffer of pairs + length; push_back beyond the model capacity is an obligation */
static inline void fsl_push2(ptrdiff_t *v, size_t *n, const ptrdiff_t *e)
{
    __CPROVER_assert(*n < OFFCAP, "model capacity of the offset vector");
    v[2 * *n] = e[0];
    v[2 * *n + 1] = e[1];
    *n = *n + 1;
}
/* std::array<size_type, 9>::fill(v) and assignment from a braced list */
#define FSL_FILL9(a, v) { (a)[0] = (v); (a)[1] = (v); (a)[2] = (v); (a)[3] = (v); (a)[4] = (v); (a)[5] = (v); (a)[6] = (v); (a)[7] = (v); (a)[8] = (v); }
#define FSL_SET9(a, v0, v1, v2, v3, v4, v5, v6, v7, v8) { (a)[0] = (v0); (a)[1] = (v1); (a)[2] = (v2); (a)[3] = (v3); (a)[4] = (v4); (a)[5] = (v5); (a)[6] = (v6); (a)[7] = (v7); (a)[8] = (v8); }
#define FSL_SET3(a, v0, v1, v2) { (a)[0] = (v0); (a)[1] = (v1); (a)[2] = (v2); }
/* the borders of a raster as the property sees them; looped borders are symmetrical (class invariant of the boundary status
 * object, established by its constructors: status.looped.*) */
#define BS_SYM(b) (((b)->left == NS_looped) == ((b)->right == NS_looped) && ((b)->top == NS_looped) == ((b)->bottom == NS_looped))
""" % dict(OFFCAP=OFFCAP)

# the model block is emitted once per translation unit, in front of the first unit
base = Unit(name="bs_is_looped", file=st.SG_H, anchor=st.bs_is_looped.anchor, sig=st.bs_is_looped.sig, pre=MODEL, rules=[st.V_NS])
rbs_hl = Unit(name=st.rbs_is_hl.name, file=RG_H, anchor=st.rbs_is_hl.anchor, sig=st.rbs_is_hl.sig, rules=st.rbs_is_hl.rules,
              contract=st.rbs_is_hl.contract)
rbs_vl = st.rbs_is_vl
BASE_UNITS = [base, rbs_hl, rbs_vl]


# =========================================================================== 1. node_neighbors_offsets x3
def nno_unit(conn):
    spec = []
    MR = {-1: "up", 0: "0", 1: "down"}
    MC = {-1: "left", 0: "0", 1: "right"}
    for dr, dc in STEPS[conn]:
        adm = " && ".join(["1"] + (["%s != 0" % MR[dr]] if dr else []) + (["%s != 0" % MC[dc]] if dc else []))
        spec.append((adm, (MR[dr], MC[dc])))
    post = multiset_eq("__CPROVER_return_value", OFFCAP, lambda i: ("selected_offsets[%d]" % (2 * i), "selected_offsets[%d]" % (2 * i + 1)), spec)
    return Unit(
        name="nno_" + conn, file=RG_H,
        anchor=r"inline auto raster_neighbors<raster_connect::%s>::node_neighbors_offsets\(" % conn,
        sig="size_t nno_%s(ptrdiff_t up, ptrdiff_t down, ptrdiff_t left, ptrdiff_t right, ptrdiff_t *selected_offsets)" % conn,
        rules=[
            R(r"std::array<bool, (\d+)> mask\s*\{", r"const _Bool mask[\1] = {", 1),
            R(r"std::array<neighbors_offsets_type::value_type, (\d+)> offsets\s*\{\s*\{(.*?)\}\s*\};", r"const ptrdiff_t offsets[\1][2] = {\2};", 1, re.S),
            R(r"neighbors_offsets_type selected_offsets\{\};", "size_t selected_offsets_n = 0;", 1),
            V(r"selected_offsets\.reserve\(\d+\);", "/* reserve: capacity hint */"),
            V(r"selected_offsets\.push_back\(([^;]*)\);", r"fsl_push2(selected_offsets, &selected_offsets_n, \1);"),
            R(r"return selected_offsets;", "return selected_offsets_n;", 1),
        ],
        contract=r"""
__CPROVER_requires(__CPROVER_is_fresh(selected_offsets, OFFCAP * 16))
__CPROVER_assigns(__CPROVER_object_upto(selected_offsets, OFFCAP * 16))
/* the possible moves (0 = not possible) combined along the steps of the connectivity, as a multiset */
__CPROVER_ensures(%s)
""" % post)


def nno_group(conn):
    u = nno_unit(conn)
    return Group(name="raster.offsets_of_moves." + conn, units=BASE_UNITS + [u],
                 harness=ND + r"""
ptrdiff_t nondet_ptrdiff_t(void);
void h_nno(void)
{
    ptrdiff_t *sel;
    size_t n = nno_%s(nondet_ptrdiff_t(), nondet_ptrdiff_t(), nondet_ptrdiff_t(), nondet_ptrdiff_t(), sel);
    __CPROVER_assert(0, "canary: postcondition point reachable");
}
""" % conn, entry="h_nno", enforce=u.name, unwindset={(u.name, 0): len(STEPS[conn]) + 1}, timeout=300, min_obligations=10,
                 clause="%s: the offset list built from the possible moves is the multiset of (row move, col move) over the connectivity's "
                        "steps whose moves are all possible" % conn)


# =========================================================================== 2. build_neighbors_count x3
def cls_adm(k, dr, dc):
    """admissibility of step (dr, dc) at a node of location code k (row class k / 3, column class k % 3; >= 2 nodes per axis)"""
    rc, cc = k // 3, k % 3
    parts = []
    if dr == -1 and rc == 0:
        parts.append("bounds_status->top == NS_looped")
    if dr == 1 and rc == 2:
        parts.append("bounds_status->bottom == NS_looped")
    if dc == -1 and cc == 0:
        parts.append("bounds_status->left == NS_looped")
    if dc == 1 and cc == 2:
        parts.append("bounds_status->right == NS_looped")
    return "(" + " && ".join(parts or ["1"]) + ")"


def _set9(m):
    vals = [x.strip() for x in m.group(1).split(",")]
    if len(vals) != 9 or not all(re.match(r"^\d+$", v) for v in vals):
        raise ex.ExtractionError("build_neighbors_count: expected 9 integer literals, got %r" % m.group(1))
    return "FSL_SET9(neighbors_count, %s);" % ", ".join(vals)


def count_unit(conn):
    post = " && ".join("neighbors_count[%d] == (size_t) (%s)" % (k, " + ".join("(%s ? 1 : 0)" % cls_adm(k, dr, dc) for dr, dc in STEPS[conn]))
                       for k in range(9))
    return Unit(
        name="count_" + conn, file=RG_H,
        anchor=r"inline auto raster_neighbors<raster_connect::%s>::build_neighbors_count\(" % conn,
        sig="void count_%s(const struct rbs *bounds_status, size_t *neighbors_count)" % conn,
        rules=[
            R(r"std::array<size_type, 9> neighbors_count;", "/* result array: out parameter */", 1),
            V(r"bounds_status\.is_(vertical|horizontal)_looped\(\)", r"rbs_is_\1_looped(bounds_status)"),
            V(r"bounds_status\.(left|right|top|bottom)\b", r"bounds_status->\1"),
            V(r"neighbors_count\.fill\((\d+)\);", r"FSL_FILL9(neighbors_count, \1);"),
            V(r"neighbors_count = std::array<size_type, 9>\(\{([^{}]*)\}\);", _set9),
            R(r"return neighbors_count;", "return;", 1),
            st.V_NS,
        ],
        contract=r"""
__CPROVER_requires(__CPROVER_is_fresh(bounds_status, sizeof(*bounds_status)) && __CPROVER_is_fresh(neighbors_count, 9 * 8))
__CPROVER_requires(BS_SYM(bounds_status))
__CPROVER_assigns(__CPROVER_object_whole(neighbors_count))
/* for each of the 9 location codes: the number of steps of the connectivity that stay inside or cross a looped border */
__CPROVER_ensures(%s)
""" % post)


def count_group(conn):
    u = count_unit(conn)
    return Group(name="raster.count_table." + conn, units=BASE_UNITS + [u],
                 harness=ND + r"""
void h_count(void)
{
    const struct rbs *bs; size_t *cnt;
    count_%s(bs, cnt);
    __CPROVER_assert(0, "canary: postcondition point reachable");
}
""" % conn, entry="h_count", enforce=u.name, timeout=120, min_obligations=5,
                 clause="%s: neighbour count per location code == number of admissible steps there (all looped combinations)" % conn)


# =========================================================================== 3. build_coded_neighbors_offsets
# ghost node (GR, GC) of an nrows x ncols grid, both >= 2
GEO = r"""
size_t GR, GC;   /* an arbitrary node */
_Bool SA[8]; ptrdiff_t SR[8], SC[8];   /* its geometric spec list: step j admissible, target row - GR, target col - GC */
#define NROWS m_shape0
#define NCOLS m_shape1
#define ROWCLS(r) ((r) == 0 ? 0 : ((r) == NROWS - 1 ? 2 : 1))
#define COLCLS(c) ((c) == 0 ? 0 : ((c) == NCOLS - 1 ? 2 : 1))
#define CODE(r, c) (3 * ROWCLS(r) + COLCLS(c))   /* the 9 characteristic locations, row-major */
/* a step is admissible iff it stays inside or the border it crosses is looped */
#define ADM_R(r, dr) ((dr) == 0 || ((dr) < 0 ? ((r) > 0 || bs->top == NS_looped) : ((r) < NROWS - 1 || bs->bottom == NS_looped)))
#define ADM_C(c, dc) ((dc) == 0 || ((dc) < 0 ? ((c) > 0 || bs->left == NS_looped) : ((c) < NCOLS - 1 || bs->right == NS_looped)))
/* target row / column: (r + dr) mod nrows */
#define TGT_R(r, dr) ((dr) == 0 ? (r) : ((dr) < 0 ? ((r) > 0 ? (r) - 1 : NROWS - 1) : ((r) < NROWS - 1 ? (r) + 1 : 0)))
#define TGT_C(c, dc) ((dc) == 0 ? (c) : ((dc) < 0 ? ((c) > 0 ? (c) - 1 : NCOLS - 1) : ((c) < NCOLS - 1 ? (c) + 1 : 0)))
"""


def _coded_return(m):
    items = [x for x in st._split_top(m.group(1)) if x]
    if len(items) != 9:
        raise ex.ExtractionError("build_coded_neighbors_offsets: %d entries in the returned list, expected 9" % len(items))
    out = []
    for k, item in enumerate(items):
        mm = re.match(r"^this->node_neighbors_offsets\((.*)\)$", item, re.S)
        if not mm:
            raise ex.ExtractionError("build_coded_neighbors_offsets: unexpected entry %r" % item)
        # the 9 entries are independent, side-effect-free expressions: each group compiles the entry of its own location code
        out.append("#if CODE_K == %d\ncoded_n[%d] = NNO(%s, coded_off + %d);\n#endif" % (k, k, mm.group(1), 2 * OFFCAP * k))
    return "\n" + "\n".join(out) + "\nreturn;"


def coded_unit(conn):
    # the geometric spec list of the ghost node is held in harness-owned ghost arrays, defined (not constrained) by SPEC_DEF
    spec = [("SA[%d]" % j, ("SR[%d]" % j, "SC[%d]" % j)) for j in range(len(STEPS[conn]))]
    spec_def = " && ".join("SA[%d] == (ADM_R(GR, %d) && ADM_C(GC, %d)) && SR[%d] == (ptrdiff_t) TGT_R(GR, %d) - (ptrdiff_t) GR "
                           "&& SC[%d] == (ptrdiff_t) TGT_C(GC, %d) - (ptrdiff_t) GC" % (j, dr, dc, j, dr, j, dc)
                           for j, (dr, dc) in enumerate(STEPS[conn]))
    # the list of the ghost node's code
    post = multiset_eq("coded_n[CODE_K]", OFFCAP,
                       lambda i: ("coded_off[2 * OFFCAP * CODE_K + %d]" % (2 * i), "coded_off[2 * OFFCAP * CODE_K + %d]" % (2 * i + 1)), spec)
    return Unit(
        name="coded_offsets_" + conn, file=RG_H,
        anchor=r"auto raster_grid<S, RC, C>::build_coded_neighbors_offsets\(\) -> coded_noffsets_type",
        sig="void coded_offsets_%s(size_t m_shape0, size_t m_shape1, const struct rbs *bs, ptrdiff_t *coded_off, size_t *coded_n)" % conn,
        pre=GEO + "#define NNO nno_%s\n#define SPEC_DEF (%s)\n" % (conn, spec_def),
        rules=[
            V(r"\bauto (\w+) = static_cast<std::ptrdiff_t>", r"ptrdiff_t \1 = static_cast<std::ptrdiff_t>"),
            V(r"m_shape\[([01])\]", r"m_shape\1"),
            V(r"m_bounds_status\.is_(vertical|horizontal)_looped\(\)", r"rbs_is_\1_looped(bs)"),
            V(r"m_bounds_status\.(left|right|top|bottom)\b", r"bs->\1"),
            R(r"return \{(.*)\};", _coded_return, 1, re.S),
            st.V_NS,
        ],
        contract=r"""
__CPROVER_requires(2 <= m_shape0 && m_shape0 <= DIM_MAX && 2 <= m_shape1 && m_shape1 <= DIM_MAX)
__CPROVER_requires(__CPROVER_is_fresh(bs, sizeof(*bs)) && BS_SYM(bs))
__CPROVER_requires(__CPROVER_is_fresh(coded_off, 9 * OFFCAP * 16) && __CPROVER_is_fresh(coded_n, 9 * 8))
__CPROVER_requires(GR < m_shape0 && GC < m_shape1)
__CPROVER_requires(CODE(GR, GC) == CODE_K)   /* case split over the 9 location codes: one group per code */
__CPROVER_requires(SPEC_DEF)                 /* definition of the ghost spec list SA / SR / SC of the node (GR, GC) */
__CPROVER_assigns(__CPROVER_object_whole(coded_off), __CPROVER_object_whole(coded_n))
/* C07: the offset list stored for the location code of the arbitrary node (GR, GC) is, as a multiset, the list of
 * (target row - GR, target col - GC) over the admissible steps of the connectivity */
__CPROVER_ensures(%s)
__CPROVER_ensures(coded_n[CODE_K] <= %d)   /* at most n_neighbors_max entries */
""" % (post, len(STEPS[conn])))


def coded_group(conn, k):
    nno = nno_unit(conn)
    u = coded_unit(conn)
    return Group(name="raster.coded_offsets.%s.code%d" % (conn, k), units=BASE_UNITS + [nno, u], defines=["CODE_K=%d" % k],
                 harness=ND + r"""
ptrdiff_t nondet_ptrdiff_t(void);
void h_coded(void)
{
    const struct rbs *bs; ptrdiff_t *off; size_t *cn;
    GR = nondet_size_t(); GC = nondet_size_t();
    for (int j = 0; j < 8; ++j) { SA[j] = nondet_bool(); SR[j] = nondet_ptrdiff_t(); SC[j] = nondet_ptrdiff_t(); }
    coded_offsets_%s(nondet_size_t(), nondet_size_t(), bs, off, cn);
    __CPROVER_assert(0, "canary: postcondition point reachable");
}
""" % conn, entry="h_coded", enforce=u.name, unwindset={(nno.name, 0): len(STEPS[conn]) + 1}, timeout=600, min_obligations=10,
                 clause="%s, location code %d: for an arbitrary node with that code, the offset list of the code == multiset of (target - node) over the admissible "
                        "steps (wrap offsets +-(dim - 1) across looped borders); symbolic shape in [2, 2^20]^2, all looped combinations" % (conn, k))


# =========================================================================== 4. symmetry (spec-level lemma)
def symmetry_group(conn):
    def cnt(a_r, a_c, b_r, b_c):
        return " + ".join("((ADM_R(%s, %d) && ADM_C(%s, %d) && TGT_R(%s, %d) == %s && TGT_C(%s, %d) == %s) ? 1 : 0)" %
                          (a_r, dr, a_c, dc, a_r, dr, b_r, a_c, dc, b_c) for dr, dc in STEPS[conn])
    h = ND + GEO + r"""
void h_sym(void)
{
    size_t m_shape0 = nondet_size_t(), m_shape1 = nondet_size_t();
    struct rbs b; const struct rbs *bs = &b;
    size_t ar = nondet_size_t(), ac = nondet_size_t(), br = nondet_size_t(), bc = nondet_size_t();
    __CPROVER_assume(2 <= m_shape0 && m_shape0 <= DIM_MAX && 2 <= m_shape1 && m_shape1 <= DIM_MAX);
    __CPROVER_assume(BS_SYM(bs));
    __CPROVER_assume(ar < m_shape0 && br < m_shape0 && ac < m_shape1 && bc < m_shape1);
    /* b occurs m times among the neighbours of a  <=>  a occurs m times among those of b */
    __CPROVER_assert((%s) == (%s), "C07 symmetry of the geometric neighbour relation (with multiplicities)");
    __CPROVER_assert(0, "canary: postcondition point reachable");
}
""" % (cnt("ar", "ac", "br", "bc"), cnt("br", "bc", "ar", "ac"))
    return Group(name="raster.symmetry." + conn, units=[base], harness=h, entry="h_sym", timeout=300, min_obligations=1,
                 clause="%s: the geometric neighbour relation is symmetric, with multiplicities (spec-level lemma; harness assumptions are "
                        "the spec's own domain: shape in [2, 2^20]^2, symmetric looped borders, nodes inside)" % conn)



# =========================================================================== 5. neighbors_indices_impl / neighbors_count_impl / ravel / unravel
ACC = r"""
/* const neighbors_offsets_type& : a view (data, size) of one stored offset list */
struct offvec { const ptrdiff_t *data; size_t size; };
static inline struct offvec fsl_offvec(const ptrdiff_t *coded_off, const size_t *coded_n, size_t code)
{
    __CPROVER_assert(code < 9, "location code indexes the array of 9 offset lists");
    struct offvec v = { coded_off + 2 * OFFCAP * code, coded_n[code] };
    return v;
}
size_t GIDX;   /* flat index of the ghost node */
"""
GRID_VOCAB = [
    V(r"\bnodes_codes\(([^()]+)\)", r"m_nodes_codes[FSL_IDX1(\1, m_size)]"),      # accessor nodes_codes(idx) (raster_grid.hpp:864-867)
    V(r"\bm_nodes_codes\[([^\[\]]+)\]", r"m_nodes_codes[FSL_IDX1(\1, m_size)]"),
    V(r"\bneighbor_offsets\(", "fsl_offvec(coded_off, coded_n, "),                  # accessor neighbor_offsets(code) (803-807)
    V(r"\bm_neighbors_count\[([^\[\]]+(?:\[[^\[\]]+\])?[^\[\]]*)\]", r"m_neighbors_count[FSL_IDX1(\1, 9)]"),
    V(r"\bravel_idx\(", "ravel_idx(m_shape1, "),
    V(r"m_shape\[([01])\]", r"m_shape\1"),
]
SLOT_A = "coded_off[2 * OFFCAP * CODE_K + %d]"


def cls_tgt(k, dr, dc):
    """(target row, target col, row offset, col offset) of step (dr, dc) at the node (GR, GC) of location code k, specialised to the
    code's row / column class so that no conditional remains (top row: GR == 0, bottom row: GR == nrows - 1, same for columns)"""
    rc, cc = k // 3, k % 3

    def one(cls, d, g, n):
        if d == 0:
            return g, "0"
        if d == -1:
            return ("%s - 1" % n, "(ptrdiff_t) (%s - 1)" % n) if cls == 0 else ("%s - 1" % g, "-1")
        return ("0", "-(ptrdiff_t) (%s - 1)" % n) if cls == 2 else ("%s + 1" % g, "1")
    tr, orow = one(rc, dr, "GR", "m_shape0")
    tc, ocol = one(cc, dc, "GC", "m_shape1")
    return tr, tc, orow, ocol


# Measured (see the final report): with the offsets read from the stored list (array reads, equalities under a guard) the
# flat-index equality neighbors[i] == target_row * ncols + target_col times out on cvc5, z3 and SAT (> 240 s per location code,
# with and without DFCC instrumentation), while the same equality over scalars is decided by cvc5 / z3 in < 0.1 s.  The index
# clause is therefore split into
#   raster.indices.nb<N>      (SAT, the extracted function): slot i == (size_t) off_r[i] * ncols + (size_t) off_c[i] + idx for every
#                             stored offset, exactly offsets.size() slots, no out-of-range .at()  -- SUPPORTING: shaped like the code
#   raster.index_lemma.*      (cvc5, scalars): that expression at idx = r * ncols + c equals the row-major index of the step's target,
#                             one obligation per (location code, step), wrap and non-wrap
# and the substitution of equals that joins them is listed as unmechanised.
def indices_unit():
    A = "coded_off[2 * OFFCAP * GKC + %d]"
    # `x * ncols` is abstracted as a deterministic function of its operands (DESIGN 3.4, "no arithmetic circuit twice"): GM[i] is the
    # product the code computes for slot i's row offset; the lemma groups speak about the real product
    post = " && ".join("(%d < coded_n[GKC] ==> neighbors[%d] == GM[%d] + (size_t) %s + idx)" % (i, i, i, A % (2 * i + 1)) for i in range(OFFCAP))
    table = " && ".join("((x == (size_t) %s && y == GY) ==> __CPROVER_return_value == GM[%d])" % (A % (2 * i), i) for i in range(OFFCAP))
    consistent = " && ".join("(%s == %s ==> GM[%d] == GM[%d])" % (A % (2 * i), A % (2 * j), i, j) for i in range(OFFCAP) for j in range(i + 1, OFFCAP))
    mul = r"""
size_t GM[OFFCAP]; size_t GY; size_t GKC; /* ghosts: the products, the common right operand (ncols), the location code stored for idx */
const ptrdiff_t *G_OFF; /* ghost alias of coded_off for the abstraction's table */
#define coded_off_G G_OFF
size_t fsl_mul(size_t x, size_t y)
__CPROVER_assigns()
__CPROVER_ensures(%s)
;
""" % table.replace("coded_off[", "coded_off_G[")
    return Unit(
        name="raster_neighbors_indices_impl", file=RG_H,
        anchor=r"inline auto raster_grid<S, RC, C>::neighbors_indices_impl\(\s*neighbors_indices_impl_type& neighbors, const size_type& idx\) const -> void",
        sig="void raster_neighbors_indices_impl(size_t *neighbors, size_t idx, size_t m_shape0, size_t m_shape1, size_t m_size, "
            "const uint8_t *m_nodes_codes, const ptrdiff_t *coded_off, const size_t *coded_n)",
        pre=ACC + mul,
        rules=[R(r"static_cast<size_type>\((\(?offset\)?\[0\])\)\s*\*\s*m_shape\[1\]", r"fsl_mul((size_t) (\1), m_shape1)", 1)] + GRID_VOCAB + [
            V(r"const auto& offsets =", "const struct offvec offsets ="),
            V(r"\boffsets\.size\(\)", "offsets.size"),
            V(r"\boffsets\[([^\[\]]+)\]", r"(offsets.data + 2 * FSL_IDX1(\1, offsets.size))"),
            V(r"const auto offset =", "const ptrdiff_t *offset ="),
            # std::array::at(i) throws std::out_of_range for i >= N: kept as the obligation "no exception"
            V(r"neighbors\.at\(([^()]+)\)", r"neighbors[FSL_IDX1(\1, NB_MAX)]"),
        ],
        contract=r"""
__CPROVER_requires(m_shape1 <= DIM_MAX && m_size <= ((size_t) 1 << 40) && idx < m_size)
__CPROVER_requires(__CPROVER_is_fresh(neighbors, NB_MAX * 8) && __CPROVER_is_fresh(m_nodes_codes, m_size))
__CPROVER_requires(__CPROVER_is_fresh(coded_off, 9 * OFFCAP * 16) && __CPROVER_is_fresh(coded_n, 9 * 8))
/* instances of the producers' postconditions: the stored code is one of the 9 location codes (raster.codes), its offset list has at
 * most n_neighbors_max entries (raster.coded_offsets.*) */
__CPROVER_requires(m_nodes_codes[idx] == GKC && GKC < 9 && coded_n[GKC] <= NB_MAX && NB_MAX <= OFFCAP)
/* the ghost product table is a function of the left operand */
__CPROVER_requires(G_OFF == coded_off && GY == m_shape1 && %s)
__CPROVER_assigns(__CPROVER_object_whole(neighbors))
__CPROVER_ensures(%s)
""" % (consistent, post))


def indices_group(nbmax):
    u = indices_unit()
    return Group(name="raster.indices.nb%d" % nbmax, units=[base, u], defines=["NB_MAX=%d" % nbmax],
                 harness=ND + r"""
void h_idx(void)
{
    size_t *nb; const uint8_t *codes; const ptrdiff_t *off; const size_t *cn;
    GKC = nondet_size_t(); GY = nondet_size_t(); G_OFF = off;
    for (int j = 0; j < OFFCAP; ++j) GM[j] = nondet_size_t();
    raster_neighbors_indices_impl(nb, nondet_size_t(), nondet_size_t(), nondet_size_t(), nondet_size_t(), codes, off, cn);
    __CPROVER_assert(0, "canary: postcondition point reachable");
}
""", entry="h_idx", enforce=u.name, replace=["fsl_mul"], unwindset={(u.name, 0): OFFCAP + 1}, backend="sat", timeout=300, min_obligations=10, deciding=False,
                 # static_cast<size_type>(negative offset) is well-defined (mod 2^64) and intended: the sum wraps back into range
                 no_checks=["--conversion-check"],
                 clause="SUPPORTING (shaped like the code): neighbors_indices_impl (n_neighbors_max = %d) writes, for every offset stored for the "
                        "node's code, mul((size_t) off_r, ncols) + (size_t) off_c + idx, `*` abstracted as a deterministic function; exactly "
                        "offsets.size() slots; no out-of-range .at()" % nbmax)


def index_lemma_group(conn, k):
    """one group per location code: the code's class facts are top-level assumptions (conditional-free), so every assertion is a
    plain polynomial identity"""
    rc, cc = k // 3, k % 3
    cls = ["GR == 0", "0 < GR && GR < m_shape0 - 1", "GR == m_shape0 - 1"][rc] + " && " + ["GC == 0", "0 < GC && GC < m_shape1 - 1", "GC == m_shape1 - 1"][cc]
    asserts = []
    for dr, dc in STEPS[conn]:
        tr, tc, orow, ocol = cls_tgt(k, dr, dc)
        asserts.append('    __CPROVER_assert((size_t) (%s) * m_shape1 + (size_t) (%s) + idx == (%s) * m_shape1 + (%s), '
                       '"code %d step (%d,%d): flat index of the step target");' % (orow, ocol, tr, tc, k, dr, dc))
    h = ND + GEO + r"""
void h_il(void)
{
    size_t m_shape0 = nondet_size_t(), m_shape1 = nondet_size_t();
    GR = nondet_size_t(); GC = nondet_size_t();
    __CPROVER_assume(2 <= m_shape0 && m_shape0 <= DIM_MAX && 2 <= m_shape1 && m_shape1 <= DIM_MAX && GR < m_shape0 && GC < m_shape1);
    __CPROVER_assume(%s);   /* the nodes of location code %d (raster.spec_by_code.* relates this to CODE(GR, GC)) */
    size_t idx = GR * m_shape1 + GC;   /* ravel_idx(GR, GC), see raster.ravel */
%s
    __CPROVER_assert(0, "canary: postcondition point reachable");
}
""" % (cls, k, "\n".join(asserts))
    return Group(name="raster.index_lemma.%s.code%d" % (conn, k), units=[base], harness=h, entry="h_il", backend="z3", timeout=120,
                 min_obligations=len(asserts), no_checks=["--conversion-check"],
                 clause="%s, location code %d: for each step, (size_t) offset_r * ncols + (size_t) offset_c + (r * ncols + c) == target_r * ncols + "
                        "target_c with the code's wrap / non-wrap offsets (polynomial identities mod 2^64, symbolic shape in [2, 2^20]^2)" % (conn, k))


def count_impl_group(conn):
    cu = count_unit(conn)
    table = " && ".join("m_neighbors_count[%d] == (size_t) (%s)" % (k, " + ".join("(%s ? 1 : 0)" % cls_adm(k, dr, dc).replace("bounds_status->", "bs->")
                                                                                        for dr, dc in STEPS[conn])) for k in range(9))
    spec_n = " + ".join("((ADM_R(GR, %d) && ADM_C(GC, %d)) ? 1 : 0)" % (dr, dc) for dr, dc in STEPS[conn])
    u = Unit(
        name="raster_neighbors_count_impl", file=RG_H,
        anchor=r"inline auto raster_grid<S, RC, C>::neighbors_count_impl\(const size_type& idx\) const noexcept\s*-> size_type",
        sig="size_t raster_neighbors_count_impl(size_t idx, size_t m_shape0, size_t m_shape1, size_t m_size, const uint8_t *m_nodes_codes, "
            "const size_t *m_neighbors_count, const struct rbs *bs)",
        pre=GEO + ACC, rules=GRID_VOCAB,
        contract=r"""
__CPROVER_requires(2 <= m_shape0 && m_shape0 <= DIM_MAX && 2 <= m_shape1 && m_shape1 <= DIM_MAX && m_size <= ((size_t) 1 << 40))
__CPROVER_requires(__CPROVER_is_fresh(m_nodes_codes, m_size) && __CPROVER_is_fresh(m_neighbors_count, 9 * 8) && __CPROVER_is_fresh(bs, sizeof(*bs)) && BS_SYM(bs))
__CPROVER_requires(GR < m_shape0 && GC < m_shape1 && idx < m_size)
/* instances of the producers' postconditions: idx is the ghost node's cell of the code table (raster.codes); count table (raster.count_table.%s) */
__CPROVER_requires(m_nodes_codes[idx] == CODE(GR, GC))
__CPROVER_requires(%s)
__CPROVER_assigns()
/* C07: the count accessor == number of admissible steps at the node == length of its offset / index list */
__CPROVER_ensures(__CPROVER_return_value == (size_t) (%s))
""" % (conn, table, spec_n))
    return Group(name="raster.count_impl." + conn, units=[base, u],
                 harness=ND + r"""
void h_cnt(void)
{
    const uint8_t *codes; const size_t *cnt; const struct rbs *bs;
    GR = nondet_size_t(); GC = nondet_size_t();
    size_t r = raster_neighbors_count_impl(nondet_size_t(), nondet_size_t(), nondet_size_t(), nondet_size_t(), codes, cnt, bs);
    __CPROVER_assert(0, "canary: postcondition point reachable");
}
""", entry="h_cnt", enforce=u.name, timeout=300, min_obligations=5,
                 clause="%s: neighbors_count_impl(idx) == number of admissible steps at the node (given the code and count tables)" % conn)


ravel = Unit(
    name="ravel_idx", file=RG_H,
    anchor=r"inline auto raster_grid<S, RC, C>::ravel_idx\(const size_type& row,\s*const size_type& col\) const noexcept -> size_type",
    sig="size_t ravel_idx(size_t m_shape1, size_t row, size_t col)",
    rules=[V(r"m_shape\[([01])\]", r"m_shape\1")],
    contract=r"""
__CPROVER_requires(m_shape1 <= DIM_MAX && row < DIM_MAX && col < m_shape1)
__CPROVER_assigns()
__CPROVER_ensures(__CPROVER_return_value == row * m_shape1 + col)
""")
unravel = Unit(
    name="unravel_idx", file=RG_H,
    anchor=r"inline auto raster_grid<S, RC, C>::unravel_idx\(const size_type& idx\) const noexcept\s*-> raster_idx_type",
    sig="void unravel_idx(size_t m_shape1, size_t idx, size_t *out_row, size_t *out_col)",
    rules=[V(r"m_shape\[([01])\]", r"m_shape\1"), V(r"\bauto (\w+) = m_shape", r"size_t \1 = m_shape"),
           R(r"return std::make_pair\(([^,()]+),\s*([^,()]+)\);", r"*out_row = \1; *out_col = \2; return;", 1)],
    contract=r"""
__CPROVER_requires(1 <= m_shape1 && m_shape1 <= DIM_MAX && idx <= ((size_t) 1 << 40))
__CPROVER_requires(__CPROVER_is_fresh(out_row, 8) && __CPROVER_is_fresh(out_col, 8))
__CPROVER_assigns(*out_row, *out_col)
/* ravel(unravel(idx)) == idx */
__CPROVER_ensures(*out_row * m_shape1 + *out_col == idx)
""")


def ravel_groups():
    g1 = Group(name="raster.ravel", units=[base, ravel],
               harness=ND + r"""
void h_ravel(void)
{
    size_t r = ravel_idx(nondet_size_t(), nondet_size_t(), nondet_size_t());
    __CPROVER_assert(0, "canary: postcondition point reachable");
}
""", entry="h_ravel", enforce="ravel_idx", backend="cvc5", timeout=120, min_obligations=1, no_checks=[],
               clause="ravel_idx(row, col) == row * ncols + col, no overflow for shapes <= 2^20")
    g2 = Group(name="raster.unravel", units=[base, unravel],
               harness=ND + r"""
void h_unravel(void)
{
    size_t *a, *b;
    unravel_idx(nondet_size_t(), nondet_size_t(), a, b);
    __CPROVER_assert(0, "canary: postcondition point reachable");
}
""", entry="h_unravel", enforce="unravel_idx", backend="cvc5", timeout=300, min_obligations=1,
               clause="unravel_idx: ravel(unravel(idx)) == idx (row = idx / ncols, col = idx - row * ncols)")
    return [g1, g2]



# =========================================================================== 5b. the specialised targets agree with the geometric spec
def spec_by_code_group(conn):
    asserts = []
    for k in range(9):
        for dr, dc in STEPS[conn]:
            tr, tc, orow, ocol = cls_tgt(k, dr, dc)
            asserts.append('    __CPROVER_assert(CODE(GR, GC) != %d || (TGT_R(GR, %d) == (%s) && TGT_C(GC, %d) == (%s) '
                           '&& (ptrdiff_t) TGT_R(GR, %d) - (ptrdiff_t) GR == (%s) && (ptrdiff_t) TGT_C(GC, %d) - (ptrdiff_t) GC == (%s)), '
                           '"code %d step (%d,%d): specialised target/offset == geometric target/offset");' %
                           (k, dr, tr, dc, tc, dr, orow, dc, ocol, k, dr, dc))
    h = ND + GEO + r"""
void h_sbc(void)
{
    size_t m_shape0 = nondet_size_t(), m_shape1 = nondet_size_t();
    GR = nondet_size_t(); GC = nondet_size_t();
    __CPROVER_assume(2 <= m_shape0 && m_shape0 <= DIM_MAX && 2 <= m_shape1 && m_shape1 <= DIM_MAX && GR < m_shape0 && GC < m_shape1);
%s
    __CPROVER_assert(0, "canary: postcondition point reachable");
}
""" % "\n".join(asserts)
    return Group(name="raster.spec_by_code." + conn, units=[base], harness=h, entry="h_sbc", timeout=120, min_obligations=9,
                 clause="%s: for each location code and step, the conditional-free target / offset used by raster.indices.* equals the geometric "
                        "((r + dr) mod nrows, (c + dc) mod ncols) (spec-level lemma)" % conn)


# =========================================================================== 5c. build_nodes_codes
CODES_MODEL = r"""
size_t GN0, GSIZE;   /* ghost copies of nrows and of the node count, for the arithmetic lemmas below */
/* std::vector<uint8_t> v(n, value) and vector copy assignment: ghost-cell models (the two ghost positions GR and GC) */
void fsl_vec_fill(uint8_t *a, size_t n, uint8_t v)
__CPROVER_requires(n <= DIM_MAX)
__CPROVER_assigns(__CPROVER_object_whole(a))
__CPROVER_ensures((GR < n ==> a[GR] == v) && (GC < n ==> a[GC] == v))
;
void fsl_vec_copy(uint8_t *dst, const uint8_t *src, size_t n)
__CPROVER_requires(n <= DIM_MAX)
__CPROVER_assigns(__CPROVER_object_whole(dst))
__CPROVER_ensures((GR < n ==> dst[GR] == src[GR]) && (GC < n ==> dst[GC] == src[GC]))
;
"""
ravel_assumed = Unit(
    name="ravel_idx", file=RG_H, anchor=ravel.anchor, sig=ravel.sig, rules=ravel.rules, pre=GEO + ACC + CODES_MODEL,
    contract=r"""
__CPROVER_requires(row < GN0 && col < m_shape1)
__CPROVER_assigns()
/* ASSUMED arithmetic lemmas about row * ncols + col (the equation itself is proved in raster.ravel; every back end times out on these):
 * RAVEL_INJECTIVE  for col, GC < ncols:  row * ncols + col == GR * ncols + GC  <=>  (row, col) == (GR, GC)
 * RAVEL_IN_RANGE   row < nrows, col < ncols  ==>  row * ncols + col < nrows * ncols */
__CPROVER_ensures((__CPROVER_return_value == GIDX) == (row == GR && col == GC))
__CPROVER_ensures(__CPROVER_return_value < GSIZE)
""")
codes = Unit(
    name="build_nodes_codes", file=RG_H, anchor=r"void raster_grid<S, RC, C>::build_nodes_codes\(\)",
    sig="void build_nodes_codes(uint8_t *m_nodes_codes, size_t m_size, size_t m_shape0, size_t m_shape1, "
        "uint8_t *gcode_rc0, uint8_t *gcode_rc1, uint8_t *gcode_component, size_t gc_cap)",
    body_prefix="const size_t m_shape[2] = { m_shape0, m_shape1 }; /* shape_type m_shape */\n",
    rules=[
        R(r"std::array<std::vector<code_type>, 2> gcode_rc;", "uint8_t *gcode_rc[2] = { gcode_rc0, gcode_rc1 }; /* storage provided by the caller */", 1),
        V(r"\bauto (\w+) = static_cast<std::uint8_t>", r"const uint8_t \1 = static_cast<std::uint8_t>"),
        R(r"std::vector<std::uint8_t> gcode_component\(([^;]*)\);", r"fsl_vec_fill(gcode_component, \1);", 1),
        R(r"gcode_rc\[dim\] = gcode_component;", "fsl_vec_copy(gcode_rc[dim], gcode_component, m_shape[dim]);", 1),
        V(r"gcode_component\[([^\[\]]+(?:\[[^\[\]]+\])?[^\[\]]*)\] =", r"gcode_component[FSL_IDX1(\1, m_shape[dim])] ="),
        V(r"m_nodes_codes\.resize\(\{ m_size \}\);", "/* resize({ m_size }): storage of m_size cells provided by the caller */"),
        V(r"\bravel_idx\(", "ravel_idx(m_shape1, "),
        V(r"m_nodes_codes\[(ravel_idx\([^()]*\))\]", r"m_nodes_codes[FSL_IDX1(\1, m_size)]"),
        V(r"gcode_rc\[0\]\[([^\[\]]+)\]", r"gcode_rc[0][FSL_IDX1(\1, m_shape[0])]"),
        V(r"gcode_rc\[1\]\[([^\[\]]+)\]", r"gcode_rc[1][FSL_IDX1(\1, m_shape[1])]"),
    ],
    contract=r"""
__CPROVER_requires(2 <= m_shape0 && m_shape0 <= DIM_MAX && 2 <= m_shape1 && m_shape1 <= DIM_MAX && m_size <= ((size_t) 1 << 40))
__CPROVER_requires(__CPROVER_is_fresh(m_nodes_codes, m_size) && __CPROVER_is_fresh(gcode_rc0, m_shape0) && __CPROVER_is_fresh(gcode_rc1, m_shape1))
__CPROVER_requires(m_shape0 <= gc_cap && m_shape1 <= gc_cap && gc_cap <= DIM_MAX && __CPROVER_is_fresh(gcode_component, gc_cap))   /* scratch vector storage */
__CPROVER_requires(GR < m_shape0 && GC < m_shape1 && GIDX < m_size && GN0 == m_shape0 && GSIZE == m_size)
__CPROVER_assigns(__CPROVER_object_whole(m_nodes_codes), __CPROVER_object_whole(gcode_rc0), __CPROVER_object_whole(gcode_rc1), __CPROVER_object_whole(gcode_component))
/* C07: the cell of the arbitrary node (GR, GC) -- GIDX is its flat index, see the ravel lemmas -- holds its location code */
__CPROVER_ensures(m_nodes_codes[GIDX] == CODE(GR, GC))
""",
    loops={1: r"""
__CPROVER_assigns(r, __CPROVER_object_whole(m_nodes_codes))
__CPROVER_loop_invariant(r <= m_shape[0])
__CPROVER_loop_invariant(GR < r ==> m_nodes_codes[GIDX] == CODE(GR, GC))
__CPROVER_decreases(m_shape[0] - r)
""", 2: r"""
__CPROVER_assigns(c, __CPROVER_object_whole(m_nodes_codes))
__CPROVER_loop_invariant(c <= m_shape[1])
__CPROVER_loop_invariant((GR < r || (GR == r && GC < c)) ==> m_nodes_codes[GIDX] == CODE(GR, GC))
__CPROVER_decreases(m_shape[1] - c)
"""})


def codes_group():
    return Group(name="raster.codes", units=[base, ravel_assumed, codes],
                 harness=ND + r"""
void h_codes(void)
{
    uint8_t *nc, *g0, *g1, *gc;
    GR = nondet_size_t(); GC = nondet_size_t(); GIDX = nondet_size_t(); GN0 = nondet_size_t(); GSIZE = nondet_size_t();
    build_nodes_codes(nc, nondet_size_t(), nondet_size_t(), nondet_size_t(), g0, g1, gc, nondet_size_t());
    __CPROVER_assert(0, "canary: postcondition point reachable");
}
""", entry="h_codes", enforce="build_nodes_codes", replace=["ravel_idx", "fsl_vec_fill", "fsl_vec_copy"], loop_contracts=True,
                 unwindset={("build_nodes_codes", 0): 3}, timeout=600, min_obligations=20,
                 # narrowing int -> uint8_t is well-defined (mod 256); the ghost-cell vector model bounds only the ghost entries, so the
                 # optional conversion check cannot be discharged at the other cells (their values are exact: 0/3/6 + 0/1/2)
                 no_checks=["--conversion-check"],
                 clause="build_nodes_codes: the code table holds 3 * [row class] + [column class] (0 first, 1 inside, 2 last) at the flat index of an "
                        "arbitrary node (uses the ASSUMED lemmas RAVEL_INJECTIVE / RAVEL_IN_RANGE)")


# =========================================================================== 6. profile grid (1-D, linear arithmetic)
def profile_offsets_table():
    try:
        src = st._src(PG_H)
        ms = list(re.finditer(r"static constexpr std::array<std::ptrdiff_t, (\d+)> offsets\s*\{\s*\{([^{}]*)\}\s*\};", src))
        if len(ms) != 1:
            raise ex.ExtractionError("profile_grid::offsets: %d definitions" % len(ms))
        vals = [v.strip() for v in ms[0].group(2).split(",")]
        if len(vals) != int(ms[0].group(1)) or not all(re.match(r"^-?\d+$", v) for v in vals):
            raise ex.ExtractionError("profile_grid::offsets: cannot parse %r" % ms[0].group(2))
        return "static const ptrdiff_t offsets[%d] = { %s }; /* profile_grid::offsets (class text) */\n#define PROFILE_N_OFFSETS %d\n" % (
            len(vals), ", ".join(vals), len(vals))
    except (ex.ExtractionError, OSError) as e:
        return "#error extraction: %s\n" % str(e).replace("\n", " ")


PGEO = r"""
size_t GI1;   /* an arbitrary node of the profile */
#define PCODE(i) ((i) == 0 ? 0 : ((i) == m_size - 1 ? 2 : 1))
#define PADM(i, d) ((d) < 0 ? ((i) > 0 || bs->left == NS_looped) : ((i) < m_size - 1 || bs->right == NS_looped))
#define PTGT(i, d) ((d) < 0 ? ((i) > 0 ? (i) - 1 : m_size - 1) : ((i) < m_size - 1 ? (i) + 1 : 0))
#define PBS_SYM(b) (((b)->left == NS_looped) == ((b)->right == NS_looped))
#ifndef FSL_SET3
#define FSL_SET3(a, v0, v1, v2) { (a)[0] = (v0); (a)[1] = (v1); (a)[2] = (v2); }
#endif
"""
PROFILE_VOCAB = [
    V(r"m_bounds_status\.is_horizontal_looped\(\)", "pbs_is_horizontal_looped(bs)"),
    V(r"m_bounds_status\.(left|right)\b", r"bs->\1"),
    V(r"\bgcode\(([^()]+)\)", r"gcode(m_gcode_idx, m_size, \1)"),
    V(r"detail::add_offset\(", "add_offset("),
    V(r"\boffsets\[([^\[\]]+)\]", r"offsets[FSL_IDX1(\1, PROFILE_N_OFFSETS)]"),
    V(r"\bm_gcode_idx\[([^\[\]]+)\]", r"m_gcode_idx[FSL_IDX1(\1, m_size)]"),
    V(r"\bm_neighbors_count\[([^\[\]]+(?:\([^()]*\))?[^\[\]]*)\]", r"m_neighbors_count[FSL_IDX1(\1, 3)]"),
    V(r"\bneighbors\[([^\[\]]+)\]", r"neighbors[FSL_IDX1(\1, 2)]"),
]
add_offset = Unit(name="add_offset", file=BASE_H, anchor=r"inline std::size_t add_offset\(std::size_t idx, std::ptrdiff_t offset\)",
                  sig="static inline size_t add_offset(size_t idx, ptrdiff_t offset)", pre=PGEO)
gcode = Unit(name="gcode", file=PG_H, anchor=r"auto profile_grid<S, C>::gcode\(const size_type& idx\) const -> code_type",
             sig="static inline uint8_t gcode(const uint8_t *m_gcode_idx, size_t m_size, size_t idx)", rules=PROFILE_VOCAB)
PCODE_TABLE = "m_gcode_idx[GI1] == PCODE(GI1)"
PCOUNT_TABLE = " && ".join("m_neighbors_count[%d] == (size_t) (%s)" % (k, " + ".join(
    "(%s ? 1 : 0)" % ("bs->left == NS_looped" if (d == -1 and k == 0) else "bs->right == NS_looped" if (d == 1 and k == 2) else "1") for d in (-1, 1)))
    for k in range(3))
P_REQ = r"""
__CPROVER_requires(2 <= m_size && m_size <= ((size_t) 1 << 40) && __CPROVER_is_fresh(bs, sizeof(*bs)) && PBS_SYM(bs))
"""
build_gcode = Unit(
    name="build_gcode", file=PG_H, anchor=r"void profile_grid<S, C>::build_gcode\(\)",
    sig="void build_gcode(uint8_t *m_gcode_idx, size_t m_size)",
    rules=[V(r"m_gcode_idx\.resize\(\{ m_size \}\);", "/* resize({ m_size }): storage of m_size cells provided by the caller */"),
           V(r"m_gcode_idx\.fill\(([^()]+)\);", r"fsl_fill_u8(m_gcode_idx, m_size, \1);")] + PROFILE_VOCAB,
    contract=r"""
__CPROVER_requires(2 <= m_size && m_size <= ((size_t) 1 << 40) && __CPROVER_is_fresh(m_gcode_idx, m_size) && GI1 < m_size && GI == GI1)
__CPROVER_assigns(__CPROVER_object_whole(m_gcode_idx))
__CPROVER_ensures(m_gcode_idx[GI1] == PCODE(GI1))   /* 0 first node, 2 last node, 1 inside */
""")


def _set3(m):
    vals = [x.strip() for x in m.group(1).split(",")]
    if len(vals) != 3 or not all(re.match(r"^\d+$", v) for v in vals):
        raise ex.ExtractionError("profile build_neighbors_count: expected 3 integer literals, got %r" % m.group(1))
    return "FSL_SET3(m_neighbors_count, %s);" % ", ".join(vals)


p_build_count = Unit(
    name="profile_build_neighbors_count", file=PG_H, anchor=r"void profile_grid<S, C>::build_neighbors_count\(\)",
    sig="void profile_build_neighbors_count(size_t *m_neighbors_count, size_t m_size, const struct pbs *bs)",
    rules=[V(r"m_neighbors_count = std::array<size_type, 3>\(\{([^{}]*)\}\);", _set3)] + PROFILE_VOCAB,
    contract=P_REQ + r"""
__CPROVER_requires(__CPROVER_is_fresh(m_neighbors_count, 3 * 8))
__CPROVER_assigns(__CPROVER_object_whole(m_neighbors_count))
__CPROVER_ensures(%s)   /* per location code: number of admissible steps */
""" % PCOUNT_TABLE)
p_count_impl = Unit(
    name="profile_neighbors_count_impl", file=PG_H,
    anchor=r"inline auto profile_grid<S, C>::neighbors_count_impl\(const size_type& idx\) const noexcept\s*-> size_type",
    sig="size_t profile_neighbors_count_impl(size_t idx, const uint8_t *m_gcode_idx, const size_t *m_neighbors_count, size_t m_size, const struct pbs *bs)",
    rules=PROFILE_VOCAB,
    contract=P_REQ + r"""
__CPROVER_requires(__CPROVER_is_fresh(m_gcode_idx, m_size) && __CPROVER_is_fresh(m_neighbors_count, 3 * 8) && idx < m_size && idx == GI1)
__CPROVER_requires(%s && %s)   /* producers: profile.build_gcode, profile.build_count */
__CPROVER_assigns()
__CPROVER_ensures(__CPROVER_return_value == (size_t) ((PADM(idx, -1) ? 1 : 0) + (PADM(idx, 1) ? 1 : 0)))
""" % (PCODE_TABLE, PCOUNT_TABLE))
P_SPEC = [("PADM(idx, -1)", ("PTGT(idx, -1)",)), ("PADM(idx, 1)", ("PTGT(idx, 1)",))]
p_indices = Unit(
    name="profile_neighbors_indices_impl", file=PG_H,
    anchor=r"inline auto profile_grid<S, C>::neighbors_indices_impl\(neighbors_indices_impl_type& neighbors,\s*const size_type& idx\) const -> void",
    sig="void profile_neighbors_indices_impl(size_t *neighbors, size_t idx, size_t m_size, const struct pbs *bs)",
    rules=PROFILE_VOCAB,
    contract=P_REQ + r"""
__CPROVER_requires(__CPROVER_is_fresh(neighbors, 2 * 8) && idx < m_size)
__CPROVER_assigns(__CPROVER_object_whole(neighbors))
/* C07 on a profile: the first N slots (N = number of admissible steps = neighbors_count_impl(idx)) hold, as a multiset, the
 * targets (idx -+ 1) mod size of the admissible steps; all < size */
__CPROVER_ensures(%s)
__CPROVER_ensures((0 < (PADM(idx, -1) ? 1 : 0) + (PADM(idx, 1) ? 1 : 0) ==> neighbors[0] < m_size) && (1 < (PADM(idx, -1) ? 1 : 0) + (PADM(idx, 1) ? 1 : 0) ==> neighbors[1] < m_size))
""" % multiset_eq("(size_t) ((PADM(idx, -1) ? 1 : 0) + (PADM(idx, 1) ? 1 : 0))", 2, lambda i: ("neighbors[%d]" % i,), P_SPEC))


def profile_groups():
    pre = st._PRE
    add_offset.pre = PGEO + profile_offsets_table()
    common = [pre, st.pbs_is_hl, add_offset, gcode]
    hp = ND + r"""
void h_%s(void)
{
    uint8_t *gc; size_t *cnt; size_t *nb; const struct pbs *bs; const uint8_t *cgc; const size_t *ccnt;
    GI = nondet_size_t(); GI1 = nondet_size_t();
    %s;
    __CPROVER_assert(0, "canary: postcondition point reachable");
}
"""
    return [
        Group(name="raster.profile.build_gcode", units=common + [build_gcode], harness=hp % ("build_gcode", "build_gcode(gc, nondet_size_t())"),
              entry="h_build_gcode", enforce="build_gcode", replace=["fsl_fill_u8"], timeout=120, min_obligations=5,
              clause="profile location codes: 0 first node, 2 last node, 1 inside (arbitrary node, size >= 2)"),
        Group(name="raster.profile.build_count", units=common + [p_build_count],
              harness=hp % ("pbc", "profile_build_neighbors_count(cnt, nondet_size_t(), bs)"),
              entry="h_pbc", enforce="profile_build_neighbors_count", timeout=120, min_obligations=5,
              clause="profile count table: per location code the number of admissible steps"),
        Group(name="raster.profile.count_impl", units=common + [p_count_impl],
              harness=hp % ("pci", "size_t r = profile_neighbors_count_impl(nondet_size_t(), cgc, ccnt, nondet_size_t(), bs)"),
              entry="h_pci", enforce="profile_neighbors_count_impl", timeout=120, min_obligations=5,
              clause="profile neighbors_count_impl(idx) == number of admissible steps at idx (given the code and count tables)"),
        Group(name="raster.profile.indices", units=common + [p_indices],
              harness=hp % ("pni", "profile_neighbors_indices_impl(nb, nondet_size_t(), nondet_size_t(), bs)"),
              entry="h_pni", enforce="profile_neighbors_indices_impl", unwindset={("profile_neighbors_indices_impl", 0): 3},
              timeout=300, min_obligations=10,
              clause="profile neighbors_indices_impl: multiset of ((idx - 1) mod size, (idx + 1) mod size) over the admissible steps, wrapping "
                     "only across looped ends; symbolic size in [2, 2^40]"),
    ]


def profile_symmetry_group():
    def cnt(a, b):
        return " + ".join("((PADM(%s, %d) && PTGT(%s, %d) == %s) ? 1 : 0)" % (a, d, a, d, b) for d in (-1, 1))
    h = ND + PGEO + r"""
void h_psym(void)
{
    size_t m_size = nondet_size_t(); struct pbs b_; const struct pbs *bs = &b_;
    size_t a = nondet_size_t(), b = nondet_size_t();
    __CPROVER_assume(2 <= m_size && m_size <= ((size_t) 1 << 40) && PBS_SYM(bs) && a < m_size && b < m_size);
    __CPROVER_assert((%s) == (%s), "C07 symmetry of the profile neighbour relation (with multiplicities)");
    __CPROVER_assert(0, "canary: postcondition point reachable");
}
""" % (cnt("a", "b"), cnt("b", "a"))
    return Group(name="raster.profile.symmetry", units=[st._PRE, st.pbs_is_hl], harness=h, entry="h_psym", timeout=120, min_obligations=1,
                 clause="profile: the geometric neighbour relation is symmetric with multiplicities (spec-level lemma)")


CONNS = ["queen", "rook", "bishop"]
GROUPS = {"C07": [g for c in CONNS for g in [nno_group(c), count_group(c), symmetry_group(c), count_impl_group(c)] + [coded_group(c, k) for k in range(9)]]
          + [spec_by_code_group(c) for c in CONNS] + [codes_group()]
          + [indices_group(8), indices_group(4)] + [index_lemma_group(c, k) for c in CONNS for k in range(9)] + ravel_groups() + profile_groups() + [profile_symmetry_group()]}
for _g in GROUPS["C07"]:
    if _g.enforce:
        _g.replay = "replay/raster.cpp"
PROPS = {
    "C07": dict(
        level="other",
        explanation="C07 is decided by unbounded / complete obligations for: the per-code offset lists and count tables (all three "
                    "connectivities, all looped combinations, symbolic shape in [2, 2^20]^2), the count accessor, symmetry of the geometric "
                    "relation, ravel/unravel round trip, and the whole profile grid (codes, counts, indices, symmetry; size in [2, 2^40]). "
                    "The 2-D flat-index clause is split into a SUPPORTING function-level group (shaped like the code, `*` abstracted) and "
                    "scalar polynomial lemmas per (location code, step), joined by an unmechanised substitution; the code table relies on "
                    "two ASSUMED arithmetic lemmas about row * ncols + col. Distances, statuses of neighbours, the (row, col) overloads, "
                    "the struct accessors and the cache are not under contract here.",
        assumptions=[
            "RAVEL_INJECTIVE (assumed, elementary): for col, col' < ncols: row * ncols + col == row' * ncols + col' <=> (row, col) == (row', col'); "
            "RAVEL_IN_RANGE (assumed): row < nrows, col < ncols ==> row * ncols + col < nrows * ncols.  cvc5, z3 and SAT all time out on "
            "both (120 s probes); used by raster.codes through the replaced contract of ravel_idx (the equation ravel_idx == row * ncols + "
            "col itself is proved in raster.ravel)",
            "std::vector<std::array<ptrdiff_t,2>> is a flat buffer of pairs + length with model capacity 8 (push_back beyond it is an "
            "obligation); std::array<bool,N> / std::array<size_type,9> are C arrays; the braced list returned by "
            "build_coded_neighbors_offsets is 9 independent side-effect-free calls, each group compiles the entry of its own location code",
            "std::vector<uint8_t>(n, v) and vector copy assignment in build_nodes_codes are ghost-cell models (contract only: the ghost "
            "positions hold v / are copied); storage of the vectors and of m_nodes_codes is provided by the caller; in raster.codes the "
            "optional --conversion-check is dropped (int -> uint8_t narrowing is well-defined; non-ghost entries are not bounded by the model)",
            "neighbors_indices_impl: `x * ncols` is abstracted as a deterministic function of its operands (ghost table GM), "
            "static_cast<size_type>(negative offset) is the intended well-defined wrap (conversion check dropped in raster.indices.* and the "
            "index lemmas); std::array::at() out of range is an obligation (no exception expected)",
            "accessors nodes_codes(idx) / neighbor_offsets(code) / gcode(idx) are translated as table reads with index obligations "
            "(gcode is extracted); looped borders are symmetrical (class invariant from C17: status.looped.*)",
            "precondition instances (producers named in each contract): code table entry of the queried node, count table, offset-list "
            "length <= n_neighbors_max",
            "spec-level lemma groups (raster.symmetry.*, raster.spec_by_code.*, raster.index_lemma.*, profile.symmetry) are plain harnesses "
            "whose __CPROVER_assume lines state the spec's own domain (shape bounds, node inside, symmetric looped borders, location class)",
        ],
        unmechanised=[
            "index clause: raster.indices.nb* (slot i == mul(off_r[i], ncols) + off_c[i] + idx) + raster.coded_offsets.* (the stored offsets "
            "are, as a multiset, target - node over the admissible steps) + raster.index_lemma.* (for each such offset the expression equals "
            "target_r * ncols + target_c) ==> the produced indices are, as a multiset, the flat indices of the geometric neighbours "
            "(substitution of equals, elementwise map of equal multisets); all < size by RAVEL_IN_RANGE",
            "counts agree with list lengths: raster.count_table.* and raster.coded_offsets.* are both stated against the same geometric "
            "count (number of admissible steps); equality of the two follows by transitivity",
            "from the arbitrary ghost node to all nodes",
        ],
        undecided=[
            "neighbors_distances_impl / build_coded_neighbors_distances (compute_distance is xtensor expression code), neighbour status field, "
            "the (row, col) overloads (raster_grid.hpp:902-986), grid::neighbors / neighbors_indices wrappers and the neighbour cache "
            "(base.hpp) are not under contract in this module",
            "a property-level (not code-shaped) function contract for raster neighbors_indices_impl: every back end times out on the "
            "flat-index equality once the offsets are array reads (see module comment)",
        ],
    ),
}
