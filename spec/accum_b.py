"""C03 -- BOUNDED end-to-end stand-in for flow_graph_impl::accumulate(acc, src) (flow_graph_impl.hpp): the whole extracted function with
the IEEE operations (no abstraction), on ALL single- and multiple-direction receiver tables with at most N_B nodes, checked against the
recurrence and the conservation clause of the property statement IN EXACT ARITHMETIC: sources and areas are small integers, weights are
dyadic fractions (k/4) that sum to one per node, so every product and sum of the run is exact and `equals` is meant literally.

It complements the unbounded groups of spec/sweeps.py (step equation with abstracted operations, finality, non-negativity for ANY number
of nodes): those do not compose the per-turn equation into the recurrence (unmechanised induction); this group checks the composed
statement on the real loop, but only within the bound.  Labelled bounded, never counted as proof."""
from fv.extract import Unit, R, V
from fv.runner import Group
from spec.sweeps import ACC_ANCHOR, ACC_LOOP_HEAD, IMPL_H

N_B = 3

DEFS = r"""
#define m_receivers(i, j) m_receivers_[FSL_IDX2(i, j, gsize, REC_W)]
#define m_receivers_count(i) m_receivers_count_[FSL_IDX1(i, gsize)]
#define m_receivers_weight(i, j) m_receivers_weight_[FSL_IDX2(i, j, gsize, REC_W)]
#define m_dfs_indices(i) m_dfs_indices_[FSL_IDX1(i, gsize)]
#define area(i) area_[FSL_IDX1(i, gsize)]
#define src(i) src_[FSL_IDX1(i, gsize)]
/* other members of the implementation object in scope (today's body does not read them) */
#define is_base_level(i) (base_level_[FSL_IDX1(i, gsize)] != 0)
#define is_masked(i) (mask_init_ && mask_[FSL_IDX1(i, gsize)] != 0)
"""
PARAMS = ("size_t gsize, const size_t *m_dfs_indices_, const size_t *m_receivers_, const size_t *m_receivers_count_, "
          "const double *m_receivers_weight_, const double *area_, const double *src_, double *acc, const _Bool *base_level_, const _Bool *mask_, _Bool mask_init_")

accumulate_b = Unit(
    name="accumulate_b", file=IMPL_H, anchor=ACC_ANCHOR, sig="void accumulate_b(%s)" % PARAMS, defs=DEFS,
    rules=[
        R(r"auto src_arr = xt::broadcast\(std::forward<T>\(src\), m_grid\.shape\(\)\);", "/* glue: src is modelled as the array src[n] */", 1),
        # xtensor `a.fill(v)`: element-wise (assumed xtensor semantics)
        R(r"acc\.fill\(0\);", "for (size_t z_ = 0; z_ < gsize; ++z_) acc[z_] = 0;", None),
        R(r"auto nodes_indices = nodes_indices_bottomup\(\);", "", None),
        # reverse iteration over the bottom-up order: turn dfs_k reads position size-1-dfs_k (any count: a body that sweeps with its own index loop over
        # m_dfs_indices is taken as written)
        R(ACC_LOOP_HEAD, "for (size_t dfs_k = 0; dfs_k < gsize; ++dfs_k)", None),
        R(r"const auto (\w+) = \*\w+;", r"const size_t \1 = m_dfs_indices(gsize - 1 - dfs_k);", None),
        V(r"const auto (\w+) = m_dfs_indices\(", r"const size_t \1 = m_dfs_indices("),
        V(r"const auto (\w+) = acc\.flat\(", r"const double \1 = acc.flat("),
        V(r"m_grid\.nodes_areas\(", "area("),
        V(r"\bsrc_arr\(", "src("),
        V(r"(?<![\w.])size\(\)", "gsize"),
        V(r"m_grid\.size\(\)", "gsize"),
        V(r"\bm_receivers_count\[([^\[\]]*)\]", r"m_receivers_count(\1)"),
    ],
)

HARNESS = r"""
size_t nondet_size_t(void); _Bool nondet_bool(void); unsigned char nondet_uchar(void);
/* ALL receiver tables on gsize <= N_B nodes that satisfy the order contract (C06): the order is a permutation (ghost inverse pos), a receiver
 * other than the node itself comes earlier in the bottom-up order; a node with itself as receiver has exactly that one receiver (outlets, pits,
 * masked nodes: C04 / C05); weights are k/WDIV >= 0 and sum to one per node (C05); areas and sources are integers in [0, VMAX] (sources may be 0) */
void h_accumulate_b(void)
{
    size_t gsize = nondet_size_t();
    __CPROVER_assume(1 <= gsize && gsize <= N_B);
    size_t dfs[N_B], pos[N_B], rec[N_B * REC_W], rcnt[N_B];
    double wgt[N_B * REC_W], area[N_B], src[N_B], acc[N_B];
    _Bool bl[N_B], msk[N_B], msk_init = nondet_bool();
    for (int p = 0; p < N_B; ++p) { dfs[p] = nondet_size_t(); pos[p] = nondet_size_t(); }
    for (int p = 0; p < N_B; ++p) if ((size_t) p < gsize) { __CPROVER_assume(dfs[p] < gsize); __CPROVER_assume(pos[dfs[p]] == (size_t) p); }
    for (int i = 0; i < N_B; ++i) if ((size_t) i < gsize) __CPROVER_assume(pos[i] < gsize && dfs[pos[i]] == (size_t) i);
    for (int i = 0; i < N_B; ++i)
    {
        unsigned char a = nondet_uchar(), s = nondet_uchar();
        __CPROVER_assume(a <= VMAX && s <= VMAX);
        area[i] = a; src[i] = s;
        rcnt[i] = nondet_size_t();
        __CPROVER_assume(1 <= rcnt[i] && rcnt[i] <= REC_W);
        unsigned quarters = 0;
        for (int k = 0; k < REC_W; ++k)
        {
            rec[i * REC_W + k] = nondet_size_t();
            unsigned char q = nondet_uchar();
            __CPROVER_assume(q <= WDIV);
            wgt[i * REC_W + k] = q * (1.0 / WDIV);
            if ((size_t) i < gsize && (size_t) k < rcnt[i])
            {
                size_t r = rec[i * REC_W + k];
                __CPROVER_assume(r < gsize);
                __CPROVER_assume(r == (size_t) i ? rcnt[i] == 1 : pos[r] < pos[i]);
                quarters += q;
            }
        }
        if ((size_t) i < gsize) __CPROVER_assume(quarters == WDIV);
        /* base levels and masked nodes are their own single receiver (C04 / C05); pits are own receivers that are neither */
        bl[i] = nondet_bool(); msk[i] = nondet_bool();
        if ((size_t) i < gsize && (bl[i] || (msk_init && msk[i]))) __CPROVER_assume(rec[i * REC_W] == (size_t) i);
    }
    /* arbitrary previous contents of the output array (an in-place call on an array that already holds values) */
    accumulate_b(gsize, dfs, rec, rcnt, wgt, area, src, acc, bl, msk, msk_init);
    /* C03, from the statement: the accumulated value at a node equals the source times the node's cell area plus the accumulated values of
     * all its donors weighted by their flow-partition fractions */
    double total_src = 0, total_out = 0;
    for (int g = 0; g < N_B; ++g) if ((size_t) g < gsize)
    {
        double expect = area[g] * src[g];
        for (int d = 0; d < N_B; ++d) if ((size_t) d < gsize && d != g)
            for (int k = 0; k < REC_W; ++k) if ((size_t) k < rcnt[d] && rec[d * REC_W + k] == (size_t) g)
                expect += acc[d] * wgt[d * REC_W + k];
        __CPROVER_assert(acc[g] == expect, "C03 accumulated value = area * source + sum over donors of accumulated(donor) * partition weight");
        __CPROVER_assert(acc[g] >= area[g] * src[g], "C03 a non-negative source gives values no smaller than the local contribution");
        total_src += area[g] * src[g];
        /* terminal nodes: their own (single) receiver */
        if (rec[g * REC_W] == (size_t) g) total_out += acc[g];
    }
    __CPROVER_assert(total_out == total_src, "C03 the sum over terminal nodes equals the source integrated over the whole grid");
    __CPROVER_assert(0, "canary: postcondition point reachable");
}
"""


def grp(rec_w, tier="quick", wdiv=4, vmax=3):
    loops = N_B + 2
    return Group(
        name="accum.bounded.w%d" % rec_w, units=[accumulate_b], harness=HARNESS, entry="h_accumulate_b",
        defines=["N_B=%d" % N_B, "REC_W=%d" % rec_w, "WDIV=%d" % wdiv, "VMAX=%d" % vmax], unwind=loops, backend="cadical", timeout=1200, min_obligations=10, tier=tier, object_bits=10,
        no_checks=["--conversion-check"],
        bounded="all receiver tables with <= %d nodes and <= %d receivers per node satisfying the order contract, integer areas / sources in [0,%d], "
                "weights in multiples of 1/%d summing to one (exact arithmetic), arbitrary previous contents of acc, arbitrary mask / base-level flags on "
                "own-receiver nodes (complete unwinding %d)" % (N_B, rec_w, vmax, wdiv, loops),
        replay="replay/routing.cpp",
        clause="flow_graph_impl::accumulate, whole extracted function with IEEE operations: every accumulated value equals area*source plus the "
               "weighted accumulated values of its donors (the recurrence of the property), is not below its local contribution, and the sum over "
               "terminal nodes equals the integrated source (conservation); receiver table width %d" % rec_w)


GROUPS = {"C03": [grp(1), grp(2, "thorough", wdiv=2, vmax=2)]}
PROPS = {
    "C03": dict(
        level="other",
        explanation="accum_b.py adds a BOUNDED end-to-end check of the composed statement (recurrence + conservation in exact arithmetic on all graphs "
                    "with <= %d nodes), which the unbounded per-turn groups do not compose." % N_B,
        assumptions=["accum.bounded.*: xt::broadcast(src) modelled as the array src[n], acc.fill(0) as an element-wise loop, m_grid.nodes_areas(i) as "
                     "the array area[n]; inputs restricted to exactly representable values so that the recurrence can be stated with `==`"],
    ),
}
