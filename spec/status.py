"""Node status rules (property C17, every clause except the filtered iterator, which is
spec/iterators.py).

Functions under contract (all extracted from /repo on every run):
  boundary_status::is_looped                          grid/structured_grid.hpp
  raster_boundary_status  ctors (mem-initialisers + body), is_horizontal_looped, is_vertical_looped,
                          check_looped_symmetrical    grid/raster_grid.hpp
  profile_boundary_status ctors x3, is_horizontal_looped, check_looped_symmetrical   grid/profile_grid.hpp
  detail::node_status_cmp (static priority table)     grid/base.hpp
  container_impl::check_size, get_{left,right,top,bottom}_view (which row/column)    utils/xtensor_containers.hpp
  raster_grid::set_nodes_status, profile_grid::set_nodes_status, trimesh_xt::set_nodes_status (map overload)
  grid_nodes_indices::begin/end, flow_graph_impl::set_base_levels, the default-base-level line of the
  flow_graph constructor                              utils/iterators.hpp, flow/flow_graph_impl.hpp, flow/impl/flow_graph_inl.hpp

Specification idioms: one arbitrary ghost node (GR, GC) / flat ghost index GI, ghost override index GK, ghost GJ = position of
the ghost node's key in the override map (or >= size if absent), ghost THROW_AT = the override entry being processed when an
exception was raised, ghost BV = composed border status of the ghost node (captured before the override loop)."""
import os
import re

from fv import extract as ex
from fv.extract import Unit, R, V
from fv.runner import Group
from spec import iterators as it

SG_H = "include/fastscapelib/grid/structured_grid.hpp"
RG_H = "include/fastscapelib/grid/raster_grid.hpp"
PG_H = "include/fastscapelib/grid/profile_grid.hpp"
TM_H = "include/fastscapelib/grid/trimesh.hpp"
BASE_H = "include/fastscapelib/grid/base.hpp"
XC_H = "include/fastscapelib/utils/xtensor_containers.hpp"
ITER_H = "include/fastscapelib/utils/iterators.hpp"
IMPL_H = "include/fastscapelib/flow/flow_graph_impl.hpp"
INL_H = "include/fastscapelib/flow/impl/flow_graph_inl.hpp"

NS = r"""
#define NS_core FSL_CORE
#define NS_fixed_value FSL_FIXED_VALUE
#define NS_fixed_gradient FSL_FIXED_GRADIENT
#define NS_looped FSL_LOOPED
#define NS_VALID(s) ((s) <= 3)   /* type invariant of enum class node_status : uint8_t */
/* precedence of the property statement: fixed value > fixed gradient > looped > core */
#define RANK(s) ((s) == NS_fixed_value ? 3 : (s) == NS_fixed_gradient ? 2 : (s) == NS_looped ? 1 : 0)
#define HIGHER(a, b) (RANK(a) >= RANK(b) ? (a) : (b))
"""

V_NS = V(r"node_status::(\w+)", r"NS_\1")
V_THROW = V(r"throw std::(?:invalid_argument|out_of_range|runtime_error|logic_error)\(\s*\"[^;]*\);",
            "{ fsl_thrown = 1; return; }", re.S)  # not FSL_THROW: its do-while(0) would count as a loop for the unwindset bookkeeping


def _src(rel):
    return ex.strip_comments(open(os.path.join(ex.REPO, rel)).read())


def _split_top(s):
    """split at top-level commas"""
    out, depth, cur = [], 0, ""
    for ch in s:
        if ch in "([{":
            depth += 1
        elif ch in ")]}":
            depth -= 1
        if ch == "," and depth == 0:
            out.append(cur)
            cur = ""
        else:
            cur += ch
    if cur.strip():
        out.append(cur)
    return [x.strip() for x in out]


def class_fields(rel, cls):
    """data members `node_status NAME = node_status::DEFAULT;` of a boundary-status class, in declaration order"""
    src = _src(rel)
    ms = list(re.finditer(r"\bclass\s+%s\b[^;{]*\{" % cls, src))
    if len(ms) != 1:
        raise ex.ExtractionError("class %s: %d definitions in %s" % (cls, len(ms), rel))
    ob = ms[0].end() - 1
    block = src[ob:ex.match_brace(src, ob) + 1]
    fields = re.findall(r"\bnode_status\s+(\w+)\s*=\s*node_status::(\w+)\s*;", block)
    if not fields:
        raise ex.ExtractionError("class %s: no node_status data members found" % cls)
    return fields


def ctor_prefix(rel, anchor, cls):
    """C text for the mem-initialiser list of a constructor (members not listed get their default member initialiser)."""
    try:
        fields = class_fields(rel, cls)
        src = _src(rel)
        ms = list(re.finditer(anchor + r"\s*:(.*?)\{", src, re.S))
        if len(ms) != 1:
            raise ex.ExtractionError("constructor %r: %d matches" % (anchor, len(ms)))
        inits = {}
        for item in _split_top(ms[0].group(1)):
            m = re.match(r"^(\w+)\s*[\(\{](.*)[\)\}]$", item, re.S)
            if not m:
                raise ex.ExtractionError("cannot parse mem-initialiser %r" % item)
            inits[m.group(1)] = m.group(2).strip()
        unknown = [k for k in inits if k not in dict(fields)]
        if unknown:
            raise ex.ExtractionError("mem-initialiser for unknown member(s) %s" % unknown)
        lines = []
        for name, default in fields:
            expr = inits.get(name, "node_status::" + default)
            expr = re.sub(r"node_status::(\w+)", r"NS_\1", expr)
            lines.append("self->%s = (%s); /* mem-initialiser / default member initialiser */\n" % (name, expr))
        return "".join(lines)
    except (ex.ExtractionError, OSError) as e:
        return "#error extraction: %s\n" % str(e).replace("\n", " ")


# =========================================================================== 1. looped symmetry
bs_is_looped = Unit(
    name="bs_is_looped", file=SG_H,
    anchor=r"inline bool boundary_status::is_looped\(const node_status status\) const",
    sig="static inline _Bool bs_is_looped(uint8_t status)",
    pre=NS, rules=[V_NS],
)


def bs_vocab(prefix, fields):
    """vocabulary of a boundary-status object seen from its own member functions"""
    rules = [V(r"\bis_looped\(", "bs_is_looped("),
             V(r"\bcheck_looped_symmetrical\(\)", "%s_check_looped_symmetrical(self)" % prefix),
             V(r"\bis_horizontal_looped\(\)", "%s_is_horizontal_looped(self)" % prefix)]
    if "top" in fields:
        rules.append(V(r"\bis_vertical_looped\(\)", "%s_is_vertical_looped(self)" % prefix))
    rules.append(V(r"(?<![\w>.])(%s)\b(?!\s*\()" % "|".join(fields), r"self->\1"))
    rules += [V_NS, V_THROW]
    return rules


RBS_STRUCT = "struct rbs { uint8_t left, right, top, bottom; };\n"
PBS_STRUCT = "struct pbs { uint8_t left, right; };\n"
RBS_F = ["left", "right", "top", "bottom"]
PBS_F = ["left", "right"]

rbs_is_hl = Unit(
    name="rbs_is_horizontal_looped", file=RG_H,
    anchor=r"inline bool raster_boundary_status::is_horizontal_looped\(\) const",
    sig="_Bool rbs_is_horizontal_looped(const struct rbs *self)",
    pre=RBS_STRUCT, rules=bs_vocab("rbs", RBS_F),
    contract=r"""
__CPROVER_requires(__CPROVER_is_fresh(self, sizeof(*self)))
__CPROVER_assigns()
__CPROVER_ensures(__CPROVER_return_value == (self->left == NS_looped && self->right == NS_looped))
""")
rbs_is_vl = Unit(
    name="rbs_is_vertical_looped", file=RG_H,
    anchor=r"inline bool raster_boundary_status::is_vertical_looped\(\) const",
    sig="_Bool rbs_is_vertical_looped(const struct rbs *self)",
    rules=bs_vocab("rbs", RBS_F),
    contract=r"""
__CPROVER_requires(__CPROVER_is_fresh(self, sizeof(*self)))
__CPROVER_assigns()
__CPROVER_ensures(__CPROVER_return_value == (self->top == NS_looped && self->bottom == NS_looped))
""")
RBS_ASYM = "(((%s == NS_looped) != (%s == NS_looped)) || ((%s == NS_looped) != (%s == NS_looped)))"
rbs_check = Unit(
    name="rbs_check_looped_symmetrical", file=RG_H,
    anchor=r"inline void raster_boundary_status::check_looped_symmetrical\(\) const",
    sig="void rbs_check_looped_symmetrical(const struct rbs *self)",
    rules=bs_vocab("rbs", RBS_F),
    contract=r"""
__CPROVER_requires(__CPROVER_is_fresh(self, sizeof(*self)) && fsl_thrown == 0)
__CPROVER_assigns(fsl_thrown)
/* C17: refused exactly when exactly one border of an opposite pair is looped */
__CPROVER_ensures((fsl_thrown != 0) == %s)
""" % (RBS_ASYM % ("self->left", "self->right", "self->top", "self->bottom")))

RBS_CTOR1_A = r"inline raster_boundary_status::raster_boundary_status\(node_status status\)"
RBS_CTOR4_A = r"inline raster_boundary_status::raster_boundary_status\(const std::array<node_status, 4>& status\)"
rbs_ctor1 = Unit(
    name="rbs_ctor_uniform", file=RG_H, anchor=RBS_CTOR1_A,
    sig="void rbs_ctor_uniform(struct rbs *self, uint8_t status)",
    rules=bs_vocab("rbs", RBS_F), body_prefix=ctor_prefix(RG_H, RBS_CTOR1_A, "raster_boundary_status"),
    contract=r"""
__CPROVER_requires(__CPROVER_is_fresh(self, sizeof(*self)) && fsl_thrown == 0)
__CPROVER_assigns(__CPROVER_object_whole(self), fsl_thrown)
/* the same status on all four borders is never asymmetric */
__CPROVER_ensures(fsl_thrown == 0)
__CPROVER_ensures(self->left == status && self->right == status && self->top == status && self->bottom == status)
""")
rbs_ctor4 = Unit(
    name="rbs_ctor_array", file=RG_H, anchor=RBS_CTOR4_A,
    sig="void rbs_ctor_array(struct rbs *self, const uint8_t *status)",
    rules=bs_vocab("rbs", RBS_F), body_prefix=ctor_prefix(RG_H, RBS_CTOR4_A, "raster_boundary_status"),
    contract=r"""
__CPROVER_requires(__CPROVER_is_fresh(self, sizeof(*self)) && __CPROVER_is_fresh(status, 4) && fsl_thrown == 0)
__CPROVER_assigns(__CPROVER_object_whole(self), fsl_thrown)
/* documented order: left, right, top, bottom */
__CPROVER_ensures((fsl_thrown != 0) == %s)
__CPROVER_ensures(fsl_thrown == 0 ==> (self->left == status[0] && self->right == status[1] && self->top == status[2] && self->bottom == status[3]))
""" % (RBS_ASYM % ("status[0]", "status[1]", "status[2]", "status[3]")))

pbs_is_hl = Unit(
    name="pbs_is_horizontal_looped", file=PG_H,
    anchor=r"inline bool profile_boundary_status::is_horizontal_looped\(\) const",
    sig="_Bool pbs_is_horizontal_looped(const struct pbs *self)",
    pre=PBS_STRUCT, rules=bs_vocab("pbs", PBS_F),
    contract=r"""
__CPROVER_requires(__CPROVER_is_fresh(self, sizeof(*self)))
__CPROVER_assigns()
__CPROVER_ensures(__CPROVER_return_value == (self->left == NS_looped && self->right == NS_looped))
""")
pbs_check = Unit(
    name="pbs_check_looped_symmetrical", file=PG_H,
    anchor=r"inline void profile_boundary_status::check_looped_symmetrical\(\)",
    sig="void pbs_check_looped_symmetrical(const struct pbs *self)",
    rules=bs_vocab("pbs", PBS_F),
    contract=r"""
__CPROVER_requires(__CPROVER_is_fresh(self, sizeof(*self)) && fsl_thrown == 0)
__CPROVER_assigns(fsl_thrown)
__CPROVER_ensures((fsl_thrown != 0) == ((self->left == NS_looped) != (self->right == NS_looped)))
""")
PBS_C1_A = r"inline profile_boundary_status::profile_boundary_status\(node_status status\)"
PBS_C2_A = r"inline profile_boundary_status::profile_boundary_status\(node_status left_status,\s*node_status right_status\)"
PBS_C3_A = r"inline profile_boundary_status::profile_boundary_status\(\s*const std::array<node_status, 2>& status\)"
pbs_ctor1 = Unit(
    name="pbs_ctor_uniform", file=PG_H, anchor=PBS_C1_A,
    sig="void pbs_ctor_uniform(struct pbs *self, uint8_t status)",
    rules=bs_vocab("pbs", PBS_F), body_prefix=ctor_prefix(PG_H, PBS_C1_A, "profile_boundary_status"),
    contract=r"""
__CPROVER_requires(__CPROVER_is_fresh(self, sizeof(*self)) && fsl_thrown == 0)
__CPROVER_assigns(__CPROVER_object_whole(self), fsl_thrown)
__CPROVER_ensures(fsl_thrown == 0 && self->left == status && self->right == status)
""")
pbs_ctor2 = Unit(
    name="pbs_ctor_pair", file=PG_H, anchor=PBS_C2_A,
    sig="void pbs_ctor_pair(struct pbs *self, uint8_t left_status, uint8_t right_status)",
    rules=bs_vocab("pbs", PBS_F), body_prefix=ctor_prefix(PG_H, PBS_C2_A, "profile_boundary_status"),
    contract=r"""
__CPROVER_requires(__CPROVER_is_fresh(self, sizeof(*self)) && fsl_thrown == 0)
__CPROVER_assigns(__CPROVER_object_whole(self), fsl_thrown)
__CPROVER_ensures((fsl_thrown != 0) == ((left_status == NS_looped) != (right_status == NS_looped)))
__CPROVER_ensures(fsl_thrown == 0 ==> (self->left == left_status && self->right == right_status))
""")
pbs_ctor3 = Unit(
    name="pbs_ctor_array", file=PG_H, anchor=PBS_C3_A,
    sig="void pbs_ctor_array(struct pbs *self, const uint8_t *status)",
    rules=bs_vocab("pbs", PBS_F), body_prefix=ctor_prefix(PG_H, PBS_C3_A, "profile_boundary_status"),
    contract=r"""
__CPROVER_requires(__CPROVER_is_fresh(self, sizeof(*self)) && __CPROVER_is_fresh(status, 2) && fsl_thrown == 0)
__CPROVER_assigns(__CPROVER_object_whole(self), fsl_thrown)
__CPROVER_ensures((fsl_thrown != 0) == ((status[0] == NS_looped) != (status[1] == NS_looped)))
__CPROVER_ensures(fsl_thrown == 0 ==> (self->left == status[0] && self->right == status[1]))
""")

ND = "size_t nondet_size_t(void); uint8_t nondet_u8(void); int nondet_int(void); _Bool nondet_bool(void);\n"


def H(fn, decls, args, ret="", ghosts=""):
    return ND + r"""
void h_%s(void)
{
    %s
    %s
    fsl_thrown = 0;
    %s%s(%s);
    __CPROVER_assert(0, "canary: postcondition point reachable");
}
""" % (fn, decls, ghosts, ret, fn, args)


RBS_UNITS = [bs_is_looped, rbs_is_hl, rbs_is_vl, rbs_check]
PBS_UNITS = [bs_is_looped, pbs_is_hl, pbs_check]


def sym_groups():
    gs = []

    def g(name, units, u, decls, args, clause, ret=""):
        gs.append(Group(name="status.looped." + name, units=units + ([u] if u not in units else []),
                        harness=H(u.name, decls, args, ret), entry="h_" + u.name, enforce=u.name,
                        timeout=120, min_obligations=1, clause=clause))

    g("raster.check", RBS_UNITS, rbs_check, "const struct rbs *s;", "s",
      "raster: refused exactly when exactly one of left/right or exactly one of top/bottom is looped (all 4^4 combinations, and any byte value)")
    g("raster.is_horizontal", RBS_UNITS, rbs_is_hl, "const struct rbs *s;", "s", "is_horizontal_looped <=> left and right looped", "_Bool r = ")
    g("raster.is_vertical", RBS_UNITS, rbs_is_vl, "const struct rbs *s;", "s", "is_vertical_looped <=> top and bottom looped", "_Bool r = ")
    g("raster.ctor_uniform", RBS_UNITS, rbs_ctor1, "struct rbs *s;", "s, nondet_u8()",
      "raster constructor (one status): all four borders get it, never refused")
    g("raster.ctor_array", RBS_UNITS, rbs_ctor4, "struct rbs *s; const uint8_t *st;", "s, st",
      "raster constructor (left,right,top,bottom): refused exactly on an asymmetric looped pair, otherwise the borders are as given")
    g("profile.check", PBS_UNITS, pbs_check, "const struct pbs *s;", "s", "profile: refused exactly when exactly one of left/right is looped")
    g("profile.is_horizontal", PBS_UNITS, pbs_is_hl, "const struct pbs *s;", "s", "is_horizontal_looped <=> left and right looped", "_Bool r = ")
    g("profile.ctor_uniform", PBS_UNITS, pbs_ctor1, "struct pbs *s;", "s, nondet_u8()", "profile constructor (one status)")
    g("profile.ctor_pair", PBS_UNITS, pbs_ctor2, "struct pbs *s;", "s, nondet_u8(), nondet_u8()", "profile constructor (left, right)")
    g("profile.ctor_array", PBS_UNITS, pbs_ctor3, "struct pbs *s; const uint8_t *st;", "s, st", "profile constructor (array)")
    return gs


# =========================================================================== 2. precedence comparator
def _prio_table(m):
    name, body = m.group(1), m.group(2)
    entries = re.findall(r"\{\s*node_status::(\w+)\s*,\s*(-?\d+)\s*\}", body)
    rest = re.sub(r"\{\s*node_status::\w+\s*,\s*-?\d+\s*\}", "", body)
    if not entries or re.sub(r"[\s,{}]", "", rest):
        raise ex.ExtractionError("node_status_cmp: cannot parse the priority table initialiser %r" % body)
    seen, out = set(), []
    for key, val in entries:
        if key not in seen:       # std::map initialiser list: the first entry of a key wins
            seen.add(key)
            out.append("[NS_%s] = %s" % (key, val))
    # std::map<node_status,int>::operator[] on an absent key inserts a value-initialised 0
    return "static const int %s[256] = { %s };" % (name, ", ".join(out))


node_status_cmp = Unit(
    name="node_status_cmp", file=BASE_H,
    anchor=r"inline bool node_status_cmp\(node_status a, node_status b\)",
    sig="_Bool node_status_cmp(uint8_t a, uint8_t b)",
    rules=[R(r"static std::map<node_status, int> (\w+)\s*\{(.*?)\}\s*;", _prio_table, 1, re.S), V_NS],
    contract=r"""
__CPROVER_requires(NS_VALID(a) && NS_VALID(b))
__CPROVER_assigns()
/* C17: strict "lower precedence than", with fixed value > fixed gradient > looped > core */
__CPROVER_ensures(__CPROVER_return_value == (RANK(a) < RANK(b)))
""")


def cmp_group():
    return Group(name="status.cmp", units=[bs_is_looped, node_status_cmp],
                 harness=H("node_status_cmp", "", "nondet_u8(), nondet_u8()", "_Bool r = "),
                 entry="h_node_status_cmp", enforce="node_status_cmp", timeout=120, min_obligations=1,
                 clause="node_status_cmp(a,b) <=> a has strictly lower precedence than b (priority table read from the static map initialiser)")



# =========================================================================== 3. status composition
DIM_MAX = "((size_t) 1 << 20)"

# --- container model (stated assumption): the 2-D status array of a raster is a container whose element (r, c), r < shape0,
# c < shape1 <= 2^20, lives at the injective pairing (r << 20) | c of a buffer of (shape0 << 20) cells.  The row-major stride
# arithmetic r * ncols + c is C07's business (ravel_idx); nothing here depends on adjacency of cells.
MODEL = NS + r"""
#define DIM_MAX %(DIM_MAX)s
#define PAIR(r, c) ((((size_t) (r)) << 20) | ((size_t) (c)))
#define CAP(n0) (((size_t) (n0)) << 20)
static inline size_t fsl_pair(size_t r, size_t c, size_t n0, size_t n1)
{
    __CPROVER_assert(r < n0, "xtensor index in range (dim 0)");
    __CPROVER_assert(c < n1, "xtensor index in range (dim 1)");
    return PAIR(r, c);
}
#define FSL_PAIR(r, c, n0, n1) fsl_pair((r), (c), (n0), (n1))
/* std::max(a, b, comp): returns b if comp(a, b), else a */
#define FSL_MAX_CMP(a, b, cmp) (cmp((a), (b)) ? (b) : (a))
#define IDX_OK(i, n) ((i) >= 0 ? (size_t) (i) < (n) : (size_t) (-(i)) <= (n))
#define NORM(i, n) ((i) < 0 ? (n) - (size_t) (-(i)) : (size_t) (i)) /* xt::keep(-k): k-th index from the end */

/* ---- ghosts (owned by the harness) */
size_t GR, GC;      /* an arbitrary node (row, col); GC == 0 on 1-D grids */
size_t GI;          /* its cell in the modelled buffer */
size_t GJ;          /* position of the ghost node's entry in the override map, >= its size if absent */
size_t GK;          /* an arbitrary override entry */
size_t GB;          /* position of the ghost node in the enumeration of the mesh boundary set, >= its size if absent */
size_t THROW_AT;    /* the override entry being processed when the exception was raised */
uint8_t BV;         /* status of the ghost node after the border/corner phase, before the overrides */
struct rc_idx { size_t first, second; };   /* std::pair<size_type, size_type> (raster_idx_type) */

/* ---- xtensor container models: small loops with ghost-cell contracts, each proved in its own group (status.model.*) */
/* container(shape, value) / init(shape, value): every element == value */
void fsl_fill_u8(uint8_t *a, size_t cap, uint8_t v)
__CPROVER_requires(cap <= CAP(DIM_MAX) && __CPROVER_is_fresh(a, cap) && GI < cap)
__CPROVER_assigns(__CPROVER_object_whole(a))
__CPROVER_ensures(a[GI] == v)
{
    for (size_t k = 0; k < cap; ++k)
    __CPROVER_assigns(k, __CPROVER_object_whole(a))
    __CPROVER_loop_invariant(k <= cap)
    __CPROVER_loop_invariant(GI < k ==> a[GI] == v)
    __CPROVER_decreases(cap - k)
    {
        a[k] = v;
    }
}
/* dst = src (same shape): element-wise copy */
void fsl_assign_all_u8(uint8_t *dst, const uint8_t *src, size_t cap)
__CPROVER_requires(cap <= CAP(DIM_MAX) && __CPROVER_is_fresh(dst, cap) && __CPROVER_is_fresh(src, cap) && GI < cap)
__CPROVER_assigns(__CPROVER_object_whole(dst))
__CPROVER_ensures(dst[GI] == src[GI])
{
    for (size_t k = 0; k < cap; ++k)
    __CPROVER_assigns(k, __CPROVER_object_whole(dst))
    __CPROVER_loop_invariant(k <= cap)
    __CPROVER_loop_invariant(GI < k ==> dst[GI] == src[GI])
    __CPROVER_decreases(cap - k)
    {
        dst[k] = src[k];
    }
}
/* xt::view(a, <index>, xt::all()) = v  (axis 0: one row)   /   xt::view(a, xt::all(), <index>) = v  (axis 1: one column);
 * scalar assignment to a view broadcasts to every element of the view; a negative index (xt::keep(-1)) counts from the end */
void fsl_view_assign_u8(uint8_t *a, size_t n0, size_t n1, int axis, ptrdiff_t index, uint8_t v)
__CPROVER_requires(1 <= n0 && n0 <= DIM_MAX && 1 <= n1 && n1 <= DIM_MAX && __CPROVER_is_fresh(a, CAP(n0)))
__CPROVER_requires((axis == 0 || axis == 1) && IDX_OK(index, (axis == 0 ? n0 : n1)))
__CPROVER_requires(GR < n0 && GC < n1 && GI == PAIR(GR, GC))
__CPROVER_assigns(__CPROVER_object_whole(a))
__CPROVER_ensures(a[GI] == (((axis == 0) ? (GR == NORM(index, n0)) : (GC == NORM(index, n1))) ? v : __CPROVER_old(a[GI])))
{
    if (axis == 0)
    {
        size_t r = NORM(index, n0);
        for (size_t c = 0; c < n1; ++c)
        __CPROVER_assigns(c, __CPROVER_object_whole(a))
        __CPROVER_loop_invariant(c <= n1)
        __CPROVER_loop_invariant(a[GI] == ((GR == r && GC < c) ? v : __CPROVER_loop_entry(a[GI])))
        __CPROVER_decreases(n1 - c)
        {
            a[PAIR(r, c)] = v;
        }
    }
    else
    {
        size_t c = NORM(index, n1);
        for (size_t r = 0; r < n0; ++r)
        __CPROVER_assigns(r, __CPROVER_object_whole(a))
        __CPROVER_loop_invariant(r <= n0)
        __CPROVER_loop_invariant(a[GI] == ((GC == c && GR < r) ? v : __CPROVER_loop_entry(a[GI])))
        __CPROVER_decreases(n0 - r)
        {
            a[PAIR(r, c)] = v;
        }
    }
}
/* xtensor .at(i): bounds-checked element access, throws std::out_of_range.  An exception raised inside an expression is
 * modelled by the ghost flag plus a reference to a scratch cell, so that the rest of the statement has no effect on the
 * container; the enclosing loop and function are left at their next test of the flag. */
uint8_t fsl_sink_u8;
static inline uint8_t *fsl_at_u8(uint8_t *a, size_t i, size_t n)
{
    if (i >= n)
    {
        fsl_thrown = 2;
        return &fsl_sink_u8;
    }
    return a + i;
}
""" % dict(DIM_MAX=DIM_MAX)


def view_spec():
    """which row / column each border view denotes, read from xtensor_containers.hpp"""
    try:
        src = _src(XC_H)
        out = []
        for name in ("left", "right", "top", "bottom"):
            ms = list(re.finditer(r"static auto get_%s_view\(T&& data\)\s*\{" % name, src))
            if len(ms) != 1:
                raise ex.ExtractionError("get_%s_view: %d definitions" % (name, len(ms)))
            ob = ms[0].end() - 1
            body = src[ob + 1:ex.match_brace(src, ob)].strip()
            m = re.match(r"^return xt::view\(data,(.*)\);$", body, re.S)
            if not m:
                raise ex.ExtractionError("get_%s_view: unexpected body %r" % (name, body))
            args = _split_top(m.group(1))
            if len(args) != 2:
                raise ex.ExtractionError("get_%s_view: %d slice arguments" % (name, len(args)))

            def idx(a):
                if a == "xt::all()":
                    return None
                mm = re.match(r"^(?:xt::keep\(\s*(-?\d+)\s*\)|(-?\d+))$", a)
                if not mm:
                    raise ex.ExtractionError("get_%s_view: unsupported slice %r" % (name, a))
                return int(mm.group(1) if mm.group(1) is not None else mm.group(2))
            i0, i1 = idx(args[0]), idx(args[1])
            if (i0 is None) == (i1 is None):
                raise ex.ExtractionError("get_%s_view: expected exactly one xt::all()" % name)
            axis, index = (0, i0) if i1 is None else (1, i1)
            out.append("#define VIEW_%s_AXIS %d\n#define VIEW_%s_INDEX %d /* %s */\n" % (name, axis, name, index, body))
        return "/* border views read from utils/xtensor_containers.hpp */\n" + "".join(out)
    except (ex.ExtractionError, OSError) as e:
        return "#error extraction: %s\n" % str(e).replace("\n", " ")


def corner_struct():
    try:
        src = _src(RG_H)
        ms = list(re.finditer(r"struct corner_node\s*\{(.*?)\};", src, re.S))
        if len(ms) != 1:
            raise ex.ExtractionError("struct corner_node: %d definitions" % len(ms))
        body = ms[0].group(1)
        body = re.sub(r"\bsize_type\b", "size_t", body)
        body = re.sub(r"\bnode_status\b", "uint8_t", body)
        if re.search(r"[^\w\s;]", body):
            raise ex.ExtractionError("struct corner_node: unexpected member declaration")
        return "struct corner_node {%s}; /* raster_grid.hpp */\n" % " ".join(body.split())
    except (ex.ExtractionError, OSError) as e:
        return "#error extraction: %s\n" % str(e).replace("\n", " ")


check_size = Unit(
    name="check_size", file=XC_H,
    anchor=r"static void check_size\(T& data, I& row_index, I& col_index\)",
    sig="void check_size(size_t data_shape0, size_t data_shape1, size_t row_index, size_t col_index)",
    rules=[V(r"data\.shape\(([01])\)", r"data_shape\1"), V_THROW],
    contract=r"""
__CPROVER_requires(fsl_thrown == 0)
__CPROVER_assigns(fsl_thrown)
/* C17: an override outside the grid is refused */
__CPROVER_ensures((fsl_thrown != 0) == (row_index >= data_shape0 || col_index >= data_shape1))
""")

# vocabulary of a grid object seen from set_nodes_status
OV_LOOP2 = ("FSL_GHOST(BV = temp_nodes_status[GI];)\n"
            "for (size_t ov_k = 0; ov_k < ov_n; ++ov_k)\n"
            "{ THROW_AT = ov_k; const struct rc_idx idx = ov_key[ov_k]; const uint8_t status = ov_val[ov_k];\n"
            "  FSL_PRE(((idx.first == GR && idx.second == GC) == (ov_k == GJ))); /* definition of GJ; keys of a map are unique */\n")
OV_LOOP1 = ("FSL_GHOST(BV = temp_nodes_status[GI];)\n"
            "for (size_t ov_k = 0; ov_k < ov_n && !fsl_thrown; ++ov_k)\n"
            "{ THROW_AT = ov_k; const size_t idx = ov_key[ov_k]; const uint8_t status = ov_val[ov_k];\n"
            "  FSL_PRE(((idx == GI) == (ov_k == GJ))); /* definition of GJ; keys of a map are unique */\n")

RASTER_RULES = [
    R(r"nodes_status_type temp_nodes_status\s*=\s*container_impl<nodes_status_type>::init\(m_shape, ([^;]*)\);",
      r"fsl_fill_u8(temp_nodes_status, CAP(m_shape0), \1);", 1),
    V(r"const auto (\w+) = static_cast<size_type>", r"const size_t \1 = static_cast<size_type>"),
    V(r"m_shape\[([01])\]", r"m_shape\1"),
    V(r"container_impl<container_type>::get_(left|right|top|bottom)_view\(temp_nodes_status\) = ([^;]+);",
      r"fsl_view_assign_u8(temp_nodes_status, m_shape0, m_shape1, VIEW_\1_AXIS, VIEW_\1_INDEX, \2);"),
    V(r"m_bounds_status\.(left|right|top|bottom)\b", r"bs->\1"),
    V(r"m_bounds_status\.is_(horizontal|vertical)_looped\(\)", r"rbs_is_\1_looped(bs)"),
    R(r"std::vector<corner_node> corners\s*=", "const struct corner_node corners[] =", 1),
    R(r"for \(const auto& c : corners\)\s*\{",
      "for (size_t c_k = 0; c_k < sizeof(corners) / sizeof(corners[0]); ++c_k)\n{ const struct corner_node c = corners[c_k];", 1),
    V(r"std::max\(([^,()]+),\s*([^,()]+),\s*detail::node_status_cmp\)", r"FSL_MAX_CMP(\1, \2, node_status_cmp)"),
    V_NS,
    V(r"\bnode_status (\w+) =", r"uint8_t \1 ="),
    R(r"for \(const auto& \[idx, status\] : nodes_status\)\s*\{", OV_LOOP2, 1),
    V(r"container_impl<container_type>::check_size\(temp_nodes_status, ([^;]*)\);",
      r"{ check_size(m_shape0, m_shape1, \1); if (fsl_thrown) return; /* exception propagates */ }"),
    V_THROW,
    V(r"temp_nodes_status\(([^(),]+),\s*([^(),]+)\)", r"temp_nodes_status[FSL_PAIR(\1, \2, m_shape0, m_shape1)]"),
    R(r"m_nodes_status = temp_nodes_status;", "fsl_assign_all_u8(m_nodes_status, temp_nodes_status, CAP(m_shape0));", 1),
]

# ---- the property's composition rule for the ghost node (v = its status before the overrides)
RASTER_SPEC = r"""
#define ROWB(r) ((r) == 0 || (r) == m_shape0 - 1)
#define COLB(c) ((c) == 0 || (c) == m_shape1 - 1)
/* v is the status given to a row border / column border through the node.  With >= 2 nodes on the axis a node lies on at
 * most one of the two opposite borders and the value is unique; on a 1-node axis the node lies on both and either is accepted */
#define ROW_OK(v, r) (((r) == 0 && (v) == bs->top) || ((r) == m_shape0 - 1 && (v) == bs->bottom))
#define COL_OK(v, c) (((c) == 0 && (v) == bs->left) || ((c) == m_shape1 - 1 && (v) == bs->right))
#define CORNER_OK(v, r, c) ( ((r) == 0 && (c) == 0 && (v) == HIGHER(bs->top, bs->left)) \
                          || ((r) == 0 && (c) == m_shape1 - 1 && (v) == HIGHER(bs->top, bs->right)) \
                          || ((r) == m_shape0 - 1 && (c) == 0 && (v) == HIGHER(bs->bottom, bs->left)) \
                          || ((r) == m_shape0 - 1 && (c) == m_shape1 - 1 && (v) == HIGHER(bs->bottom, bs->right)) )
#define SPEC_BORDER2(v, r, c) ( ((!ROWB(r) && !COLB(c)) ==> (v) == NS_core) \
                             && ((ROWB(r) && !COLB(c)) ==> ROW_OK(v, r)) \
                             && ((!ROWB(r) && COLB(c)) ==> COL_OK(v, c)) \
                             && ((ROWB(r) && COLB(c)) ==> CORNER_OK(v, r, c)) )
#define OOR2(k) (ov_key[(k)].first >= m_shape0 || ov_key[(k)].second >= m_shape1)
#define KEY_IS_G2(k) (ov_key[(k)].first == GR && ov_key[(k)].second == GC)
/* an override entry that must be refused: looped value, outside the grid, or targeting a node whose composed status is looped */
#define BAD2(k) (ov_val[(k)] == NS_looped || OOR2(k) || (KEY_IS_G2(k) && BV == NS_looped))
#define WHY2(k) (ov_val[(k)] == NS_looped || OOR2(k) || (KEY_IS_G2(k) ==> BV == NS_looped))
"""

RASTER_SIG = ("void raster_set_nodes_status(uint8_t *m_nodes_status, uint8_t *temp_nodes_status, size_t m_shape0, size_t m_shape1, "
              "const struct rbs *bs, const struct rc_idx *ov_key, const uint8_t *ov_val, size_t ov_n)")

raster_sns = Unit(
    name="raster_set_nodes_status", file=RG_H,
    anchor=r"void raster_grid<S, RC, C>::set_nodes_status\(const nodes_status_map_type& nodes_status\)",
    sig=RASTER_SIG, rules=RASTER_RULES,
    contract=r"""
__CPROVER_requires(1 <= m_shape0 && m_shape0 <= DIM_MAX && 1 <= m_shape1 && m_shape1 <= DIM_MAX && ov_n <= ((size_t) 1 << 40))
__CPROVER_requires(__CPROVER_is_fresh(m_nodes_status, CAP(m_shape0)) && __CPROVER_is_fresh(temp_nodes_status, CAP(m_shape0)))
__CPROVER_requires(__CPROVER_is_fresh(bs, sizeof(*bs)) && __CPROVER_is_fresh(ov_key, ov_n * 16) && __CPROVER_is_fresh(ov_val, ov_n))
__CPROVER_requires(NS_VALID(bs->left) && NS_VALID(bs->right) && NS_VALID(bs->top) && NS_VALID(bs->bottom))
__CPROVER_requires(fsl_thrown == 0 && GR < m_shape0 && GC < m_shape1 && GI == PAIR(GR, GC))
__CPROVER_requires(GJ < ov_n ==> KEY_IS_G2(GJ))
__CPROVER_assigns(__CPROVER_object_whole(m_nodes_status), __CPROVER_object_whole(temp_nodes_status), fsl_thrown, THROW_AT, BV)
/* C17, from the property statement, for the arbitrary node (GR, GC): */
__CPROVER_ensures(SPEC_BORDER2(BV, GR, GC))                                           /* core inside, border status, corner precedence */
__CPROVER_ensures(fsl_thrown == 0 ==> m_nodes_status[GI] == ((GJ < ov_n) ? ov_val[GJ] : BV))   /* then the per-node override */
__CPROVER_ensures(fsl_thrown == 0 ==> (GK < ov_n ==> !BAD2(GK)))                         /* every bad entry is refused ... */
__CPROVER_ensures(fsl_thrown != 0 ==> (THROW_AT < ov_n && WHY2(THROW_AT)))               /* ... and only a bad entry is */
__CPROVER_ensures(fsl_thrown != 0 ==> m_nodes_status[GI] == __CPROVER_old(m_nodes_status[GI]))
""",
    loops={1: r"""
__CPROVER_assigns(ov_k, THROW_AT, fsl_thrown, __CPROVER_object_whole(temp_nodes_status))
__CPROVER_loop_invariant(ov_k <= ov_n && fsl_thrown == 0)
__CPROVER_loop_invariant(temp_nodes_status[GI] == ((GJ < ov_k) ? ov_val[GJ] : BV))
__CPROVER_loop_invariant((GK < ov_k) ==> !BAD2(GK))
__CPROVER_decreases(ov_n - ov_k)
"""},
)


def model_groups():
    pre = Unit(name="bs_is_looped", file=SG_H, anchor=bs_is_looped.anchor, sig=bs_is_looped.sig, pre=MODEL, rules=[V_NS])
    gs = []
    gs.append(Group(name="status.model.fill", units=[pre],
                    harness=H("fsl_fill_u8", "uint8_t *a;", "a, nondet_size_t(), nondet_u8()", ghosts="GI = nondet_size_t();"),
                    entry="h_fsl_fill_u8", enforce="fsl_fill_u8", loop_contracts=True, timeout=300, min_obligations=5,
                    clause="container model: fill loop establishes value at the ghost cell"))
    gs.append(Group(name="status.model.assign_all", units=[pre],
                    harness=H("fsl_assign_all_u8", "uint8_t *a; const uint8_t *b;", "a, b, nondet_size_t()", ghosts="GI = nondet_size_t();"),
                    entry="h_fsl_assign_all_u8", enforce="fsl_assign_all_u8", loop_contracts=True, timeout=300, min_obligations=5,
                    clause="container model: whole-array assignment copies the ghost cell"))
    gs.append(Group(name="status.model.view_assign", units=[pre],
                    harness=H("fsl_view_assign_u8", "uint8_t *a;", "a, nondet_size_t(), nondet_size_t(), nondet_int(), (ptrdiff_t) nondet_int(), nondet_u8()",
                              ghosts="GI = nondet_size_t(); GR = nondet_size_t(); GC = nondet_size_t();"),
                    entry="h_fsl_view_assign_u8", enforce="fsl_view_assign_u8", loop_contracts=True, timeout=300, min_obligations=5,
                    clause="container model: row / column view assignment writes exactly the cells of that row / column"))
    return gs, pre


GHOSTS = ("GR = nondet_size_t(); GC = nondet_size_t(); GI = nondet_size_t(); GJ = nondet_size_t(); GK = nondet_size_t(); "
          "GB = nondet_size_t(); THROW_AT = nondet_size_t(); BV = nondet_u8();")


def raster_groups(pre):
    cs = Unit(name=check_size.name, file=check_size.file, anchor=check_size.anchor, sig=check_size.sig, rules=check_size.rules,
              contract=check_size.contract)
    raster_sns.pre = view_spec() + corner_struct() + RASTER_SPEC
    g_cs = Group(name="status.check_size", units=[pre, cs],
                 harness=H("check_size", "", "nondet_size_t(), nondet_size_t(), nondet_size_t(), nondet_size_t()"),
                 entry="h_check_size", enforce="check_size", timeout=120, min_obligations=1,
                 clause="check_size refuses exactly the (row, col) outside the container's shape")
    g = Group(name="status.raster.set_nodes_status",
              units=[pre, rbs_is_hl, rbs_is_vl, node_status_cmp, cs, raster_sns],
              harness=H("raster_set_nodes_status", "uint8_t *ns, *tmp; const struct rbs *bs; const struct rc_idx *ok; const uint8_t *ov;",
                        "ns, tmp, nondet_size_t(), nondet_size_t(), bs, ok, ov, nondet_size_t()", ghosts=GHOSTS),
              entry="h_raster_set_nodes_status", enforce="raster_set_nodes_status",
              replace=["fsl_fill_u8", "fsl_view_assign_u8", "fsl_assign_all_u8", "node_status_cmp", "check_size"],
              loop_contracts=True, unwindset={("raster_set_nodes_status", 0): 5},
              timeout=600, min_obligations=50, object_bits=12,
              clause="raster status composition for an arbitrary node: core inside, border status on borders, higher-precedence status at "
                     "corners, then overrides; refused iff some override is looped, out of range, or targets a node whose composed status is looped")
    return [g_cs, g]



# ---------------------------------------------------------------- profile grid (1-D): cell index == node index, GC == 0
ONE_D_RULES = [
    V(r"m_shape\[0\]", "m_shape0"),
    V(r"m_bounds_status\.(left|right)\b", r"bs->\1"),
    V(r"m_bounds_status\.is_horizontal_looped\(\)", "pbs_is_horizontal_looped(bs)"),
    V_NS,
    V(r"nodes_status\.size\(\)", "ov_n"),
    R(r"for \(const auto& \[idx, status\] : nodes_status\)\s*\{", OV_LOOP1, 1),
    V_THROW,
    # element access: unchecked operator() / operator[] get the explicit index obligation, .at() is the checked access
    V(r"temp_nodes_status\[([^\[\]]+)\]", r"temp_nodes_status[FSL_IDX1(\1, m_shape0)]"),
    V(r"temp_nodes_status\(([^(),]+)\)", r"temp_nodes_status[FSL_IDX1(\1, m_shape0)]"),
    V(r"temp_nodes_status\.at\(([^()]+)\)", r"(*fsl_at_u8(temp_nodes_status, \1, m_shape0))"),
    R(r"m_nodes_status = temp_nodes_status;",
      "if (fsl_thrown) return; /* exception raised in the last iteration */\nfsl_assign_all_u8(m_nodes_status, temp_nodes_status, m_shape0);", 1),
]
PROFILE_RULES = [R(r"nodes_status_type temp_nodes_status\(m_shape, ([^;]*)\);", r"fsl_fill_u8(temp_nodes_status, m_shape0, \1);", 1)] + ONE_D_RULES

ONE_D_SPEC = r"""
#define OOR1(k) (ov_key[(k)] >= m_size)
#define BAD1(k) (ov_val[(k)] == NS_looped || OOR1(k) || (ov_key[(k)] == GI && BV == NS_looped))
#define WHY1(k) (ov_val[(k)] == NS_looped || OOR1(k) || (ov_key[(k)] == GI ==> BV == NS_looped))
/* left status on the first node, right status on the last, core elsewhere (a 1-node profile lies on both ends: either) */
#define SPEC_BORDER1(v, i) ( (((i) != 0 && (i) != m_size - 1) ==> (v) == NS_core) \
                          && (((i) == 0 || (i) == m_size - 1) ==> (((i) == 0 && (v) == bs->left) || ((i) == m_size - 1 && (v) == bs->right))) )
"""
ONE_D_REQ = r"""
__CPROVER_requires(1 <= m_size && m_size <= ((size_t) 1 << 40) && m_shape0 == m_size /* class invariant: m_shape = { m_size } */ && ov_n <= ((size_t) 1 << 40))
__CPROVER_requires(__CPROVER_is_fresh(m_nodes_status, m_shape0) && __CPROVER_is_fresh(temp_nodes_status, m_shape0))
__CPROVER_requires(__CPROVER_is_fresh(ov_key, ov_n * 8) && __CPROVER_is_fresh(ov_val, ov_n))
__CPROVER_requires(fsl_thrown == 0 && GI < m_size)
__CPROVER_requires(GJ < ov_n ==> ov_key[GJ] == GI)
"""
ONE_D_LOOP = r"""
__CPROVER_assigns(ov_k, THROW_AT, fsl_thrown, fsl_sink_u8, __CPROVER_object_whole(temp_nodes_status))
__CPROVER_loop_invariant(ov_k <= ov_n)
__CPROVER_loop_invariant(fsl_thrown == 0 ==> temp_nodes_status[GI] == ((GJ < ov_k) ? ov_val[GJ] : BV))
__CPROVER_loop_invariant(fsl_thrown == 0 ==> ((GK < ov_k) ==> !BAD1(GK)))
__CPROVER_loop_invariant(fsl_thrown != 0 ==> (ov_k >= 1 && THROW_AT == ov_k - 1 && THROW_AT < ov_n && WHY1(THROW_AT)))
__CPROVER_decreases(ov_n - ov_k)
"""

profile_sns = Unit(
    name="profile_set_nodes_status", file=PG_H,
    anchor=r"void profile_grid<S, C>::set_nodes_status\(const std::map<size_type, node_status>& nodes_status\)",
    sig="void profile_set_nodes_status(uint8_t *m_nodes_status, uint8_t *temp_nodes_status, size_t m_size, size_t m_shape0, "
        "const struct pbs *bs, const size_t *ov_key, const uint8_t *ov_val, size_t ov_n)",
    rules=PROFILE_RULES, pre=ONE_D_SPEC,
    contract=ONE_D_REQ + r"""
__CPROVER_requires(__CPROVER_is_fresh(bs, sizeof(*bs)) && NS_VALID(bs->left) && NS_VALID(bs->right))
__CPROVER_assigns(__CPROVER_object_whole(m_nodes_status), __CPROVER_object_whole(temp_nodes_status), fsl_thrown, fsl_sink_u8, THROW_AT, BV)
__CPROVER_ensures(SPEC_BORDER1(BV, GI))
__CPROVER_ensures(fsl_thrown == 0 ==> m_nodes_status[GI] == ((GJ < ov_n) ? ov_val[GJ] : BV))
__CPROVER_ensures(fsl_thrown == 0 ==> (GK < ov_n ==> !BAD1(GK)))
__CPROVER_ensures(fsl_thrown != 0 ==> (THROW_AT < ov_n && WHY1(THROW_AT)))
__CPROVER_ensures(fsl_thrown != 0 ==> m_nodes_status[GI] == __CPROVER_old(m_nodes_status[GI]))
""",
    loops={0: ONE_D_LOOP},
)

# ---------------------------------------------------------------- triangular mesh (map overload)
# m_boundary_nodes (std::unordered_set) is iterated through an arbitrary duplicate-free enumeration bn[0..bn_n) of its elements
BN_LOOP = ("for (size_t bn_k = 0; bn_k < bn_n; ++bn_k)\n"
           "{ const size_t idx = bn[bn_k];\n"
           "  FSL_PRE(idx < m_size); /* boundary nodes are mesh nodes (C18, set_neighbors) */\n"
           "  FSL_PRE(((idx == GI) == (bn_k == GB))); /* definition of GB; elements of a set are enumerated once */\n")
TRIMESH_RULES = [R(r"nodes_status_type temp_nodes_status\(m_shape, ([^;]*)\);",
                   r"fsl_fill_u8(temp_nodes_status, m_shape0, \1); FSL_GHOST(BV = temp_nodes_status[GI];)", 1),
                 R(r"for \(const size_type& idx : m_boundary_nodes\)\s*\{", BN_LOOP, 1)] + ONE_D_RULES
trimesh_sns = Unit(
    name="trimesh_set_nodes_status", file=TM_H,
    anchor=r"void trimesh_xt<S, N>::set_nodes_status\(const nodes_status_map_type& nodes_status\)",
    sig="void trimesh_set_nodes_status(uint8_t *m_nodes_status, uint8_t *temp_nodes_status, size_t m_size, size_t m_shape0, "
        "const size_t *bn, size_t bn_n, const size_t *ov_key, const uint8_t *ov_val, size_t ov_n)",
    rules=TRIMESH_RULES, pre=ONE_D_SPEC,
    contract=ONE_D_REQ + r"""
__CPROVER_requires(bn_n <= ((size_t) 1 << 40) && __CPROVER_is_fresh(bn, bn_n * 8))
__CPROVER_requires(GB < bn_n ==> bn[GB] == GI)
__CPROVER_assigns(__CPROVER_object_whole(m_nodes_status), __CPROVER_object_whole(temp_nodes_status), fsl_thrown, fsl_sink_u8, THROW_AT, BV)
/* C17 / documented rule for meshes: core everywhere, then the overrides; with an empty override map every boundary node is fixed value.
 * `looped` is never accepted; an override outside the mesh is refused */
__CPROVER_ensures(fsl_thrown == 0 ==> m_nodes_status[GI] == ((GJ < ov_n) ? ov_val[GJ] : ((ov_n == 0 && GB < bn_n) ? NS_fixed_value : NS_core)))
__CPROVER_ensures(fsl_thrown == 0 ==> (GK < ov_n ==> !(ov_val[GK] == NS_looped || OOR1(GK))))
__CPROVER_ensures(fsl_thrown != 0 ==> (THROW_AT < ov_n && (ov_val[THROW_AT] == NS_looped || OOR1(THROW_AT))))
__CPROVER_ensures(fsl_thrown != 0 ==> m_nodes_status[GI] == __CPROVER_old(m_nodes_status[GI]))
""",
    loops={0: r"""
__CPROVER_assigns(ov_k, THROW_AT, fsl_thrown, fsl_sink_u8, __CPROVER_object_whole(temp_nodes_status))
__CPROVER_loop_invariant(ov_k <= ov_n)
__CPROVER_loop_invariant(fsl_thrown == 0 ==> temp_nodes_status[GI] == ((GJ < ov_k) ? ov_val[GJ] : NS_core))
__CPROVER_loop_invariant(fsl_thrown == 0 ==> ((GK < ov_k) ==> !(ov_val[GK] == NS_looped || OOR1(GK))))
__CPROVER_loop_invariant(fsl_thrown != 0 ==> (ov_k >= 1 && THROW_AT == ov_k - 1 && THROW_AT < ov_n && (ov_val[THROW_AT] == NS_looped || OOR1(THROW_AT))))
__CPROVER_decreases(ov_n - ov_k)
""", 1: r"""
__CPROVER_assigns(bn_k, __CPROVER_object_whole(temp_nodes_status))
__CPROVER_loop_invariant(bn_k <= bn_n)
__CPROVER_loop_invariant(temp_nodes_status[GI] == ((GB < bn_k) ? NS_fixed_value : NS_core))
__CPROVER_decreases(bn_n - bn_k)
"""},
)


def one_d_groups(pre):
    gp = Group(name="status.profile.set_nodes_status", units=[pre, pbs_is_hl, profile_sns],
               harness=H("profile_set_nodes_status", "uint8_t *ns, *tmp; const struct pbs *bs; const size_t *ok; const uint8_t *ov;",
                         "ns, tmp, nondet_size_t(), nondet_size_t(), bs, ok, ov, nondet_size_t()", ghosts=GHOSTS),
               entry="h_profile_set_nodes_status", enforce="profile_set_nodes_status",
               replace=["fsl_fill_u8", "fsl_assign_all_u8"], loop_contracts=True, timeout=600, min_obligations=50, object_bits=12,
               clause="profile status composition for an arbitrary node: left/right status on the end nodes, core inside, then overrides; "
                      "refused iff some override is looped, out of range, or targets a looped end node")
    gt = Group(name="status.trimesh.set_nodes_status", units=[pre, trimesh_sns],
               harness=H("trimesh_set_nodes_status", "uint8_t *ns, *tmp; const size_t *bn; const size_t *ok; const uint8_t *ov;",
                         "ns, tmp, nondet_size_t(), nondet_size_t(), bn, nondet_size_t(), ok, ov, nondet_size_t()", ghosts=GHOSTS),
               entry="h_trimesh_set_nodes_status", enforce="trimesh_set_nodes_status",
               replace=["fsl_fill_u8", "fsl_assign_all_u8"], loop_contracts=True, timeout=600, min_obligations=50, object_bits=12,
               clause="mesh status for an arbitrary node: override if present, else fixed value on boundary nodes when no override is given, "
                      "else core; refused iff some override is looped or out of range")
    return [gp, gt]



# =========================================================================== 4. default base levels
# std::unordered_set<size_type> m_base_levels is modelled by its characteristic function base_level[0..grid_size)
# (as in spec/graphmodel.py: is_base_level).  The filtered range object grid_nodes_indices is the tuple
# (nodes_status, grid_size, wanted status, filtered flag); its iterators are node indices (spec/iterators.py).
iter_eq = Unit(
    name="iter_eq", file=ITER_H,
    anchor=r"inline bool operator==\(const grid_node_index_iterator<G>& lhs,\s*const grid_node_index_iterator<G>& rhs\)",
    sig="static inline _Bool iter_eq(size_t lhs_m_idx, size_t rhs_m_idx)",
    rules=[V(r"\b(lhs|rhs)\.m_idx\b", r"\1_m_idx")], pre=NS)
iter_deref = Unit(
    name="iter_deref", file=ITER_H, anchor=r"inline reference operator\*\(\) const",
    sig="static inline size_t iter_deref(size_t m_idx)")

USET_MODEL = r"""
/* std::unordered_set::clear() */
void fsl_uset_clear(_Bool *base_level, size_t grid_size)
__CPROVER_requires(grid_size <= FSL_NMAX_NODES && __CPROVER_is_fresh(base_level, grid_size) && G < grid_size)
__CPROVER_assigns(__CPROVER_object_whole(base_level))
__CPROVER_ensures(base_level[G] == 0)
{
    for (size_t k = 0; k < grid_size; ++k)
    __CPROVER_assigns(k, __CPROVER_object_whole(base_level))
    __CPROVER_loop_invariant(k <= grid_size)
    __CPROVER_loop_invariant(G < k ==> base_level[G] == 0)
    __CPROVER_decreases(grid_size - k)
    {
        base_level[k] = 0;
    }
}
/* std::unordered_set::insert(InputIt first, InputIt last):  for (; first != last; ++first) insert(*first);
 * `!=` is the negation of the extracted operator== (xtl iterator base), ++ and * are the extracted iterator operations */
void fsl_uset_insert_range(_Bool *base_level, const uint8_t *nodes_status, size_t grid_size, uint8_t want, int filtered, size_t first, size_t last)
__CPROVER_requires(grid_size <= FSL_NMAX_NODES && __CPROVER_is_fresh(base_level, grid_size) && __CPROVER_is_fresh(nodes_status, grid_size) && G < grid_size)
/* [first, last) is a valid range of the filtered container: first is dereferenceable or the end, last is the end */
__CPROVER_requires(first <= grid_size && (first < grid_size ==> MATCH(first)) && last == grid_size)
__CPROVER_assigns(__CPROVER_object_whole(base_level))
__CPROVER_ensures(base_level[G] == ((first <= G && MATCH(G)) ? 1 : __CPROVER_old(base_level[G])))
{
    for (; !iter_eq(first, last); first = iter_incr(nodes_status, grid_size, want, filtered, first))
    __CPROVER_assigns(first, __CPROVER_object_whole(base_level))
    __CPROVER_loop_invariant(__CPROVER_loop_entry(first) <= first && first <= grid_size && (first < grid_size ==> MATCH(first)))
    __CPROVER_loop_invariant(base_level[G] == ((__CPROVER_loop_entry(first) <= G && G < first && MATCH(G)) ? 1 : __CPROVER_loop_entry(base_level[G])))
    __CPROVER_decreases(grid_size - first)
    {
        base_level[FSL_IDX1(iter_deref(first), grid_size)] = 1;
    }
}
"""
RANGE_ARGS = "nodes_status, grid_size, want, filtered"
RANGE_VOCAB = [V(r"iterator\(m_grid, m_filter_func, ", "iter_ctor(%s, " % RANGE_ARGS), V(r"m_grid\.size\(\)", "grid_size")]
gni_begin = Unit(name="gni_begin", file=ITER_H, anchor=r"inline iterator begin\(\) const",
                 sig="size_t gni_begin(const uint8_t *nodes_status, size_t grid_size, uint8_t want, int filtered)",
                 rules=RANGE_VOCAB, pre=USET_MODEL)
gni_end = Unit(name="gni_end", file=ITER_H, anchor=r"inline iterator end\(\) const",
               sig="size_t gni_end(const uint8_t *nodes_status, size_t grid_size, uint8_t want, int filtered)", rules=RANGE_VOCAB)
impl_sbl = Unit(
    name="impl_set_base_levels", file=IMPL_H, anchor=r"void set_base_levels\(const C& levels\)",
    sig="void impl_set_base_levels(_Bool *base_level, const uint8_t *nodes_status, size_t grid_size, uint8_t want, int filtered)",
    rules=[V(r"m_base_levels\.clear\(\)", "fsl_uset_clear(base_level, grid_size)"),
           V(r"levels\.begin\(\)", "gni_begin(%s)" % RANGE_ARGS), V(r"levels\.end\(\)", "gni_end(%s)" % RANGE_ARGS),
           V(r"m_base_levels\.insert\(", "fsl_uset_insert_range(base_level, %s, " % RANGE_ARGS)])
fg_default = Unit(
    name="fg_default_base_levels", file=INL_H,
    anchor=r"flow_graph<G, S, Tag>::flow_graph\(G& grid, operators_type operators\)",
    sig="void fg_default_base_levels(_Bool *base_level, const uint8_t *nodes_status, size_t grid_size)",
    rules=[R(r"\A.*?(m_impl_ptr->set_base_levels\([^;]*;).*\Z", r"\1", 1, re.S),   # the one statement of the constructor this clause is about
           V(r"m_impl_ptr->set_base_levels\(", "impl_set_base_levels(base_level, "),
           V(r"m_grid\.nodes_indices\(\)", "nodes_status, grid_size, 0, 0"),
           V(r"m_grid\.nodes_indices\(([^()]+)\)", r"nodes_status, grid_size, \1, 1"),
           V_NS],
    contract=r"""
__CPROVER_requires(grid_size <= FSL_NMAX_NODES && __CPROVER_is_fresh(base_level, grid_size) && __CPROVER_is_fresh(nodes_status, grid_size) && G < grid_size)
__CPROVER_requires(base_level[G] == 0)   /* the base-level set of the implementation object created two statements earlier is empty */
__CPROVER_assigns(__CPROVER_object_whole(base_level))
/* C17: a new flow graph's default base levels are exactly the fixed-value nodes */
__CPROVER_ensures((base_level[G] != 0) == (nodes_status[G] == NS_fixed_value))
""")


def base_level_groups():
    units = [it.status_filter, it.iter_ctor, it.iter_incr, iter_eq, iter_deref, gni_begin, gni_end, impl_sbl, fg_default]
    hm = ND + r"""
void h_%s(void)
{
    _Bool *bl; const uint8_t *st;
    G = nondet_size_t();
    %s;
    __CPROVER_assert(0, "canary: postcondition point reachable");
}
"""
    g1 = Group(name="status.base_levels.model_clear", units=units, harness=hm % ("uset_clear", "fsl_uset_clear(bl, nondet_size_t())"),
               entry="h_uset_clear", enforce="fsl_uset_clear", loop_contracts=True, timeout=300, min_obligations=5,
               clause="set model: clear() leaves no element")
    g2 = Group(name="status.base_levels.model_insert_range", units=units,
               harness=hm % ("uset_insert_range", "fsl_uset_insert_range(bl, st, nondet_size_t(), nondet_u8(), nondet_int(), nondet_size_t(), nondet_size_t())"),
               entry="h_uset_insert_range", enforce="fsl_uset_insert_range", replace=["iter_incr"], loop_contracts=True,
               timeout=300, min_obligations=5,
               clause="set model: range insert over the filtered node-index iterator inserts exactly the matching indices from `first` on "
                      "(uses the ++ contract of spec/iterators.py)")
    g3 = Group(name="status.base_levels.default", units=units,
               harness=hm % ("fg_default_base_levels", "fg_default_base_levels(bl, st, nondet_size_t())"),
               entry="h_fg_default_base_levels", enforce="fg_default_base_levels",
               replace=["iter_ctor", "fsl_uset_clear", "fsl_uset_insert_range"], timeout=300, min_obligations=5,
               clause="default base levels of a new flow graph == { i : status[i] == fixed_value } (arbitrary node)")
    return [g1, g2, g3]



_MG, _PRE = model_groups()
_ALL = sym_groups() + [cmp_group()] + _MG + raster_groups(_PRE) + one_d_groups(_PRE) + base_level_groups()
for _g in _ALL:
    if not _g.name.startswith(("status.model.", "status.base_levels.model_")):
        _g.replay = "replay/status.cpp"
GROUPS = {"C17": _ALL}
PROPS = {
    "C17": dict(
        level="proof",
        assumptions=[
            "status container model: the raster's 2-D status array is a container whose element (r, c) lives at the injective pairing "
            "(r << 20) | c (both dimensions in [1, 2^20], stated in requires); 1-D status arrays are flat buffers of <= 2^40 cells; the "
            "row-major stride arithmetic is C07's business",
            "xtensor semantics (models fsl_fill_u8 / fsl_assign_all_u8 / fsl_view_assign_u8, each a small loop proved against its "
            "ghost-cell contract in status.model.*): container(shape, v) / init(shape, v) sets every element; `dst = src` copies "
            "element-wise; xt::view(a, i, xt::all()) is row i and xt::view(a, xt::all(), i) column i (which one each border view denotes "
            "is read from xtensor_containers.hpp); xt::keep(-1) is the last index; a scalar assigned to a view goes to every element of it",
            "xtensor .at(i) throws iff i >= shape[0]; an exception raised inside an expression is modelled by the ghost flag and a "
            "reference to a scratch cell, the enclosing loop / function is left at its next test of the flag",
            "std::map<key, node_status> iteration = loop over parallel arrays (ov_key, ov_val) of pairwise distinct keys; precondition "
            "instance at each key read: (key == ghost node) == (entry index == GJ), i.e. the definition of the ghost GJ = find(ghost "
            "node) together with uniqueness of map keys (read-only input well-formedness, DESIGN 3.2)",
            "trimesh: m_boundary_nodes (std::unordered_set) is iterated through an arbitrary duplicate-free enumeration; precondition "
            "instances at each element read: element < m_size (postcondition of set_neighbors, C18) and (element == ghost node) == "
            "(position == GB) (definition of the ghost GB)",
            "node_status_cmp: the static std::map<node_status,int> is a constant table built mechanically from its initialiser entries "
            "(first entry of a duplicated key wins; operator[] on an absent key yields 0)",
            "std::max(a, b, comp) returns comp(a, b) ? b : a; std::vector<corner_node>{...} is an array, range-for over it an index loop "
            "(unwound completely); struct corner_node, the mem-initialiser lists and the default member initialisers of the boundary-status "
            "classes are read from the class text",
            "the storage of the local container temp_nodes_status is a caller-provided scratch buffer with arbitrary content before the fill",
            "type invariant: the border statuses held by a boundary-status object are valid enum values (<= 3); class invariant "
            "m_shape == { m_size } for profile grids and meshes (set in their constructors)",
            "default base levels: std::unordered_set<size_type> is its characteristic array over [0, size); clear() and range insert are "
            "model loops (status.base_levels.model_*) over the extracted iterator operations; grid_nodes_indices is the tuple (status "
            "array, size, wanted status, filtered flag); std::function dispatch as in spec/iterators.py; the base-level set of the "
            "implementation object created by the constructor is empty before the call",
            "callee contracts used by replacement are each enforced by their own group: node_status_cmp (status.cmp), check_size "
            "(status.check_size), iterator constructor / ++ (iter.iter_ctor, iter.iter_incr), the container and set model loops",
        ],
        unmechanised=[
            "from the arbitrary ghost node / ghost override entry to all nodes / entries (universal generalisation over the harness-owned ghosts)",
            "grid construction fails iff the boundary-status constructor or set_nodes_status throws (the grid constructors call "
            "set_nodes_status with the already validated m_bounds_status and the caller's map; constructor glue)",
        ],
        undecided=[
            "trimesh_xt::set_nodes_status(array overload): xt::same_shape + whole-array copy is glue, not under contract",
            "axes with a single node (shape 1): a node then lies on both opposite borders; the contract accepts either border's status "
            "there (the code keeps bottom / right and, at corners, the last corner written); the property statement does not say",
        ],
        explanation="C17 clauses other than the iterator: looped symmetry (loop-free, all combinations), precedence comparator, status "
                    "composition and override refusal for raster / profile / mesh (unbounded, ghost node), default base levels (unbounded).",
    ),
}
