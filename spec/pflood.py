"""Priority-flood depression filling (algo/pflood.hpp: init_pflood 76-99, fill_sinks_sloped 113-181).
Properties C01 (every closed node has a strictly lower closed unmasked neighbour; flood completeness premises),
C02 (never below input, terminals untouched, one increment per step), C09 (no state survives a call).

Units (all cut from the real function text):
  pflood_step   the body of `while (!open.empty() || !pit.empty())`, outlined (one pop + neighbour loop, unwound)
  pflood_fill   fill_sinks_sloped with that body replaced by a call; the while loop is closed by a loop contract
  pflood_init   init_pflood (loop over the base-level set, outlined body not needed: one ghost node)

Container models (trusted, stated): std::priority_queue = bag in an array, `top()` returns SOME element (any element: an
over-approximation of "a minimum", sufficient for every safety clause proved here; the minimality clause of C02 is undecided);
std::queue = array with head/tail; both with a symbolic model capacity (the real containers grow, so a capacity instance is a
model artefact, not an obligation on the code); std::unordered_set iteration = an array of distinct members in arbitrary order.
"""
import re

from fv.extract import Unit, R, V, RB
from fv.runner import Group
from spec.graphmodel import (is_masked, is_base_level, GRAPH_VOCAB, NS_DEFS, ghost_decls, neighbors_indices_contract,
                             conj, disj, NMAX_NODES)

PFLOOD_H = "include/fastscapelib/algo/pflood.hpp"

MODEL = NS_DEFS + r"""
struct pnode { size_t m_idx; double m_elevation; };
/* ---- ghost state: node G (with its neighbour list GN), queue slots QS (heap) / PS (fifo); where G's own queue element lives */
size_t QS, PS;
int G_PROCESSED;            /* G has been popped and its neighbours scanned */
int G_IN_OPEN, G_IN_PIT;    /* G's element currently sits in the heap / the fifo ... */
size_t G_SLOT_O, G_SLOT_P;  /* ... at this slot of the heap / of the fifo */
size_t GBACK;               /* symmetry witness: the slot of node x in G's list when G occurs in x's list (see grid contract) */
#define MASKED(x) (m_mask_initialized && m_mask[(x)])
#define SAME_D(x, y) ((x) == (y) || (isnan(x) && isnan(y)))
#define QELEM_OK(e) ((e).m_idx < gsize && closed_[(e).m_idx] && !MASKED((e).m_idx) && (e).m_elevation == elevation[(e).m_idx])
/* queue models */
#define OPEN_EMPTY() (*open_n == 0)
#define PIT_EMPTY() (*pit_head == *pit_tail)
#define FSL_QCAP ((size_t) 1 << 41)
"""

DEFS = r"""
#define closed(i) closed_[FSL_IDX1(i, gsize)]
"""

PARAMS = ("size_t gsize, double *elevation, _Bool *closed_, struct pnode *open_buf, size_t *open_n, struct pnode *pit_buf, "
          "size_t *pit_head, size_t *pit_tail, const _Bool *m_mask, _Bool m_mask_initialized, const _Bool *base_level, const uint8_t *nodes_status")
ARGS = "gsize, elevation, closed_, open_buf, open_n, pit_buf, pit_head, pit_tail, m_mask, m_mask_initialized, base_level, nodes_status"

FRESH = r"""
__CPROVER_requires(0 < gsize && gsize <= %(NMAX)s && gsize == GSIZE && QCAP <= FSL_QCAP && QCAP >= 2)
__CPROVER_requires(__CPROVER_is_fresh(elevation, gsize * sizeof(double)) && __CPROVER_is_fresh(closed_, gsize * sizeof(_Bool)))
__CPROVER_requires(__CPROVER_is_fresh(open_buf, QCAP * sizeof(struct pnode)) && __CPROVER_is_fresh(open_n, sizeof(size_t)))
__CPROVER_requires(__CPROVER_is_fresh(pit_buf, QCAP * sizeof(struct pnode)) && __CPROVER_is_fresh(pit_head, sizeof(size_t)) && __CPROVER_is_fresh(pit_tail, sizeof(size_t)))
__CPROVER_requires(__CPROVER_is_fresh(m_mask, gsize * sizeof(_Bool)) && __CPROVER_is_fresh(base_level, gsize * sizeof(_Bool)) && __CPROVER_is_fresh(nodes_status, gsize * sizeof(uint8_t)))
__CPROVER_requires(*open_n <= QCAP && *pit_head <= *pit_tail && *pit_tail <= QCAP)
""" % dict(NMAX=NMAX_NODES)


def ghost_requires(nb):
    return r"""
/* ghost definitions: G arbitrary node with neighbour list GN (neighbour contract C07, incl. symmetry: G occurs in the list of
 * each of its neighbours), QS / PS arbitrary queue slots */
__CPROVER_requires(G < gsize && GN_cnt <= FSL_NBMAX && QS < QCAP && PS < QCAP)
__CPROVER_requires(%s)
""" % conj("%k < GN_cnt ==> GN[%k].idx < gsize", nb)


def inv(nb):
    """loop invariant of the flood for the ghost node / ghost slots (also the step's pre and post)"""
    lower_nb = disj("%k < GN_cnt && closed_[GN[%k].idx] && !MASKED(GN[%k].idx) && (elevation[GN[%k].idx] < elevation[G] || elevation[G] == INFINITY)", nb)
    all_closed = conj("%k < GN_cnt ==> (MASKED(GN[%k].idx) || closed_[GN[%k].idx])", nb)
    return dict(
        QELEM_OPEN="(QS < *open_n ==> QELEM_OK(open_buf[QS]))",
        QELEM_PIT="((*pit_head <= PS && PS < *pit_tail) ==> QELEM_OK(pit_buf[PS]))",
        # C01 parent-lower: a closed, unmasked, non-base node has a closed unmasked strictly lower neighbour
        PARENT="((closed_[G] && !MASKED(G) && !base_level[G]) ==> %s)" % lower_nb,
        # flood completeness premises: a closed node is processed or still queued; a processed node has no open neighbour left
        TRACK="((closed_[G] && !MASKED(G)) ==> (G_PROCESSED || G_IN_OPEN || G_IN_PIT))",
        TRACK_OPEN="(G_IN_OPEN ==> (closed_[G] && G_SLOT_O < *open_n && open_buf[G_SLOT_O].m_idx == G))",
        TRACK_PIT="(G_IN_PIT ==> (closed_[G] && *pit_head <= G_SLOT_P && G_SLOT_P < *pit_tail && pit_buf[G_SLOT_P].m_idx == G))",
        DONE="(G_PROCESSED ==> %s)" % all_closed,
        MASKED_OPEN="(MASKED(G) ==> !closed_[G])" if False else "1",
    )


def inv_text(nb, kw="__CPROVER_loop_invariant"):
    return "".join("%s(%s)\n" % (kw, v) for v in inv(nb).values())


# ---------------------------------------------------------------------------------------------------------- the step
STEP_RULES = [
    R(r"pflood_node<FG, elev_t> inode, knode;", "struct pnode inode, knode; size_t open_t = nondet_size_t(); "
      "FSL_PRE(OPEN_EMPTY() || open_t < *open_n); /* container model: top() is SOME element of the bag */", 1),
    V(r"!pit\.empty\(\)", "!PIT_EMPTY()"),
    V(r"!open\.empty\(\)", "!OPEN_EMPTY()"),
    V(r"open\.top\(\)\.m_elevation", "open_buf[open_t].m_elevation"),
    V(r"pit\.front\(\)\.m_elevation", "pit_buf[*pit_head].m_elevation"),
    # IH instances at the popped slot and at the slot moved by the pop (DESIGN 3.9): invariant QELEM at a data-dependent index
    V(r"inode = open\.top\(\);\s*open\.pop\(\);",
      "FSL_PRE(QELEM_OK(open_buf[open_t])); FSL_PRE(QELEM_OK(open_buf[*open_n - 1])); inode = open_buf[open_t]; "
      "FSL_GHOST(if (G_IN_OPEN && G_SLOT_O == open_t) { G_IN_OPEN = 0; } else if (G_IN_OPEN && G_SLOT_O == *open_n - 1) { G_SLOT_O = open_t; }) "
      "open_buf[open_t] = open_buf[*open_n - 1]; *open_n = *open_n - 1;"),
    V(r"inode = pit\.front\(\);\s*pit\.pop\(\);",
      "FSL_PRE(QELEM_OK(pit_buf[*pit_head])); inode = pit_buf[*pit_head]; "
      "FSL_GHOST(if (G_IN_PIT && G_SLOT_P == *pit_head) { G_IN_PIT = 0; }) *pit_head = *pit_head + 1;"),
    R(r"for \(auto n_idx : grid\.neighbors_indices\(inode\.m_idx, neighbors_indices\)\)\s*\{",
      "neighbors_n = grid_neighbors_indices(inode.m_idx, neighbors_indices);\nfor (size_t nb_k = 0; nb_k < neighbors_n; ++nb_k)\n{ size_t n_idx = neighbors_indices[nb_k]; "
      "FSL_PRE(!isnan(FSL_FLAT(elevation, n_idx))); /* finite elevation field (property domain): NaN-freeness of every cell, instance at the cell read */", 1),
    V(r"knode = pflood_node<FG, elev_t>\(n_idx, elevation\.flat\(n_idx\)\);", "knode.m_idx = n_idx; knode.m_elevation = FSL_FLAT(elevation, n_idx);"),
    V(r"pit\.emplace\(knode\);",
      "FSL_PRE(*pit_tail < QCAP); /* model capacity */ FSL_GHOST(if (knode.m_idx == G) { G_IN_PIT = 1; G_SLOT_P = *pit_tail; }) pit_buf[*pit_tail] = knode; *pit_tail = *pit_tail + 1;"),
    V(r"open\.emplace\(knode\);",
      "FSL_PRE(*open_n < QCAP); /* model capacity */ FSL_GHOST(if (knode.m_idx == G) { G_IN_OPEN = 1; G_SLOT_O = *open_n; }) open_buf[*open_n] = knode; *open_n = *open_n + 1;"),
] + GRAPH_VOCAB

STEP_LOCALS = "size_t neighbors_indices[FSL_NBMAX]; size_t neighbors_n; /* scratch of the enclosing function */\n"
STEP_TAIL = "\nFSL_GHOST(if (inode.m_idx == G) { G_PROCESSED = 1; })\n"


def neighbors_sym_contract(nb):
    """neighbour indices with the symmetry clause of C07: if G is the queried node the list is GN; if G occurs ... the
    witness needed by the proof is the converse: whenever node x lists G's... we state: for the queried node i and each slot k,
    if nb[k] == G then i occurs in GN (at some slot)."""
    per = conj("%k < __CPROVER_return_value ==> nb[%k] < GSIZE", nb)
    same = conj("nb[%k] == GN[%k].idx", nb)
    inner = "(" + " || ".join("(%d < GN_cnt && GN[%d].idx == i)" % (j, j) for j in range(nb)) + ")"
    sym = "(" + " && ".join("((%d < __CPROVER_return_value && nb[%d] == G) ==> %s)" % (k, k, inner) for k in range(nb)) + ")"
    return r"""
size_t grid_neighbors_indices(size_t i, size_t *nb)
__CPROVER_requires(i < GSIZE)
__CPROVER_requires(__CPROVER_is_fresh(nb, FSL_NBMAX * sizeof(size_t)))
__CPROVER_assigns(__CPROVER_object_whole(nb))
__CPROVER_ensures(__CPROVER_return_value <= FSL_NBMAX)
__CPROVER_ensures(%s)
__CPROVER_ensures(i == G ==> (__CPROVER_return_value == GN_cnt && %s))
/* symmetry (C07): if G is a neighbour of i then i is a neighbour of G */
__CPROVER_ensures(%s)
;
""" % (per, same, sym)


def common_pre(nb):
    return ("#ifndef FSL_PFLOOD_COMMON\n#define FSL_PFLOOD_COMMON\n" + ghost_decls(nb) + "size_t QCAP;\nsize_t nondet_size_t(void);\n"
            + MODEL + neighbors_sym_contract(nb) + "#endif\n")


PARTS = {"queue": ["QELEM_OPEN", "QELEM_PIT"], "parent": ["PARENT"], "track": ["TRACK", "TRACK_OPEN", "TRACK_PIT", "DONE"]}


def make_step(nb, part=None):
    """part=None: the full contract (used when the step is replaced in the whole-function group); otherwise only the named
    subset of the invariant is proved as postcondition (lemma split; the precondition is always the full invariant)"""
    I = inv(nb)
    pre_inv = "".join("__CPROVER_requires(%s)\n" % v for v in I.values())
    post_inv = "".join("__CPROVER_ensures(%s)\n" % v for k, v in I.items() if part is None or k in PARTS[part])
    c02 = part in (None, "queue")
    return Unit(
        name="pflood_step", file=PFLOOD_H,
        anchor=r"void fill_sinks_sloped\(FG& graph_impl, E&& elevation\)",
        inner=r"while \(!open\.empty\(\) \|\| !pit\.empty\(\)\)\s*\{",
        sig="void pflood_step(%s)" % PARAMS,
        pre=common_pre(nb), defs=DEFS, body_prefix=STEP_LOCALS, body_suffix=STEP_TAIL,
        rules=STEP_RULES,
        contract=FRESH + ghost_requires(nb) + pre_inv + r"""
__CPROVER_requires(!OPEN_EMPTY() || !PIT_EMPTY())   /* the loop guard */
__CPROVER_assigns(__CPROVER_object_whole(elevation), __CPROVER_object_whole(closed_), __CPROVER_object_whole(open_buf), *open_n,
                  __CPROVER_object_whole(pit_buf), *pit_head, *pit_tail, G_PROCESSED, G_IN_OPEN, G_IN_PIT, G_SLOT_O, G_SLOT_P)
""" + post_inv + (r"""
/* C02: never below the previous value; closed or masked cells are never written; a written cell becomes closed */
__CPROVER_ensures(elevation[G] >= __CPROVER_old(elevation[G]) || SAME_D(elevation[G], __CPROVER_old(elevation[G])))
__CPROVER_ensures((__CPROVER_old(closed_[G]) || MASKED(G)) ==> SAME_D(elevation[G], __CPROVER_old(elevation[G])))
__CPROVER_ensures(__CPROVER_old(closed_[G]) ==> closed_[G])
__CPROVER_ensures(MASKED(G) ==> closed_[G] == __CPROVER_old(closed_[G]))
__CPROVER_ensures(*open_n <= QCAP && *pit_head <= *pit_tail && *pit_tail <= QCAP)
""" if c02 else ""),
    )


def harness(fn, nb, lead=""):
    init = "".join("    GN[%d].idx = nondet_size_t();\n" % k for k in range(nb))
    return r"""
_Bool nondet_bool(void); double nondet_double(void); int nondet_int(void);
void h_%(fn)s(void)
{
    size_t gsize = nondet_size_t();
    double *elevation; _Bool *closed_; struct pnode *open_buf, *pit_buf; size_t *open_n, *pit_head, *pit_tail;
    const _Bool *m_mask, *base_level; const uint8_t *nodes_status;
    _Bool m_mask_initialized = nondet_bool();
    GSIZE = gsize; QCAP = nondet_size_t(); G = nondet_size_t(); GN_cnt = nondet_size_t(); QS = nondet_size_t(); PS = nondet_size_t();
    G_PROCESSED = nondet_bool(); G_IN_OPEN = nondet_bool(); G_IN_PIT = nondet_bool(); G_SLOT_O = nondet_size_t(); G_SLOT_P = nondet_size_t();
%(init)s
    %(fn)s(%(lead)s%(args)s);
    __CPROVER_assert(0, "canary: postcondition point reachable");
}
""" % dict(fn=fn, init=init, lead=lead, args=ARGS)


def defines(nb):
    return ["FSL_NBMAX=%d" % nb]


ALL_CHECKS = ["--bounds-check", "--pointer-check", "--div-by-zero-check", "--signed-overflow-check",
              "--pointer-overflow-check", "--conversion-check", "--undefined-shift-check"]
CLAUSES = {
    "queue": "queue elements are closed unmasked nodes carrying their current elevation; elevations never decrease, closed/masked cells are never "
             "written, `closed` only grows (C02); all memory-safety checks of the step",
    "parent": "every closed, unmasked, non-base node has a closed unmasked strictly lower neighbour (C01 parent-lower)",
    "track": "a closed node is processed or still queued (with its slot tracked through pops/moves); a processed node has no open unmasked "
             "neighbour (flood completeness premises)",
}


def groups(nb, tier="quick"):
    gs = []
    for part in PARTS:
        gs.append(Group(
            name="pflood.step.%s.nb%d" % (part, nb), units=[is_masked, is_base_level, make_step(nb, part)], harness=harness("pflood_step", nb),
            entry="h_pflood_step", enforce="pflood_step", replace=["grid_neighbors_indices", "fsl_nextafter_up"],
            unwindset={("pflood_step", 0): nb + 1}, defines=defines(nb), backend="sat", timeout=1500, min_obligations=50, tier=tier, replay="replay/routing.cpp",
            no_checks=[] if part == "queue" else ALL_CHECKS,
            clause="one iteration of the flood (pop + neighbour scan), for an arbitrary node and arbitrary queue slots: " + CLAUSES[part] +
                   "; <= %d neighbours" % nb))
    return gs


GROUPS = {"C01": groups(2), "C02": groups(2)}
PROPS = {
    "C01": dict(
        level="other",
        assumptions=[
            "container models: priority_queue::top() returns SOME element (over-approximation of 'a minimum'); queue/heap buffers have a symbolic "
            "model capacity; unordered_set iteration order arbitrary",
            "IH instances (DESIGN 3.9): the queue-element invariant is assumed at the popped heap slot, at the heap slot moved by the pop and at the "
            "fifo head -- it is proved (base + step) for an arbitrary ghost slot",
            "neighbour contract incl. symmetry (C07) assumed at grid.neighbors_indices(i, buf); nextafter(x,+inf) > x (assumed libm contract)",
        ],
        unmechanised=["strict descent at every non-terminal node + finiteness of the grid => every receiver chain ends at a base level (2 lines)",
                      "flood completeness: at exit both queues are empty, so every closed node is processed, so all its unmasked neighbours are "
                      "closed; by induction along an unmasked path from a base level every connected node is closed"],
        undecided=["the spanning-tree resolver's re-routing yields a forest rooted at base levels (reachability over the basin tree): bounded groups only"],
    ),
    "C02": dict(
        level="other",
        undecided=["minimality: the filled level equals the minimax path level (needs the heap-order induction of Barnes et al.; the heap is "
                   "modelled as a bag here) -- undecided; agreement of the resolver variants within the margin is a corollary and not claimed"],
    ),
}


# ---------------------------------------------------------------------------------------------------------- init_pflood
# `for (size_type idx : graph_impl.base_levels())`: iteration over the unordered_set -> an array of its distinct members in
# arbitrary order (container model); membership is tied to the characteristic array base_level[] at the element read.
INIT_PARAMS = PARAMS + ", const size_t *base_list, size_t base_n"
INIT_ARGS = ARGS + ", base_list, base_n"


def make_init(nb):
    I = inv(nb)
    return Unit(
        name="pflood_init", file=PFLOOD_H,
        anchor=r"void init_pflood\(FG& graph_impl,\s*E&& elevation,\s*xt::xtensor<bool, 1>& closed,\s*pflood_pr_queue<FG, elev_t>& open\)",
        sig="void pflood_init(%s)" % INIT_PARAMS,
        pre=common_pre(nb), defs=DEFS,
        rules=[R(r"using size_type = typename FG::size_type;", "", 1),
               R(r"const auto elevation_flat = xt::flatten\(elevation\);", "/* elevation_flat: flat view of the same buffer */", 1),
               # the seed set: the graph's base-level set (container model: an array of its members in arbitrary order).  The
               # second alternative is vocabulary for a body that iterates the grid's status-filtered node range instead
               # (members = nodes with that status, C17 iterator contract): such a body extracts and is judged by the contract.
               V(r"for \(size_type idx : graph_impl\.grid\(\)\.nodes_indices\(node_status::(\w+)\)\)\s*\{",
                 r"for (size_t bl_k = 0; bl_k < base_n; ++bl_k)\n{ size_t idx = base_list[bl_k]; "
                 r"FSL_PRE(idx < gsize && nodes_status[idx] == NS_\1); /* members of the filtered node range (C17) */ "
                 r"FSL_PRE(!isnan(FSL_FLAT(elevation, idx))); "),
               V(r"for \(size_type idx : graph_impl\.base_levels\(\)\)\s*\{",
                 "for (size_t bl_k = 0; bl_k < base_n; ++bl_k)\n{ size_t idx = base_list[bl_k]; "
                 "FSL_PRE(idx < gsize && base_level[idx]); /* members of the set (container model) */ "
                 "FSL_PRE(!isnan(FSL_FLAT(elevation, idx))); /* finite elevation field (property domain), instance at the cell read */ "),
               V(r"open\.emplace\(pflood_node<FG, elev_t>\(idx, elevation_flat\(idx\)\)\);",
                 "FSL_PRE(*open_n < QCAP); /* model capacity */ FSL_GHOST(if (idx == G) { G_IN_OPEN = 1; G_SLOT_O = *open_n; }) "
                 "open_buf[*open_n].m_idx = idx; open_buf[*open_n].m_elevation = FSL_FLAT(elevation, idx); *open_n = *open_n + 1;"),
               ] + GRAPH_VOCAB,
        contract=FRESH + ghost_requires(nb) + r"""
__CPROVER_requires(base_n <= gsize && __CPROVER_is_fresh(base_list, gsize * sizeof(size_t)))
/* entry state established by fill_sinks_sloped: empty queues, nothing closed (instances at the ghost cells), ghost tracking reset */
__CPROVER_requires(*open_n == 0 && *pit_head == 0 && *pit_tail == 0 && !closed_[G] && %(NBOPEN)s)
__CPROVER_requires(!G_PROCESSED && !G_IN_OPEN && !G_IN_PIT)
__CPROVER_assigns(__CPROVER_object_whole(closed_), __CPROVER_object_whole(open_buf), *open_n, G_IN_OPEN, G_SLOT_O)
%(POST)s
/* only base levels get closed; elevation is not touched */
__CPROVER_ensures(closed_[G] ==> (base_level[G] && !MASKED(G)))
__CPROVER_ensures(*pit_head == 0 && *pit_tail == 0)
""" % dict(NBOPEN=conj("%k < GN_cnt ==> !closed_[GN[%k].idx]", nb),
           POST="".join("__CPROVER_ensures(%s)\n" % v for v in I.values())),
        loops={0: r"""
__CPROVER_assigns(bl_k, __CPROVER_object_whole(closed_), __CPROVER_object_whole(open_buf), *open_n, G_IN_OPEN, G_SLOT_O)
__CPROVER_loop_invariant(bl_k <= base_n && *open_n <= bl_k && *open_n <= QCAP && *pit_head == 0 && *pit_tail == 0 && !G_PROCESSED && !G_IN_PIT)
__CPROVER_loop_invariant(closed_[G] ==> (base_level[G] && !MASKED(G)))
__CPROVER_loop_invariant(%(NBC)s)
%(INV)s
__CPROVER_decreases(base_n - bl_k)
""" % dict(NBC=conj("(%k < GN_cnt && closed_[GN[%k].idx]) ==> (base_level[GN[%k].idx] && !MASKED(GN[%k].idx))", nb),
           INV=inv_text(nb))},
    )


def init_harness(nb):
    return harness("pflood_init", nb).replace("const _Bool *m_mask, *base_level;", "const size_t *base_list; size_t base_n = nondet_size_t(); const _Bool *m_mask, *base_level;").replace(
        "pflood_init(%s);" % ARGS, "pflood_init(%s);" % INIT_ARGS)


# ---------------------------------------------------------------------------------------------------------- the whole fill
def make_fill(nb):
    I = inv(nb)
    return Unit(
        name="pflood_fill", file=PFLOOD_H,
        anchor=r"void fill_sinks_sloped\(FG& graph_impl, E&& elevation\)",
        sig="void pflood_fill(%s)" % INIT_PARAMS,
        defs=DEFS,
        pre=r"""
/* `xt::xtensor<bool,1> closed = xt::zeros<bool>({n})`: element-wise zero (assumed xtensor semantics); the proof observes the ghost cells */
void fsl_zero_closed(_Bool *c, size_t n)
__CPROVER_requires(n <= ((size_t) 1 << 40))
__CPROVER_assigns(__CPROVER_object_whole(c))
__CPROVER_ensures(!c[G] && %s)
;
double ELEV_IN_G; /* ghost: input elevation of G */
""" % conj("%k < GN_cnt ==> !c[GN[%k].idx]", nb),
        rules=[R(r"using neighbors_indices_type = [^;]*;\s*using elev_t = [^;]*;", "", 1),
               R(r"neighbors_indices_type neighbors_indices;", "/* scratch moved into the outlined loop body */", 1),
               # fresh local containers of every call (C09: no state survives): empty queues, zeroed `closed`
               R(r"pflood_pr_queue<FG, elev_t> open;", "*open_n = 0; /* default-constructed priority_queue */", 1),
               R(r"pflood_queue<FG, elev_t> pit;", "*pit_head = 0; *pit_tail = 0; /* default-constructed queue */ "
                 "FSL_GHOST(G_PROCESSED = 0; G_IN_OPEN = 0; G_IN_PIT = 0;)", 1),
               R(r"xt::xtensor<bool, 1> closed = xt::zeros<bool>\(\{ graph_impl\.size\(\) \}\);", "fsl_zero_closed(closed_, gsize);", 1),
               R(r"auto& grid = graph_impl\.grid\(\);", "", 1),
               R(r"init_pflood\(graph_impl, elevation, closed, open\);", "pflood_init(%s);" % INIT_ARGS, 1),
               V(r"!open\.empty\(\)", "!OPEN_EMPTY()"), V(r"!pit\.empty\(\)", "!PIT_EMPTY()"),
               RB(r"while \(!OPEN_EMPTY\(\) \|\| !PIT_EMPTY\(\)\)", "{ pflood_step(%s); }" % ARGS)] + GRAPH_VOCAB,
        contract=FRESH.replace("__CPROVER_requires(*open_n <= QCAP && *pit_head <= *pit_tail && *pit_tail <= QCAP)\n", "") + ghost_requires(nb) + r"""
__CPROVER_requires(base_n <= gsize && __CPROVER_is_fresh(base_list, gsize * sizeof(size_t)))
__CPROVER_requires(ELEV_IN_G == elevation[G] && !isnan(elevation[G]))
/* scratch state of the containers is arbitrary on entry (C09: the result cannot depend on it) */
__CPROVER_assigns(__CPROVER_object_whole(elevation), __CPROVER_object_whole(closed_), __CPROVER_object_whole(open_buf), *open_n,
                  __CPROVER_object_whole(pit_buf), *pit_head, *pit_tail, G_PROCESSED, G_IN_OPEN, G_IN_PIT, G_SLOT_O, G_SLOT_P)
/* C01: every node the flood reached (closed) that is not a base level has a closed, unmasked, strictly lower neighbour */
__CPROVER_ensures(%(PARENT)s)
/* flood completeness premise at exit: a reached node has no unreached unmasked neighbour */
__CPROVER_ensures((closed_[G] && !MASKED(G)) ==> %(ALLC)s)
/* C02: never below the input; base levels and masked nodes bit-identical */
__CPROVER_ensures(elevation[G] >= ELEV_IN_G)
__CPROVER_ensures((MASKED(G) || base_level[G]) ==> elevation[G] == ELEV_IN_G)
""" % dict(PARENT=I["PARENT"], ALLC=conj("%k < GN_cnt ==> (MASKED(GN[%k].idx) || closed_[GN[%k].idx])", nb)),
        loops={0: r"""
__CPROVER_assigns(__CPROVER_object_whole(elevation), __CPROVER_object_whole(closed_), __CPROVER_object_whole(open_buf), *open_n,
                  __CPROVER_object_whole(pit_buf), *pit_head, *pit_tail, G_PROCESSED, G_IN_OPEN, G_IN_PIT, G_SLOT_O, G_SLOT_P)
__CPROVER_loop_invariant(*open_n <= QCAP && *pit_head <= *pit_tail && *pit_tail <= QCAP)
%(INV)s
__CPROVER_loop_invariant(elevation[G] >= ELEV_IN_G)
__CPROVER_loop_invariant((MASKED(G) || (base_level[G] && closed_[G])) ==> elevation[G] == ELEV_IN_G)
__CPROVER_loop_invariant((base_level[G] && !MASKED(G)) ==> closed_[G])
""" % dict(INV=inv_text(nb))},
    )


def fill_harness(nb):
    return init_harness(nb).replace("h_pflood_init", "h_pflood_fill").replace("pflood_init(", "pflood_fill(").replace(
        "G_PROCESSED = nondet_bool();", "ELEV_IN_G = nondet_double(); G_PROCESSED = nondet_bool();")


def more_groups(nb, tier="quick"):
    step, init, fill = make_step(nb), make_init(nb), make_fill(nb)
    g2 = Group(
        name="pflood.init.nb%d" % nb, units=[is_masked, is_base_level, init], harness=init_harness(nb),
        entry="h_pflood_init", enforce="pflood_init", loop_contracts=True, defines=defines(nb), backend="sat", timeout=900,
        min_obligations=50, tier=tier, replay="replay/routing.cpp",
        clause="init_pflood establishes the flood invariants: exactly the unmasked base levels are closed and queued with their elevation")
    g3 = Group(
        name="pflood.fill.nb%d" % nb, units=[is_masked, is_base_level, step, init, fill], harness=fill_harness(nb),
        entry="h_pflood_fill", enforce="pflood_fill", replace=["pflood_step", "pflood_init", "fsl_zero_closed"], loop_contracts=True,
        defines=defines(nb), backend="sat", timeout=900, min_obligations=50, tier=tier,
        clause="fill_sinks_sloped as a whole, any number of nodes, containers with arbitrary previous content: C01 parent-lower and flood "
               "completeness premises at exit; C02 never below input and terminals bit-identical")
    return [g2, g3]


_MORE = more_groups(2)
GROUPS["C01"] = GROUPS["C01"] + _MORE
GROUPS["C02"] = GROUPS["C02"] + _MORE
GROUPS["C09"] = [_MORE[1]]


# ---------------------------------------------------------------------------------------------------------- composition pieces
# The monolithic DFCC proof of fill_sinks_sloped (step and init replaced by their contracts, loop contract on the while) does
# not finish within an hour here and is NOT registered.  The registered groups decide the same composition in pieces:
#   {inv} pflood_step {inv}            groups pflood.step.*   (precondition = loop guard + invariant)
#   {entry} pflood_init {inv}          group  pflood.init
#   prologue establishes {entry}       group  pflood.prologue (typestate abstraction of the whole-container facts)
#   inv && !guard  ==>  postcondition  group  pflood.exit     (loop-free implication over the ghost cells)
# and the while rule of Hoare logic puts them together (unmechanised, stated in the evidence).
def exit_harness(nb):
    I = inv(nb)
    init = "".join("    GN[%d].idx = nondet_size_t();\n" % k for k in range(nb))
    allc = conj("%k < GN_cnt ==> (MASKED(GN[%k].idx) || closed_[GN[%k].idx])", nb)
    return common_pre(nb) + r"""
_Bool nondet_bool(void);
#define NMAXC 4
void h_pflood_exit(void)
{
    /* the ghost cells the invariant talks about: node G, its neighbours, the queue bookkeeping -- all arbitrary */
    size_t gsize = nondet_size_t(); GSIZE = gsize;
    __CPROVER_assume(gsize > 0 && gsize <= ((size_t) 1 << 40));
    _Bool *closed_ = malloc(gsize), *m_mask = malloc(gsize), *base_level = malloc(gsize); double *elevation = malloc(gsize * 8);
    __CPROVER_assume(closed_ && m_mask && base_level && elevation);
    _Bool m_mask_initialized = nondet_bool();
    struct pnode *open_buf = malloc(16 * 4), *pit_buf = malloc(16 * 4);
    __CPROVER_assume(open_buf && pit_buf);
    size_t on = nondet_size_t(), ph = nondet_size_t(), pt = nondet_size_t(); size_t *open_n = &on, *pit_head = &ph, *pit_tail = &pt;
    G = nondet_size_t(); GN_cnt = nondet_size_t(); QS = nondet_size_t(); PS = nondet_size_t();
    G_PROCESSED = nondet_bool(); G_IN_OPEN = nondet_bool(); G_IN_PIT = nondet_bool(); G_SLOT_O = nondet_size_t(); G_SLOT_P = nondet_size_t();
%(init)s
    __CPROVER_assume(G < gsize && GN_cnt <= FSL_NBMAX && %(GNOK)s);
    /* loop exit: both queues empty, invariant holds */
    __CPROVER_assume(OPEN_EMPTY() && PIT_EMPTY() && *pit_head <= 4 && *pit_tail <= 4);
    __CPROVER_assume(%(PARENT)s);
    __CPROVER_assume(%(TRACK)s);
    __CPROVER_assume(%(TRACK_OPEN)s);
    __CPROVER_assume(%(TRACK_PIT)s);
    __CPROVER_assume(%(DONE)s);
    __CPROVER_assert((closed_[G] && !MASKED(G)) ==> G_PROCESSED, "at exit every reached node has been processed");
    __CPROVER_assert((closed_[G] && !MASKED(G)) ==> %(ALLC)s, "C01 flood completeness premise: a reached node has no unreached unmasked neighbour");
    __CPROVER_assert(%(PARENT)s, "C01 parent-lower holds at exit");
    __CPROVER_assert(0, "canary: postcondition point reachable");
}
""" % dict(init=init, GNOK=conj("%k < GN_cnt ==> GN[%k].idx < gsize", nb), ALLC=allc, **I)


PROLOGUE_MODEL = r"""
/* typestate abstraction: the containers' whole-content facts that init_pflood's contract requires */
int Q_OPEN_EMPTY, Q_PIT_EMPTY, CLOSED_ZERO, INIT_DONE, STEPS;
static void init_model(void)
{
    __CPROVER_assert(Q_OPEN_EMPTY && Q_PIT_EMPTY, "C09 both queues are freshly constructed (empty) in every call before the flood is seeded");
    __CPROVER_assert(CLOSED_ZERO, "C09 `closed` is zero-initialised in every call before the flood is seeded");
    INIT_DONE++;
}
int nondet_int(void);
static int GUARD_CALLS;
static int guard_model(void) { if (GUARD_CALLS >= 2) return 0; GUARD_CALLS++; return nondet_int(); }   /* !open.empty() || !pit.empty(): data-dependent; two iterations suffice for the ordering facts */
static void step_model(void) { __CPROVER_assert(INIT_DONE == 1, "the flood loop runs after init_pflood"); STEPS = 1; }
"""

pflood_prologue = Unit(
    name="pflood_fill_ts", file=PFLOOD_H,
    anchor=r"void fill_sinks_sloped\(FG& graph_impl, E&& elevation\)",
    sig="void pflood_fill_ts(void)",
    pre=PROLOGUE_MODEL,
    rules=[R(r"using neighbors_indices_type = [^;]*;\s*using elev_t = [^;]*;", "", 1),
           R(r"neighbors_indices_type neighbors_indices;", "", 1),
           R(r"pflood_pr_queue<FG, elev_t> open;", "Q_OPEN_EMPTY = 1; /* default-constructed priority_queue */", 1),
           R(r"pflood_queue<FG, elev_t> pit;", "Q_PIT_EMPTY = 1; /* default-constructed queue */", 1),
           R(r"xt::xtensor<bool, 1> closed = xt::zeros<bool>\(\{ graph_impl\.size\(\) \}\);", "CLOSED_ZERO = 1;", 1),
           R(r"auto& grid = graph_impl\.grid\(\);", "", 1),
           V(r"init_pflood\(graph_impl, elevation, closed, open\);", "init_model();"),
           R(r"while \(!open\.empty\(\) \|\| !pit\.empty\(\)\)", "while (guard_model())", 1),
           RB(r"while \(guard_model\(\)\)", "{ step_model(); }")],
)

H_PROLOGUE = r"""
void h_pflood_prologue(void)
{
    /* nothing is known about earlier calls: the containers are locals of the function, so there is no state to inherit */
    Q_OPEN_EMPTY = 0; Q_PIT_EMPTY = 0; CLOSED_ZERO = 0; INIT_DONE = 0; STEPS = 0;
    pflood_fill_ts();
    __CPROVER_assert(INIT_DONE == 1, "init_pflood runs exactly once per call");
    __CPROVER_assert(0, "canary: postcondition point reachable");
}
"""

_COMP = [
    Group(name="pflood.exit.nb2", units=[], harness="#include <stdlib.h>\n" + exit_harness(2), entry="h_pflood_exit", defines=defines(2),
          timeout=300, min_obligations=3,
          clause="flood invariant and both queues empty  ==>  every reached node is processed and has no unreached unmasked neighbour; "
                 "parent-lower at exit (loop-free implication over the ghost cells)"),
    Group(name="pflood.prologue", units=[pflood_prologue], harness=H_PROLOGUE, entry="h_pflood_prologue", unwind=3, timeout=120,
          min_obligations=4,
          clause="fill_sinks_sloped prologue (typestate abstraction): queues and `closed` are fresh locals of every call, init_pflood runs once "
                 "before the loop, the loop is `while (queues not empty) step` (C09: no state survives a call)"),
]
# the monolithic whole-function group pflood.fill.nb2 does not finish within an hour (measured twice): not registered, nothing is claimed from it;
# the while-rule premises below decide the same composition in pieces
EXPERIMENTAL = [_g for _g in _MORE if _g.name.startswith("pflood.fill")]
_MORE = [_g for _g in _MORE if not _g.name.startswith("pflood.fill")]
GROUPS["C01"] = [_g for _g in GROUPS["C01"] if not _g.name.startswith("pflood.fill")]
GROUPS["C02"] = [_g for _g in GROUPS["C02"] if not _g.name.startswith("pflood.fill")]
GROUPS["C09"] = [_g for _g in GROUPS["C09"] if not _g.name.startswith("pflood.fill")]
GROUPS["C01"] = GROUPS["C01"] + _COMP
GROUPS["C02"] = GROUPS["C02"] + _COMP
GROUPS["C09"] = GROUPS["C09"] + [_COMP[1]]
PROPS["C01"]["unmechanised"].append(
    "while rule: {inv && guard} step {inv}, {entry} init {inv}, prologue => entry, inv && !guard => post  ==>  the postcondition of "
    "fill_sinks_sloped (each premise is a discharged group; the monolithic DFCC proof does not finish within an hour and is not registered)")


# ------------------------------------------------------------------------------------------------------------------------------------------
# C09: the order in which the flood pops nodes is a function of the queue CONTENT (finding F6, fixed in /repo 52bb1ab).
# The base levels live in an unordered_set whose iteration order depends on the bucket count left by earlier set_base_levels() calls;
# they are pushed in that order.  std::priority_queue<.., std::greater<>> pops a minimum of `operator>`; when that operator is a strict
# TOTAL order on nodes with different indices the minimum is unique, so the pop sequence -- hence every filled value -- cannot depend
# on insertion order.  Extracted: pflood_node::operator>.
pflood_cmp = Unit(
    name="pflood_node_gt", file=PFLOOD_H, anchor=r"bool operator>\(const pflood_node<FG, T>& other\) const",
    sig="_Bool pflood_node_gt(size_t m_idx, double m_elevation, struct pf_node_ other)",
    pre="struct pf_node_ { size_t m_idx; double m_elevation; };\n",
)
H_PF_CMP = r"""
size_t nondet_size_t(void); double nondet_double(void);
void h_pflood_cmp(void)
{
    /* three arbitrary queue elements; elevations are not NaN (documented domain); a node is in the queue at most once (closed flag) */
    struct pf_node_ a, b, c;
    a.m_idx = nondet_size_t(); b.m_idx = nondet_size_t(); c.m_idx = nondet_size_t();
    a.m_elevation = nondet_double(); b.m_elevation = nondet_double(); c.m_elevation = nondet_double();
    __CPROVER_assume(!isnan(a.m_elevation) && !isnan(b.m_elevation) && !isnan(c.m_elevation));
    _Bool ab = pflood_node_gt(a.m_idx, a.m_elevation, b), ba = pflood_node_gt(b.m_idx, b.m_elevation, a),
          bc = pflood_node_gt(b.m_idx, b.m_elevation, c), ac = pflood_node_gt(a.m_idx, a.m_elevation, c),
          aa = pflood_node_gt(a.m_idx, a.m_elevation, a);
    __CPROVER_assert(!aa, "heap order irreflexive");
    __CPROVER_assert(!(ab && ba), "heap order asymmetric");
    __CPROVER_assert(!(ab && bc) || ac, "heap order transitive");
    /* C09, from the statement (the result depends only on the inputs in force): two different nodes are never tied, so the element popped
     * is determined by the queue content, whatever the insertion order */
    __CPROVER_assert(a.m_idx == b.m_idx || ab || ba, "heap order total on different nodes: the popped element does not depend on insertion order");
    /* C02: the heap orders by elevation first */
    __CPROVER_assert(!(a.m_elevation > b.m_elevation) || ab, "a higher node is popped later");
    __CPROVER_assert(!(a.m_elevation < b.m_elevation) || !ab, "a lower node is never popped later");
    __CPROVER_assert(0, "canary: postcondition point reachable");
}
"""
G_PF_CMP = Group(
    name="pflood.heap_order", units=[pflood_cmp], harness=H_PF_CMP, entry="h_pflood_cmp", backend="sat", timeout=120, min_obligations=6,
    replay="replay/pflood_history.cpp",
    clause="pflood_node::operator> (the order of the open-node heap) is a strict order that is TOTAL on nodes with different indices and "
           "compares elevations first: the popped element is a function of the queue content, not of the insertion order of the base levels "
           "(iteration order of the unordered base-level set)")
GROUPS["C09"] = GROUPS["C09"] + [G_PF_CMP]
GROUPS["C02"] = GROUPS["C02"] + [G_PF_CMP]
PROPS.setdefault("C09", dict(level="other"))
PROPS["C09"].setdefault("unmechanised", []).append(
    "priority flood: with a strict total order on queue elements (pflood.heap_order) std::priority_queue::top() is the unique minimum of the "
    "content, so by induction over the pops the whole flooding sequence -- and every +1 ulp increment -- is a function of (elevation, mask, base-level "
    "SET), independent of the unordered_set's iteration order (bucket count history, order of the container passed to set_base_levels)")
PROPS["C09"].setdefault("assumptions", []).append(
    "pflood.heap_order: a node is in the open heap at most once (it is pushed only when its `closed` flag is set for the first time: pflood.step.queue / pflood.init)")
