"""Traversal orders (flow/flow_graph_impl.hpp: compute_dfs_indices_bottomup 319-351, compute_bfs_indices_bottomup
357-414, compute_dfs_indices_topdown 423-461).  Property C06, order clauses -- BOUNDED stand-ins.

"Permutation of all nodes", "every node after each of its receivers", "levels non-empty with every receiver in a strictly earlier
level" are counting / reachability statements that the contract language cannot state without quantifiers and cardinalities
(DESIGN 1.3): these groups check the extracted functions on ALL receiver DAGs with at most N_B nodes (complete unwinding,
symbolic tables), and are labelled bounded; they are never counted as proof.  The authors' assert(nstack == size()) is kept."""
from fv.extract import Unit, R, V
from fv.runner import Group

IMPL_H = "include/fastscapelib/flow/flow_graph_impl.hpp"
N_B = 4

DEFS = r"""
#define m_receivers(i, j) m_receivers_[FSL_IDX2(i, j, gsize, REC_W)]
#define m_receivers_count(i) m_receivers_count_[FSL_IDX1(i, gsize)]
#define m_donors(i, j) m_donors_[FSL_IDX2(i, j, gsize, DON_W)]
#define m_donors_count(i) m_donors_count_[FSL_IDX1(i, gsize)]
#define m_dfs_indices(i) m_dfs_indices_[FSL_IDX1(i, gsize)]
#define m_bfs_indices(i) m_bfs_indices_[FSL_IDX1(i, gsize)]
/* the other tables of the implementation object in scope (read-only inputs of these functions; today's bodies do not read them): arbitrary values,
 * owned by the harness -- a changed body that consults them is judged on ALL their values (weights may be 0 for a real link: slope^p underflow) */
#define m_receivers_weight(i, j) ORD_WEIGHT[FSL_IDX2(i, j, gsize, REC_W)]
#define m_receivers_distance(i, j) ORD_DIST[FSL_IDX2(i, j, gsize, REC_W)]
"""
TABLES_PRE = "#ifndef FSL_ORD_TABLES\n#define FSL_ORD_TABLES\nconst double *ORD_WEIGHT, *ORD_DIST;\n#endif\n"
PARAMS = ("size_t gsize, const size_t *m_receivers_, const size_t *m_receivers_count_, const size_t *m_donors_, const size_t *m_donors_count_, "
          "size_t *m_dfs_indices_, size_t *m_bfs_indices_, size_t *m_bfs_levels_, size_t *m_bfs_levels_n")
ARGS = "gsize, rec, rcnt, don, dcnt, dfs, bfs, lev, &lev_n"

STACK_MODEL = r"""
/* std::stack<size_t> as array + length; at most one push per node and per donor/receiver slot (model capacity, checked) */
#define STK_CAP (N_B * (DON_W + 1) + 2)
#define STK_DECL size_t tmp_[STK_CAP]; size_t tmp_n = 0
#define STK_PUSH(v) do { __CPROVER_assert(tmp_n < STK_CAP, "stack model capacity"); tmp_[tmp_n] = (v); tmp_n = tmp_n + 1; } while (0)
"""
STACK_RULES = [
    R(r"std::stack<size_type> tmp;", "STK_DECL;", 1),
    V(r"tmp\.push\(([^()]*)\);", r"STK_PUSH(\1);"),
    V(r"!tmp\.empty\(\)", "(tmp_n != 0)"),
    V(r"size_type istack = tmp\.top\(\);\s*tmp\.pop\(\);", "size_t istack = tmp_[tmp_n - 1]; tmp_n = tmp_n - 1;"),
    V(r"\bsize\(\)", "gsize"),
    V(r"const auto (idonor|irec) =", r"const size_t \1 ="),
]

dfs_bottomup = Unit(
    name="dfs_bottomup", file=IMPL_H,
    anchor=r"void flow_graph_impl<G, S, flow_graph_fixed_array_tag>::compute_dfs_indices_bottomup\(\)",
    sig="void dfs_bottomup(%s)" % PARAMS, pre=TABLES_PRE + STACK_MODEL, defs=DEFS, rules=STACK_RULES,
)
dfs_topdown = Unit(
    name="dfs_topdown", file=IMPL_H,
    anchor=r"void flow_graph_impl<G, S, flow_graph_fixed_array_tag>::compute_dfs_indices_topdown\(\)",
    sig="void dfs_topdown(%s)" % PARAMS, pre=TABLES_PRE + "#ifndef STK_CAP\n" + STACK_MODEL + "#endif\n", defs=DEFS,
    rules=STACK_RULES + [
        R(r"std::vector<size_type> visited_count\(gsize, 0\);", "size_t vc_[N_B]; for (int z_ = 0; z_ < N_B; ++z_) vc_[z_] = 0;", 1),
        V(r"\bvisited_count\[([^\[\]]*)\]", r"vc_[FSL_IDX1(\1, gsize)]"),
        R(r"std::reverse\(m_dfs_indices\.begin\(\), m_dfs_indices\.end\(\)\);",
          "for (size_t a_ = 0, b_ = gsize; a_ + 1 < b_; ++a_, --b_) { size_t t_ = m_dfs_indices_[a_]; m_dfs_indices_[a_] = m_dfs_indices_[b_ - 1]; m_dfs_indices_[b_ - 1] = t_; } /* in-place reversal of the whole order */", 1),
    ],
)
bfs_bottomup = Unit(
    name="bfs_bottomup", file=IMPL_H,
    anchor=r"void flow_graph_impl<G, S, flow_graph_fixed_array_tag>::compute_bfs_indices_bottomup\(\)",
    sig="void bfs_bottomup(%s)" % PARAMS, pre=TABLES_PRE, defs=DEFS,
    rules=[
        R(r"std::vector<std::uint8_t> visited\(m_grid\.size\(\), std::uint8_t\(0\)\);", "uint8_t visited_[N_B]; for (int z_ = 0; z_ < N_B; ++z_) visited_[z_] = 0;", 1),
        R(r"std::vector<size_type> levels\(m_grid\.size\(\) \+ 1, 0\);", "size_t levels_[N_B + 1]; for (int z_ = 0; z_ <= N_B; ++z_) levels_[z_] = 0;", 1),
        V(r"\bvisited\[([^\[\]]*(?:\([^()]*\))?[^\[\]]*)\]", r"visited_[FSL_IDX1(\1, gsize)]"),
        V(r"\blevels\[([^\[\]]*)\]", r"levels_[FSL_IDX1(\1, gsize + 1)]"),
        V(r"\bsize\(\)", "gsize"),
        V(r"auto (node_idx|donor_idx) =", r"size_t \1 ="),
        R(r"m_bfs_levels = xt::adapt\(levels, \{ level \}\);",
          "for (size_t z_ = 0; z_ < level; ++z_) m_bfs_levels_[z_] = levels_[z_]; *m_bfs_levels_n = level; /* xt adapt(levels, {level}): the first `level` entries */", 1),
    ],
)

HARNESS = r"""
size_t nondet_size_t(void); _Bool nondet_bool(void);
/* ALL receiver DAGs on gsize <= N_B nodes: receiver tables symbolic; acyclic through a ghost rank; donors = inverse of the receivers
 * (one entry per receiver slot, self-donor entries of own-receiver nodes optional, as the routers produce them) */
void h_%(fn)s(void)
{
    size_t gsize = nondet_size_t();
    __CPROVER_assume(1 <= gsize && gsize <= N_B);
    size_t rec[N_B * REC_W], rcnt[N_B], don[N_B * DON_W], dcnt[N_B], dfs[N_B], bfs[N_B], lev[N_B + 1], lev_n = 0, rank[N_B];
    for (int i = 0; i < N_B; ++i) { dcnt[i] = 0; rank[i] = nondet_size_t(); dfs[i] = nondet_size_t(); bfs[i] = nondet_size_t(); }
    double weight_[N_B * REC_W], dist_[N_B * REC_W];   /* arbitrary (uninitialised locals are nondeterministic) */
    ORD_WEIGHT = weight_; ORD_DIST = dist_;
    for (int i = 0; i < N_B; ++i)
    {
        rcnt[i] = nondet_size_t();
        __CPROVER_assume(1 <= rcnt[i] && rcnt[i] <= REC_W);
        for (int k = 0; k < REC_W; ++k)
        {
            rec[i * REC_W + k] = nondet_size_t();
            if ((size_t) i < gsize && (size_t) k < rcnt[i])
            {
                size_t r = rec[i * REC_W + k];
                __CPROVER_assume(r < gsize);
                __CPROVER_assume(r == (size_t) i ? rcnt[i] == 1 : rank[r] < rank[i]);   /* own receiver only as the single receiver; otherwise downhill */
                %(distinct)s
            }
        }
    }
    for (int i = 0; i < N_B; ++i)
        if ((size_t) i < gsize)
            for (int k = 0; k < REC_W; ++k)
                if ((size_t) k < rcnt[i])
                {
                    size_t r = rec[i * REC_W + k];
                    if (r != (size_t) i || (SELF_DONORS && nondet_bool())) { __CPROVER_assume(dcnt[r] < DON_W); don[r * DON_W + dcnt[r]] = i; dcnt[r] = dcnt[r] + 1; }
                }
    %(fn)s(%(args)s);
    %(post)s
    __CPROVER_assert(0, "canary: postcondition point reachable");
}
"""

POST_DFS = r"""
    size_t pos[N_B];
    for (int i = 0; i < N_B; ++i) pos[i] = N_B;
    for (int p = 0; p < N_B; ++p) if ((size_t) p < gsize) { __CPROVER_assert(dfs[p] < gsize, "C06 bottom-up order holds node indices"); if (dfs[p] < gsize) { __CPROVER_assert(pos[dfs[p]] == N_B, "C06 bottom-up order has no duplicate (permutation)"); pos[dfs[p]] = p; } }
    for (int i = 0; i < N_B; ++i) if ((size_t) i < gsize) for (int k = 0; k < REC_W; ++k) if ((size_t) k < rcnt[i] && rec[i * REC_W + k] != (size_t) i)
        __CPROVER_assert(pos[rec[i * REC_W + k]] < pos[i], "C06 every node appears after each of its receivers in the bottom-up order");
"""
POST_BFS = r"""
    size_t level_of[N_B]; int seen[N_B];
    for (int i = 0; i < N_B; ++i) { level_of[i] = N_B; seen[i] = 0; }
    __CPROVER_assert(lev_n >= 2 && lev_n <= gsize + 1 && lev[0] == 0 && lev[lev_n - 1] == gsize, "C06 breadth-first levels partition the whole order");
    for (int l = 0; l < N_B; ++l) if ((size_t) l + 1 < lev_n)
    {
        __CPROVER_assert(lev[l] < lev[l + 1], "C06 breadth-first levels are non-empty");
        for (int q = 0; q < N_B; ++q) if (lev[l] <= (size_t) q && (size_t) q < lev[l + 1] && (size_t) q < gsize)
        {
            __CPROVER_assert(bfs[q] < gsize, "C06 breadth-first order holds node indices");
            if (bfs[q] < gsize) { __CPROVER_assert(!seen[bfs[q]], "C06 breadth-first order has no duplicate (permutation)"); seen[bfs[q]] = 1; level_of[bfs[q]] = l; }
        }
    }
    for (int i = 0; i < N_B; ++i) if ((size_t) i < gsize) for (int k = 0; k < REC_W; ++k) if ((size_t) k < rcnt[i] && rec[i * REC_W + k] != (size_t) i)
        __CPROVER_assert(level_of[rec[i * REC_W + k]] < level_of[i], "C06 every receiver of a node lies in a strictly earlier breadth-first level");
"""


def grp(u, post, rec_w, clause, self_donors=1):
    don_w = N_B  # a node can be the receiver of every other node in these tiny DAGs
    distinct = ""
    if rec_w > 1:
        # receiver slots of one node hold distinct nodes (what the multiple-direction router produces on grids >= 3 wide)
        distinct = "for (int k2 = 0; k2 < k; ++k2) __CPROVER_assume(rec[i * REC_W + k2] != r);"
    h = HARNESS % dict(fn=u.name, args=ARGS, post=post, distinct=distinct)
    loops = N_B + 2   # every loop (of the function and of the harness) runs at most N_B + 1 times on <= N_B nodes
    return Group(
        name="orders.%s.w%d" % (u.name, rec_w), units=[u], harness=h, entry="h_" + u.name,
        defines=["N_B=%d" % N_B, "REC_W=%d" % rec_w, "DON_W=%d" % don_w, "SELF_DONORS=%d" % self_donors], unwind=loops, backend="sat", timeout=1500, min_obligations=10,
        bounded="all receiver DAGs with <= %d nodes and <= %d receivers per node (complete unwinding %d)" % (N_B, rec_w, loops),
        replay="replay/routing.cpp", object_bits=10, clause=clause)


_G = [
    grp(dfs_bottomup, POST_DFS, 1, "compute_dfs_indices_bottomup (single direction): permutation, receivers first; authors' assert kept"),
    # the multiple-direction router never registers a node as its own donor (only strictly lower neighbours get donor entries)
    grp(dfs_topdown, POST_DFS, 2, "compute_dfs_indices_topdown (multiple direction): permutation, receivers first; authors' assert kept", self_donors=0),
    grp(bfs_bottomup, POST_BFS, 1, "compute_bfs_indices_bottomup on single-direction graphs: permutation, non-empty levels, receivers in strictly earlier levels"),
    grp(bfs_bottomup, POST_BFS, 2, "compute_bfs_indices_bottomup on multiple-direction graphs: same clauses"),
]
GROUPS = {"C06": _G}
PROPS = {}
