"""Bit-precise one-operation IEEE-754 lemmas that justify the contracts of the abstracted
floating-point operations (DESIGN 3.4).  They are facts about binary64 arithmetic, not about
/repo; each abstraction contract used by a router group cites one of them."""
from fv.runner import Group

H_SLOPE = r"""
double nondet_double(void);
void h_slope_sign(void)
{
    double ei = nondet_double(), en = nondet_double(), d = nondet_double();
    __CPROVER_assume(!isnan(ei) && !isnan(en) && !isinf(ei) && !isinf(en));   /* finite elevation field */
    __CPROVER_assume(ei > en && d > 0 && d < INFINITY);
    double q = (ei - en) / d;    /* the slope expression of flow_router.hpp, as FSL_SLOPE expands natively */
    __CPROVER_assert(q >= 0, "a strict drop over a positive finite distance gives a non-negative, non-NaN slope");
    __CPROVER_assert(0, "canary: postcondition point reachable");
}
"""
H_UNIT = r"""
double nondet_double(void);
void h_div_unit(void)
{
    double a = nondet_double(), b = nondet_double();
    __CPROVER_assume(a >= 0 && a <= b && b > 0 && b < INFINITY);
    double q = a / b;
    __CPROVER_assert(q >= 0 && q <= 1, "0 <= a <= b finite, b > 0  ==>  0 <= a/b <= 1");
    __CPROVER_assert(0, "canary: postcondition point reachable");
}
"""
_G = [
    Group(name="div.slope_sign", units=[], harness=H_SLOPE, entry="h_slope_sign", timeout=300, min_obligations=1,
          clause="sign fact used by the slope abstraction (one subtraction, one division, bit-precise)"),
    Group(name="div.unit", units=[], harness=H_UNIT, entry="h_div_unit", timeout=300, min_obligations=1,
          clause="range fact used by the weight-normalisation abstraction (one division, bit-precise)"),
]
GROUPS = {"C04": [_G[0]], "C05": _G, "C01": [_G[0]]}
PROPS = {}
