"""Basin graph (flow/basin_graph.hpp), union-find (utils/union_find.hpp) and the re-routing of
pits by the spanning-tree sink resolver (flow/sink_resolver.hpp).  Properties C15, C09 (per-call
resets of the basin-graph scratch state), C01 (re-routed pits drain out of their basin).

Union-find ghost state (models/basin.h): ROOT[] = class representative in the abstract partition,
DEPTH[] = well-founded measure along parent pointers.  UF_INV(i) is the representation invariant
at element i; it is proved for arbitrary ghost elements UG, UG2 and instantiated where the code
reads parent[i]."""
from fv.extract import Unit, R, V, RB
from fv.runner import Group

UF_H = "include/fastscapelib/utils/union_find.hpp"
BG_H = "include/fastscapelib/flow/basin_graph.hpp"
SINK_H = "include/fastscapelib/flow/sink_resolver.hpp"
MODEL_H = "models/basin.h"

# --------------------------------------------------------------------------- union_find<size_t>
# vocabulary of the class: members parent / rank (std::vector), size(), find(), resize()
UF_VOCAB = [
    V(r"\bT\b", "size_t"),
    V(r"\b(parent|rank)\.resize\(([^,()]+),\s*([^,()]+)\)", r"fsl_vsz_resize(uf_\1, &UF_LEN_\1, uf_cap, \2, \3)"),
    V(r"\b(parent|rank)\.resize\(([^,()]+)\)", r"fsl_vsz_resize(uf_\1, &UF_LEN_\1, uf_cap, \2, 0)"),
    V(r"std::iota\((\w+)\.begin\(\),\s*\1\.end\(\),\s*([^,()]+)\)", r"fsl_vsz_iota(uf_\1, UF_LEN_\1, \2)"),
    V(r"\b(parent|rank)\.clear\(\)", r"UF_LEN_\1 = 0"),
    V(r"\b(parent|rank)\.push_back\(([^()]+)\)", r"FSL_VSZ_PUSH(uf_\1, UF_LEN_\1, uf_cap, \2)"),
    V(r"\b(parent|rank)\.size\(\)", r"UF_LEN_\1"),
    V(r"(?<![\w.>])size\(\)", "UF_LEN_parent"),
    V(r"(?<![\w.>])resize\(", "uf_resize(UF_ARGS, "),
    # find(e): the two extra arguments are ghost witnesses (elements at which the caller wants the
    # callee's forall-postcondition "the representation invariant is preserved" instantiated)
    V(r"(?<![\w.>])find\((\w+)\)", r"uf_find(UF_ARGS, \1, x, y)"),
    V(r"\bparent\[(\w+)\]\s*=(?!=)", r"UF_PW(\1) ="),
    V(r"\bparent\[(\w+)\]", r"uf_prd(UF_ARGS, \1)"),
    V(r"\brank\[(\w+)\]", r"UF_RK(\1)"),
]

UF_GHOSTS = "__CPROVER_requires(UG < UF_N && UF_INV(UG))\n"

uf_find = Unit(
    name="uf_find", file=UF_H, anchor=r"\bT find\(T x\)",
    sig="size_t uf_find(UF_PARAMS, size_t x, size_t w1, size_t w2)",
    rules=UF_VOCAB,
    contract=r"""
__CPROVER_requires(UF_SHAPE)
__CPROVER_requires(x < UF_N && w1 < UF_N && w2 < UF_N)
""" + UF_GHOSTS + r"""
/* path compression writes parent only; ROOT / DEPTH (the abstract partition and the measure) are outside the frame */
__CPROVER_assigns(__CPROVER_object_whole(uf_parent))
/* C15.uf: find returns the representative of x's class (and terminates: loop `decreases` on DEPTH) */
__CPROVER_ensures(__CPROVER_return_value == UF_ROOT(x))
__CPROVER_ensures(__CPROVER_return_value < UF_N && UF_P(__CPROVER_return_value) == __CPROVER_return_value)
/* ... and leaves the partition unchanged: the same ROOT still satisfies the representation invariant at every element
 * (ghost elements UG, UG2; caller-chosen witnesses w1, w2) */
__CPROVER_ensures(UF_INV(UG))
/* path compression never re-parents a fixed point (stated at the witnesses) */
__CPROVER_ensures(__CPROVER_old(UF_P(w1)) == w1 ==> UF_P(w1) == w1)
__CPROVER_ensures(__CPROVER_old(UF_P(w2)) == w2 ==> UF_P(w2) == w2)
""",
    loops={
        0: r"""
__CPROVER_assigns(c)
__CPROVER_loop_invariant(c < UF_N && UF_ROOT(c) == UF_ROOT(x))
__CPROVER_decreases(UF_DEPTH(c))
""",
        1: r"""
__CPROVER_assigns(x, __CPROVER_object_whole(uf_parent))
__CPROVER_loop_invariant(x < UF_N && c < UF_N && UF_ROOT(x) == c)
__CPROVER_loop_invariant(UF_P(c) == c && UF_ROOT(c) == c && UF_DEPTH(c) == 0)
__CPROVER_loop_invariant(UF_INV(UG))
__CPROVER_loop_invariant(__CPROVER_loop_entry(UF_P(w1)) == w1 ==> UF_P(w1) == w1)
__CPROVER_loop_invariant(__CPROVER_loop_entry(UF_P(w2)) == w2 ==> UF_P(w2) == w2)
__CPROVER_decreases(UF_DEPTH(x))
""",
    },
)


def _h(fn, call, decls="", pre=""):
    return r"""
size_t nondet_size_t(void); _Bool nondet_bool(void); double nondet_double(void);
void h_%(fn)s(void)
{
    size_t *uf_parent, *uf_rank, *UF_ROOTA, *UF_DEPTHA;
    uf_pn = nondet_size_t(); uf_rn = nondet_size_t(); uf_cap = nondet_size_t();
    UG = nondet_size_t(); UG2 = nondet_size_t();
%(decls)s
%(pre)s
    %(call)s;
    __CPROVER_assert(0, "canary: postcondition point reachable");
}
""" % dict(fn=fn, call=call, decls=decls, pre=pre)


G_UF_FIND = Group(
    name="basin.uf.find", units=[uf_find], extra_c=[MODEL_H],
    harness=_h("uf_find", "size_t r = uf_find(UF_ARGS, nondet_size_t(), nondet_size_t(), nondet_size_t())"),
    entry="h_uf_find", enforce="uf_find", loop_contracts=True, backend="cvc5", timeout=600, min_obligations=30,
    clause="union_find::find terminates (DEPTH decreases), returns the class representative, and path compression leaves the "
           "abstract partition (ROOT) and the representation invariant intact")

GROUPS = {"C15": [G_UF_FIND]}
PROPS = {"C15": dict(level="other", assumptions=[], undecided=[], unmechanised=[], explanation="")}
