"""Basin graph (flow/basin_graph.hpp), union-find (utils/union_find.hpp) and the re-routing of
pits by the spanning-tree sink resolver (flow/sink_resolver.hpp).  Properties C15, C09 (per-call
resets of the basin-graph scratch state), C01 (re-routed pits drain out of their basin).

Union-find ghost state (models/basin.h): ROOT[] = class representative in the abstract partition,
DEPTH[] = well-founded measure along parent pointers.  UF_INV(i) is the representation invariant
at element i; it is proved for an arbitrary ghost element UG and instantiated where the code
reads parent[i]."""
from fv.extract import Unit, R, V, RB
from fv.runner import Group

UF_H = "include/fastscapelib/utils/union_find.hpp"
BG_H = "include/fastscapelib/flow/basin_graph.hpp"
SINK_H = "include/fastscapelib/flow/sink_resolver.hpp"
MODEL_H = "models/basin.h"

# --------------------------------------------------------------------------- union_find<size_t>
# vocabulary of the class: members parent / rank (std::vector), size(), find(), resize()
UF_VOCAB = [
    V(r"\bT\b", "size_t"),
    V(r"\b(parent|rank)\.resize\(([^,()]+),\s*([^,()]+)\)", r"fsl_vsz_resize(uf_\1, &UF_LEN_\1, uf_cap, \2, \3)"),
    V(r"\b(parent|rank)\.resize\(([^,()]+)\)", r"fsl_vsz_resize(uf_\1, &UF_LEN_\1, uf_cap, \2, 0)"),
    V(r"std::iota\((\w+)\.begin\(\),\s*\1\.end\(\),\s*([^,()]+)\)", r"fsl_vsz_iota(uf_\1, UF_LEN_\1, \2)"),
    V(r"\b(parent|rank)\.clear\(\)", r"UF_LEN_\1 = 0"),
    V(r"\b(parent|rank)\.push_back\(([^()]+)\)", r"FSL_VSZ_PUSH(uf_\1, UF_LEN_\1, uf_cap, \2)"),
    V(r"\b(parent|rank)\.size\(\)", r"UF_LEN_\1"),
    V(r"(?<![\w.>])size\(\)", "UF_LEN_parent"),
    V(r"(?<![\w.>])resize\(", "uf_resize(UF_ARGS, "),
    # find(e): the two extra arguments are ghost witnesses (elements at which the caller wants the
    # callee's forall-postcondition "the representation invariant is preserved" instantiated)
    V(r"(?<![\w.>])find\((\w+)\)", r"uf_find(UF_ARGS, \1, x, y)"),
    V(r"\bparent\[(\w+)\]\s*=(?!=)", r"UF_PW(\1) ="),
    V(r"\bparent\[(\w+)\]", r"uf_prd(UF_ARGS, \1)"),
    V(r"\brank\[(\w+)\]", r"UF_RK(\1)"),
]

UF_GHOSTS = "__CPROVER_requires(UG < UF_N && UF_INV(UG))\n"

uf_find = Unit(
    name="uf_find", file=UF_H, anchor=r"\bT find\(T x\)",
    sig="size_t uf_find(UF_PARAMS, size_t x, size_t w1, size_t w2)",
    rules=UF_VOCAB,
    contract=r"""
__CPROVER_requires(UF_SHAPE)
__CPROVER_requires(x < UF_N && w1 < UF_N && w2 < UF_N)
""" + UF_GHOSTS + r"""
/* path compression writes parent only; ROOT / DEPTH (the abstract partition and the measure) are outside the frame */
__CPROVER_assigns(__CPROVER_object_whole(uf_parent))
/* C15.uf: find returns the representative of x's class (and terminates: loop `decreases` on DEPTH) */
__CPROVER_ensures(__CPROVER_return_value == UF_ROOT(x))
__CPROVER_ensures(__CPROVER_return_value < UF_N && UF_P(__CPROVER_return_value) == __CPROVER_return_value)
__CPROVER_ensures(UF_ROOT(__CPROVER_return_value) == __CPROVER_return_value && UF_DEPTH(__CPROVER_return_value) == 0)
/* ... and leaves the partition unchanged: the same ROOT still satisfies the representation invariant at every element
 * (ghost element UG; caller-chosen witnesses w1, w2 for the fixed-point clause) */
__CPROVER_ensures(UF_INV(UG))
/* path compression never re-parents a fixed point (stated at the witnesses) */
__CPROVER_ensures(__CPROVER_old(UF_P(w1)) == w1 ==> UF_P(w1) == w1)
__CPROVER_ensures(__CPROVER_old(UF_P(w2)) == w2 ==> UF_P(w2) == w2)
""",
    loops={
        0: r"""
__CPROVER_assigns(c)
__CPROVER_loop_invariant(c < UF_N && UF_ROOT(c) == UF_ROOT(x))
__CPROVER_decreases(UF_DEPTH(c))
""",
        1: r"""
__CPROVER_assigns(x, __CPROVER_object_whole(uf_parent))
__CPROVER_loop_invariant(x < UF_N && c < UF_N && UF_ROOT(x) == c)
__CPROVER_loop_invariant(UF_P(c) == c && UF_ROOT(c) == c && UF_DEPTH(c) == 0)
__CPROVER_loop_invariant(UF_INV(UG))
__CPROVER_loop_invariant(__CPROVER_loop_entry(UF_P(w1)) == w1 ==> UF_P(w1) == w1)
__CPROVER_loop_invariant(__CPROVER_loop_entry(UF_P(w2)) == w2 ==> UF_P(w2) == w2)
__CPROVER_decreases(UF_DEPTH(x))
""",
    },
)



# ghost update convention for operations that change the abstract partition (merge, resize, push_back):
# the postcondition is "there EXISTS a new ROOT/DEPTH assignment that satisfies the representation invariant and is related
# to the old one as the property says".  The witness is written by ghost code (body_suffix) at the cells the
# postcondition inspects for the arbitrary ghost elements; callers (replace mode) see ROOT/DEPTH in the frame.

# merge = find(x); find(y); link(the two roots).  The linking block `if (x != y) { ... }` is its own unit (uf_link): it is where
# the abstract partition changes, so it carries the ghost update; merge itself only composes the three contracts.
UF_LINK_ENS = {
    # the two roots end in one class whose representative is one of them
    "xy": "__CPROVER_ensures((UF_ROOT(x) == x || UF_ROOT(x) == y) && UF_ROOT(y) == UF_ROOT(x))",
    # an arbitrary element moves to the merged class iff it was in one of the two, keeps its representative otherwise
    "ug": "__CPROVER_ensures(UF_ROOT(UG) == ((__CPROVER_old(UF_ROOT(UG)) == x || __CPROVER_old(UF_ROOT(UG)) == y) ? UF_ROOT(x) : __CPROVER_old(UF_ROOT(UG))))",
    "ug2": "__CPROVER_ensures(UF_ROOT(UG2) == ((__CPROVER_old(UF_ROOT(UG2)) == x || __CPROVER_old(UF_ROOT(UG2)) == y) ? UF_ROOT(x) : __CPROVER_old(UF_ROOT(UG2))))",
    "w1": "__CPROVER_ensures(UF_ROOT(w1) == ((__CPROVER_old(UF_ROOT(w1)) == x || __CPROVER_old(UF_ROOT(w1)) == y) ? UF_ROOT(x) : __CPROVER_old(UF_ROOT(w1))))",
    "w2": "__CPROVER_ensures(UF_ROOT(w2) == ((__CPROVER_old(UF_ROOT(w2)) == x || __CPROVER_old(UF_ROOT(w2)) == y) ? UF_ROOT(x) : __CPROVER_old(UF_ROOT(w2))))",
    # the concrete structure represents this new partition (representation invariant, acyclicity via DEPTH)
    "chain": "__CPROVER_ensures(UF_CHAIN(UG) && UF_DEPTH(UG) <= __CPROVER_old(UF_DEPTH(UG)) + 1)",
    "rep": "__CPROVER_ensures(UF_REP(UG))",
}
# lemma split (as in spec/pool.py): every lemma group enforces a subset of the ensures clauses; the ghost witness is written
# only at the cells that subset inspects.  The union of the lemmas is the full contract used by callers.
UF_LINK_LEMMAS = {"root": ["xy", "ug"], "root2": ["ug2"], "wit": ["w1", "w2"], "chain": ["chain"], "rep": ["rep"]}
UF_LINK_CELLS = {"root": (["x", "y", "UG"], []), "root2": (["x", "UG2"], []), "wit": (["x", "w1", "w2"], []),
                 "chain": (["UG", "uf_parent[UG]"], ["UG", "uf_parent[UG]"]), "rep": (["UG", "GH_NEWROOT(UG)"], [])}


def _link_suffix(root_cells, depth_cells):
    t = ["    /* ghost: witness of the existential.  New representative = whichever of the two roots is still a fixed point; every element\n"
         "     * whose old representative was one of the two gets it; DEPTH of the absorbed class is shifted by one. */\n    {\n"
         "        const size_t gh_rn = (uf_parent[x] == x) ? x : y;\n        const size_t gh_rl = (gh_rn == x) ? y : x;\n"
         "#define GH_NEWROOT(i) ((UF_ROOT(i) == x || UF_ROOT(i) == y) ? gh_rn : UF_ROOT(i))\n"
         "#define GH_NEWDEPTH(i) ((UF_ROOT(i) == gh_rl) ? UF_DEPTH(i) + 1 : UF_DEPTH(i))\n"]
    for k, c in enumerate(root_cells):
        t.append("        const size_t gh_i%d = %s; const size_t gh_r%d = GH_NEWROOT(gh_i%d);\n" % (k, c, k, k))
    for k, c in enumerate(depth_cells):
        t.append("        const size_t gh_j%d = %s; const size_t gh_d%d = GH_NEWDEPTH(gh_j%d);\n" % (k, c, k, k))
    for k in range(len(root_cells)):
        t.append("        UF_ROOT(gh_i%d) = gh_r%d;\n" % (k, k))
    for k in range(len(depth_cells)):
        t.append("        UF_DEPTH(gh_j%d) = gh_d%d;\n" % (k, k))
    t.append("#undef GH_NEWROOT\n#undef GH_NEWDEPTH\n    }\n")
    return "".join(t)


def make_uf_link(lemma=None):
    if lemma is None:
        keys = list(UF_LINK_ENS)
        rc, dc = [], []
        for l in UF_LINK_LEMMAS:
            rc += [c for c in UF_LINK_CELLS[l][0] if c not in rc]
            dc += [c for c in UF_LINK_CELLS[l][1] if c not in dc]
    else:
        keys = UF_LINK_LEMMAS[lemma]
        rc, dc = UF_LINK_CELLS[lemma]
    return Unit(
        name="uf_link", file=UF_H, anchor=r"void merge\(T x, T y\)", inner=r"if \(x != y\)\s*\{",
        sig="void uf_link(UF_PARAMS, size_t x, size_t y, size_t w1, size_t w2)",
        rules=UF_VOCAB, body_suffix=_link_suffix(rc, dc),
        contract=r"""
__CPROVER_requires(UF_SHAPE)
/* two different roots */
__CPROVER_requires(x < UF_N && y < UF_N && x != y && UF_P(x) == x && UF_ROOT(x) == x && UF_DEPTH(x) == 0 && UF_P(y) == y && UF_ROOT(y) == y && UF_DEPTH(y) == 0)
__CPROVER_requires(UG2 < UF_N && w1 < UF_N && w2 < UF_N)
""" + UF_GHOSTS + r"""
/* the measure is a natural number: no wrap-around when the absorbed class is shifted by one */
__CPROVER_requires(UF_DEPTH(UG) < SIZE_MAX)
__CPROVER_assigns(__CPROVER_object_whole(uf_parent), __CPROVER_object_whole(uf_rank),
                  __CPROVER_object_whole(UF_ROOTA), __CPROVER_object_whole(UF_DEPTHA))
""" + "\n".join(UF_LINK_ENS[k] for k in keys) + "\n")


uf_link = make_uf_link()

uf_merge = Unit(
    name="uf_merge", file=UF_H, anchor=r"void merge\(T x, T y\)",
    sig="void uf_merge(UF_PARAMS, size_t x, size_t y)",
    body_prefix="    const size_t gh_x0 = x, gh_y0 = y; /* ghost: the parameters are overwritten by the body */\n",
    rules=[RB(r"if \(x != y\)", "{ uf_link(UF_ARGS, x, y, gh_x0, gh_y0); }")] + UF_VOCAB,
    contract=r"""
__CPROVER_requires(UF_SHAPE)
__CPROVER_requires(x < UF_N && y < UF_N && UG2 < UF_N)
""" + UF_GHOSTS + r"""
__CPROVER_requires(UF_DEPTH(UG) < SIZE_MAX)
__CPROVER_assigns(__CPROVER_object_whole(uf_parent), __CPROVER_object_whole(uf_rank),
                  __CPROVER_object_whole(UF_ROOTA), __CPROVER_object_whole(UF_DEPTHA))
/* C15.uf: merge unites exactly the two classes.  x and y end in one class whose representative is one of the two old ones */
__CPROVER_ensures((UF_ROOT(x) == __CPROVER_old(UF_ROOT(x)) || UF_ROOT(x) == __CPROVER_old(UF_ROOT(y))) && UF_ROOT(y) == UF_ROOT(x))
/* an arbitrary element moves to the merged class iff it was in one of the two, and keeps its representative otherwise */
__CPROVER_ensures(UF_ROOT(UG) == ((__CPROVER_old(UF_ROOT(UG)) == __CPROVER_old(UF_ROOT(x)) || __CPROVER_old(UF_ROOT(UG)) == __CPROVER_old(UF_ROOT(y))) ? UF_ROOT(x) : __CPROVER_old(UF_ROOT(UG))))
__CPROVER_ensures(UF_ROOT(UG2) == ((__CPROVER_old(UF_ROOT(UG2)) == __CPROVER_old(UF_ROOT(x)) || __CPROVER_old(UF_ROOT(UG2)) == __CPROVER_old(UF_ROOT(y))) ? UF_ROOT(x) : __CPROVER_old(UF_ROOT(UG2))))
/* and the concrete structure represents this new partition (representation invariant, acyclicity via DEPTH) */
__CPROVER_ensures(UF_INV(UG) && UF_DEPTH(UG) <= __CPROVER_old(UF_DEPTH(UG)) + 1)
""",
)

uf_resize = Unit(
    name="uf_resize", file=UF_H, anchor=r"void resize\(size_t _size\)",
    sig="void uf_resize(UF_PARAMS, size_t _size)",
    rules=UF_VOCAB,
    body_suffix="    /* ghost: every element is its own class */ if (UG < _size) { UF_ROOT(UG) = UG; UF_DEPTH(UG) = 0; }\n",
    contract=r"""
__CPROVER_requires(UF_SHAPE)
__CPROVER_requires(_size <= uf_cap && UG < uf_cap && UG2 < uf_cap)
__CPROVER_assigns(uf_pn, uf_rn, __CPROVER_object_whole(uf_parent), __CPROVER_object_whole(uf_rank),
                  __CPROVER_object_whole(UF_ROOTA), __CPROVER_object_whole(UF_DEPTHA))
__CPROVER_ensures(uf_pn == _size && uf_rn == _size)
/* C15.uf: after resize(n) the structure holds n singleton classes */
__CPROVER_ensures(UG < _size ==> (UF_P(UG) == UG && UF_ROOT(UG) == UG && UF_INV(UG)))
/* ranks of surviving elements are kept, new ones are 0 (rank never matters for the partition) */
__CPROVER_ensures((UG < _size && UG >= __CPROVER_old(uf_rn)) ==> uf_rank[UG] == 0)
""",
)

uf_clear = Unit(
    name="uf_clear", file=UF_H, anchor=r"void clear\(\)",
    sig="void uf_clear(UF_PARAMS)",
    rules=UF_VOCAB,
    contract=r"""
__CPROVER_requires(UF_SHAPE)
__CPROVER_requires(UG < uf_cap && UG2 < uf_cap)
__CPROVER_assigns(uf_pn, uf_rn, __CPROVER_object_whole(uf_parent), __CPROVER_object_whole(uf_rank),
                  __CPROVER_object_whole(UF_ROOTA), __CPROVER_object_whole(UF_DEPTHA))
__CPROVER_ensures(uf_pn == __CPROVER_old(uf_pn) && uf_rn == uf_pn)
/* C15.uf / C09: clear() forgets every earlier merge: size() singleton classes, all ranks 0 */
__CPROVER_ensures(UG < uf_pn ==> (UF_P(UG) == UG && UF_ROOT(UG) == UG && UF_INV(UG) && uf_rank[UG] == 0))
""",
)

uf_push_back = Unit(
    name="uf_push_back", file=UF_H, anchor=r"void push_back\(T c\)",
    sig="void uf_push_back(UF_PARAMS, size_t c)",
    rules=UF_VOCAB,
    body_prefix="    const size_t gh_n0 = uf_pn; const size_t gh_r = (c < uf_pn) ? UF_ROOT(c) : c; const size_t gh_d = (c < uf_pn) ? UF_DEPTH(c) + 1 : 0;\n",
    body_suffix="    /* ghost: the new element joins the class of c */ UF_ROOT(gh_n0) = gh_r; UF_DEPTH(gh_n0) = gh_d;\n",
    contract=r"""
__CPROVER_requires(UF_SHAPE)
/* the class of the new item is an existing element or the new item itself; room in the (ghost) capacity */
__CPROVER_requires(uf_pn < uf_cap && c <= uf_pn)
__CPROVER_requires(UG <= uf_pn && (UG < uf_pn ==> UF_INV(UG)))
__CPROVER_requires(c < uf_pn ==> (UF_INV(c) && UF_DEPTH(c) < SIZE_MAX))
__CPROVER_assigns(uf_pn, uf_rn, __CPROVER_object_whole(uf_parent), __CPROVER_object_whole(uf_rank),
                  __CPROVER_object_whole(UF_ROOTA), __CPROVER_object_whole(UF_DEPTHA))
__CPROVER_ensures(uf_pn == __CPROVER_old(uf_pn) + 1 && uf_rn == uf_pn)
__CPROVER_ensures(UF_ROOT(uf_pn - 1) == (c < uf_pn - 1 ? __CPROVER_old(UF_ROOT(c)) : c))
__CPROVER_ensures(UG < uf_pn - 1 ==> UF_ROOT(UG) == __CPROVER_old(UF_ROOT(UG)))
__CPROVER_ensures(UF_INV(UG))
""",
)


def _h(fn, call, pre=""):
    return r"""
size_t nondet_size_t(void); _Bool nondet_bool(void); double nondet_double(void);
void h_%(fn)s(void)
{
    size_t *uf_parent, *uf_rank, *UF_ROOTA, *UF_DEPTHA;
    /* scratch pre-state of the object is arbitrary (C09: nothing is assumed about earlier calls) */
    uf_pn = nondet_size_t(); uf_rn = nondet_size_t(); uf_cap = nondet_size_t();
    UG = nondet_size_t(); UG2 = nondet_size_t();
%(pre)s
    %(call)s;
    __CPROVER_assert(0, "canary: postcondition point reachable");
}
""" % dict(fn=fn, call=call, pre=pre)


UF_MODEL_ASSUMPTIONS = [
    "std::vector<size_t> modelled as (buffer, length, ghost capacity); resize(n[, v]) keeps the first min(old, n) elements and "
    "sets new ones to v (0 by default); std::iota writes v0 + i; reallocation is not modelled (growth <= ghost capacity is a "
    "stated precondition) -- contracts fsl_vsz_resize / fsl_vsz_iota in models/basin.h are trusted",
]

G_UF_FIND = Group(
    name="basin.uf.find", units=[uf_find], extra_c=[MODEL_H],
    harness=_h("uf_find", "size_t r = uf_find(UF_ARGS, nondet_size_t(), nondet_size_t(), nondet_size_t())"),
    entry="h_uf_find", enforce="uf_find", loop_contracts=True, backend="cvc5", timeout=900, min_obligations=30,
    clause="union_find::find terminates (DEPTH decreases), returns the class representative, and path compression leaves the "
           "abstract partition (ROOT) and the representation invariant intact")
G_UF_MERGE = Group(
    name="basin.uf.merge", units=[uf_find, uf_link, uf_merge], extra_c=[MODEL_H],
    harness=_h("uf_merge", "uf_merge(UF_ARGS, nondet_size_t(), nondet_size_t())"),
    entry="h_uf_merge", enforce="uf_merge", replace=["uf_find", "uf_link"], backend="cvc5", timeout=1800, min_obligations=30,
    clause="union_find::merge unites exactly the classes of x and y: an arbitrary element gets the merged representative iff its "
           "old representative was one of the two, keeps it otherwise; the structure stays a forest representing that partition "
           "(composition of the contracts of find, find and the linking block)")
G_UF_LINK = [
    Group(name="basin.uf.link.%s" % l, units=[make_uf_link(l)], extra_c=[MODEL_H],
          harness=_h("uf_link", "uf_link(UF_ARGS, nondet_size_t(), nondet_size_t(), nondet_size_t(), nondet_size_t())"),
          entry="h_uf_link", enforce="uf_link", backend="cvc5", timeout=1800, min_obligations=30,
          clause="union_find::merge, the linking block `if (x != y) {...}` on two different roots, lemma `%s` of its contract (%s): one root "
                 "becomes the parent of the other whatever the ranks say; a consistent new ROOT/DEPTH assignment exists" % (l, ", ".join(UF_LINK_LEMMAS[l])))
    for l in UF_LINK_LEMMAS]
G_UF_RESIZE = Group(
    name="basin.uf.resize", units=[uf_resize], extra_c=[MODEL_H],
    harness=_h("uf_resize", "uf_resize(UF_ARGS, nondet_size_t())"),
    entry="h_uf_resize", enforce="uf_resize", replace=["fsl_vsz_resize", "fsl_vsz_iota"], backend="cvc5", timeout=300, min_obligations=10,
    clause="union_find::resize(n) yields n singleton classes (parent[g] == g for every g < n), whatever the previous contents")
G_UF_CLEAR = Group(
    name="basin.uf.clear", units=[uf_resize, uf_clear], extra_c=[MODEL_H],
    harness=_h("uf_clear", "uf_clear(UF_ARGS)"),
    entry="h_uf_clear", enforce="uf_clear", replace=["uf_resize"], backend="cvc5", timeout=300, min_obligations=5,
    clause="union_find::clear() keeps size() and yields singleton classes with rank 0, whatever the previous contents")
G_UF_PUSH = Group(
    name="basin.uf.push_back", units=[uf_push_back], extra_c=[MODEL_H],
    harness=_h("uf_push_back", "uf_push_back(UF_ARGS, nondet_size_t())"),
    entry="h_uf_push_back", enforce="uf_push_back", backend="cvc5", timeout=300, min_obligations=10,
    clause="union_find::push_back(c) appends one element to the class of c (or as a new singleton when c is the new index)")


# --------------------------------------------------------------------------- basin_graph::compute_tree_kruskal
# vocabulary of the basin_graph object as seen by compute_tree_kruskal (members -> buffers + global lengths)
KR_VOCAB = [
    V(r"basins_count\(\)", "nbasins"),
    V(r"m_edges\.size\(\)", "m_edges_n"),
    V(r"m_tree\.size\(\)", "m_tree_n"),
    V(r"m_edges_indices\.size\(\)", "m_edges_indices_n"),
    V(r"m_tree\.reserve\(([^;]*)\);", r"FSL_RESERVE(\1);"),
    V(r"m_tree\.clear\(\)", "m_tree_n = 0"),
    V(r"m_tree\.push_back\(([^()]+)\)", r"FSL_VSZ_PUSH(m_tree, m_tree_n, m_tree_cap, \1)"),
    V(r"m_edges_indices\.resize\(([^()]+)\)", r"fsl_vsz_resize_k(m_edges_indices, &m_edges_indices_n, m_edges_indices_cap, \1, 0)"),
    V(r"std::iota\(m_edges_indices\.begin\(\),\s*m_edges_indices\.end\(\),\s*([^,()]+)\)", r"fsl_vsz_iota_k(m_edges_indices, m_edges_indices_n, \1)"),
    V(r"m_basins_uf\.find\(([^()]+)\)", r"uf_find(UF_ARGS, \1, \1, \1)"),
    V(r"m_basins_uf\.merge\(", "uf_merge(UF_ARGS, "),
    V(r"m_basins_uf\.resize\(", "uf_resize(UF_ARGS, "),
    V(r"m_basins_uf\.clear\(\)", "uf_clear(UF_ARGS)"),
    V(r"\bm_edges\[(\w+)\]", r"m_edges[FSL_IDX1(\1, m_edges_n)]"),
]
KR_PARAMS = "size_t nbasins, struct fsl_edge *m_edges, size_t *m_edges_indices, size_t *m_tree, UF_PARAMS"
KR_ARGS = "nbasins, m_edges, m_edges_indices, m_tree, UF_ARGS"
KR_SHAPE = r"""
__CPROVER_requires(UF_SHAPE)
__CPROVER_requires(1 <= nbasins && nbasins <= uf_cap)
__CPROVER_requires(m_edges_n <= FSL_BASIN_NMAX && 1 <= m_edges_cap && m_edges_n <= m_edges_cap && m_edges_cap <= FSL_BASIN_NMAX)
__CPROVER_requires(__CPROVER_is_fresh(m_edges, m_edges_cap * FSL_EDGE_BYTES))
/* ghost capacities of the scratch vectors: large enough for this call (reallocation is not modelled) */
__CPROVER_requires(m_edges_n <= m_edges_indices_cap && m_edges_indices_cap <= FSL_BASIN_NMAX && 1 <= m_edges_indices_cap)
__CPROVER_requires(m_edges_n <= m_tree_cap && m_tree_cap <= FSL_BASIN_NMAX && 1 <= m_tree_cap)
__CPROVER_requires(__CPROVER_is_fresh(m_edges_indices, m_edges_indices_cap * sizeof(size_t)) && __CPROVER_is_fresh(m_tree, m_tree_cap * sizeof(size_t)))
"""
KR_PRE = "size_t GT; /* ghost slot of m_tree */\n#define L0(e) (m_edges[(e)].link[0])\n#define L1(e) (m_edges[(e)].link[1])\n"

# the comparator lambda of std::sort
kruskal_cmp = Unit(
    name="kruskal_cmp", file=BG_H, anchor=r"void basin_graph<FG>::compute_tree_kruskal\(\)",
    inner=r"\[&m_edges = m_edges\]\(const size_type& i0, const size_type& i1\)\s*\{",
    sig="_Bool kruskal_cmp(const struct fsl_edge *m_edges, size_t i0, size_t i1)",
    rules=[V(r"\bm_edges\[(\w+)\]", r"m_edges[FSL_IDX1(\1, m_edges_n)]")],
)

H_CMP = r"""
size_t nondet_size_t(void);
void h_kruskal_cmp(void)
{
    /* three arbitrary edges of an arbitrary edge table; weights are not NaN (pass elevations of finite terrain) */
    struct fsl_edge tab[3]; m_edges_n = 3;
    size_t a = nondet_size_t(), b = nondet_size_t(), c = nondet_size_t();
    __CPROVER_assume(a < 3 && b < 3 && c < 3);
    __CPROVER_assume(!isnan(tab[0].pass_elevation) && !isnan(tab[1].pass_elevation) && !isnan(tab[2].pass_elevation));
    _Bool ab = kruskal_cmp(tab, a, b), ba = kruskal_cmp(tab, b, a), bc = kruskal_cmp(tab, b, c), cb = kruskal_cmp(tab, c, b),
          ac = kruskal_cmp(tab, a, c), ca = kruskal_cmp(tab, c, a), aa = kruskal_cmp(tab, a, a);
    __CPROVER_assert(!aa, "comparator irreflexive");
    __CPROVER_assert(!(ab && ba), "comparator asymmetric");
    __CPROVER_assert(!(ab && bc) || ac, "comparator transitive");
    __CPROVER_assert(!(!ab && !ba && !bc && !cb) || (!ac && !ca), "incomparability transitive (strict weak order)");
    /* C15: the scan order is the order of pass elevations */
    __CPROVER_assert(ab == (tab[a].pass_elevation < tab[b].pass_elevation), "comparator orders edges by pass elevation");
    __CPROVER_assert(0, "canary: postcondition point reachable");
}
"""
G_KR_CMP = Group(
    name="basin.kruskal.cmp", units=[kruskal_cmp], extra_c=[MODEL_H], harness=H_CMP, entry="h_kruskal_cmp",
    backend="sat", timeout=120, min_obligations=5,
    clause="the comparator given to std::sort in compute_tree_kruskal is a strict weak order on non-NaN weights and orders edge "
           "indices by pass_elevation (loop-free, bit-precise)")

kruskal_step = Unit(
    name="kruskal_step", file=BG_H, anchor=r"void basin_graph<FG>::compute_tree_kruskal\(\)",
    inner=r"for \(size_type edge_idx : m_edges_indices\)\s*\{",
    sig="void kruskal_step(%s, size_t edge_idx)" % KR_PARAMS,
    # `size_type* link = m_edges[edge_idx].link;` is an alias declaration: deleted, uses of the alias are replaced by the aliased member
    # (m_edges is outside the write frame of the function, so the alias is stable)
    pre=KR_PRE,
    rules=[V(r"size_type\s*\*\s*link = m_edges\[edge_idx\]\.link;", "/* alias `link` replaced by the aliased member */"),
           V(r"(?<![.\w])link\[", "m_edges[edge_idx].link[")] + KR_VOCAB,
    contract=KR_SHAPE + r"""
__CPROVER_requires(uf_pn == nbasins && edge_idx < m_edges_n && EDGE_WF(edge_idx, nbasins))
__CPROVER_requires(m_tree_n < m_tree_cap && GT < m_tree_cap)
__CPROVER_requires(UG < UF_N && UG2 < UF_N && UF_INV(UG) && UF_DEPTH(UG) < SIZE_MAX)
__CPROVER_assigns(m_tree_n, __CPROVER_object_whole(m_tree), __CPROVER_object_whole(uf_parent), __CPROVER_object_whole(uf_rank),
                  __CPROVER_object_whole(UF_ROOTA), __CPROVER_object_whole(UF_DEPTHA))
/* C15.kruskal.greedy: the edge enters the tree iff its endpoints are in different classes at that moment ... */
__CPROVER_ensures(m_tree_n == __CPROVER_old(m_tree_n) + ((__CPROVER_old(UF_ROOT(L0(edge_idx))) != __CPROVER_old(UF_ROOT(L1(edge_idx)))) ? 1 : 0))
__CPROVER_ensures(m_tree_n > __CPROVER_old(m_tree_n) ==> m_tree[__CPROVER_old(m_tree_n)] == edge_idx)
__CPROVER_ensures(GT < __CPROVER_old(m_tree_n) ==> m_tree[GT] == __CPROVER_old(m_tree[GT]))
/* ... which are then merged (exactly these two classes: an arbitrary element changes class iff it was in one of them) */
__CPROVER_ensures(UF_ROOT(L0(edge_idx)) == UF_ROOT(L1(edge_idx)))
__CPROVER_ensures(UF_ROOT(UG) == ((__CPROVER_old(UF_ROOT(UG)) == __CPROVER_old(UF_ROOT(L0(edge_idx))) || __CPROVER_old(UF_ROOT(UG)) == __CPROVER_old(UF_ROOT(L1(edge_idx)))) ? UF_ROOT(L0(edge_idx)) : __CPROVER_old(UF_ROOT(UG))))
__CPROVER_ensures(UF_ROOT(UG2) == ((__CPROVER_old(UF_ROOT(UG2)) == __CPROVER_old(UF_ROOT(L0(edge_idx))) || __CPROVER_old(UF_ROOT(UG2)) == __CPROVER_old(UF_ROOT(L1(edge_idx)))) ? UF_ROOT(L0(edge_idx)) : __CPROVER_old(UF_ROOT(UG2))))
__CPROVER_ensures(UF_INV(UG) && UF_DEPTH(UG) <= __CPROVER_old(UF_DEPTH(UG)) + 1 && uf_pn == nbasins)
""",
)

KR_INV_BASE = "m_edges_indices_n == m_edges_n && uf_pn == nbasins && uf_rn == nbasins && UF_INV(UG) && UF_DEPTH(UG) <= k"
KR_LEMMAS = {
    # |tree| <= number of edges scanned, every entry is an edge index
    "tree": dict(inv="m_tree_n <= k && (GT < m_tree_n ==> m_tree[GT] < m_edges_n)",
                 ens=["m_tree_n <= m_edges_n", "GT < m_tree_n ==> m_tree[GT] < m_edges_n"]),
    # every edge of the graph has been scanned and its endpoints are in one class of the final partition
    "classes": dict(inv="((KGE < m_edges_n && KPOS < k) ==> UF_ROOT(UG) == UF_ROOT(UG2))",
                    ens=["KGE < m_edges_n ==> UF_ROOT(L0(KGE)) == UF_ROOT(L1(KGE))", "UF_INV(UG) && uf_pn == nbasins"]),
}


def make_kruskal(lemma=None):
    ls = list(KR_LEMMAS) if lemma is None else [lemma]
    inv = "(" + " && ".join([KR_INV_BASE] + [KR_LEMMAS[l]["inv"] for l in ls]) + ")"
    ens = "".join("__CPROVER_ensures(%s)\n" % e for l in ls for e in KR_LEMMAS[l]["ens"])
    return Unit(
        name="kruskal", file=BG_H, anchor=r"void basin_graph<FG>::compute_tree_kruskal\(\)",
        sig="void kruskal(%s)" % KR_PARAMS,
        rules=[
            # std::sort with the comparator lambda -> the trusted sort model (the lambda itself is unit kruskal_cmp)
            R(r"std::sort\(m_edges_indices\.begin\(\),\s*m_edges_indices\.end\(\),\s*\[&m_edges = m_edges\][^{]*\{[^}]*\}\)",
              "fsl_sort_edges(m_edges_indices, m_edges_indices_n, m_edges, m_edges_n)", 1),
            R(r"for \(size_type edge_idx : m_edges_indices\)", "for (size_t k = 0; k < m_edges_indices_n; ++k)", 1),
            # loop body outlined as unit kruskal_step; the element read instantiates (a) the sort model's forall-postcondition
            # "every entry is an edge index" and (b) the input well-formedness of that edge
            RB(r"for \(size_t k = 0; k < m_edges_indices_n; \+\+k\)",
               "{ size_t e_ = m_edges_indices[FSL_IDX1(k, m_edges_indices_n)]; FSL_PRE(e_ < m_edges_n && EDGE_WF(e_, nbasins)); "
               "kruskal_step(%s, e_); }" % KR_ARGS),
        ] + KR_VOCAB,
        contract=KR_SHAPE + r"""
/* ghosts: an arbitrary tree slot GT, two positions SP1 < SP2 of the sorted sequence, an arbitrary edge KGE whose endpoints
 * are the ghost union-find elements UG, UG2 */
__CPROVER_requires(GT < m_tree_cap && SP1 < m_edges_indices_cap && SP2 < m_edges_indices_cap)
__CPROVER_requires(UG < nbasins && UG2 < nbasins && (KGE < m_edges_n ==> (UG == L0(KGE) && UG2 == L1(KGE))))
/* NOTHING is required of the scratch members m_tree, m_edges_indices, m_basins_uf (C09: per-call reset) */
__CPROVER_assigns(m_tree_n, m_edges_indices_n, uf_pn, uf_rn, KPOS, __CPROVER_object_whole(m_tree), __CPROVER_object_whole(m_edges_indices),
                  __CPROVER_object_whole(uf_parent), __CPROVER_object_whole(uf_rank), __CPROVER_object_whole(UF_ROOTA), __CPROVER_object_whole(UF_DEPTHA))
""" + ens,
        loops={0: r"""
__CPROVER_assigns(k, m_tree_n, __CPROVER_object_whole(m_tree), __CPROVER_object_whole(uf_parent), __CPROVER_object_whole(uf_rank),
                  __CPROVER_object_whole(UF_ROOTA), __CPROVER_object_whole(UF_DEPTHA))
__CPROVER_loop_invariant(k <= m_edges_indices_n)
__CPROVER_loop_invariant(%s)
__CPROVER_decreases(m_edges_indices_n - k)
""" % inv})


kruskal = make_kruskal()


# ---- tree slice: per-call reset and growth of m_tree alone, with the loop body abstracted by its effect on m_tree ----
KR_BODY_DECL = r"""
/* one iteration of Kruskal's loop, by its effect on m_tree only (clauses 1-3 of kruskal_step's contract, enforced in basin.kruskal.step
 * under the union-find invariant that the prologue establishes): at most one entry is appended, it is the scanned edge, earlier
 * entries are untouched; the union-find buffers are in the frame */
void kruskal_body(%s, size_t edge_idx)
__CPROVER_requires(edge_idx < m_edges_n && m_tree_n < m_tree_cap && GT < m_tree_cap)
__CPROVER_assigns(m_tree_n, __CPROVER_object_whole(m_tree), __CPROVER_object_whole(uf_parent), __CPROVER_object_whole(uf_rank),
                  __CPROVER_object_whole(UF_ROOTA), __CPROVER_object_whole(UF_DEPTHA))
__CPROVER_ensures(m_tree_n == __CPROVER_old(m_tree_n) || m_tree_n == __CPROVER_old(m_tree_n) + 1)
__CPROVER_ensures(m_tree_n > __CPROVER_old(m_tree_n) ==> m_tree[__CPROVER_old(m_tree_n)] == edge_idx)
__CPROVER_ensures(GT < __CPROVER_old(m_tree_n) ==> m_tree[GT] == __CPROVER_old(m_tree[GT]))
;
""" % KR_PARAMS

kruskal_tree = Unit(
    name="kruskal_tree", file=BG_H, anchor=r"void basin_graph<FG>::compute_tree_kruskal\(\)",
    sig="void kruskal_tree(%s)" % KR_PARAMS, pre=KR_PRE + KR_BODY_DECL,
    rules=[r for r in kruskal.rules if not isinstance(r, RB)][:2] +
          [RB(r"for \(size_t k = 0; k < m_edges_indices_n; \+\+k\)",
              "{ size_t e_ = m_edges_indices[FSL_IDX1(k, m_edges_indices_n)]; FSL_PRE(e_ < m_edges_n); kruskal_body(%s, e_); }" % KR_ARGS)] + KR_VOCAB,
    contract=KR_SHAPE + r"""
__CPROVER_requires(GT < m_tree_cap && SP1 < m_edges_indices_cap && SP2 < m_edges_indices_cap && UG < uf_cap && UG2 < uf_cap)
/* NOTHING is required of the scratch members m_tree, m_edges_indices, m_basins_uf (C09: per-call reset) */
__CPROVER_assigns(m_tree_n, m_edges_indices_n, uf_pn, uf_rn, KPOS, __CPROVER_object_whole(m_tree), __CPROVER_object_whole(m_edges_indices),
                  __CPROVER_object_whole(uf_parent), __CPROVER_object_whole(uf_rank), __CPROVER_object_whole(UF_ROOTA), __CPROVER_object_whole(UF_DEPTHA))
/* the tree built by THIS call has at most as many entries as edges were scanned, every entry is an edge index */
__CPROVER_ensures(m_tree_n <= m_edges_n)
__CPROVER_ensures(GT < m_tree_n ==> m_tree[GT] < m_edges_n)
""",
    loops={0: r"""
__CPROVER_assigns(k, m_tree_n, __CPROVER_object_whole(m_tree), __CPROVER_object_whole(uf_parent), __CPROVER_object_whole(uf_rank),
                  __CPROVER_object_whole(UF_ROOTA), __CPROVER_object_whole(UF_DEPTHA))
__CPROVER_loop_invariant(k <= m_edges_indices_n && m_edges_indices_n == m_edges_n && m_tree_n <= k)
__CPROVER_loop_invariant(GT < m_tree_n ==> m_tree[GT] < m_edges_n)
__CPROVER_decreases(m_edges_indices_n - k)
"""})


def _hk(fn, call):
    return r"""
size_t nondet_size_t(void); _Bool nondet_bool(void); double nondet_double(void);
void h_%(fn)s(void)
{
    size_t *uf_parent, *uf_rank, *UF_ROOTA, *UF_DEPTHA, *m_edges_indices, *m_tree; struct fsl_edge *m_edges;
    /* scratch pre-state is arbitrary (C09) */
    uf_pn = nondet_size_t(); uf_rn = nondet_size_t(); uf_cap = nondet_size_t();
    m_edges_n = nondet_size_t(); m_edges_cap = nondet_size_t(); m_tree_n = nondet_size_t(); m_tree_cap = nondet_size_t();
    m_edges_indices_n = nondet_size_t(); m_edges_indices_cap = nondet_size_t();
    UG = nondet_size_t(); UG2 = nondet_size_t(); GT = nondet_size_t(); SP1 = nondet_size_t(); SP2 = nondet_size_t();
    KGE = nondet_size_t(); KPOS = nondet_size_t();
    size_t nbasins = nondet_size_t();
    %(call)s;
    __CPROVER_assert(0, "canary: postcondition point reachable");
}
""" % dict(fn=fn, call=call)


G_KR_STEP = Group(
    name="basin.kruskal.step", units=[uf_find, uf_merge, kruskal_step], extra_c=[MODEL_H],
    harness=_hk("kruskal_step", "kruskal_step(%s, nondet_size_t())" % KR_ARGS),
    entry="h_kruskal_step", enforce="kruskal_step", replace=["uf_find", "uf_merge"], backend="cvc5", timeout=900, min_obligations=30,
    clause="one iteration of Kruskal's loop: the scanned edge enters m_tree iff its endpoints are in different union-find classes at "
           "that moment; exactly those two classes are then merged; earlier tree entries are untouched")
G_KR_TREE = Group(
    name="basin.kruskal.tree", units=[uf_resize, uf_clear, kruskal_tree], extra_c=[MODEL_H],
    harness=_hk("kruskal_tree", "kruskal_tree(%s)" % KR_ARGS), entry="h_kruskal_tree", enforce="kruskal_tree",
    replace=["uf_resize", "uf_clear", "kruskal_body", "fsl_vsz_resize_k", "fsl_vsz_iota_k", "fsl_sort_edges"],
    # --pointer-overflow-check is off for the kruskal loop groups: measured 296 s without / > 1200 s with it; the index obligations
    # (xtensor/vector index in range, --bounds-check, --pointer-check) stay on and every size is <= 2^40, so no pointer sum can wrap
    loop_contracts=True, backend="cvc5", timeout=1200, min_obligations=30, no_checks=["--pointer-overflow-check"],
    clause="compute_tree_kruskal, tree slice, on ARBITRARY pre-state of m_tree / m_edges_indices / union-find (per-call reset, C09): the tree "
           "returned has at most as many entries as edges were scanned and every entry is an edge index (loop body abstracted by its effect on m_tree)")
G_KR_LOOP = [
    Group(name="basin.kruskal.loop.%s" % l, units=[uf_resize, uf_clear, kruskal_step, make_kruskal(l)], extra_c=[MODEL_H],
          harness=_hk("kruskal", "kruskal(%s)" % KR_ARGS), entry="h_kruskal", enforce="kruskal",
          replace=["uf_resize", "uf_clear", "kruskal_step", "fsl_vsz_resize_k", "fsl_vsz_iota_k", "fsl_sort_edges"],
          loop_contracts=True, backend="cvc5", timeout=3600, min_obligations=30, tier="thorough", no_checks=["--pointer-overflow-check"],
          clause="compute_tree_kruskal on ARBITRARY scratch pre-state (m_tree, m_edges_indices, union-find havocked: per-call reset, C09), lemma `%s`: %s"
                 % (l, {"tree": "|tree| <= number of edges scanned and every entry is an edge index",
                        "classes": "the union-find is re-initialised to singletons and, after the scan, the endpoints of every edge are in one class"}[l]))
    for l in KR_LEMMAS]

# --------------------------------------------------------------------------- mst_sink_resolver: re-routing of pits (C01)
def _sink_constants():
    """static constexpr std::uint8_t outflow / inflow of the operator implementation, read from the class on every run"""
    import os, re
    from fv import extract as ex
    src = ex.strip_comments(open(os.path.join(ex.REPO, SINK_H)).read())
    out = {}
    for m in re.finditer(r"static constexpr std::uint8_t (outflow|inflow)\s*=\s*(\d+);", src):
        out[m.group(1)] = int(m.group(2))
    if set(out) != {"outflow", "inflow"}:
        raise ex.ExtractionError("sink resolver: outflow/inflow constants not found")
    return out


def _sink_defs():
    c = _sink_constants()
    return ("#define outflow %d\n#define inflow %d\n" % (c["outflow"], c["inflow"]) +
            "#define receivers(i, j) m_receivers[FSL_IDX2(i, j, gsize, 1)]\n"
            "#define dist2receivers(i, j) m_receivers_distance[FSL_IDX2(i, j, gsize, 1)]\n")


SB_PARAMS = ("size_t gsize, size_t nbasins, size_t *m_receivers, double *m_receivers_distance, const size_t *basins, const size_t *pits, "
             "const struct fsl_edge *m_edges, const size_t *m_tree, const double *elevation")
SB_ARGS = "gsize, nbasins, m_receivers, m_receivers_distance, basins, pits, m_edges, m_tree, elevation"
SB_VOCAB = [
    V(r"basin_graph\.edges\(\)\[(\w+)\]", r"m_edges[FSL_IDX1(\1, m_edges_n)]"),
    V(r"\bpits\[((?:[^\[\]]|\[[^\[\]]*\])+)\]", r"pits[FSL_IDX1(\1, nbasins)]"),
    V(r"\bcontinue;", "return; /* `continue` of the outlined loop body */"),
    # pits = basin_graph.outlets(): one entry per basin
    V(r"\bpits\.size\(\)", "nbasins"),
    V(r"basin_graph\.basins_count\(\)", "nbasins"),
]
SB_PRE = r"""
size_t SG, SG2;   /* ghost nodes */
size_t SGT, SE;   /* ghost slot of the tree and the edge index stored there */
#define REC(x) m_receivers[(x)]
#define DIST(x) m_receivers_distance[(x)]
#define SAME_D(x, y) ((x) == (y) || (isnan(x) && isnan(y)))
#define E_OUT(e) (m_edges[(e)].pass[SB_OUTFLOW])
#define E_IN(e) (m_edges[(e)].pass[SB_INFLOW])
#define E_BIN(e) (m_edges[(e)].link[SB_INFLOW])
#define E_BOUT(e) (m_edges[(e)].link[SB_OUTFLOW])
#define E_PIT(e) (pits[E_BIN(e)])
/* input well-formedness of an oriented tree edge with a pass (producers: connect_basins, orient_edges, compute_basins):
 * two different basins, the pass nodes are grid nodes lying in the basin of their side, the pit is the outlet of the inflow basin */
#define E_WF(e) (E_BIN(e) < nbasins && E_BOUT(e) < nbasins && E_BIN(e) != E_BOUT(e) && E_IN(e) < gsize && E_OUT(e) < gsize \
    && basins[E_IN(e)] == E_BIN(e) && basins[E_OUT(e)] == E_BOUT(e) && E_PIT(e) < gsize && basins[E_PIT(e)] == E_BIN(e))
/* C01 for the pit of tree edge e, from the property statement: the re-routed pit is not its own receiver, and following
 * receivers from it leaves its basin after one or two steps (pit -> [pass node on its side ->] pass node across) */
#define DRAINS_OUT(e) (REC(E_PIT(e)) != E_PIT(e) && REC(E_PIT(e)) < gsize \
    && (basins[REC(E_PIT(e))] != E_BIN(e) || (REC(REC(E_PIT(e))) < gsize && basins[REC(REC(E_PIT(e)))] != E_BIN(e))))
"""
SB_SHAPE = r"""
__CPROVER_requires(0 < gsize && gsize <= FSL_BASIN_NMAX && 0 < nbasins && nbasins <= gsize)
__CPROVER_requires(0 < m_edges_n && m_edges_n <= FSL_BASIN_NMAX && m_tree_n <= FSL_BASIN_NMAX && 0 < m_tree_cap && m_tree_n <= m_tree_cap && m_tree_cap <= FSL_BASIN_NMAX)
__CPROVER_requires(__CPROVER_is_fresh(m_receivers, gsize * sizeof(size_t)) && __CPROVER_is_fresh(m_receivers_distance, gsize * sizeof(double)))
__CPROVER_requires(__CPROVER_is_fresh(basins, gsize * sizeof(size_t)) && __CPROVER_is_fresh(pits, nbasins * sizeof(size_t)) && __CPROVER_is_fresh(elevation, gsize * sizeof(double)))
__CPROVER_requires(__CPROVER_is_fresh(m_edges, m_edges_n * FSL_EDGE_BYTES) && __CPROVER_is_fresh(m_tree, m_tree_cap * sizeof(size_t)))
"""


def make_sb_step(name, anchor, extra_rules=(), loops=None):
    c = _sink_constants()
    return Unit(
        name=name, file=SINK_H, anchor=anchor,
        inner=r"for \(size_type edge_idx : basin_graph\.tree\(\)\)\s*\{",
        sig="void %s(%s, size_t edge_idx)" % (name, SB_PARAMS),
        pre=SB_PRE.replace("SB_OUTFLOW", str(c["outflow"])).replace("SB_INFLOW", str(c["inflow"])), defs=_sink_defs(),
        rules=[R(r"auto& edge = (basin_graph\.edges\(\)\[edge_idx\]);", r"const struct fsl_edge edge = \1;", 1)] + list(extra_rules) + SB_VOCAB,
        loops=loops or {},
        contract=SB_SHAPE + r"""
__CPROVER_requires(edge_idx < m_edges_n && SG < gsize && SG2 < gsize)
/* the edge is either an outer-basin link without a pass (skipped) or a well-formed oriented pass */
__CPROVER_requires(E_OUT(edge_idx) == SIZE_MAX || E_WF(edge_idx))
__CPROVER_assigns(__CPROVER_object_whole(m_receivers), __CPROVER_object_whole(m_receivers_distance))
__CPROVER_ensures(E_OUT(edge_idx) != SIZE_MAX ==> DRAINS_OUT(edge_idx))
/* C02 (filled level = spill level), structural premise: the depression is later filled along the new receivers up to the level of the node the pit is
 * routed to; the pit may be linked STRAIGHT to the outflow pass node only when the inflow pass node is not higher than it -- otherwise the path must go
 * through the higher, inflow-side pass node (or the fill stops below the pass elevation max(e_in, e_out)): seeded change C02_4 */
__CPROVER_ensures((E_OUT(edge_idx) != SIZE_MAX && REC(E_PIT(edge_idx)) == E_OUT(edge_idx) && E_PIT(edge_idx) != E_IN(edge_idx))
                  ==> !(elevation[E_IN(edge_idx)] > elevation[E_OUT(edge_idx)]))
/* frame: only nodes of the inflow basin are re-routed */
__CPROVER_ensures((E_OUT(edge_idx) == SIZE_MAX || basins[SG] != E_BIN(edge_idx)) ==> (REC(SG) == __CPROVER_old(REC(SG)) && SAME_D(DIST(SG), __CPROVER_old(DIST(SG)))))
__CPROVER_ensures((E_OUT(edge_idx) == SIZE_MAX || basins[SG2] != E_BIN(edge_idx)) ==> (REC(SG2) == __CPROVER_old(REC(SG2)) && SAME_D(DIST(SG2), __CPROVER_old(DIST(SG2)))))
""")


def make_sb_outer(name, anchor, step):
    # DR: DRAINS_OUT for the ghost edge SE with its pit SG; SG2 stands for "the receiver of the pit" (the clause is proved for every
    # SG2, in particular for SG2 == REC(SG), which gives DRAINS_OUT(SE) literally)
    dr = ("(REC(SG) != SG && REC(SG) < gsize && (basins[REC(SG)] != E_BIN(SE) || (REC(SG) == SG2 ==> (REC(SG2) < gsize && basins[REC(SG2)] != E_BIN(SE)))))")
    return Unit(
        name=name, file=SINK_H, anchor=anchor,
        sig="void %s(%s)" % (name, SB_PARAMS), defs=_sink_defs(),
        rules=[R(r"(?:const )?auto& (?:basin_graph|receivers|dist2receivers|pits) = [^;]*;", "", 4),
               R(r"for \(size_type edge_idx : basin_graph\.tree\(\)\)", "for (size_t k = 0; k < m_tree_n; ++k)", 1),
               # the element read instantiates the input well-formedness of the tree (entries are edge indices; oriented edges
               # with a pass are well-formed; different tree edges flow into different basins: the tree is oriented, every basin
               # but the root has exactly one edge on which it is the inflow side)
               RB(r"for \(size_t k = 0; k < m_tree_n; \+\+k\)",
                  "{ size_t e_ = m_tree[FSL_IDX1(k, m_tree_n)]; FSL_PRE(e_ < m_edges_n && (E_OUT(e_) == SIZE_MAX || E_WF(e_))); "
                  "FSL_PRE(SGT >= m_tree_n || k == SGT || E_OUT(SE) == SIZE_MAX || E_OUT(e_) == SIZE_MAX || E_BIN(SE) != E_BIN(e_)); "
                  "%s(%s, e_); }" % (step, SB_ARGS))] + SB_VOCAB,
        contract=SB_SHAPE + r"""
__CPROVER_requires(SG < gsize && SG2 < gsize)
/* ghosts: tree slot SGT, its edge SE (instance of the input well-formedness), the pit SG of its inflow basin, any node SG2 */
__CPROVER_requires(SGT < m_tree_n ==> (SE == m_tree[SGT] && SE < m_edges_n && (E_OUT(SE) == SIZE_MAX || (E_WF(SE) && SG == E_PIT(SE)))))
__CPROVER_assigns(__CPROVER_object_whole(m_receivers), __CPROVER_object_whole(m_receivers_distance))
/* C01: the pit of every tree edge with a pass drains out of its basin when the function returns */
__CPROVER_ensures((SGT < m_tree_n && E_OUT(SE) != SIZE_MAX) ==> %(DR)s)
""" % dict(DR=dr),
        loops={0: r"""
__CPROVER_assigns(k, __CPROVER_object_whole(m_receivers), __CPROVER_object_whole(m_receivers_distance))
__CPROVER_loop_invariant(k <= m_tree_n)
__CPROVER_loop_invariant((SGT < k && E_OUT(SE) != SIZE_MAX) ==> %(DR)s)
__CPROVER_decreases(m_tree_n - k)
""" % dict(DR=dr)})


H_SB = r"""
size_t nondet_size_t(void); _Bool nondet_bool(void); double nondet_double(void);
void h_%(fn)s(void)
{
    size_t gsize = nondet_size_t(), nbasins = nondet_size_t();
    size_t *m_receivers; double *m_receivers_distance; const size_t *basins, *pits, *m_tree; const struct fsl_edge *m_edges; const double *elevation;
    m_edges_n = nondet_size_t(); m_tree_n = nondet_size_t(); m_tree_cap = nondet_size_t();
    SG = nondet_size_t(); SG2 = nondet_size_t(); SGT = nondet_size_t(); SE = nondet_size_t();
    %(call)s;
    __CPROVER_assert(0, "canary: postcondition point reachable");
}
"""
SB_ANCHOR = r"::\s*update_routes_sinks_basic\("
sb_step = make_sb_step("sinks_basic_step", SB_ANCHOR)
sb_outer = make_sb_outer("sinks_basic", SB_ANCHOR, "sinks_basic_step")
G_SB_STEP = Group(
    name="basin.sinks.basic.step", units=[sb_step], extra_c=[MODEL_H],
    harness=H_SB % dict(fn="sinks_basic_step", call="sinks_basic_step(%s, nondet_size_t())" % SB_ARGS),
    entry="h_sinks_basic_step", enforce="sinks_basic_step", backend="cvc5", timeout=600, min_obligations=20,
    clause="update_routes_sinks_basic, one tree edge with a pass: afterwards the pit of the inflow basin is not its own receiver and "
           "following receivers from it leaves the basin within two steps; only nodes of the inflow basin are re-routed")
G_SB_LOOP = Group(
    name="basin.sinks.basic.loop", units=[sb_step, sb_outer], extra_c=[MODEL_H],
    harness=H_SB % dict(fn="sinks_basic", call="sinks_basic(%s)" % SB_ARGS),
    entry="h_sinks_basic", enforce="sinks_basic", replace=["sinks_basic_step"], loop_contracts=True, backend="cvc5", timeout=1800, min_obligations=20,
    clause="update_routes_sinks_basic, whole loop over the tree (any length): on return the pit of EVERY tree edge with a pass drains "
           "out of its basin (later edges re-route other basins only)")


# --------------------------------------------------------------------------- basin_graph::connect_basins
from spec.graphmodel import is_masked, is_base_level, ghost_decls, neighbors_contract

CB_PARAMS = ("size_t gsize, size_t nbasins_, const size_t *basins_a, const size_t *m_receivers, const size_t *dfs_indices, const size_t *outlets, "
             "const _Bool *m_mask, _Bool m_mask_initialized, const _Bool *base_level, const double *elevation, "
             "struct fsl_edge *m_edges, size_t *m_edge_positions, size_t *m_edge_positions_tmp, size_t *CB_TSLOT")
CB_ARGS = ("gsize, nbasins_, basins_a, m_receivers, dfs_indices, outlets, m_mask, m_mask_initialized, base_level, elevation, "
           "m_edges, m_edge_positions, m_edge_positions_tmp, CB_TSLOT")


def cb_pre(nb):
    return ghost_decls(nb) + neighbors_contract(nb) + r"""
#define CB_MASKED(x) (m_mask_initialized && m_mask[(x)])
#define SAME_D(x, y) ((x) == (y) || (isnan(x) && isnan(y)))
#define POS(b) (m_edge_positions[(b)])
/* forall-invariant of the edge-position scratch table (ghost basin GB; instantiated where the table is read): a defined
 * position is the index of the edge (current_basin, b), and b is recorded in m_edge_positions_tmp (slot CB_TSLOT[b]) so that the
 * next change of basin resets it */
#define CB_INV_POS(b) (POS(b) == SIZE_MAX || (POS(b) < m_edges_n && m_edges[POS(b)].link[0] == current_basin && m_edges[POS(b)].link[1] == (b) \
    && m_edges[POS(b)].pass[0] != SIZE_MAX && CB_TSLOT[(b)] < m_edge_positions_tmp_n && m_edge_positions_tmp[CB_TSLOT[(b)]] == (b)))
/* C15.connect: every stored edge is either a link root -> outer basin without a pass, or carries a pass whose elevation is
 * the larger elevation of its two pass nodes (second pass node lies in the second basin) */
#define CB_EDGE_OK(e) (m_edges[(e)].link[1] < nbasins_ && (m_edges[(e)].pass[0] == SIZE_MAX \
    ? (m_edges[(e)].pass[1] == SIZE_MAX && m_edges[(e)].pass_elevation == -DBL_MAX && m_edges[(e)].link[0] == m_root && m_root != SIZE_MAX \
       && outlets[m_edges[(e)].link[1]] < gsize && base_level[outlets[m_edges[(e)].link[1]]] != 0) \
    : (m_edges[(e)].pass[0] < gsize && m_edges[(e)].pass[1] < gsize && m_edges[(e)].link[0] < nbasins_ \
       && SAME_D(m_edges[(e)].pass_elevation, FSL_MAX(elevation[m_edges[(e)].pass[0]], elevation[m_edges[(e)].pass[1]])) \
       && m_edges[(e)].link[1] == basins_a[m_edges[(e)].pass[1]])))
/* the root is undefined or an OUTER basin of the current tables */
#define CB_ROOT_OK (m_root == SIZE_MAX || (m_root < nbasins_ && outlets[m_root] < gsize && base_level[outlets[m_root]] != 0))
#define CB_OUTER_OUTLET(x) (!CB_MASKED(x) && m_receivers[(x)] == (x) && base_level[(x)] != 0)
size_t GEDGE;  /* ghost edge index */
size_t GPOS;   /* ghost position in dfs_indices */
/* read-only inputs with their well-formedness instantiated on read (producers: compute_basins C19, C06 order contract) */
static inline size_t cb_basins(size_t gsize, size_t nbasins_, const size_t *basins_a, const size_t *m_receivers, const size_t *outlets,
                               const _Bool *m_mask, _Bool m_mask_initialized, size_t i)
{
    size_t b = basins_a[FSL_IDX1(i, gsize)];
    FSL_PRE(CB_MASKED(i) || b < nbasins_);
    FSL_PRE(!(!CB_MASKED(i) && m_receivers[i] == i) || outlets[b] == i);
    return b;
}
static inline size_t cb_outlets(size_t gsize, size_t nbasins_, const size_t *outlets, size_t b)
{
    size_t o = outlets[FSL_IDX1(b, nbasins_)];
    FSL_PRE(o < gsize);
    return o;
}
static inline size_t cb_pos_rd(size_t nbasins_, const struct fsl_edge *m_edges, const size_t *m_edge_positions, const size_t *m_edge_positions_tmp,
                               const size_t *CB_TSLOT, size_t b)
{
    size_t v = m_edge_positions[FSL_IDX1(b, m_edge_positions_n)];
    FSL_PRE(CB_INV_POS(b));
    return v;
}
static inline size_t cb_tmp_rd(size_t nbasins_, const size_t *m_edge_positions_tmp, size_t t)
{
    size_t v = m_edge_positions_tmp[FSL_IDX1(t, m_edge_positions_tmp_n)];
    FSL_PRE(v < nbasins_);
    return v;
}
"""


CB_DEFS = "#define receivers(i, j) m_receivers[FSL_IDX2(i, j, gsize, 1)]\n"
CB_VOCAB = [
    V(r"basins_count\(\)", "nbasins_"),
    V(r"m_flow_graph_impl\.is_masked\(", "is_masked(m_mask, m_mask_initialized, gsize, "),
    V(r"m_flow_graph_impl\.is_base_level\(", "is_base_level(base_level, gsize, "),
    V(r"outlets\(\)\[(\w+)\]", r"cb_outlets(gsize, nbasins_, outlets, \1)"),
    V(r"\bbasins\(([^()]+)\)", r"cb_basins(gsize, nbasins_, basins_a, m_receivers, outlets, m_mask, m_mask_initialized, \1)"),
    V(r"m_edges\.clear\(\)", "m_edges_n = 0"),
    V(r"m_edges\.reserve\(([^;]*)\);", r"FSL_RESERVE(\1);"),
    V(r"m_edges\.size\(\)", "m_edges_n"),
    V(r"m_edges\.push_back\(\s*edge::make_edge\(([^()]*)\)\s*\)", r"FSL_EDGES_PUSH(cb_make_edge(\1))"),
    V(r"m_edges\.push_back\(\s*(\{[^;]*\})\s*\)", r"FSL_EDGES_PUSH(((struct fsl_edge)\1))"),
    V(r"=\s*edge\s*\{", "= (struct fsl_edge){"),
    V(r"\bm_edges\[(\w+)\]", r"m_edges[FSL_IDX1(\1, m_edges_n)]"),
    # vector::resize(n, v): only NEWLY appended elements get v, existing ones keep their value (that is what the model states)
    V(r"m_edge_positions\.resize\(([^(),]+),\s*([^()]+)\)", r"fsl_vsz_resize_b(m_edge_positions, &m_edge_positions_n, m_edge_positions_cap, \1, \2)"),
    V(r"m_edge_positions\.resize\(([^(),]+)\)", r"fsl_vsz_resize_b(m_edge_positions, &m_edge_positions_n, m_edge_positions_cap, \1, 0)"),
    V(r"std::fill\(m_edge_positions\.begin\(\),\s*m_edge_positions\.end\(\),\s*([^()]+)\)", r"fsl_vsz_fill_b(m_edge_positions, m_edge_positions_n, \1)"),
    V(r"m_edge_positions_tmp\.reserve\(([^;]*)\);", r"FSL_RESERVE(\1);"),
    V(r"m_edge_positions_tmp\.clear\(\)", "m_edge_positions_tmp_n = 0"),
    V(r"m_edge_positions_tmp\.push_back\(([^()]+)\)", r"FSL_TMP_PUSH(\1)"),
    V(r"\bm_edge_positions\[(\w+)\]\s*=(?!=)", r"m_edge_positions[FSL_IDX1(\1, m_edge_positions_n)] ="),
    V(r"\bm_edge_positions\[(\w+)\]", r"cb_pos_rd(nbasins_, m_edges, m_edge_positions, m_edge_positions_tmp, CB_TSLOT, \1)"),
    V(r"\bconst auto (idfs|irec)\b", r"const size_t \1"),
]
CB_LOCALS = "    const size_t nbasins = nbasins_; const size_t init_idx = SIZE_MAX; /* locals of the enclosing function (constants) */\n"
CB_SHAPE = r"""
__CPROVER_requires(0 < gsize && gsize <= FSL_BASIN_NMAX && gsize == GSIZE && 0 < nbasins_ && nbasins_ <= gsize)
__CPROVER_requires(__CPROVER_is_fresh(basins_a, gsize * sizeof(size_t)) && __CPROVER_is_fresh(m_receivers, gsize * sizeof(size_t)) && __CPROVER_is_fresh(dfs_indices, gsize * sizeof(size_t)))
__CPROVER_requires(__CPROVER_is_fresh(outlets, nbasins_ * sizeof(size_t)) && __CPROVER_is_fresh(m_mask, gsize * sizeof(_Bool)) && __CPROVER_is_fresh(base_level, gsize * sizeof(_Bool)))
__CPROVER_requires(__CPROVER_is_fresh(elevation, gsize * sizeof(double)) && __CPROVER_is_fresh(CB_TSLOT, nbasins_ * sizeof(size_t)))
__CPROVER_requires(1 <= m_edges_cap && m_edges_cap <= FSL_BASIN_NMAX && m_edges_n <= m_edges_cap && __CPROVER_is_fresh(m_edges, m_edges_cap * FSL_EDGE_BYTES))
__CPROVER_requires(nbasins_ <= m_edge_positions_cap && m_edge_positions_cap <= FSL_BASIN_NMAX && m_edge_positions_n <= m_edge_positions_cap
                   && __CPROVER_is_fresh(m_edge_positions, m_edge_positions_cap * sizeof(size_t)))
__CPROVER_requires(1 <= m_edge_positions_tmp_cap && m_edge_positions_tmp_cap <= FSL_BASIN_NMAX && m_edge_positions_tmp_n <= m_edge_positions_tmp_cap
                   && __CPROVER_is_fresh(m_edge_positions_tmp, m_edge_positions_tmp_cap * sizeof(size_t)))
__CPROVER_requires(GB < nbasins_)
"""
CB_ANCHOR = r"void basin_graph<FG>::connect_basins\(const data_array_type& elevation\)"

cb_make_edge = Unit(
    name="cb_make_edge", file=BG_H, anchor=r"static edge make_edge\(const size_type& from, const size_type& to\)",
    sig="static inline struct fsl_edge cb_make_edge(size_t from, size_t to)",
    rules=[R(r"return edge\s*\{", "return (struct fsl_edge){", 1)],
)


def make_cb_switch(nb, lemma=None):
    """lemma None: full contract (reset of the position table at the ghost basin and at the caller's witness);
    lemma "frame": only the frame and the two scalars (used by the `edge` chain, which does not speak about the position table)"""
    full = lemma is None
    pos_req = r"""
/* instances of CB_INV_POS at the ghost basin and at the caller's witness */
__CPROVER_requires(POS(GB) != SIZE_MAX ==> (CB_TSLOT[GB] < m_edge_positions_tmp_n && m_edge_positions_tmp[CB_TSLOT[GB]] == GB))
__CPROVER_requires(POS(w) != SIZE_MAX ==> (CB_TSLOT[w] < m_edge_positions_tmp_n && m_edge_positions_tmp[CB_TSLOT[w]] == w))
"""
    pos_inv = r"""
__CPROVER_loop_invariant(POS(GB) != SIZE_MAX ==> (t_ <= CB_TSLOT[GB] && CB_TSLOT[GB] < m_edge_positions_tmp_n && m_edge_positions_tmp[CB_TSLOT[GB]] == GB))
__CPROVER_loop_invariant(POS(w) != SIZE_MAX ==> (t_ <= CB_TSLOT[w] && CB_TSLOT[w] < m_edge_positions_tmp_n && m_edge_positions_tmp[CB_TSLOT[w]] == w))
"""
    return Unit(
        name="cb_switch", file=BG_H, anchor=CB_ANCHOR, inner=r"if \(current_basin != ibasin\)\s*\{",
        sig="void cb_switch(%s, size_t w)" % CB_PARAMS, defs=CB_DEFS, body_prefix=CB_LOCALS,
        rules=[R(r"for \(const auto& ivisited : m_edge_positions_tmp\)\s*\{",
                 "for (size_t t_ = 0; t_ < m_edge_positions_tmp_n; ++t_)\n{ const size_t ivisited = cb_tmp_rd(nbasins_, m_edge_positions_tmp, t_);", 1)] + CB_VOCAB,
        contract=CB_SHAPE + r"""
__CPROVER_requires(m_edge_positions_n == nbasins_ && w < nbasins_)
""" + (pos_req if full else "") + r"""
__CPROVER_assigns(__CPROVER_object_whole(m_edge_positions), m_edge_positions_tmp_n, current_basin)
/* jumping to another basin forgets every edge position of the previous one */
__CPROVER_ensures(%sm_edge_positions_tmp_n == 0 && current_basin == ibasin)
""" % ("POS(GB) == SIZE_MAX && POS(w) == SIZE_MAX && " if full else ""),
        loops={0: r"""
__CPROVER_assigns(t_, __CPROVER_object_whole(m_edge_positions))
__CPROVER_loop_invariant(t_ <= m_edge_positions_tmp_n)
""" + (pos_inv if full else "") + r"""
__CPROVER_decreases(m_edge_positions_tmp_n - t_)
"""})


CB_CAPS = "m_edges_n <= m_edges_cap && m_edge_positions_tmp_n <= m_edge_positions_tmp_cap"
CB_LEMMAS = {
    "pos": "CB_INV_POS(GB)",
    "edge": "(GEDGE < m_edges_n ==> CB_EDGE_OK(GEDGE)) && CB_ROOT_OK",
}
def cb_state_req(lemma=None):
    """lemma chains are self-contained: the chain `pos` (switch, visit.pos, node.pos, loop.pos) only speaks about the edge-position table,
    the chain `edge` only about stored edges and the root, `lowest` (visit only) rests on the table invariant"""
    ls = list(CB_LEMMAS) if lemma is None else ([lemma] if lemma in CB_LEMMAS else ["pos"])
    return ("\n__CPROVER_requires(m_edge_positions_n == nbasins_)\n" + "".join("__CPROVER_requires(%s)\n" % CB_LEMMAS[l] for l in ls))


def cb_state_ens(lemma=None):
    ls = list(CB_LEMMAS) if lemma is None else ([lemma] if lemma in CB_LEMMAS else [])
    return ("__CPROVER_ensures(m_edge_positions_n == nbasins_ && m_edges_n >= __CPROVER_old(m_edges_n) && %s)\n" % CB_CAPS +
            "".join("__CPROVER_ensures(%s)\n" % CB_LEMMAS[l] for l in ls))


def cb_state_inv(lemma=None):
    ls = list(CB_LEMMAS) if lemma is None else ([lemma] if lemma in CB_LEMMAS else [])
    return " && ".join(["m_edge_positions_n == nbasins_", CB_CAPS] + [CB_LEMMAS[l] for l in ls])


CB_ASSIGNS_EDGES = ("__CPROVER_object_whole(m_edges), m_edges_n, __CPROVER_object_whole(m_edge_positions), __CPROVER_object_whole(m_edge_positions_tmp), "
                    "m_edge_positions_tmp_n, current_basin, __CPROVER_object_whole(CB_TSLOT)")


CB_LOWEST = r"""
/* C15.connect.lowest_pass, at the moment the adjacent pair (idfs, n) is seen: unless the pair is left to the other side
 * (the neighbour's basin is an inner basin with a smaller or equal id) the edge (ibasin, basin of n) now exists, its position is
 * recorded, and its pass elevation is not above max(elevation of the two nodes of this pair) */
__CPROVER_ensures((!CB_MASKED(n.idx) && basins_a[n.idx] < nbasins_ && outlets[basins_a[n.idx]] < gsize
                   && (ibasin < basins_a[n.idx] || base_level[outlets[basins_a[n.idx]]] != 0)) ==>
    (POS(basins_a[n.idx]) != SIZE_MAX && POS(basins_a[n.idx]) < m_edges_n
     && m_edges[POS(basins_a[n.idx])].link[0] == ibasin && m_edges[POS(basins_a[n.idx])].link[1] == basins_a[n.idx]
     && m_edges[POS(basins_a[n.idx])].pass[0] != SIZE_MAX
     && !(FSL_MAX(ielev, elevation[n.idx]) < m_edges[POS(basins_a[n.idx])].pass_elevation)))
"""


def make_cb_visit(nb, lemma=None):
    return Unit(
        name="cb_visit", file=BG_H, anchor=CB_ANCHOR, inner=r"for \(auto n : grid\.neighbors\(idfs, neighbors\)\)\s*\{",
        sig="void cb_visit(%s, size_t idfs, double ielev, struct neighbor n)" % CB_PARAMS, defs=CB_DEFS, body_prefix=CB_LOCALS,
        # IH instance of the table invariant at the neighbour's basin, taken before any write of this iteration
        rules=[RB(r"if \(current_basin != ibasin\)", "{ FSL_PRE(CB_INV_POS(nbasin)); cb_switch(%s, nbasin); }" % CB_ARGS),
               V(r"\bcontinue;", "return; /* `continue` of the outlined loop body */")] + CB_VOCAB,
        contract=CB_SHAPE + cb_state_req(lemma) + r"""
__CPROVER_requires(idfs < gsize && n.idx < gsize && ibasin < nbasins_ && SAME_D(ielev, elevation[idfs]))
__CPROVER_assigns(""" + CB_ASSIGNS_EDGES + r""")
""" + cb_state_ens(lemma) + (CB_LOWEST if lemma in (None, "lowest") else ""))


def make_cb_node(nb, lemma=None):
    return Unit(
        name="cb_node", file=BG_H, anchor=CB_ANCHOR, inner=r"for \(const auto idfs : dfs_indices\)\s*\{",
        sig="void cb_node(%s, size_t idfs)" % CB_PARAMS, defs=CB_DEFS,
        body_prefix=CB_LOCALS + "    struct neighbor neighbors[FSL_NBMAX]; size_t neighbors_n;\n",
        rules=[R(r"for \(auto n : grid\.neighbors\(idfs, neighbors\)\)",
                 "neighbors_n = grid_neighbors(idfs, neighbors);\nfor (size_t nb_k = 0; nb_k < neighbors_n; ++nb_k)", 1),
               RB(r"for \(size_t nb_k = 0; nb_k < neighbors_n; \+\+nb_k\)", "{ cb_visit(%s, idfs, ielev, neighbors[nb_k]); }" % CB_ARGS),
               V(r"\bcontinue;", "return; /* `continue` of the outlined loop body */")] + CB_VOCAB,
        contract=CB_SHAPE + cb_state_req(lemma) + r"""
__CPROVER_requires(idfs < gsize && (is_inner_basin == 0 || is_inner_basin == 1) && (is_inner_basin ==> ibasin < nbasins_))
__CPROVER_assigns(m_root, ibasin, is_inner_basin, """ + CB_ASSIGNS_EDGES + r""")
""" + cb_state_ens(lemma) + r"""
__CPROVER_ensures((is_inner_basin == 0 || is_inner_basin == 1) && (is_inner_basin ==> ibasin < nbasins_))
""",
        # the neighbour scan (at most n_neighbors_max iterations) is closed by a loop contract: one visit per iteration
        loops={0: r"""
__CPROVER_assigns(nb_k, """ + CB_ASSIGNS_EDGES + r""")
__CPROVER_loop_invariant(nb_k <= neighbors_n && neighbors_n <= FSL_NBMAX && m_edges_n >= __CPROVER_loop_entry(m_edges_n))
__CPROVER_loop_invariant(%s)
__CPROVER_loop_invariant(%s)
__CPROVER_decreases(neighbors_n - nb_k)
""" % (cb_state_inv(lemma), " && ".join("(%d < neighbors_n ==> neighbors[%d].idx < gsize)" % (k, k) for k in range(nb)))})


def make_cb_outer(nb, lemma=None):
    inv = "(" + cb_state_inv(lemma) + r""" && (is_inner_basin == 0 || is_inner_basin == 1) && (is_inner_basin ==> ibasin < nbasins_))"""
    ens = {"pos": "__CPROVER_ensures(m_edge_positions_n == nbasins_ && CB_INV_POS(GB))\n",
           "edge": "/* every edge present on return was built in this call: root link or pass with pass_elevation = max of its two pass nodes */\n"
                   "__CPROVER_ensures(CB_ROOT_OK && (GEDGE < m_edges_n ==> CB_EDGE_OK(GEDGE)))\n"}
    return Unit(
        name="connect_basins", file=BG_H, anchor=CB_ANCHOR, sig="void connect_basins(%s)" % CB_PARAMS, defs=CB_DEFS,
        rules=[R(r"using neighbors_type = [^;]*;", "", 1),
               R(r"auto nbasins = ", "const size_t nbasins = ", 1),
               R(r"(?:const )?auto& (?:basins|receivers|dfs_indices|grid) = [^;]*;", "", 4),
               R(r"neighbors_type neighbors;", "/* neighbour buffer: local of the outlined loop body */", 1),
               # locals that live across iterations are shared with the outlined loop bodies as globals
               R(r"size_type ibasin;", "", 1),
               R(r"size_type current_basin = init_idx;", "current_basin = init_idx;", 1),
               R(r"bool is_inner_basin = false;", "is_inner_basin = 0;", 1),
               R(r"for \(const auto idfs : dfs_indices\)", "for (size_t p_ = 0; p_ < gsize; ++p_)", 1),
               RB(r"for \(size_t p_ = 0; p_ < gsize; \+\+p_\)",
                  "{ size_t idfs_ = dfs_indices[FSL_IDX1(p_, gsize)]; FSL_PRE(idfs_ < gsize); cb_node(%s, idfs_); }" % CB_ARGS)] + CB_VOCAB,
        contract=CB_SHAPE + r"""
/* NOTHING is required of m_root, m_edges, m_edge_positions, m_edge_positions_tmp (C09: the result must not depend on earlier calls) */
__CPROVER_assigns(m_root, ibasin, is_inner_basin, m_edge_positions_n, """ + CB_ASSIGNS_EDGES + r""")
""" + "".join(ens[l] for l in ens if lemma in (None, l)),
        loops={0: r"""
__CPROVER_assigns(p_, m_root, ibasin, is_inner_basin, """ + CB_ASSIGNS_EDGES + r""")
__CPROVER_loop_invariant(p_ <= gsize)
__CPROVER_loop_invariant(%s)
__CPROVER_decreases(gsize - p_)
""" % inv})


def _hcb(fn, call, nb):
    init = "".join("    GN[%d].idx = nondet_size_t(); GN[%d].distance = nondet_double();\n" % (k, k) for k in range(nb))
    return r"""
size_t nondet_size_t(void); _Bool nondet_bool(void); double nondet_double(void); uint8_t nondet_u8(void);
void h_%(fn)s(void)
{
    size_t gsize = nondet_size_t(), nbasins_ = nondet_size_t();
    const size_t *basins_a, *m_receivers, *dfs_indices, *outlets; const _Bool *m_mask, *base_level; const double *elevation;
    _Bool m_mask_initialized = nondet_bool();
    struct fsl_edge *m_edges; size_t *m_edge_positions, *m_edge_positions_tmp, *CB_TSLOT;
    /* scratch members and the locals shared with the loop bodies: arbitrary pre-state (C09) */
    m_root = nondet_size_t(); m_edges_n = nondet_size_t(); m_edges_cap = nondet_size_t();
    m_edge_positions_n = nondet_size_t(); m_edge_positions_cap = nondet_size_t();
    m_edge_positions_tmp_n = nondet_size_t(); m_edge_positions_tmp_cap = nondet_size_t();
    ibasin = nondet_size_t(); current_basin = nondet_size_t(); is_inner_basin = nondet_bool();
    GSIZE = gsize; G = nondet_size_t(); GN_cnt = nondet_size_t(); GB = nondet_size_t(); GEDGE = nondet_size_t(); GPOS = nondet_size_t();
%(init)s
    struct neighbor nn; nn.idx = nondet_size_t(); nn.distance = nondet_double(); nn.status = nondet_u8();
    %(call)s;
    __CPROVER_assert(0, "canary: postcondition point reachable");
}
""" % dict(fn=fn, call=call, init=init)


def cb_groups(nb, tier="quick"):
    sw, vis, node, outer = make_cb_switch(nb), make_cb_visit(nb), make_cb_node(nb), make_cb_outer(nb)
    defs = ["FSL_NBMAX=%d" % nb]
    base = [is_masked, is_base_level, cb_make_edge]
    gs = [
        Group(name="basin.connect.switch", units=base + [sw], extra_c=[MODEL_H], defines=defs,
              harness=_hcb("cb_switch", "cb_switch(%s, nondet_size_t())" % CB_ARGS, nb), entry="h_cb_switch", enforce="cb_switch",
              loop_contracts=True, backend="cvc5", timeout=600, min_obligations=20, tier=tier,
              clause="connect_basins, change of current basin: every recorded edge position is reset (ghost basin), the visited list is emptied")]
    what = {"pos": "the edge-position scratch table keeps its invariant (a defined position is the edge (current basin, b), recorded for reset)",
            "edge": "every stored edge is a root link or a pass with pass_elevation == max(elevation of its two pass nodes); root stays an outer basin",
            "lowest": "the edge of the basin pair exists afterwards with pass_elevation <= max(elevation of the pair just seen)"}
    gs.append(Group(name="basin.connect.switch.frame", units=base + [make_cb_switch(nb, "frame")], extra_c=[MODEL_H], defines=defs,
                    harness=_hcb("cb_switch", "cb_switch(%s, nondet_size_t())" % CB_ARGS, nb), entry="h_cb_switch", enforce="cb_switch",
                    loop_contracts=True, backend="cvc5", timeout=600, min_obligations=20, tier=tier,
                    clause="connect_basins, change of current basin, frame lemma: only the position table, the length of the visited list and "
                           "current_basin are written; the list is emptied and current_basin becomes ibasin"))
    for l in ("pos", "edge", "lowest"):
        gs.append(Group(name="basin.connect.visit.%s" % l, units=base + [make_cb_switch(nb, "frame") if l == "edge" else sw, make_cb_visit(nb, l)], extra_c=[MODEL_H], defines=defs,
                        harness=_hcb("cb_visit", "cb_visit(%s, nondet_size_t(), nondet_double(), nn)" % CB_ARGS, nb), entry="h_cb_visit",
                        enforce="cb_visit", replace=["cb_switch"], backend="cvc5", timeout=1800, min_obligations=50, tier="quick",
                        clause="connect_basins, one adjacent node pair, lemma `%s`: %s" % (l, what[l])))
    for l in ("pos", "edge"):
        gs.append(Group(name="basin.connect.node.%s" % l, units=base + [make_cb_visit(nb, l), make_cb_node(nb, l)], extra_c=[MODEL_H], defines=defs,
                        harness=_hcb("cb_node", "cb_node(%s, nondet_size_t())" % CB_ARGS, nb), entry="h_cb_node", enforce="cb_node",
                        replace=["cb_visit", "grid_neighbors"], loop_contracts=True, backend="cvc5", timeout=1800, min_obligations=50, tier="quick",
                        clause="connect_basins, one node of the bottom-up order (neighbour scan closed by a loop contract), lemma `%s`: %s" % (l, what[l])))
        gs.append(Group(name="basin.connect.loop.%s" % l, units=base + [make_cb_node(nb, l), make_cb_outer(nb, l)], extra_c=[MODEL_H], defines=defs,
                        harness=_hcb("connect_basins", "connect_basins(%s)" % CB_ARGS, nb), entry="h_connect_basins", enforce="connect_basins",
                        replace=["cb_node", "fsl_vsz_resize_b", "fsl_vsz_fill_b"], loop_contracts=True, backend="cvc5", timeout=1500,
                        min_obligations=50, tier=tier,
                        clause="connect_basins on ARBITRARY pre-state of m_root / m_edges / m_edge_positions(_tmp) (per-call reset, C09), lemma `%s`: %s"
                               % (l, what[l])))
    return gs


# ---- root slice: the choice / per-call reset of m_root alone, with the inner-basin block abstracted by its frame ----
CB_INNER_DECL = r"""
/* the block `if (is_inner_basin) { ... }` of connect_basins, by its frame only: it scans neighbours and edits edges and the
 * edge-position scratch tables, never m_root / ibasin / is_inner_basin (that frame is what the assigns clauses enforced in
 * basin.connect.visit and basin.connect.node establish) */
void cb_inner_block(%s, size_t idfs)
__CPROVER_assigns(%s)
__CPROVER_ensures(m_edges_n >= __CPROVER_old(m_edges_n) && m_edge_positions_n == __CPROVER_old(m_edge_positions_n))
__CPROVER_ensures(m_edges_n <= m_edges_cap && m_edge_positions_tmp_n <= m_edge_positions_tmp_cap)
;
""" % (CB_PARAMS, CB_ASSIGNS_EDGES)

cb_node_root = Unit(
    name="cb_node_root", file=BG_H, anchor=CB_ANCHOR, inner=r"for \(const auto idfs : dfs_indices\)\s*\{",
    sig="void cb_node_root(%s, size_t idfs)" % CB_PARAMS, defs=CB_DEFS, pre=CB_INNER_DECL, body_prefix=CB_LOCALS,
    rules=[RB(r"if \(is_inner_basin\)", "{ cb_inner_block(%s, idfs); }" % CB_ARGS),
           V(r"\bcontinue;", "return; /* `continue` of the outlined loop body */")] + CB_VOCAB,
    contract=CB_SHAPE + r"""
__CPROVER_requires(idfs < gsize && CB_ROOT_OK)
__CPROVER_assigns(m_root, ibasin, is_inner_basin, """ + CB_ASSIGNS_EDGES + r""")
__CPROVER_ensures(CB_ROOT_OK && m_edge_positions_n == __CPROVER_old(m_edge_positions_n) && m_edges_n <= m_edges_cap && m_edge_positions_tmp_n <= m_edge_positions_tmp_cap)
/* the root is chosen once: an unmasked base-level outlet defines it if it is still undefined, nothing else ever changes it */
__CPROVER_ensures(m_root == __CPROVER_old(m_root) || (__CPROVER_old(m_root) == SIZE_MAX && CB_OUTER_OUTLET(idfs)))
__CPROVER_ensures(CB_OUTER_OUTLET(idfs) ==> m_root != SIZE_MAX)
""")

cb_outer_root = Unit(
    name="connect_basins_root", file=BG_H, anchor=CB_ANCHOR, sig="void connect_basins_root(%s)" % CB_PARAMS, defs=CB_DEFS,
    rules=[r for r in make_cb_outer(2).rules if not isinstance(r, RB)][:8] +
          [RB(r"for \(size_t p_ = 0; p_ < gsize; \+\+p_\)",
              "{ size_t idfs_ = dfs_indices[FSL_IDX1(p_, gsize)]; FSL_PRE(idfs_ < gsize); cb_node_root(%s, idfs_); }" % CB_ARGS)] + CB_VOCAB,
    contract=CB_SHAPE + r"""
__CPROVER_requires(GPOS < gsize)
/* NOTHING is required of m_root (C09): its pre-state is arbitrary */
__CPROVER_assigns(m_root, ibasin, is_inner_basin, m_edge_positions_n, """ + CB_ASSIGNS_EDGES + r""")
/* C15 / C09: on return the root is undefined or an OUTER basin of the current tables (the basin of an unmasked base-level outlet),
 * and it is defined as soon as such an outlet was visited in this call */
__CPROVER_ensures(CB_ROOT_OK)
__CPROVER_ensures((dfs_indices[GPOS] < gsize && CB_OUTER_OUTLET(dfs_indices[GPOS])) ==> m_root != SIZE_MAX)
""",
    loops={0: r"""
__CPROVER_assigns(p_, m_root, ibasin, is_inner_basin, """ + CB_ASSIGNS_EDGES + r""")
__CPROVER_loop_invariant(p_ <= gsize && m_edge_positions_n == nbasins_ && CB_ROOT_OK && m_edges_n <= m_edges_cap && m_edge_positions_tmp_n <= m_edge_positions_tmp_cap)
__CPROVER_loop_invariant((GPOS < p_ && dfs_indices[GPOS] < gsize && CB_OUTER_OUTLET(dfs_indices[GPOS])) ==> m_root != SIZE_MAX)
__CPROVER_decreases(gsize - p_)
"""})

CB_ROOT_GROUPS = [
    Group(name="basin.connect.root.node", units=[is_masked, is_base_level, cb_make_edge, cb_node_root], extra_c=[MODEL_H], defines=["FSL_NBMAX=2"],
          harness=_hcb("cb_node_root", "cb_node_root(%s, nondet_size_t())" % CB_ARGS, 2), entry="h_cb_node_root", enforce="cb_node_root",
          replace=["cb_inner_block"], backend="cvc5", timeout=900, min_obligations=30,
          clause="connect_basins, one node, root slice: m_root changes only from `undefined` to the basin of an unmasked base-level outlet; it stays "
                 "undefined or an outer basin of the current tables"),
    Group(name="basin.connect.root.loop", units=[is_masked, is_base_level, cb_make_edge, cb_node_root, cb_outer_root], extra_c=[MODEL_H], defines=["FSL_NBMAX=2"],
          harness=_hcb("connect_basins_root", "connect_basins_root(%s)" % CB_ARGS, 2), entry="h_connect_basins_root", enforce="connect_basins_root",
          replace=["cb_node_root", "fsl_vsz_resize_b", "fsl_vsz_fill_b"], loop_contracts=True, backend="cvc5", timeout=900, min_obligations=30,
          clause="connect_basins with ARBITRARY pre-state of m_root (C09 per-call reset): on return m_root is undefined or an outer basin of the "
                 "current tables, and defined once an unmasked base-level outlet was visited"),
]

cb_make_edge.pre = cb_pre(2)   # ghost declarations, neighbour contract and predicates precede every connect_basins unit
CB_GROUPS = cb_groups(2)

# G_KR_LOOP (loop-level Kruskal clauses with the full step contract) do not finish within an hour on cvc5 (measured again in session 4 with the
# is_fresh split): kept in the module for development (EXPERIMENTAL), NOT registered, nothing is claimed from them
EXPERIMENTAL = G_KR_LOOP
GROUPS = {"C15": [G_UF_FIND, G_UF_MERGE] + G_UF_LINK + [G_UF_RESIZE, G_UF_CLEAR, G_UF_PUSH, G_KR_CMP, G_KR_STEP, G_KR_TREE] + CB_ROOT_GROUPS + CB_GROUPS,
          # the root of the basin tree and the per-call resets decide whether every depression is re-routed (C01) and filled to its spill (C02)
          "C01": [G_SB_STEP, G_SB_LOOP] + CB_ROOT_GROUPS + [g for g in CB_GROUPS if g.tier == "quick"],
          # C02: the spill-level premise of the `basic` re-routing (straight link only when the inflow pass node is not the higher one) is a clause of G_SB_STEP
          "C02": [G_SB_STEP] + CB_ROOT_GROUPS + [g for g in CB_GROUPS if g.tier == "quick"]}
# keep-alive: goto-instrument aborts on --replace-call-with-contract of a function that is never called.  So that a change which
# REMOVES a call (e.g. drops a reset) is judged by the contract instead of breaking the tool chain, every harness ends with an
# unreachable call of each callee named in `replace`.
_KEEP = {
    "uf_find": "uf_find(UF_ARGS, 0, 0, 0);", "uf_link": "uf_link(UF_ARGS, 0, 0, 0, 0);", "uf_merge": "uf_merge(UF_ARGS, 0, 0);",
    "uf_resize": "uf_resize(UF_ARGS, 0);", "uf_clear": "uf_clear(UF_ARGS);",
    "fsl_vsz_resize": "fsl_vsz_resize(uf_parent, &uf_pn, uf_cap, 0, 0);", "fsl_vsz_iota": "fsl_vsz_iota(uf_parent, 0, 0);",
    "kruskal_step": "kruskal_step(%s, 0);" % KR_ARGS, "kruskal_body": "kruskal_body(%s, 0);" % KR_ARGS,
    "fsl_vsz_resize_k": "fsl_vsz_resize_k(m_tree, &m_tree_n, 0, 0, 0);", "fsl_vsz_iota_k": "fsl_vsz_iota_k(m_tree, 0, 0);",
    "fsl_sort_edges": "fsl_sort_edges(m_tree, 0, m_edges, 0);",
    "sinks_basic_step": "sinks_basic_step(%s, 0);" % SB_ARGS,
    "cb_switch": "cb_switch(%s, 0);" % CB_ARGS, "cb_visit": "cb_visit(%s, 0, 0, nn);" % CB_ARGS, "grid_neighbors": "grid_neighbors(0, &nn);",
    "cb_node": "cb_node(%s, 0);" % CB_ARGS, "cb_node_root": "cb_node_root(%s, 0);" % CB_ARGS, "cb_inner_block": "cb_inner_block(%s, 0);" % CB_ARGS,
    "fsl_vsz_resize_b": "fsl_vsz_resize_b(m_edge_positions, &m_edge_positions_n, 0, 0, 0);", "fsl_vsz_fill_b": "fsl_vsz_fill_b(m_edge_positions, 0, 0);",
}
for _gs in GROUPS.values():
    for _g in _gs:
        if _g.replace and "never_" not in _g.harness:
            _calls = " ".join(_KEEP[f] for f in _g.replace)
            _i = _g.harness.rindex("}")
            _g.harness = (_g.harness[:_i] + "    { _Bool never_ = nondet_bool(); __CPROVER_assume(!never_); if (never_) { " + _calls +
                          " } } /* keep-alive, unreachable */\n" + _g.harness[_i:])

GROUPS["C09"] = [G_KR_TREE] + [g for g in CB_ROOT_GROUPS if g.name.endswith(".loop")] + [g for g in CB_GROUPS if ".loop." in g.name] + [G_UF_CLEAR, G_UF_RESIZE]

PROPS = {
    "C15": dict(
        level="other",
        explanation="Union-find operations, Kruskal's greedy step and its tree / reset slice, the root choice / per-call resets and the local lowest-pass step of "
                    "connect_basins are decided by unbounded contracts (ghost-element idiom); that the resulting tree is a MINIMUM spanning tree is "
                    "Kruskal's theorem on top of these (unmechanised); the global lowest-pass statement is not covered.",
        assumptions=UF_MODEL_ASSUMPTIONS + [
            "union_find representation invariant UF_CHAIN(i) (parent inside the universe and in the same class; fixed point <=> own representative; "
            "DEPTH 0 at roots, strictly decreasing along parent) is a forall-i invariant of the object: proved for an arbitrary ghost element by every "
            "operation (find, merge/link, resize, clear, push_back) and instantiated where find reads parent[i] (DESIGN 3.2/3.9)",
            "union_find: the well-founded measure DEPTH is a size_t < SIZE_MAX (no wrap-around when a merge shifts the absorbed class by one); a measure "
            "bounded by the number of elements always exists for an acyclic parent forest",
            "find(e, w1, w2): two ghost witness parameters added to the C signature (elements at which the caller wants `fixed points stay fixed points`); "
            "uf_link(x, y, w1, w2) likewise; merge's linking block `if (x != y) {...}` is outlined as unit uf_link",
            "ghost update convention: operations that change the abstract partition (link, resize, push_back) write the witness ROOT'/DEPTH' by ghost code at "
            "the cells the postcondition inspects (existential postcondition `a consistent new ROOT assignment exists`); callers see ROOT/DEPTH in the frame",
            "std::sort with the comparator lambda modelled by fsl_sort_edges (TRUSTED: std::sort sorts): the contract states that the output is a "
            "permutation of the input (every entry an edge index, pairwise distinct, ghost edge KGE at ghost position KPOS); the sortedness clause is "
            "documented in the model but not stated as an ensures because no obligation consumes it (it only matters for minimality); the comparator "
            "lambda itself is extracted and proved to be a strict weak order on non-NaN weights that orders by pass_elevation",
            "kruskal loop: reading m_edges_indices[k] instantiates the sort model's forall-postcondition `every entry is an edge index` and the input "
            "well-formedness `link[0], link[1] < basins_count()` of that edge (producer: connect_basins / compute_basins, C19)",
            "std::vector growth: buffers live at a ghost capacity; `length < capacity` at push_back is a precondition instance (model artefact: the real vector "
            "reallocates), never a property of the code",
            "connect_basins: inputs basins()/outlets()/dfs_indices() instantiated on read: unmasked nodes have a basin id < basins_count(), outlets[basins(o)] == o "
            "for an unmasked outlet o, outlet nodes and dfs entries are grid nodes (producers: compute_basins C19, order contract C06); neighbour contract of C07 "
            "at grid.neighbors(i, buf)",
            "connect_basins: CB_INV_POS (a defined entry of m_edge_positions is the index of the edge (current basin, b), and b is recorded in m_edge_positions_tmp) "
            "is a forall-b invariant of a mutable scratch table: proved for an arbitrary ghost basin by switch / visit / node / loop groups, instantiated where the "
            "table is read (IH instance, DESIGN 3.9); m_edge_positions_tmp entries are basin ids (same idiom)",
            "connect_basins root slice: the block `if (is_inner_basin) {...}` is abstracted by its frame (does not write m_root / ibasin / is_inner_basin), "
            "which is what the assigns clauses enforced in basin.connect.visit.* / basin.connect.node.* state",
            "locals of connect_basins that live across iterations (ibasin, current_basin, is_inner_basin) are shared with the outlined loop bodies as globals",
        ],
        unmechanised=[
            "Kruskal's theorem: scanning the edges in non-decreasing weight and keeping an edge iff it joins two different classes yields a minimum "
            "spanning forest (cut property); the contracts prove the premises (sorted scan via the trusted sort model, greedy step, exact union of classes)",
            "union-find: `for every element: INV`  ==>  find(a) == find(b) iff a and b are in the same class of the abstract partition (definition of ROOT)",
            "lowest pass, global form: the local step (edge of the pair exists with pass_elevation <= this pair, edges only ever replaced by lower passes of the "
            "same basin pair) composes to `pass_elevation is the minimum over all adjacent pairs of the two basins` only with the order contract "
            "(nodes of one basin are contiguous in dfs_indices, basin ids increase along it) -- not mechanised",
        ],
        undecided=[
            "compute_tree_boruvka / orient_edges: see the entries of spec/boruvka.py and spec/orient.py below (set-up phase and step lemmas unbounded, whole-function "
            "clauses bounded); spanning-ness and |tree| == basins-1 are reachability / counting statements",
            "Kruskal == Boruvka weight; tree spans all basins reachable from the root",
            "tree entries are in non-decreasing weight order (needs a slot -> position ghost map; not done)",
            "loop-level Kruskal clauses with the full step contract (groups basin.kruskal.loop.tree / .classes, not registered: `after the scan the "
            "endpoints of every edge are in one class`, union-find re-initialised by resize+clear) did not terminate within 25-40 min on cvc5 while this "
            "module was built; the step-level clause (basin.kruskal.step) and the tree/reset slice (basin.kruskal.tree) are decided",
        ],
    ),
    "C09": dict(
        level="other",
        explanation="basin-graph part of C09 only: compute_tree_kruskal and connect_basins are proved with ARBITRARY pre-state of every scratch member "
                    "(m_tree, m_edges_indices, union-find, m_root, m_edges, m_edge_positions, m_edge_positions_tmp), so their contracts cannot depend on earlier calls.",
        undecided=["compute_tree_boruvka degree lists (m_low_degrees, m_large_degrees) are never cleared by the function: history independence rests on `both empty at exit`, "
                   "proved only for the re-queue decision (boruvka.main.requeue) and re-established on all graphs within the bounded groups"],
    ),
    "C01": dict(
        level="other",
        explanation="basin-graph part of C01 only: after update_routes_sinks_basic the pit of every tree edge with a pass is not its own receiver and its "
                    "receiver chain leaves its basin within two steps.",
        assumptions=[
            "update_routes_sinks_basic: tree entries are edge indices; an oriented tree edge with a pass is well-formed (two different basins < basins_count(), "
            "pass nodes are grid nodes lying in the basin of their side, the pit is the outlet of the inflow basin) -- input instances at the edge read "
            "(producers connect_basins / orient_edges / compute_basins, not all under contract)",
            "update_routes_sinks_basic loop: different tree edges flow INTO different basins (the oriented tree gives every basin but the root exactly one "
            "incoming edge) -- instance at the pair (ghost slot, current slot); producer orient_edges is not under contract",
            "outflow / inflow indices are read from the static constexpr members of the operator implementation on every run",
        ],
        undecided=["update_routes_sinks_carve (292-334): one tree edge is under contract (spec/orient.py, ghost chain); the loop over the tree is not",
                   "that the re-routed forest is acyclic and rooted at base levels is a reachability statement (bounded pipeline group not built)"],
    ),
}
