"""Registry: property id -> obligation groups and evidence metadata."""
import importlib

MODULES = ["iterators", "opseq", "router", "mrouter", "fplemmas", "pool", "trimesh", "trimesh2", "pflood", "cache", "status", "raster", "distances", "sweeps", "accessors", "wrappers", "snapshot", "spl", "basin", "boruvka", "orient", "orders", "orders_u", "kernel", "adi", "accum_b", "memsafety"]

COMMON_TRUSTED = [
    "cbmc 6.11.0 + goto-instrument DFCC contract instrumentation + the SAT/SMT back end named per group",
    "mechanical C extraction (fv/extract.py): token rewrite rules with must-fire counts, see DESIGN.md 2.1 for what it drops",
    "container models in models/*.h (std::vector/stack/queue/priority_queue, unordered_set as characteristic function, xtensor element access as row-major flat buffers)",
]
COMMON_ASSUMPTIONS = [
    "size_t is 64-bit; node counts <= 2^40 (stated in each requires) so index arithmetic does not wrap",
    "IEEE-754 binary64 round-to-nearest-even, no fused contraction",
    "glue between the public API and the functions under contract (xtensor expression code, std::function, shared_ptr, type erasure) is unverified",
]

PROPS = {}
_GROUPS = {}


def _load():
    for m in MODULES:
        mod = importlib.import_module("spec." + m)
        for prop, groups in mod.GROUPS.items():
            lst = _GROUPS.setdefault(prop, [])
            for g in groups:
                if all(g.name != h.name for h in lst):
                    lst.append(g)
        for prop, meta in getattr(mod, "PROPS", {}).items():
            cur = PROPS.setdefault(prop, dict(level="proof", assumptions=[], undecided=[], unmechanised=[],
                                              trusted_base=[], explanation="", support=[]))
            for k, v in meta.items():
                if k == "level":
                    # the weakest level wins
                    if v != "proof":
                        cur["level"] = v
                elif isinstance(v, bool):
                    cur[k] = v
                elif k == "explanation":
                    cur["explanation"] = (cur["explanation"] + " " + v).strip()
                else:
                    cur[k] = cur.get(k, []) + list(v)


def groups_for(prop):
    return _GROUPS.get(prop, [])


_load()
