"""Order-dependent sweeps of the flow graph (DESIGN 3.5 ghost order witnesses, 3.2 instantiate-on-read,
3.9 induction-hypothesis instances).

  tilt             flow_operator_impl<FG, mst_sink_resolver>::fill_sinks_sloped   (sink_resolver.hpp, last function)  C01 / C02
  compute_donors   flow_graph_impl::compute_donors                                  (flow_graph_impl.hpp)               C06
  compute_basins   flow_graph_impl::compute_basins                                  (flow_graph_impl.hpp)               C19
  pits             flow_graph_impl::pits                                            (flow_graph_impl.hpp)               C19
  accumulate       flow_graph_impl::accumulate(acc, src)                            (flow_graph_impl.hpp)               C03
     accumulate_step   its loop body outlined as a function of the sweep turn
     accumulate        the sweep with the body replaced by a call, closed by a loop contract

The traversal order `m_dfs_indices` is an INPUT of every sweep.  Its well-formedness (the "order contract",
i.e. the postconditions C06 asks of the order producers) is supplied through harness-owned ghost arrays:

  POS[v]   position of node v in the order (inverse permutation):      dfs[POS[v]] == v,  POS[dfs[p]] == p
  SEG[p]   position of the last root (own receiver) at or before p:    SEG[p] <= p, dfs[SEG[p]] is a root,
           no root at a position in (SEG[p], p];  a non-root node and its receiver have the same SEG
           ("each root is immediately followed by its whole subtree")
  CNT[p]   number of unmasked roots at positions < p (a definition, not an assumption: CNT[0] = 0,
           CNT[p+1] = CNT[p] + [dfs[p] is an unmasked root])

The universally quantified contract is instantiated (a) in `requires` at the ghost node(s) and (b) by the read
accessor of `m_dfs_indices` at the position being read (instantiate-on-read, DESIGN 3.2); `m_dfs_indices`,
the receiver tables and the ghost arrays are outside every write frame (checked by `assigns`)."""
from fv.extract import Unit, R, V, RB
from fv.runner import Group
from spec.graphmodel import is_masked, is_base_level, conj, disj, NMAX_NODES

IMPL_H = "include/fastscapelib/flow/flow_graph_impl.hpp"
SINK_H = "include/fastscapelib/flow/sink_resolver.hpp"

NONDET = "size_t nondet_size_t(void); _Bool nondet_bool(void); double nondet_double(void);\n"
CANARY = '    __CPROVER_assert(0, "canary: postcondition point reachable");\n'
SAME_D = "#define SAME_D(x, y) ((x) == (y) || (isnan(x) && isnan(y)))  /* \"unchanged\" for a double cell */\n"

# ====================================================================================================
# C01 / C02 -- the spanning-tree resolver's tilt loop
# ====================================================================================================

TILT_PRE = SAME_D + r"""
/* ghost state: an arbitrary node G, its position PG in the bottom-up order, the inverse permutation POS (harness-owned),
 * and one arbitrary point (NA_X, NA_Y) of the graph of nextafter(., +inf) */
size_t G, PG;
double NA_X, NA_Y;
/* std::nextafter(x, +inf): the assumed contract of models/fsl.h (strictly larger unless +inf / NaN) plus determinism:
 * the same argument always gives the same result (NA_X -> NA_Y).  The harness constrains (NA_X, NA_Y) to satisfy the
 * first three clauses, so the contract is satisfiable. */
double sw_nextafter_up(double x)
__CPROVER_ensures((!isnan(x) && !(isinf(x) && x > 0)) ==> (__CPROVER_return_value > x))
__CPROVER_ensures((isinf(x) && x > 0) ==> (__CPROVER_return_value == x))
__CPROVER_ensures(isnan(x) ==> isnan(__CPROVER_return_value))
__CPROVER_ensures(x == NA_X ==> __CPROVER_return_value == NA_Y)
__CPROVER_assigns()
;
#define TREC(x) m_receivers[(x) * REC_W]
#define BITS(x) (*(const uint64_t *) &(x))       /* the bit pattern of a double cell */
"""

TILT_DEFS = r"""
/* read of the (read-only) receiver table with the table's well-formedness instance: entries are nodes */
#define receivers(i, j) sw_rec(m_receivers, gsize, (i), (j))
#define fsl_nextafter_up(x) sw_nextafter_up(x)
#define irec_elev (*irec_elev_ref)
/* read of the traversal order at position p with the order-contract instance at p (DESIGN 3.2) */
#define SW_DFS(p) sw_tilt_dfs(m_dfs_indices, POS, gsize, (p))
"""

SW_REC = r"""
static inline size_t sw_rec(const size_t *m_receivers, size_t gsize, size_t i, size_t j)
{
    size_t v = m_receivers[FSL_IDX2(i, j, gsize, REC_W)];
    FSL_PRE(v < gsize);        /* receiver table well-formedness (router contract C04/C05): receivers are nodes */
    return v;
}
"""

TILT_ACCESSOR = SW_REC + r"""
static inline size_t sw_tilt_dfs(const size_t *m_dfs_indices, const size_t *POS, size_t gsize, size_t p)
{
    size_t v = m_dfs_indices[FSL_IDX1(p, gsize)];
    FSL_PRE(v < gsize);        /* order contract: entries are nodes */
    FSL_PRE(POS[v] == p);      /* order contract: POS is the inverse of the order (no node twice) */
    return v;
}
"""

TILT_VOCAB = [
    V(r"graph_impl\.size\(\)", "gsize"),
    V(r"graph_impl\.m_receivers\(", "receivers("),
    V(r"graph_impl\.receivers\(\)\(", "receivers("),
]

TILT_PARAMS = ("size_t gsize, const size_t *m_dfs_indices, const size_t *m_receivers, double *elevation, const size_t *POS")
TILT_ARGS = "gsize, m_dfs_indices, m_receivers, elevation, POS"

ABOVE = "(TREC(G) == G || elevation[G] > elevation[TREC(G)] || elevation[TREC(G)] == INFINITY)"

tilt = Unit(
    name="tilt", file=SINK_H,
    anchor=r"flow_operator_impl<FG, mst_sink_resolver, flow_graph_fixed_array_tag>::fill_sinks_sloped\(\s*graph_impl_type& graph_impl, data_array_type& elevation\)",
    sig="void tilt(%s)" % TILT_PARAMS,
    pre=TILT_PRE + TILT_ACCESSOR, defs=TILT_DEFS,
    rules=[
        # aliases of read-only members: deleted, the alias names are accessor macros
        R(r"const auto& dfs_indices = graph_impl\.dfs_indices\(\);", "", 1),
        R(r"const auto& receivers = graph_impl\.receivers\(\);", "", 1),
        # range-for over the order -> index loop, element read first (with the order-contract instance)
        R(r"for \(const auto& (\w+) : dfs_indices\)\s*\{",
          r"for (size_t dfs_k = 0; dfs_k < gsize; ++dfs_k)\n{ const size_t \1 = SW_DFS(dfs_k);", 1),
        # reference to a cell of the read-only receiver table: by value
        R(r"const auto& (\w+) = receivers\(", r"const size_t \1 = receivers(", 1),
        # reference to an elevation cell: kept a reference (pointer + macro irec_elev); the induction-hypothesis instance
        # "no elevation is NaN" is taken at this first access of the cell in the iteration (DESIGN 3.9)
        R(r"const auto& irec_elev = elevation\.flat\((\w+)\);",
          r"const double *const irec_elev_ref = &elevation.flat(\1); FSL_PRE(!isnan(*irec_elev_ref));", 1),
        R(r"auto (\w+)\s*=\s*std::nextafter\(", r"double \1 = std::nextafter(", 1),
    ] + TILT_VOCAB,
    contract=r"""
__CPROVER_requires(0 < gsize && gsize <= %(NMAX)s)
__CPROVER_requires(__CPROVER_is_fresh(m_dfs_indices, gsize * 8))
__CPROVER_requires(__CPROVER_is_fresh(m_receivers, gsize * REC_BYTES))
__CPROVER_requires(__CPROVER_is_fresh(elevation, gsize * 8))
__CPROVER_requires(__CPROVER_is_fresh(POS, gsize * 8))
/* order contract instantiated at the ghost node: G sits at position PG, its receiver is a node and, when different, earlier */
__CPROVER_requires(G < gsize && PG < gsize && POS[G] == PG && m_dfs_indices[PG] == G)
__CPROVER_requires(TREC(G) < gsize && POS[TREC(G)] < gsize && (TREC(G) != G ==> POS[TREC(G)] < PG))
/* input range: no NaN (instance at G; instances at the receivers read are taken on read) */
__CPROVER_requires(!isnan(elevation[G]))
/* (NA_X, NA_Y) is a point of a function satisfying the assumed nextafter contract */
__CPROVER_requires((!isnan(NA_X) && !(isinf(NA_X) && NA_X > 0)) ==> NA_Y > NA_X)
__CPROVER_requires((isinf(NA_X) && NA_X > 0) ==> NA_Y == NA_X)
__CPROVER_requires(isnan(NA_X) ==> isnan(NA_Y))
__CPROVER_assigns(__CPROVER_object_whole(elevation))
/* C01 msttilt.above_receiver */
__CPROVER_ensures(%(ABOVE)s)
/* C02 never_below_input */
__CPROVER_ensures(elevation[G] >= __CPROVER_old(elevation[G]))
/* C02 terminals_bit_identical: a node that is its own receiver is never written */
__CPROVER_ensures(TREC(G) == G ==> BITS(elevation[G]) == __CPROVER_old(BITS(elevation[G])))
/* C02 one_increment_per_step: a written value is nextafter(final elevation of the receiver) */
__CPROVER_ensures(elevation[G] == __CPROVER_old(elevation[G]) || (elevation[TREC(G)] == NA_X ==> elevation[G] == NA_Y))
/* C02: only nodes that were not above their receiver are raised */
__CPROVER_ensures(elevation[G] == __CPROVER_old(elevation[G]) || __CPROVER_old(elevation[G]) <= elevation[TREC(G)])
""" % dict(NMAX=NMAX_NODES, ABOVE=ABOVE),
    loops={0: r"""
__CPROVER_assigns(dfs_k, __CPROVER_object_whole(elevation))
__CPROVER_loop_invariant(dfs_k <= gsize)
__CPROVER_loop_invariant(!isnan(elevation[G]))
__CPROVER_loop_invariant(dfs_k <= PG ==> elevation[G] == __CPROVER_loop_entry(elevation[G]))
__CPROVER_loop_invariant(elevation[G] >= __CPROVER_loop_entry(elevation[G]))
__CPROVER_loop_invariant(TREC(G) == G ==> BITS(elevation[G]) == __CPROVER_loop_entry(BITS(elevation[G])))
__CPROVER_loop_invariant(dfs_k > PG ==> %(ABOVE)s)
__CPROVER_loop_invariant(dfs_k > PG ==> (elevation[G] == __CPROVER_loop_entry(elevation[G]) || (elevation[TREC(G)] == NA_X ==> elevation[G] == NA_Y)))
__CPROVER_loop_invariant(dfs_k > PG ==> (elevation[G] == __CPROVER_loop_entry(elevation[G]) || __CPROVER_loop_entry(elevation[G]) <= elevation[TREC(G)]))
__CPROVER_decreases(gsize - dfs_k)
""" % dict(ABOVE=ABOVE)},
)


def tilt_harness():
    return NONDET + r"""
void h_tilt(void)
{
    size_t gsize = nondet_size_t();
    const size_t *m_dfs_indices, *m_receivers, *POS; double *elevation;
    G = nondet_size_t(); PG = nondet_size_t(); NA_X = nondet_double(); NA_Y = nondet_double();
    tilt(%s);
%s}
""" % (TILT_ARGS, CANARY)


def tilt_groups():
    return [Group(
        name="sweeps.tilt", units=[tilt], harness=tilt_harness(), entry="h_tilt", enforce="tilt",
        replace=["sw_nextafter_up"], loop_contracts=True, defines=["REC_W=1", "REC_BYTES=8"],
        backend="sat", timeout=600, min_obligations=700, object_bits=8,
        clause="spanning-tree resolver tilt loop, any number of nodes, any order satisfying the order contract: afterwards every node is its own "
               "receiver or strictly above its receiver (or the receiver is at +inf); no elevation decreases; own-receiver nodes are bit-identical; "
               "a changed value is nextafter(+inf) of the receiver's final elevation and the node was not above its receiver before")]



# ====================================================================================================
# C06 -- flow_graph_impl::compute_donors (rebuild of the donor table after the spanning-tree re-routing)
# ====================================================================================================
# vocabulary of flow_graph_impl member functions (pure renamings: member -> parameter / accessor macro)
IMPL_VOCAB = [
    V(r"m_outlets\.size\(\)", "(*m_outlets_n)"),
    V(r"m_outlets\.clear\(\)", "(*m_outlets_n = 0)"),
    V(r"m_pits\.size\(\)", "(*m_pits_n)"),
    V(r"m_pits\.clear\(\)", "(*m_pits_n = 0)"),
    V(r"(?<![\w.])size\(\)", "gsize"),
    V(r"m_grid\.size\(\)", "gsize"),
    V(r"(?<![\w.])is_masked\(", "is_masked(m_mask, m_mask_initialized, gsize, "),
    V(r"(?<![\w.])is_base_level\(", "is_base_level(base_level, gsize, "),
    V(r"\bm_receivers_count\[([^\[\]]*)\]", r"m_receivers_count(\1)"),
    V(r"\bm_donors_count\[([^\[\]]*)\]", r"m_donors_count(\1)"),
]

DONORS_PRED = r"""
size_t G, GR, GS, GS2;     /* ghost node, ghost donor row, two ghost slots */
#define REC(x) m_receivers[(x) * REC_W]
#define DON(r, s) m_donors[(r) * DON_W + (s)]
#define CNT(r) m_donors_count[(r)]
/* xtensor `a.fill(v)`: element-wise (assumed xtensor semantics); the ghost row GR is what the proof observes */
void sw_fill_sz(size_t *a, size_t n, size_t v)
__CPROVER_requires(n <= %s)
__CPROVER_assigns(__CPROVER_object_whole(a))
__CPROVER_ensures(GR < n ==> a[GR] == v)
;
""" % NMAX_NODES

SW_CAP = r"""
static inline size_t sw_cap(size_t c)
{
    FSL_PRE(c < DON_W);        /* stated row-capacity precondition instance */
    return c;
}
"""

DONORS_DEFS = r"""
#define m_receivers(i, j) sw_rec(m_receivers, gsize, (i), (j))
#define m_donors(i, j) m_donors[FSL_IDX2(i, j, gsize, DON_W)]
#define m_donors_count(i) m_donors_count[FSL_IDX1(i, gsize)]
"""

# donor-table predicates for the ghost row GR (same style as spec/router.py), written from the property statement:
# "the donor table is the exact inverse of the receiver table (for distinct nodes)"
D_SOUND = "((GS < CNT(GR) && GS < DON_W) ==> (DON(GR, GS) < %s && REC(DON(GR, GS)) == GR && DON(GR, GS) != GR))"
D_DISTINCT = "((GS < GS2 && GS2 < CNT(GR) && GS2 < DON_W) ==> DON(GR, GS) < DON(GR, GS2))"


def d_complete(upto, don_w):
    return "((G < %s && REC(G) == GR && G != GR) ==> %s)" % (
        upto, "(" + " || ".join("(%d < CNT(GR) && DON(GR, %d) == G)" % (s, s) for s in range(don_w)) + ")")


def make_donors(don_w):
    inv = dict(SOUND_N=D_SOUND % "gsize", SOUND_I=D_SOUND % "i", DISTINCT=D_DISTINCT,
               COMPLETE_N=d_complete("gsize", don_w), COMPLETE_I=d_complete("i", don_w), NMAX=NMAX_NODES)
    return Unit(
        name="compute_donors", file=IMPL_H,
        anchor=r"void flow_graph_impl<G, S, flow_graph_fixed_array_tag>::compute_donors\(\)",
        sig="void compute_donors(size_t gsize, const size_t *m_receivers, size_t *m_donors, size_t *m_donors_count)",
        pre=DONORS_PRED + SW_REC + SW_CAP, defs=DONORS_DEFS,
        rules=[
            R(r"m_donors_count\.fill\(0\);", "sw_fill_sz(m_donors_count, gsize, 0);", None),
            R(r"auto (\w+) = m_receivers\(", r"size_t \1 = m_receivers(", 1),
            # donor row capacity (#donors(r) <= n_neighbors_max + 1) is a counting argument over the neighbour relation:
            # not mechanised; instantiated as a stated precondition wherever a donor count is used as a slot index
            # (same justification as spec/router.py)
            V(r"\bm_donors\(([^,()]+),\s*(m_donors_count\([^()]+\)(?:\+\+)?)\)", r"m_donors(\1, sw_cap(\2))"),
        ] + IMPL_VOCAB,
        contract=r"""
__CPROVER_requires(0 < gsize && gsize <= %(NMAX)s)
__CPROVER_requires(__CPROVER_is_fresh(m_receivers, gsize * REC_BYTES))
__CPROVER_requires(__CPROVER_is_fresh(m_donors, gsize * DON_BYTES))
__CPROVER_requires(__CPROVER_is_fresh(m_donors_count, gsize * 8))
__CPROVER_requires(G < gsize && GR < gsize && GS < DON_W && GS2 < DON_W)
/* nothing is required of the previous contents of the donor table (scratch state is arbitrary, C09) */
__CPROVER_assigns(__CPROVER_object_whole(m_donors), __CPROVER_object_whole(m_donors_count))
__CPROVER_ensures(%(SOUND_N)s)
__CPROVER_ensures(%(DISTINCT)s)
__CPROVER_ensures(%(COMPLETE_N)s)
""" % inv,
        loops={0: r"""
__CPROVER_assigns(i, __CPROVER_object_whole(m_donors), __CPROVER_object_whole(m_donors_count))
__CPROVER_loop_invariant(i <= gsize)
__CPROVER_loop_invariant(%(SOUND_I)s)
__CPROVER_loop_invariant(%(DISTINCT)s)
__CPROVER_loop_invariant(%(COMPLETE_I)s)
__CPROVER_decreases(gsize - i)
""" % inv},
    )


def donors_groups(nb, tier="quick"):
    don_w = nb + 1
    h = NONDET + r"""
void h_compute_donors(void)
{
    size_t gsize = nondet_size_t();
    const size_t *m_receivers; size_t *m_donors, *m_donors_count;
    G = nondet_size_t(); GR = nondet_size_t(); GS = nondet_size_t(); GS2 = nondet_size_t();
    { size_t unused[1]; sw_fill_sz(unused, 1, 0); } /* keeps the replaced model function referenced (goto-instrument aborts otherwise) */
    compute_donors(gsize, m_receivers, m_donors, m_donors_count);
%s}
""" % CANARY
    return [Group(
        name="sweeps.donors.w%d" % don_w, units=[make_donors(don_w)], harness=h, entry="h_compute_donors",
        enforce="compute_donors", replace=["sw_fill_sz"], loop_contracts=True,
        defines=["REC_W=1", "REC_BYTES=8", "DON_W=%d" % don_w, "DON_BYTES=%d" % (8 * don_w)],
        backend="sat", timeout=(600 if tier == "quick" else 1800), min_obligations=500, tier=tier, object_bits=8,
        clause="compute_donors, any number of nodes, arbitrary previous table contents: every stored donor d of row r is a node != r with "
               "receiver r (sound), a row holds no node twice (slots strictly increasing), every node != r with receiver r is in row r "
               "(complete); row width %d" % don_w)]



# ====================================================================================================
# C19 -- flow_graph_impl::compute_basins and flow_graph_impl::pits
# ====================================================================================================
BASINS_PRED = r"""
/* ghost state: two arbitrary nodes G, G2 with their positions PG, PG2 in the bottom-up order, an arbitrary outlet slot GS */
size_t G, PG, G2, PG2, GS;
#define REC(x) m_receivers[(x) * REC_W]
#define MASKED(x) (m_mask_initialized && m_mask[(x)])
#define UROOT(x) (!MASKED(x) && REC(x) == (x))      /* unmasked outlet: an unmasked node that is its own receiver */
"""

def basins_accessor(part):
    inst = {"propagation": "    FSL_PRE((SEG[PG] < p && p <= PG) ==> REC(v) != v);              /* SEG[PG] is the LAST root position at or before PG */\n",
            "labels": "    FSL_PRE(CNT[p + 1] == CNT[p] + (UROOT(v) ? 1 : 0));             /* definition of the ghost counter CNT at p */\n"}[part]
    return r"""
/* read of the bottom-up order at position p, with the instances at p of the order contract (DESIGN 3.2) */
static inline size_t sw_basins_dfs(const size_t *m_dfs_indices, const size_t *m_receivers, const _Bool *m_mask, _Bool m_mask_initialized,
                                   const size_t *POS, const size_t *SEG, const size_t *CNT, size_t gsize, size_t p)
{
    size_t v = m_dfs_indices[FSL_IDX1(p, gsize)];
    FSL_PRE(v < gsize);                                             /* entries are nodes */
    FSL_PRE(POS[v] == p);                                           /* POS is the inverse of the order: no node twice */
    FSL_PRE(REC(v) < gsize);                                        /* receivers are nodes */
%s    return v;
}
""" % inst


BASINS_DEFS = r"""
#define m_receivers(i, j) m_receivers[FSL_IDX2(i, j, gsize, REC_W)]
#define m_basins(i) m_basins[FSL_IDX1(i, gsize)]
#define SW_DFS(p) sw_basins_dfs(m_dfs_indices, m_receivers, m_mask, m_mask_initialized, POS, SEG, CNT, gsize, (p))
"""

# std::vector<size_type> modelled as (buffer, length); the buffer has room for gsize entries and every push_back carries the
# model-adequacy obligation "length < gsize" (the real vector reallocates and never overflows).
VEC_RULES = [
    R(r"\bm_outlets\.push_back\(([^()]*)\);",
      r'{ FSL_CHECK(*m_outlets_n < gsize, "vector model: m_outlets holds at most n entries"); m_outlets[*m_outlets_n] = (\1); ++*m_outlets_n; }', None),
    R(r"\bm_pits\.push_back\(([^()]*)\);",
      r'{ FSL_CHECK(*m_pits_n < gsize, "vector model: m_pits holds at most n entries"); m_pits[*m_pits_n] = (\1); ++*m_pits_n; }', None),
]

BASINS_PARAMS = ("size_t gsize, const size_t *m_dfs_indices, const size_t *m_receivers, const _Bool *m_mask, _Bool m_mask_initialized, "
                 "size_t *m_basins, size_t *m_outlets, size_t *m_outlets_n, const size_t *POS, const size_t *SEG, const size_t *CNT")
BASINS_ARGS = "gsize, m_dfs_indices, m_receivers, m_mask, m_mask_initialized, m_basins, m_outlets, m_outlets_n, POS, SEG, CNT"


def ghost_node_requires(g, pg, part):
    """order-contract and table well-formedness instances at a ghost node"""
    r = r"""
__CPROVER_requires(%(g)s < gsize && %(pg)s < gsize && POS[%(g)s] == %(pg)s && m_dfs_indices[%(pg)s] == %(g)s && REC(%(g)s) < gsize)
"""
    if part == "propagation":
        r += r"""
__CPROVER_requires(POS[REC(%(g)s)] < gsize && m_dfs_indices[POS[REC(%(g)s)]] == REC(%(g)s))
/* a node that is not its own receiver comes after its receiver, inside the same root segment */
__CPROVER_requires(REC(%(g)s) != %(g)s ==> (POS[REC(%(g)s)] < %(pg)s && SEG[POS[REC(%(g)s)]] == SEG[%(pg)s] && SEG[POS[REC(%(g)s)]] <= POS[REC(%(g)s)]))
/* receiver-table well-formedness (router contract, C04: receivers are unmasked): an unmasked node never drains into a masked one */
__CPROVER_requires(!MASKED(%(g)s) ==> !MASKED(REC(%(g)s)))
"""
    return r % dict(g=g, pg=pg)


B_MASKED = "(MASKED(G) ==> m_basins[G] == SIZE_MAX)"
B_SAME = "((!MASKED(G) && REC(G) != G) ==> m_basins[G] == m_basins[REC(G)])"
B_ROOT = "(UROOT(%(g)s) ==> (m_basins[%(g)s] == CNT[%(pg)s] && CNT[%(pg)s] < *m_outlets_n && m_outlets[CNT[%(pg)s]] == %(g)s))"
B_INCR = "((UROOT(G) && UROOT(G2) && PG < PG2) ==> m_basins[G] < m_basins[G2])"
B_SLOT = "(GS < *m_outlets_n ==> (m_outlets[GS] < gsize && UROOT(m_outlets[GS]) && m_basins[m_outlets[GS]] == GS))"


def make_basins(part):
    d = dict(NMAX=NMAX_NODES, GHOST1=ghost_node_requires("G", "PG", part), GHOST2=ghost_node_requires("G2", "PG2", "labels"),
             MASKED=B_MASKED, SAME=B_SAME, ROOT1=B_ROOT % dict(g="G", pg="PG"), ROOT2=B_ROOT % dict(g="G2", pg="PG2"), INCR=B_INCR, SLOT=B_SLOT)
    contract = r"""
__CPROVER_requires(0 < gsize && gsize <= %(NMAX)s)
__CPROVER_requires(__CPROVER_is_fresh(m_dfs_indices, gsize * 8))
__CPROVER_requires(__CPROVER_is_fresh(m_receivers, gsize * REC_BYTES))
__CPROVER_requires(__CPROVER_is_fresh(m_mask, gsize))
__CPROVER_requires(__CPROVER_is_fresh(m_basins, gsize * 8))
__CPROVER_requires(__CPROVER_is_fresh(m_outlets, gsize * 8))
__CPROVER_requires(__CPROVER_is_fresh(m_outlets_n, 8))
__CPROVER_requires(__CPROVER_is_fresh(POS, gsize * 8))
__CPROVER_requires(__CPROVER_is_fresh(SEG, gsize * 8))
__CPROVER_requires(__CPROVER_is_fresh(CNT, gsize * 8 + 8))
%(GHOST1)s
/* previous contents of m_basins / m_outlets are arbitrary (repeated calls, C09) */
__CPROVER_assigns(__CPROVER_object_whole(m_basins), __CPROVER_object_whole(m_outlets), *m_outlets_n)
""" % d
    inv = r"""
__CPROVER_assigns(dfs_k, current_basin, __CPROVER_object_whole(m_basins), __CPROVER_object_whole(m_outlets), *m_outlets_n)
__CPROVER_loop_invariant(dfs_k <= gsize)
"""
    if part == "propagation":
        contract += r"""
/* C19: masked => reserved maximum label */
__CPROVER_ensures(%(MASKED)s)
/* C19: every unmasked node has the label of its receiver */
__CPROVER_ensures(%(SAME)s)
""" % d
        inv += r"""
/* (these two only carry the authors' assert and the vector-model capacity check in this group) */
__CPROVER_loop_invariant(*m_outlets_n == current_basin + 1 && *m_outlets_n <= dfs_k)
__CPROVER_loop_invariant(dfs_k > PG ==> %(MASKED)s)
/* label propagation: between the receiver's turn and G's turn the current label is the receiver's label */
__CPROVER_loop_invariant((!MASKED(G) && REC(G) != G && POS[REC(G)] < dfs_k && dfs_k <= PG) ==> m_basins[REC(G)] == current_basin)
__CPROVER_loop_invariant(dfs_k > PG ==> %(SAME)s)
""" % d
    else:
        contract += r"""
%(GHOST2)s
__CPROVER_requires(CNT[0] == 0)
/* C19: an unmasked outlet is labelled with the number of unmasked outlets before it in bottom-up order (consecutive from 0)
 *      and is stored in the outlet list at that index */
__CPROVER_ensures(%(ROOT1)s)
__CPROVER_ensures(%(INCR)s)
/* C19: number of labels == number of unmasked outlets; every entry of the outlet list is an unmasked outlet carrying its slot as label */
__CPROVER_ensures(*m_outlets_n == CNT[gsize] && *m_outlets_n <= gsize)
__CPROVER_ensures(%(SLOT)s)
""" % d
        inv += r"""
__CPROVER_loop_invariant(*m_outlets_n == CNT[dfs_k] && current_basin + 1 == CNT[dfs_k] && CNT[dfs_k] <= dfs_k)
__CPROVER_loop_invariant(dfs_k > PG ==> (%(ROOT1)s && (UROOT(G) ==> CNT[PG] + 1 <= CNT[dfs_k])))
__CPROVER_loop_invariant(dfs_k > PG2 ==> (%(ROOT2)s))
__CPROVER_loop_invariant((dfs_k > PG && dfs_k > PG2) ==> %(INCR)s)
__CPROVER_loop_invariant(GS < *m_outlets_n ==> (m_outlets[GS] < gsize && POS[m_outlets[GS]] < dfs_k && UROOT(m_outlets[GS]) && m_basins[m_outlets[GS]] == GS))
""" % d
    inv += "__CPROVER_decreases(gsize - dfs_k)\n"
    return Unit(
        name="compute_basins", file=IMPL_H,
        anchor=r"void flow_graph_impl<G, S, flow_graph_fixed_array_tag>::compute_basins\(\)",
        sig="void compute_basins(%s)" % BASINS_PARAMS,
        pre=BASINS_PRED + basins_accessor(part), defs=BASINS_DEFS,
        rules=[
            R(r"for \(const auto& (\w+) : nodes_indices_bottomup\(\)\)\s*\{",
              r"for (size_t dfs_k = 0; dfs_k < gsize; ++dfs_k)\n{ const size_t \1 = SW_DFS(dfs_k);", 1),
        ] + VEC_RULES + IMPL_VOCAB,
        contract=contract, loops={0: inv},
    )


def basins_groups():
    h = NONDET + r"""
void h_compute_basins(void)
{
    size_t gsize = nondet_size_t();
    const size_t *m_dfs_indices, *m_receivers, *POS, *SEG, *CNT; const _Bool *m_mask; _Bool m_mask_initialized = nondet_bool();
    size_t *m_basins, *m_outlets, *m_outlets_n;
    G = nondet_size_t(); PG = nondet_size_t(); G2 = nondet_size_t(); PG2 = nondet_size_t(); GS = nondet_size_t();
    compute_basins(%s);
%s}
""" % (BASINS_ARGS, CANARY)
    clause = {
        "propagation": "masked => SIZE_MAX; an unmasked node that is not its own receiver has the label of its receiver (label propagation "
                       "along the bottom-up order, using the root-segment witness SEG); the authors' assert outlets.size() == last label + 1",
        "labels": "an unmasked outlet's label = number of unmasked outlets before it in bottom-up order (consecutive from 0, strictly increasing "
                  "along the order) and outlets[label] = node; outlets.size() = number of unmasked outlets; every outlet-list entry is an "
                  "unmasked outlet labelled with its slot; the authors' assert"}
    return [Group(
        name="sweeps.basins.%s" % part, units=[is_masked, make_basins(part)], harness=h, entry="h_compute_basins", enforce="compute_basins",
        loop_contracts=True, defines=["REC_W=1", "REC_BYTES=8"], backend="sat", timeout=600, min_obligations=(700 if part == "propagation" else 1200), object_bits=8,
        clause="compute_basins, any number of nodes, any mask, any bottom-up order satisfying the order contract, arbitrary previous contents: " +
               clause[part]) for part in ("propagation", "labels")]


# ---------------------------------------------------------------------------------------------------- pits
PITS_PRED = r"""
/* ghost state: an arbitrary outlet slot GS, an arbitrary pit slot GP; PCNT[k] = number of non-base-level entries among outlets[0..k)
 * (a definition: PCNT[0] = 0, PCNT[k+1] = PCNT[k] + [outlets[k] is not a base level]); QQ = the characteristic function of an arbitrary
 * node property shared by every outlet entry (used to state pits subset-of outlets without an existential) */
size_t GS, GP;
#define BASE(x) (base_level[(x)] != 0)
"""

PITS_ACCESSOR = r"""
static inline size_t sw_outlet(const size_t *m_outlets, const size_t *m_outlets_n, const _Bool *base_level, const size_t *PCNT, const _Bool *QQ,
                               size_t gsize, size_t k)
{
    size_t v = m_outlets[FSL_IDX1(k, *m_outlets_n)];
    FSL_PRE(v < gsize);                                       /* outlet entries are nodes (compute_basins postcondition) */
    FSL_PRE(QQ[v]);                                           /* instance of "every outlet entry has property QQ" */
    FSL_PRE(PCNT[k + 1] == PCNT[k] + (BASE(v) ? 0 : 1));      /* definition of the ghost counter PCNT at k */
    return v;
}
"""

PITS_DEFS = r"""
#define SW_OUTLET(k) sw_outlet(m_outlets, m_outlets_n, base_level, PCNT, QQ, gsize, (k))
"""

PITS_PARAMS = ("size_t gsize, const size_t *m_outlets, const size_t *m_outlets_n, const _Bool *base_level, size_t *m_pits, size_t *m_pits_n, "
               "const size_t *PCNT, const _Bool *QQ, size_t base_levels_size")
PITS_ARGS = "gsize, m_outlets, m_outlets_n, base_level, m_pits, m_pits_n, PCNT, QQ, nondet_size_t()"

P_KEEP = "((GS < %s && !BASE(m_outlets[GS])) ==> (PCNT[GS] < *m_pits_n && m_pits[PCNT[GS]] == m_outlets[GS]))"
P_EACH = "(GP < *m_pits_n ==> (m_pits[GP] < gsize && !BASE(m_pits[GP]) && QQ[m_pits[GP]]))"

pits = Unit(
    name="pits", file=IMPL_H,
    anchor=r"auto flow_graph_impl<G, S, flow_graph_fixed_array_tag>::pits\(\)\s*->\s*const std::vector<size_type>&",
    sig="void pits(%s)" % PITS_PARAMS,
    pre=PITS_PRED + PITS_ACCESSOR, defs=PITS_DEFS,
    rules=[
        R(r"for \((?:const )?auto&? (\w+) : m_outlets\)\s*\{",
          r"for (size_t out_k = 0; out_k < *m_outlets_n; ++out_k)\n{ const size_t \1 = SW_OUTLET(out_k);", 1),
        V(r"return m_pits;", "return; /* the caller reads (m_pits, m_pits_n) */"),
        # size of the base-level set: a value the function may read (any value: masked base levels are not outlets, so it is
        # unrelated to the number of outlets)
        V(r"m_base_levels\.size\(\)", "base_levels_size"),
    ] + VEC_RULES + IMPL_VOCAB,
    contract=r"""
__CPROVER_requires(0 < gsize && gsize <= %(NMAX)s)
__CPROVER_requires(__CPROVER_is_fresh(m_outlets_n, 8) && *m_outlets_n <= gsize)
__CPROVER_requires(__CPROVER_is_fresh(m_outlets, gsize * 8))
__CPROVER_requires(__CPROVER_is_fresh(base_level, gsize))
__CPROVER_requires(__CPROVER_is_fresh(m_pits, gsize * 8))
__CPROVER_requires(__CPROVER_is_fresh(m_pits_n, 8))
__CPROVER_requires(__CPROVER_is_fresh(PCNT, gsize * 8 + 8))
__CPROVER_requires(__CPROVER_is_fresh(QQ, gsize))
__CPROVER_requires(PCNT[0] == 0)
/* instances at the ghost outlet slot */
__CPROVER_requires(GS < *m_outlets_n ==> (m_outlets[GS] < gsize && PCNT[GS + 1] == PCNT[GS] + (BASE(m_outlets[GS]) ? 0 : 1)))
__CPROVER_assigns(__CPROVER_object_whole(m_pits), *m_pits_n)
/* C19: pits = outlets filtered by "not a base level", order preserved: the j-th non-base-level outlet is pit number j */
__CPROVER_ensures(%(KEEP_N)s)
__CPROVER_ensures(*m_pits_n == PCNT[*m_outlets_n])
/* every pit is a node that is not a base level and has every property shared by all outlet entries (i.e. it is one of them) */
__CPROVER_ensures(%(EACH)s)
""" % dict(NMAX=NMAX_NODES, KEEP_N=P_KEEP % "*m_outlets_n", EACH=P_EACH),
    loops={0: r"""
__CPROVER_assigns(out_k, __CPROVER_object_whole(m_pits), *m_pits_n)
__CPROVER_loop_invariant(out_k <= *m_outlets_n)
__CPROVER_loop_invariant(*m_pits_n == PCNT[out_k] && PCNT[out_k] <= out_k)
__CPROVER_loop_invariant(GS < out_k ==> PCNT[GS + 1] <= PCNT[out_k])
__CPROVER_loop_invariant(%(KEEP_K)s)
__CPROVER_loop_invariant(%(EACH)s)
__CPROVER_decreases(*m_outlets_n - out_k)
""" % dict(KEEP_K=P_KEEP % "out_k", EACH=P_EACH)},
)


def pits_groups():
    h = NONDET + r"""
void h_pits(void)
{
    size_t gsize = nondet_size_t();
    const size_t *m_outlets, *m_outlets_n, *PCNT; const _Bool *base_level, *QQ; size_t *m_pits, *m_pits_n;
    GS = nondet_size_t(); GP = nondet_size_t();
    pits(%s);
%s}
""" % (PITS_ARGS, CANARY)
    return [Group(
        name="sweeps.pits", units=[is_base_level, pits], harness=h, entry="h_pits", enforce="pits", replay="replay/routing.cpp",
        loop_contracts=True, backend="sat", timeout=600, min_obligations=600, object_bits=8,
        clause="pits(), any outlet list, any base-level set, arbitrary previous contents: the j-th outlet entry that is not a base level is pit "
               "number j (filter, order preserved), pits.size() = number of such entries, every pit is a non-base-level member of the outlet list")]



# ====================================================================================================
# C03 -- flow_graph_impl::accumulate(acc, src)
# ====================================================================================================
# Glue: `xt::broadcast(src, shape)` / `src_arr(inode)` is modelled as an array src[n] (a scalar source is the constant array),
# `m_grid.nodes_areas(inode)` as an array area[n].
#
# Turn k of the sweep (k = 0 .. n-1) processes the node at position n-1-k of the bottom-up order (reverse iteration).
#
# Floating-point operations.  The two products of the body are abstracted as deterministic functions keyed on their operands
# (DESIGN 3.4; same encoding as slope_abstraction in spec/graphmodel.py):
#     area(v) * src(v)         -> sw_mul_local(a, s):  (a, s) == (G_AREA, G_SRC)  =>  result == GLOC
#     acc(v) * weight(v, r)    -> sw_mul_w(a, w):      (a, w) == (GA, GW[r])      =>  result == GP[r]
# In the "eq" variant (step equation) the additions `x += y` are abstracted the same way,
#     x + y                    -> sw_add(x, y):        (x, y) == (AX[i], AY[i])   =>  result == AR[i]      (i = 0..REC_W; point REC_W is
#                                                                                                           the own-contribution point)
# because the equation needs the code's and the specification's copy of each operation in one obligation, and already ONE duplicated
# IEEE adder did not finish in 120 s on minisat, cadical, z3 and cvc5 (measured).  In the "nonneg" variant the additions are the IEEE
# additions (no duplicate needed) and the products carry the one-product sign facts that group sweeps.accumulate.fp_facts proves
# bit-precisely for the IEEE `*`.

ACC_PRED = SAME_D + r"""
/* ghost state: arbitrary nodes G, G2; ghost operand/result points of the abstracted operations */
size_t G, G2;
double G_AREA, G_SRC, GLOC;                       /* GLOC stands for fl(G_AREA * G_SRC) */
double GA, GW[REC_W], GP[REC_W];                  /* GP[r] stands for fl(GA * GW[r]) */
double AX[REC_W + 1], AY[REC_W + 1], AR[REC_W + 1]; /* AR[i] stands for fl(AX[i] + AY[i]) */
_Bool SW_OVF;                                     /* ghost flag: an infinite accumulated value was multiplied by a weight */
#define REC(x, s) m_receivers[(x) * REC_W + (s)]
#define RCNT(x) m_receivers_count[(x)]
#define WGT(x, s) m_receivers_weight[(x) * REC_W + (s)]
#define TURN_POS(k) (gsize - 1 - (k))                   /* position processed in turn k */
#define V_AT(k) m_dfs_indices[TURN_POS(k)]              /* node processed in turn k */
#define V_K V_AT(dfs_k)
"""


def acc_op_contracts(rec_w, mode):
    # the non-negativity clause needs no determinism of acc*weight (only its sign); the keyed clause is left out there
    keyed = conj("(a == GA && w == GW[%k]) ==> __CPROVER_return_value == GP[%k]", rec_w) if mode == "eq" else "1"
    addkey = conj("(x == AX[%k] && y == AY[%k]) ==> __CPROVER_return_value == AR[%k]", rec_w + 1)
    return r"""
double sw_mul_local(double a, double s)
__CPROVER_assigns()
__CPROVER_ensures((a == G_AREA && s == G_SRC) ==> __CPROVER_return_value == GLOC)
__CPROVER_ensures((a >= 0 && s >= 0 && a < INFINITY && s < INFINITY) ==> __CPROVER_return_value >= 0)
;
double sw_mul_w(double a, double w)
__CPROVER_assigns(SW_OVF)
__CPROVER_ensures(%s)
__CPROVER_ensures((a >= 0 && a < INFINITY && w >= 0 && w < INFINITY) ==> __CPROVER_return_value >= 0)
__CPROVER_ensures((!(a < 0) && w >= 0) ==> !(__CPROVER_return_value < 0))
__CPROVER_ensures(SW_OVF == (__CPROVER_old(SW_OVF) || (isinf(a) != 0)))
;
double sw_add(double x, double y)
__CPROVER_assigns()
__CPROVER_ensures(%s)
;
""" % (keyed, addkey)


def acc_ghost_consistent(rec_w, mode):
    """the ghost points belong to functions: equal operands, equal results; and they satisfy the sign facts"""
    parts = ["((G_AREA >= 0 && G_SRC >= 0 && G_AREA < INFINITY && G_SRC < INFINITY) ==> GLOC >= 0)"]
    if mode != "eq":
        return parts[0]
    for k in range(rec_w):
        parts.append("((GA >= 0 && GA < INFINITY && GW[%d] >= 0 && GW[%d] < INFINITY) ==> GP[%d] >= 0)" % (k, k, k))
        parts.append("((!(GA < 0) && GW[%d] >= 0) ==> !(GP[%d] < 0))" % (k, k))
        for j in range(k + 1, rec_w):
            parts.append("(GW[%d] == GW[%d] ==> GP[%d] == GP[%d])" % (k, j, k, j))
    for k in range(rec_w + 1):
        for j in range(k + 1, rec_w + 1):
            parts.append("((AX[%d] == AX[%d] && AY[%d] == AY[%d]) ==> AR[%d] == AR[%d])" % (k, j, k, j, k, j))
    return "(" + " && ".join(parts) + ")"


def acc_accessors(mode):
    rng = mode == "nonneg"
    return r"""
/* read of the bottom-up order at position p with the order-contract instance at p */
static inline size_t sw_acc_dfs(const size_t *m_dfs_indices, const size_t *POS, size_t gsize, size_t p)
{
    size_t v = m_dfs_indices[FSL_IDX1(p, gsize)];
    FSL_PRE(v < gsize);        /* entries are nodes */
    FSL_PRE(POS[v] == p);      /* POS is the inverse of the order */
    return v;
}
/* read of receiver slot (i, j) with the instances of: receivers are nodes; a receiver other than the node itself is earlier in the
 * bottom-up order (order contract, C06) */
static inline size_t sw_acc_rec(const size_t *m_receivers, const size_t *POS, size_t gsize, size_t i, size_t j)
{
    size_t v = m_receivers[FSL_IDX2(i, j, gsize, REC_W)];
    FSL_PRE(v < gsize);
    FSL_PRE(v == i || POS[v] < POS[i]);
    return v;
}
/* receivers_count <= table width (router contract, C05.width) */
static inline size_t sw_acc_rcnt(const size_t *m_receivers_count, size_t gsize, size_t i)
{
    size_t c = m_receivers_count[FSL_IDX1(i, gsize)];
    FSL_PRE(c <= REC_W);
    return c;
}
static inline double sw_acc_in(const double *a, size_t gsize, size_t i)
{
    double x = a[FSL_IDX1(i, gsize)];
%s    return x;
}
static inline double sw_acc_wgt(const double *m_receivers_weight, size_t gsize, size_t i, size_t j)
{
    double x = m_receivers_weight[FSL_IDX2(i, j, gsize, REC_W)];
%s    return x;
}
""" % (("    FSL_PRE(x >= 0 && x < INFINITY);   /* input range of the non-negativity clause: areas and sources are finite and >= 0 */\n" if rng else ""),
       ("    FSL_PRE(x >= 0 && x < INFINITY);   /* input range of the non-negativity clause: weights are finite and >= 0 */\n" if rng else ""))


def acc_defs(mode):
    add = ("#define SW_ADD(x, y) sw_add((x), (y))\n" if mode == "eq" else "#define SW_ADD(x, y) ((x) + (y))\n")
    return r"""
#define m_receivers(i, j) sw_acc_rec(m_receivers, POS, gsize, (i), (j))
#define m_receivers_count(i) sw_acc_rcnt(m_receivers_count, gsize, (i))
#define m_receivers_weight(i, j) sw_acc_wgt(m_receivers_weight, gsize, (i), (j))
#define area(i) sw_acc_in(area, gsize, (i))
#define src(i) sw_acc_in(src, gsize, (i))
#define SW_DFS(p) sw_acc_dfs(m_dfs_indices, POS, gsize, (p))
#define SW_MUL_LOCAL(a, s) sw_mul_local((a), (s))
#define SW_MUL_W(a, w) sw_mul_w((a), (w))
""" + add


ACC_VOCAB = [
    V(r"m_grid\.nodes_areas\(", "area("),
    V(r"\bsrc_arr\(", "src("),
] + IMPL_VOCAB

# the floating-point operations of the body (structural: the operator is replaced by the operation macro)
ACC_OP_RULES = [
    R(r"m_grid\.nodes_areas\(([^()]*)\) \* src_arr\(([^()]*)\)", r"SW_MUL_LOCAL(m_grid.nodes_areas(\1), src_arr(\2))", 1),
    # the transfer product: any scalar left operand (a cell read or a local holding one) times the slot's weight
    V(r"(acc\.flat\([^()]*\)|\b[a-z_]\w*) \* m_receivers_weight\(([^()]*)\)", r"SW_MUL_W(\1, m_receivers_weight(\2))"),
    V(r"const auto (\w+) = acc\.flat\(", r"const double \1 = acc.flat("),
    V(r"\bcontinue;", "return; /* `continue` of the outlined loop body */"),
    R(r"acc\.flat\((\w+)\) \+= ([^;]*);", r"acc.flat(\1) = SW_ADD(acc.flat(\1), \2);", None),
]

ACC_ANCHOR = r"void flow_graph_impl<G, S, flow_graph_fixed_array_tag>::accumulate\(data_array_type& acc,\s*T&& src\) const"
ACC_LOOP_HEAD = r"for \(auto (\w+) = nodes_indices\.rbegin\(\); \w+ != nodes_indices\.rend\(\);\s*\+\+\w+\)"

ACC_PARAMS = ("size_t gsize, const size_t *m_dfs_indices, const size_t *m_receivers, const size_t *m_receivers_count, "
              "const double *m_receivers_weight, const double *area, const double *src, double *acc, const size_t *POS")
ACC_ARGS = "gsize, m_dfs_indices, m_receivers, m_receivers_count, m_receivers_weight, area, src, acc, POS"

ACC_FRESH = r"""
__CPROVER_requires(0 < gsize && gsize <= %(NMAX)s)
__CPROVER_requires(__CPROVER_is_fresh(m_dfs_indices, gsize * 8))
__CPROVER_requires(__CPROVER_is_fresh(m_receivers, gsize * REC_BYTES))
__CPROVER_requires(__CPROVER_is_fresh(m_receivers_count, gsize * 8))
__CPROVER_requires(__CPROVER_is_fresh(m_receivers_weight, gsize * REC_BYTES))
__CPROVER_requires(__CPROVER_is_fresh(area, gsize * 8))
__CPROVER_requires(__CPROVER_is_fresh(src, gsize * 8))
__CPROVER_requires(__CPROVER_is_fresh(acc, gsize * 8))
__CPROVER_requires(__CPROVER_is_fresh(POS, gsize * 8))
/* order-contract instances at the ghost nodes */
__CPROVER_requires(G < gsize && POS[G] < gsize && m_dfs_indices[POS[G]] == G)
__CPROVER_requires(G2 < gsize && POS[G2] < gsize && m_dfs_indices[POS[G2]] == G2)
""" % dict(NMAX=NMAX_NODES)


def acc_points_at(node, r):
    return "(%d < RCNT(%s) && REC(%s, %d) == G)" % (r, node, node, r)


def acc_chain(rec_w, node, start):
    """values of acc[G] along the receiver slots of `node` (abstract additions): x_0 = start, x_{r+1} = slot r points to G ? AR[r] : x_r.
    Returns (hypothesis "the ghost addition points are the operands met along the chain", final value)."""
    x = start
    hyp = []
    xs = [x]
    for r in range(rec_w):
        pt = acc_points_at(node, r)
        hyp.append("(%s ==> (%s == AX[%d] && GP[%d] == AY[%d]))" % (pt, x, r, r, r))
        x = "(%s ? AR[%d] : %s)" % (pt, r, x)
        xs.append(x)
    acc_chain.values = xs
    return "(" + " && ".join(hyp) + ")", x


def acc_key(rec_w, node, accval):
    return "(%s == GA && %s)" % (accval, conj("%%k < RCNT(%s) ==> WGT(%s, %%k) == GW[%%k]" % (node, node), rec_w))


def acc_points(rec_w, node):
    return disj("%%k < RCNT(%s) && REC(%s, %%k) == G" % (node, node), rec_w)


IH_NONNEG = "(!(acc[%s] < 0) && (!SW_OVF ==> acc[%s] >= 0))"


def acc_step_clauses(rec_w, mode, vk, old, new, newv):
    """the per-turn clauses about acc[G]; `old`/`new` = value of acc[G] before/after the turn of node `vk`, `newv` = acc[vk] after it"""
    hyp, fin = acc_chain(rec_w, vk, old)
    d = dict(VK=vk, OLD=old, NEW=new, KEY=acc_key(rec_w, vk, newv), HYP=hyp, FIN=fin, POINTS=acc_points(rec_w, vk), W=rec_w)
    own = "((%(VK)s == G && area[G] == G_AREA && src[G] == G_SRC && %(OLD)s == AX[%(W)d] && GLOC == AY[%(W)d]) ==> SAME_D(%(NEW)s, AR[%(W)d]))" % d
    other = "((%(VK)s != G && %(KEY)s && %(HYP)s) ==> SAME_D(%(NEW)s, %(FIN)s))" % d
    untouched = "((%(VK)s != G && !%(POINTS)s) ==> SAME_D(%(NEW)s, %(OLD)s))" % d
    return own, other, untouched


def acc_inner_loop_contract(rec_w, mode):
    """loop contract of the receiver-slot loop (used instead of complete unwinding for wide tables): after the slots < r the value of acc[G]
    is the r-th value of the chain of the step equation; acc of the node of the turn does not change; finality; non-negativity"""
    entry = "__CPROVER_loop_entry(acc[G])"
    hyp, _ = acc_chain(rec_w, "V_K", entry)
    xs = acc_chain.values
    xsel = xs[rec_w]
    for k in reversed(range(rec_w)):
        xsel = "(r == %d ? %s : %s)" % (k, xs[k], xsel)
    before = disj("%k < r && %k < RCNT(V_K) && REC(V_K, %k) == G", rec_w)
    inv = r"""
__CPROVER_assigns(r, __CPROVER_object_whole(acc), SW_OVF)
__CPROVER_loop_invariant(r <= RCNT(V_K))
__CPROVER_loop_invariant(SAME_D(acc[V_K], __CPROVER_loop_entry(acc[V_K])))
__CPROVER_loop_invariant(TURN_POS(dfs_k) < POS[G] ==> SAME_D(acc[G], %(ENTRY)s))
""" % dict(ENTRY=entry)
    if mode == "eq":
        inv += r"""
__CPROVER_loop_invariant(TURN_POS(dfs_k) < POS[G2] ==> SAME_D(acc[G2], __CPROVER_loop_entry(acc[G2])))
__CPROVER_loop_invariant((V_K != G && %(KEY)s && %(HYP)s) ==> SAME_D(acc[G], %(XSEL)s))
__CPROVER_loop_invariant((V_K != G && !%(BEFORE)s) ==> SAME_D(acc[G], %(ENTRY)s))
""" % dict(KEY=acc_key(rec_w, "V_K", "acc[V_K]"), HYP=hyp, XSEL=xsel, BEFORE=before, ENTRY=entry)
    else:
        inv += r"""
__CPROVER_loop_invariant(%(JG)s)
__CPROVER_loop_invariant(__CPROVER_loop_entry(SW_OVF) ==> SW_OVF)
""" % dict(JG=IH_NONNEG % ("G", "G"))
    inv += "__CPROVER_decreases(RCNT(V_K) - r)\n"
    return inv


def make_acc_step(rec_w, mode, inner="unwind"):
    own, other, untouched = acc_step_clauses(rec_w, mode, "V_K", "__CPROVER_old(acc[G])", "acc[G]", "acc[V_K]")
    d = dict(FRESH=ACC_FRESH, CONS=acc_ghost_consistent(rec_w, mode), OWN=own, OTHER=other, UNTOUCHED=untouched,
             JG=IH_NONNEG % ("G", "G"), JV=IH_NONNEG % ("V_K", "V_K"))
    contract = r"""
%(FRESH)s
__CPROVER_requires(dfs_k < gsize)
/* order-contract instance at the position of this turn */
__CPROVER_requires(V_K < gsize && POS[V_K] == TURN_POS(dfs_k))
__CPROVER_requires(%(CONS)s)
""" % d
    if mode == "nonneg":
        contract += r"""
/* induction hypothesis of the loop invariant "no accumulated value is negative", at the ghost node and (DESIGN 3.9) at the node of this turn */
__CPROVER_requires(%(JG)s)
__CPROVER_requires(%(JV)s)
""" % d
    contract += r"""
__CPROVER_assigns(__CPROVER_object_whole(acc), SW_OVF)
/* C03 sweep_finality: a node whose turn is over (its position is above the one processed now) is not written */
__CPROVER_ensures(TURN_POS(dfs_k) < POS[G] ==> SAME_D(acc[G], __CPROVER_old(acc[G])))
""" % d
    if mode == "eq":
        contract += r"""
__CPROVER_ensures(TURN_POS(dfs_k) < POS[G2] ==> SAME_D(acc[G2], __CPROVER_old(acc[G2])))
/* C03 step_equation, own turn: the local contribution area * src is added, once; self-receiver slots add nothing */
__CPROVER_ensures(%(OWN)s)
/* C03 step_equation, turn of another node v: for each receiver slot r of v that points to G, in slot order, acc(v) * weight(v, r) is
 * added (same slot for receiver and weight; acc(v) is v's value after its own contribution, which is its final value) */
__CPROVER_ensures(%(OTHER)s)
/* ... and nothing else: a node that is not among the receivers of v keeps its value */
__CPROVER_ensures(%(UNTOUCHED)s)
""" % d
    else:
        contract += r"""
/* C03 nonneg_lower_bound: no accumulated value is negative; after its own turn a node holds at least its local contribution */
__CPROVER_ensures(%(JG)s)
__CPROVER_ensures((V_K == G && area[G] == G_AREA && src[G] == G_SRC) ==> (!(acc[G] < GLOC) && (!SW_OVF ==> acc[G] >= GLOC)))
__CPROVER_ensures(__CPROVER_old(SW_OVF) ==> SW_OVF)
""" % d
    return Unit(
        name="accumulate_step", file=IMPL_H, anchor=ACC_ANCHOR, inner=ACC_LOOP_HEAD + r"\s*\{",
        sig="void accumulate_step(size_t dfs_k, %s)" % ACC_PARAMS,
        pre=ACC_PRED + acc_op_contracts(rec_w, mode) + acc_accessors(mode), defs=acc_defs(mode),
        rules=[
            # reverse iterator over the order: turn dfs_k reads position size-1-dfs_k
            R(r"const auto (\w+) = \*\w+;", r"const size_t \1 = SW_DFS(TURN_POS(dfs_k));", 1),
        ] + ACC_OP_RULES + ACC_VOCAB,
        contract=contract,
        loops=({0: acc_inner_loop_contract(rec_w, mode)} if inner == "contract" else None),
    )


def acc_inner(rec_w):
    """receiver-slot loop: completely unwound up to width 4, closed by its own loop contract for wider tables (the unwound width-8 step did
    not finish in 30 min)"""
    return "unwind" if rec_w <= 4 else "contract"


def acc_ghost_init(rec_w):
    return ("".join("    GW[%d] = nondet_double(); GP[%d] = nondet_double();\n" % (k, k) for k in range(rec_w)) +
            "".join("    AX[%d] = nondet_double(); AY[%d] = nondet_double(); AR[%d] = nondet_double();\n" % (k, k, k) for k in range(rec_w + 1)) +
            "    G = nondet_size_t(); G2 = nondet_size_t(); G_AREA = nondet_double(); G_SRC = nondet_double(); GLOC = nondet_double();\n"
            "    GA = nondet_double(); SW_OVF = nondet_bool();\n")


def acc_step_harness(rec_w):
    return NONDET + r"""
void h_accumulate_step(void)
{
    size_t gsize = nondet_size_t();
    const size_t *m_dfs_indices, *m_receivers, *m_receivers_count, *POS; const double *m_receivers_weight, *area, *src; double *acc;
%s
    accumulate_step(nondet_size_t(), %s);
%s}
""" % (acc_ghost_init(rec_w), ACC_ARGS, CANARY)


def acc_object_bits(rec_w):
    """cbmc --object-bits: 8 (cbmc's own default) is enough up to width 2; wider tables address more objects.  Stated explicitly because
    the pointer encoding width changes solver time by an order of magnitude (loop.eq.w2: 51 s with 8, > 600 s with 12)."""
    return 8 if rec_w <= 2 else (9 if rec_w <= 4 else 10)


def acc_defines(rec_w):
    return ["REC_W=%d" % rec_w, "REC_BYTES=%d" % (8 * rec_w)]


def acc_step_groups(rec_w, tier="quick"):
    gs = []
    for mode in ("eq", "nonneg"):
        gs.append(Group(
            name="sweeps.accumulate.step.%s.w%d" % (mode, rec_w), units=[make_acc_step(rec_w, mode, acc_inner(rec_w))],
            harness=acc_step_harness(rec_w), entry="h_accumulate_step", enforce="accumulate_step",
            replace=["sw_mul_local", "sw_mul_w"] + (["sw_add"] if mode == "eq" else []),
            unwindset=({("accumulate_step", 0): rec_w + 1} if acc_inner(rec_w) == "unwind" else None),
            loop_contracts=(acc_inner(rec_w) == "contract"), defines=acc_defines(rec_w),
            backend="sat", timeout=(600 if tier == "quick" else 1800), min_obligations=(500 if mode == "eq" else 300), tier=tier,
            object_bits=acc_object_bits(rec_w),
            clause={"eq": "one turn of the accumulation sweep (node v), + and * abstracted as deterministic functions of their operands: "
                          "finality (a node whose turn is over is not written), own contribution area*src added once, each receiver slot r of v "
                          "pointing to a node != v adds acc(v)*weight(v,r) to it in slot order, no other node changes",
                    "nonneg": "one turn, inputs finite and >= 0, IEEE additions: no accumulated value becomes negative (nor NaN unless an infinite "
                              "value was multiplied), the node of the turn ends at or above its local contribution"}[mode] +
                   "; receiver table width %d" % rec_w))
    return gs



ACC_OUTER_PRE = r"""
/* ghost history of acc[G]: its value when the sweep starts, and just before / just after one arbitrary observed turn GT
 * (the turn of node G2) */
size_t GT;
double SN_INIT, SN_PRE, SN_POST;
/* xtensor `a.fill(v)`: element-wise (assumed xtensor semantics); observed at the ghost cells */
void sw_fill_d(double *a, size_t n, double v)
__CPROVER_requires(n <= %s)
__CPROVER_assigns(__CPROVER_object_whole(a))
__CPROVER_ensures(G < n ==> a[G] == v)
__CPROVER_ensures(G2 < n ==> a[G2] == v)
;
""" % NMAX_NODES


def make_acc_outer(rec_w, mode):
    own, other, untouched = acc_step_clauses(rec_w, mode, "G2", "SN_PRE", "SN_POST", "acc[G2]")
    turn_inst = "FSL_PRE(V_AT(dfs_k) < gsize && POS[V_AT(dfs_k)] == TURN_POS(dfs_k)); /* order-contract instance at the position of the turn */ "
    if mode == "nonneg":
        # DESIGN 3.9: instance of the induction hypothesis at the node of the turn, before any write of the iteration
        turn_inst += "FSL_PRE(%s); /* IH of `no accumulated value is negative` */ " % (IH_NONNEG % ("V_AT(dfs_k)", "V_AT(dfs_k)"))
    body = ("{ FSL_GHOST(if (dfs_k == GT) SN_PRE = acc[G];) " + turn_inst +
            "accumulate_step(dfs_k, %s); FSL_GHOST(if (dfs_k == GT) SN_POST = acc[G];) }" % ACC_ARGS)
    d = dict(FRESH=ACC_FRESH, CONS=acc_ghost_consistent(rec_w, mode), OWN=own, OTHER=other, UNTOUCHED=untouched,
             JG=IH_NONNEG % ("G", "G"),
             LOWER="((area[G] == G_AREA && src[G] == G_SRC) ==> (!(acc[G] < GLOC) && (!SW_OVF ==> acc[G] >= GLOC)))")
    contract = r"""
%(FRESH)s
__CPROVER_requires(%(CONS)s)
/* the observed turn GT is the turn of node G2 */
__CPROVER_requires(GT < gsize && POS[G2] == TURN_POS(GT))
__CPROVER_assigns(__CPROVER_object_whole(acc), SW_OVF, SN_INIT, SN_PRE, SN_POST)
""" % d
    inv = r"""
__CPROVER_assigns(dfs_k, __CPROVER_object_whole(acc), SW_OVF, SN_PRE, SN_POST)
__CPROVER_loop_invariant(dfs_k <= gsize)
"""
    if mode == "eq":
        contract += r"""
/* C03 init_zero: the sweep starts from 0 (whatever the array held before) */
__CPROVER_ensures(SN_INIT == 0)
/* C03 step_equation for the arbitrary turn GT (node G2), with the FINAL value of acc[G2] as the multiplied value */
__CPROVER_ensures(%(OWN)s)
__CPROVER_ensures(%(OTHER)s)
__CPROVER_ensures(%(UNTOUCHED)s)
/* C03 sweep_finality: the returned value is the value after the node's own turn; later turns do not change it */
__CPROVER_ensures(G2 == G ==> SAME_D(acc[G], SN_POST))
__CPROVER_ensures(TURN_POS(GT) < POS[G] ==> SAME_D(SN_POST, SN_PRE))
""" % d
        inv += r"""
__CPROVER_loop_invariant(dfs_k == 0 ==> acc[G] == 0)
__CPROVER_loop_invariant(dfs_k > GT ==> %(OWN)s)
__CPROVER_loop_invariant(dfs_k > GT ==> %(OTHER)s)
__CPROVER_loop_invariant(dfs_k > GT ==> %(UNTOUCHED)s)
__CPROVER_loop_invariant((dfs_k > GT && G2 == G) ==> SAME_D(acc[G], SN_POST))
__CPROVER_loop_invariant((dfs_k > GT && TURN_POS(GT) < POS[G]) ==> SAME_D(SN_POST, SN_PRE))
""" % d
    else:
        contract += r"""
__CPROVER_requires(!SW_OVF)
/* C03 nonneg_lower_bound (sources, areas, weights finite and >= 0: instances on read) */
__CPROVER_ensures(%(JG)s)
__CPROVER_ensures(%(LOWER)s)
""" % d
        inv += r"""
__CPROVER_loop_invariant(%(JG)s)
__CPROVER_loop_invariant(dfs_k + POS[G] >= gsize ==> %(LOWER)s)
""" % d
    inv += "__CPROVER_decreases(gsize - dfs_k)\n"
    return Unit(
        name="accumulate", file=IMPL_H, anchor=ACC_ANCHOR,
        sig="void accumulate(%s)" % ACC_PARAMS,
        pre=ACC_OUTER_PRE,
        rules=[
            R(r"auto src_arr = xt::broadcast\(std::forward<T>\(src\), m_grid\.shape\(\)\);", "/* glue: src is modelled as the array src[n] */", 1),
            R(r"acc\.fill\(0\);", "sw_fill_d(acc, gsize, 0);", None),
            R(r"auto nodes_indices = nodes_indices_bottomup\(\);", "", 1),
            R(ACC_LOOP_HEAD, "FSL_GHOST(SN_INIT = acc[G];) for (size_t dfs_k = 0; dfs_k < gsize; ++dfs_k)", 1),
            RB(r"for \(size_t dfs_k = 0; dfs_k < gsize; \+\+dfs_k\)", body),
        ] + ACC_VOCAB,
        contract=contract, loops={0: inv},
    )


def acc_outer_harness(rec_w):
    return NONDET + r"""
void h_accumulate(void)
{
    size_t gsize = nondet_size_t();
    const size_t *m_dfs_indices, *m_receivers, *m_receivers_count, *POS; const double *m_receivers_weight, *area, *src; double *acc;
%s    GT = nondet_size_t(); SN_INIT = nondet_double(); SN_PRE = nondet_double(); SN_POST = nondet_double();
    { double unused[1]; sw_fill_d(unused, 1, 0); } /* keeps the replaced model function referenced (goto-instrument aborts otherwise) */
    accumulate(%s);
%s}
""" % (acc_ghost_init(rec_w), ACC_ARGS, CANARY)


def acc_outer_groups(rec_w, tier="quick"):
    gs = []
    for mode in ("eq", "nonneg"):
        gs.append(Group(
            name="sweeps.accumulate.loop.%s.w%d" % (mode, rec_w), units=[make_acc_step(rec_w, mode, acc_inner(rec_w)), make_acc_outer(rec_w, mode)],
            harness=acc_outer_harness(rec_w), entry="h_accumulate", enforce="accumulate",
            replace=["accumulate_step", "sw_fill_d"], loop_contracts=True, defines=acc_defines(rec_w),
            backend="sat", timeout=(900 if tier == "quick" else 1800), min_obligations=600, tier=tier, object_bits=acc_object_bits(rec_w),
            clause={"eq": "whole accumulation sweep (any number of nodes, any order satisfying the order contract, arbitrary previous contents of acc): "
                          "acc starts from 0; for an arbitrary node G and an arbitrary turn (node v): v == G adds area*src once, v != G adds "
                          "acc_final(v)*weight(v,r) for each slot r pointing to G in slot order and nothing otherwise; the returned acc[G] is the "
                          "value after G's own turn, no later turn changes it",
                    "nonneg": "whole sweep, sources/areas/weights finite and >= 0: no returned value is negative and acc[G] is not below "
                              "area(G)*src(G) (>= unless an infinite intermediate value was multiplied)"}[mode] +
                   "; receiver table width %d" % rec_w))
    return gs



def fp_facts_groups():
    """bit-precise one-operation lemmas behind the sign clauses of the abstracted products (DESIGN 3.4): the IEEE multiplication itself is
    put under exactly those clauses (no code of /repo involved: `*` on doubles is the operation the body applies)"""
    h = NONDET + r"""
double sw_ieee_mul(double a, double w)
__CPROVER_assigns()
/* clause of sw_mul_local and sw_mul_w: finite non-negative operands give a non-negative (in particular non-NaN) product */
__CPROVER_ensures((a >= 0 && a < INFINITY && w >= 0 && w < INFINITY) ==> __CPROVER_return_value >= 0)
/* clause of sw_mul_w: a not-negative (possibly NaN or +inf) value times a non-negative weight is never negative */
__CPROVER_ensures((!(a < 0) && w >= 0) ==> !(__CPROVER_return_value < 0))
/* a NaN product of non-NaN, non-negative operands needs an infinite operand (what the ghost flag SW_OVF records) */
__CPROVER_ensures((a >= 0 && w >= 0 && !isinf(a) && !isinf(w)) ==> !isnan(__CPROVER_return_value))
{
    return a * w;
}
void h_fp_facts(void)
{
    double r = sw_ieee_mul(nondet_double(), nondet_double());
%s}
""" % CANARY
    return [Group(
        name="sweeps.accumulate.fp_facts", units=[], harness=h, entry="h_fp_facts", enforce="sw_ieee_mul",
        backend="sat", timeout=300, min_obligations=8, object_bits=8,
        clause="IEEE-754 binary64 multiplication satisfies the sign clauses assumed of the abstracted products (one product per obligation, bit-precise)")]


GROUPS = {"C01": tilt_groups()}
GROUPS["C02"] = GROUPS["C01"]
GROUPS["C03"] = (fp_facts_groups() + acc_step_groups(1) + acc_outer_groups(1) + acc_step_groups(2) + acc_outer_groups(2) +
                 acc_step_groups(4, "thorough") + acc_outer_groups(4, "thorough") + acc_step_groups(8, "thorough") + acc_outer_groups(8, "thorough"))
GROUPS["C19"] = basins_groups() + pits_groups()
GROUPS["C06"] = donors_groups(2) + donors_groups(4, "thorough") + donors_groups(8, "thorough")
ORDER_CONTRACT = (
    "order contract of the bottom-up order m_dfs_indices (the postconditions C06 asks of compute_dfs_indices_bottomup/topdown; established only "
    "boundedly there), supplied as harness-owned ghost arrays and instantiated in `requires` at the ghost nodes and by the read accessor at the "
    "position being read (DESIGN 3.2/3.5): (O1) permutation with inverse POS: dfs[p] < n, POS[dfs[p]] == p, dfs[POS[v]] == v; (O2) every receiver "
    "r != v of v has POS[r] < POS[v]")

PROPS = {
    "C19": dict(
        level="proof",
        assumptions=[
            ORDER_CONTRACT + "; (O3) SEG[p] <= p is the position of the LAST own-receiver node at or before p (dfs[SEG[p]] is a root, no root at a "
            "position in (SEG[p], p]) -- used as the instances SEG[POS[r]] <= POS[r] and (SEG[PG] < p <= PG => dfs[p] is not a root); (O4) a node that "
            "is not its own receiver lies in the root segment of its receiver: SEG[POS[rec v]] == SEG[POS[v]] (each root is immediately followed by "
            "its whole subtree). Producer: compute_dfs_indices_bottomup (C06, bounded there).",
            "CNT[p] = number of unmasked own-receiver nodes at positions < p and PCNT[k] = number of non-base-level entries among outlets[0..k) are "
            "ghost DEFINITIONS (CNT[0] = 0, CNT[p+1] = CNT[p] + [..]), instantiated at the position read; they constrain no input",
            "receiver table well-formedness instantiated on read / at the ghost node: receivers are nodes (< n); an unmasked node never has a masked "
            "receiver (router contracts C04/C05 `receiver unmasked`; the property statement presupposes it: it demands equal labels along receivers "
            "and SIZE_MAX on masked nodes)",
            "std::vector m_outlets / m_pits modelled as (buffer of n entries, length); push_back carries the model-adequacy obligation length < n "
            "(proved); clear() sets the length to 0; the range-for over m_outlets is the index loop 0..size-1",
            "range-for over nodes_indices_bottomup() is the index loop over m_dfs_indices[0..n-1] (stl_container_iterator_wrapper is glue)",
            "pits(): outlet entries are nodes (compute_basins postcondition sweeps.basins.labels, instantiated on read); `every pit is a member of "
            "the outlet list` is stated without an existential as: every node property QQ shared by all outlet entries holds of every pit",
            "unordered_set m_base_levels modelled by its characteristic function (spec/graphmodel.py)",
            "the public wrapper's reshape (flow_graph::basins(), xt::flatten assignment) is glue",
        ],
        unmechanised=[
            "every unmasked node carries the label of the outlet its receiver chain ends in, hence labels of unmasked nodes lie in [0, #outlets): "
            "induction along the receiver chain (finite by O2) from `same label as the receiver` and the outlet clause",
            "pits <-> non-base-level outlets is a bijection: from `the j-th non-base-level outlet is pit j`, `pits.size() = their number` (pigeonhole)",
        ],
        explanation="compute_basins is decided by two unbounded loop-contract groups (label propagation with the SEG witness; outlet numbering with "
                    "the CNT counter, including the authors' assert), pits() by one.",
    ),
    "C03": dict(
        level="other",
        assumptions=[
            ORDER_CONTRACT + " (for every receiver slot r < receivers_count(v)). Producers: compute_dfs_indices_topdown / _bottomup (C06, bounded there).",
            "receiver tables well-formed, instantiated on read: receivers are nodes, receivers_count(v) <= table width (router contracts C04/C05)",
            "glue modelled, not verified: xt::broadcast(src, shape)/src_arr(inode) is an array src[n] (scalar source = constant array), "
            "m_grid.nodes_areas(inode) is an array area[n]; acc.fill(0) is element-wise (observed at the ghost cells); the reverse iterator over "
            "nodes_indices_bottomup() is the index loop over positions n-1 .. 0",
            "operation abstraction (DESIGN 3.4) in the step-equation groups (*.eq.*): `*` (both products) AND `+` (both `+=`) are deterministic "
            "functions keyed on their operands through ghost points (same encoding as slope_abstraction); the equations therefore speak about the "
            "very operations the code applies (fl(acc(v)*w(v,r)), fl(x+y)) without fixing their values. Reason: the equation needs the code's and "
            "the specification's copy of each operation in one obligation; one duplicated IEEE adder alone did not finish in 120 s on minisat, "
            "cadical, z3, cvc5. Keys use ==, so a NaN operand matches no key (no claim is made for turns whose operands are NaN)",
            "non-negativity groups (*.nonneg.*): additions are the IEEE additions; products are abstracted with the sign clauses that "
            "sweeps.accumulate.fp_facts proves bit-precisely for the IEEE multiplication; input range (sources, areas, weights finite and >= 0) "
            "instantiated on read; ghost flag SW_OVF records that an infinite accumulated value was multiplied by a weight",
            "induction-hypothesis instance (DESIGN 3.9) of the invariant `no accumulated value is negative` at the node of the turn, taken at the "
            "start of the iteration before any write (FSL_PRE in front of the outlined body); base and step are proved for the arbitrary ghost node",
            "loop body outlined as accumulate_step(turn); the sweep is closed by a loop contract using only the step's contract; ghost history "
            "variables SN_INIT/SN_PRE/SN_POST (value of acc[G] at sweep start, before/after one arbitrary turn) are assigned in ghost statements only",
            "receiver-slot loop `for r < receivers_count`: completely unwound (table widths 1, 2, 4); for width 8 it is closed by its own loop "
            "contract (the r-th value of the step equation's chain) because the unwound width-8 step did not finish in 30 min",
            "cbmc --object-bits is fixed per group (8, 9 for width 4, 10 for width 8): the runner's default of 12 made one of these groups go from "
            "51 s to > 600 s",
        ],
        unmechanised=[
            "the recurrence acc(G) = area(G)*src(G) + sum over donors d of acc(d)*w(d,G) and the conservation corollary: induction over the order "
            "from init_zero + the per-turn equation (every turn, every node) + finality, in exact arithmetic; in floating point `equals` holds up "
            "to the rounding of this fixed summation order",
        ],
        undecided=[
            "equality `within rounding` with the real-valued upstream integral, conservation of the source sum: no bit-precise statement",
            "equivalence of the four public overloads (xt::broadcast, forwarding, from_shape): xtensor glue",
            "bounded stand-in against the recurrence on small graphs (DESIGN C03 B): not built in this module",
        ],
        explanation="Unbounded (any number of nodes; table widths 1, 2 in the quick tier, 4, 8 in the thorough tier): init_zero, step_equation "
                    "(per turn), sweep_finality, nonneg_lower_bound. The recurrence itself is the unmechanised composition of these.",
    ),
    "C01": dict(
        level="other",
        assumptions=[
            "tilt loop: " + ORDER_CONTRACT + " (single receiver column). Producer: compute_dfs_indices_bottomup (C06, bounded there).",
            "std::nextafter(x, +inf): the assumed contract of models/fsl.h (strictly larger unless +inf/NaN) strengthened by determinism (same "
            "argument, same result: one ghost point NA_X -> NA_Y) -- contract sw_nextafter_up in spec/sweeps.py, used via replace",
            "tilt loop input range: no NaN elevation; instantiated at the ghost node in `requires` and, as induction-hypothesis instance (DESIGN "
            "3.9) of the invariant `no elevation is NaN`, at the first read of elevation[receiver] in an iteration (the iteration's only write "
            "goes to a different cell)",
            "tilt loop: receivers are nodes (instantiated on read); the aliases dfs_indices/receivers are accessor macros; `irec_elev` stays a "
            "reference (pointer) to the elevation cell",
        ],
        unmechanised=["strict descent along receivers => no cycle, every chain ends at a base level (DESIGN C01 composition lemma)"],
        explanation="sweeps.tilt decides C01.msttilt.above_receiver: after the tilt every node is its own receiver, or strictly above its receiver, "
                    "or its receiver sits at +inf (reachable only from DBL_MAX by nextafter).",
    ),
    "C02": dict(
        level="other",
        assumptions=["see C01 (tilt loop): order contract, nextafter contract + determinism, NaN-free input"],
        undecided=["minimality of the filled level (spill level) -- not a property of the tilt loop"],
        explanation="sweeps.tilt decides for the spanning-tree resolver's tilt loop: never_below_input, terminals_bit_identical (own-receiver nodes "
                    "are never written), one_increment_per_step (a changed value is nextafter of the receiver's final elevation) and `only nodes "
                    "not above their receiver are raised`.",
    ),
    "C06": dict(
        level="other",
        assumptions=[
            "compute_donors: receivers are nodes (instantiated on read); donor row capacity #donors(r) <= row width (n_neighbors_max + 1; a "
            "counting argument over the neighbour relation, not mechanised) is a stated precondition instance wherever a donor count is used as "
            "a slot index (same justification as spec/router.py); m_donors_count.fill(0) is element-wise (observed at the ghost row)",
        ],
        explanation="sweeps.donors.* decide for compute_donors (single receiver column, as the code's TODO says): rows sound, duplicate-free "
                    "(strictly increasing) and complete for an arbitrary ghost row, with arbitrary previous table contents. The traversal orders "
                    "are not covered by this module.",
    ),
}


# native replay: the routing driver's oracles cover C01/C02 (tilt), C03, C06, C19
for _lst in GROUPS.values():
    for _g in _lst:
        if not getattr(_g, "replay", None):
            _g.replay = "replay/routing.cpp"
