"""C08 -- memory safety is claimed per function under contract: this module collects, from the other modules, one obligation
group per extracted function that runs with ALL of cbmc's checks enabled (bounds, pointer, overflow, conversion, div-by-zero,
undefined shift) plus the per-dimension xtensor index obligations, under that function's precondition.  It must be loaded last."""
import re
import spec as _reg

WANT = [
    r"^iter\.",
    r"^router\.seq\.step\.nb2$", r"^router\.par\.step\.nb2$", r"^router\.par\.donors_step\.nb2$",
    r"^mrouter\.step\.structure\.nb2$",
    r"^pflood\.step\.queue\.nb2$", r"^pflood\.init\.nb2$",
    r"^sweeps\.tilt$", r"^sweeps\.donors\.w3$", r"^sweeps\.basins\.propagation$", r"^sweeps\.pits$", r"^sweeps\.accumulate\.step\.eq\.w1$",
    r"^status\.(raster|profile|trimesh)\.set_nodes_status$", r"^status\.check_size$",
    r"^raster\.codes$", r"^raster\.profile\.indices$", r"^raster\.(ravel|unravel)$", r"^raster\.offsets_of_moves\.queen$",
    r"^cache\.(has|get|get_storage|lookup\.cached|lookup\.nocache)$", r"^accessors\.",
    r"^snapshot\.save\.", r"^spl\.", r"^basin\.uf\.", r"^basin\.kruskal", r"^pool\.blocks_ctor\.size$", r"^pool\.blocks_start$",
    # basin graph: every table access of one neighbour visit / one node / the root pass of connect_basins (e.g. outlets()[basin of a masked node])
    r"^basin\.connect\.(visit\.lowest|root\.node|root\.loop|switch|loop\.pos)$", r"^basin\.sinks\.basic\.(step|loop)$",
    # widths of the receiver / donor tables are fixed at construction from the operator sequence: these functional clauses ARE the
    # memory-safety precondition of the routers (C05.width), see FUNCTIONAL below
    r"^opseq\.(ctor|impl_width|update_routes)$",
    r"^trimesh\.set_neighbors\.step$", r"^raster\.indices\.nb8$", r"^raster\.profile\.", r"^router\.seq\.loop\.nb2$", r"^router\.par\.whole\.nb2$",
    r"^mrouter\.loop\.nb2$", r"^sweeps\.basins\.labels$", r"^sweeps\.accumulate\.loop\.eq\.w1$",
]
# groups whose FUNCTIONAL obligations count under C08 as well (they state a size / width that later accesses rely on)
# ... and basin.connect.loop.pos: its invariant `a defined entry of m_edge_positions is the index of an existing edge` is what keeps m_edges[position] in range
# (a stale position from an earlier call indexes beyond the vector's size: seeded change C08_3)
FUNCTIONAL = r"^(opseq\.(ctor|impl_width)|basin\.connect\.loop\.pos)$"


def _collect():
    seen, out = set(), []
    for prop, groups in list(_reg._GROUPS.items()):
        if prop == "C08":
            continue
        for g in groups:
            if g.name in seen or g.no_checks or g.tier != "quick" or not g.deciding:
                continue
            if any(re.search(w, g.name) for w in WANT):
                seen.add(g.name)
                out.append(g)
    return out


GROUPS = {"C08": _collect()}
PROPS = {
    "C08": dict(
        level="other", safety_only=True, safety_functional=[FUNCTIONAL],
        explanation="Per-function claim: every listed group enforces one extracted function's contract with all of cbmc's memory-safety and "
                    "arithmetic checks on, for all inputs satisfying the function's precondition (unbounded sizes unless the group says bounded). "
                    "It is NOT a proof about every public operation: the glue between the public API and these functions, xtensor itself, the "
                    "eroders' expression code (diffusion_adi), trimesh::set_neighbors/set_nodes_areas and the thread pool are not covered.",
        undecided=["use-after-free / lifetime of the shared_ptr-owned implementation objects and snapshot graphs (glue)",
                   "diffusion_adi index ranges, trimesh construction, apply_kernel (user callbacks)"],
        assumptions=["donor-row capacity (#donors <= n_neighbors_max + 1) is a stated precondition instance at the donor-table writes",
                     "container models have a symbolic capacity where the real container grows dynamically"],
    ),
}
